package utils

import (
	"testing"

	"github.com/stretchr/testify/assert"
)

// F2: the text of a Get path is pasted into a regular expression that is compiled with
// MustCompile: an element name such as "a(b" makes the handler panic (there is no recovery
// interceptor: the process dies).
func TestF2RequestTextReachesMustCompile(t *testing.T) {
	assert.NotPanics(t, func() { MatchWildcardRegexp("/a(b/c", false) })
	assert.NotPanics(t, func() { MatchWildcardRegexp("/a/b[name=x)y]", false) })
	assert.NotPanics(t, func() { MatchWildcardRegexp(`/a\`, true) })
}

// F3: the non-exact expression is an unanchored-at-the-end textual prefix: a Get for /a/b also
// returns /a/bc and /a/b-2, which merely share a textual prefix with the requested node.
func TestF3GetFilterMatchesTextualSiblings(t *testing.T) {
	re := MatchWildcardRegexp("/a/b", false)
	assert.True(t, re.MatchString("/a/b"))
	assert.True(t, re.MatchString("/a/b/c"))
	assert.True(t, re.MatchString("/a/b[name=x]/c"))
	assert.False(t, re.MatchString("/a/bc"), "/a/bc is not /a/b nor beneath it")
	assert.False(t, re.MatchString("/a/b-2/c"), "/a/b-2 is not /a/b nor beneath it")
	// the root query still returns everything
	assert.True(t, MatchWildcardRegexp("/", false).MatchString("/a/b"))
	// wildcards keep working
	assert.True(t, MatchWildcardRegexp("/a/*/c", false).MatchString("/a/b/c/d"))
	assert.True(t, MatchWildcardRegexp("/a/.../d", false).MatchString("/a/b/c/d"))
}
