package transaction

import (
	"context"
	"testing"

	"github.com/atomix/go-sdk/pkg/test"
	configapi "github.com/onosproject/onos-api/go/onos/config/v2"
	proposalstore "github.com/onosproject/onos-config/pkg/store/v2/proposal"
	transactionstore "github.com/onosproject/onos-config/pkg/store/v2/transaction"
	"github.com/onosproject/onos-lib-go/pkg/controller"
	"github.com/stretchr/testify/assert"
)

// F24: transaction 2 (INITIALIZED) shares a target with the SERIALIZABLE transaction 1, which is
// not yet VALIDATED. Transaction 2 waits: its pass returns neither a re-queue nor an error and
// writes nothing. The controller's watchers map transaction 1's later events to index 1 only and
// proposal events to their own transaction, so nothing re-examines transaction 2 when
// transaction 1 advances.
func TestF24SerializableWaitHasNoWakeUp(t *testing.T) {
	cluster := test.NewClient()
	defer cluster.Close()
	txs, err := transactionstore.NewAtomixStore(cluster)
	assert.NoError(t, err)
	props, err := proposalstore.NewAtomixStore(cluster)
	assert.NoError(t, err)
	r := &Reconciler{transactions: txs, proposals: props}
	ctx := context.Background()
	target := configapi.TargetID("target-1")

	tx1 := &configapi.Transaction{ID: "tx-1", TransactionStrategy: configapi.TransactionStrategy{Isolation: configapi.TransactionStrategy_SERIALIZABLE},
		Details: &configapi.Transaction_Change{Change: &configapi.ChangeTransaction{Values: map[configapi.TargetID]*configapi.PathValues{}}}}
	assert.NoError(t, txs.Create(ctx, tx1))
	tx2 := &configapi.Transaction{ID: "tx-2", Details: &configapi.Transaction_Change{Change: &configapi.ChangeTransaction{Values: map[configapi.TargetID]*configapi.PathValues{}}}}
	assert.NoError(t, txs.Create(ctx, tx2))

	p2 := &configapi.Proposal{ID: proposalstore.NewID(target, tx2.Index), TargetID: target, TransactionIndex: tx2.Index,
		Details: &configapi.Proposal_Change{Change: &configapi.ChangeProposal{}}}
	assert.NoError(t, props.Create(ctx, p2))
	p2.Status.PrevIndex = tx1.Index
	p2.Status.Phases.Initialize = &configapi.ProposalInitializePhase{State: configapi.ProposalInitializePhase_INITIALIZED}
	assert.NoError(t, props.UpdateStatus(ctx, p2))

	tx2.Status.Proposals = []configapi.ProposalID{p2.ID}
	tx2.Status.Phases.Initialize = &configapi.TransactionInitializePhase{State: configapi.TransactionInitializePhase_INITIALIZED}
	assert.NoError(t, txs.UpdateStatus(ctx, tx2))

	res, err := r.Reconcile(controller.NewID(tx2.Index))
	assert.NoError(t, err)
	tx2, err = txs.Get(ctx, tx2.ID)
	assert.NoError(t, err)
	assert.Nil(t, tx2.Status.Phases.Validate, "tx2 is waiting for the serializable tx1")
	assert.NotEqual(t, controller.Result{}, res,
		"the wait returns no re-queue (and no error): when tx1 is validated nothing re-examines tx2")
}
