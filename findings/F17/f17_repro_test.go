package admin

import (
	"context"
	"testing"

	adminapi "github.com/onosproject/onos-api/go/onos/config/admin"
	configapi "github.com/onosproject/onos-api/go/onos/config/v2"
	"github.com/onosproject/onos-config/pkg/store/v2/configuration"
	"github.com/openconfig/gnmi/proto/gnmi"
	"github.com/stretchr/testify/assert"
)

// F17: LeafSelectionQuery merges the request's change context into config.Values, which is nil for a
// configuration that holds no values yet (the store loads an empty value map as nil): the handler
// panics with "assignment to entry in nil map".
func TestF17LeafSelectionWithChangeContextOnEmptyConfiguration(t *testing.T) {
	test := createServer(t)
	defer test.atomix.Close()
	defer test.mctl.Finish()
	setupTopoAndRegistry(t, test, "target-1", "devicesim", "1.0.0", false)
	targetID := configapi.TargetID("target-1")
	assert.NoError(t, test.server.configurationsStore.Create(context.TODO(), &configapi.Configuration{
		ID: configuration.NewID(targetID, "devicesim", "1.0.0"), TargetID: targetID}))
	var resp *adminapi.LeafSelectionQueryResponse
	var err error
	assert.NotPanics(t, func() {
		resp, err = test.server.LeafSelectionQuery(context.TODO(), &adminapi.LeafSelectionQueryRequest{
			Target: "target-1", Type: "devicesim", Version: "1.0.0", SelectionPath: "/foo",
			ChangeContext: &gnmi.SetRequest{Update: []*gnmi.Update{{
				Path: &gnmi.Path{Target: "target-1", Elem: []*gnmi.PathElem{{Name: "foo"}}},
				Val:  &gnmi.TypedValue{Value: &gnmi.TypedValue_StringVal{StringVal: "bar"}}}}},
		})
	})
	assert.NoError(t, err)
	assert.NotNil(t, resp)
}
