// F61: Get resolves the target of a request differently from Set (package gnmi, pkg/northbound/gnmi/v2)

package gnmi

import (
	"context"
	"testing"

	"github.com/openconfig/gnmi/proto/gnmi"
	"github.com/stretchr/testify/assert"
)

// docs/gnmi_extensions.md: "The target in the prefix always takes precedence over any others". Set follows that
// rule, Get lets the target of the path win: the same addressing writes one target and reads another.
func Test_C03_GetAndSetResolveTheSameTarget(t *testing.T) {
	test := c03Setup(t)
	defer test.atomix.Close()
	defer test.mctl.Finish()
	defer test.stopControllers()

	// give both targets a configuration
	setOn := func(prefixTarget string, pathTarget string, value string) {
		req := &gnmi.SetRequest{
			Prefix: &gnmi.Path{Target: prefixTarget},
			Update: []*gnmi.Update{{
				Path: &gnmi.Path{Target: pathTarget, Elem: []*gnmi.PathElem{{Name: "foo"}}},
				Val:  &gnmi.TypedValue{Value: &gnmi.TypedValue_StringVal{StringVal: value}},
			}},
		}
		_, err := test.server.Set(context.TODO(), req)
		assert.NoError(t, err)
	}
	setOn("target-2", "", "two")
	setOn("target-1", "target-2", "one") // prefix wins: written to target-1

	get := func(prefixTarget string, pathTarget string) string {
		req := &gnmi.GetRequest{
			Prefix:   &gnmi.Path{Target: prefixTarget},
			Path:     []*gnmi.Path{{Target: pathTarget, Elem: []*gnmi.PathElem{{Name: "foo"}}}},
			Encoding: gnmi.Encoding_PROTO,
		}
		resp, err := test.server.Get(context.TODO(), req)
		assert.NoError(t, err)
		for _, n := range resp.Notification {
			for _, u := range n.Update {
				if u.Val != nil {
					return u.Val.GetStringVal()
				}
			}
		}
		return ""
	}
	assert.Equal(t, "one", get("target-1", ""))
	assert.Equal(t, "two", get("target-2", ""))
	assert.Equal(t, "one", get("target-1", "target-2"), "Get with the addressing of the Set reads another target")
}

