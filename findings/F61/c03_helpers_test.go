// Review C03: helpers shared by the c03_*_test.go files (package gnmi, pkg/northbound/gnmi/v2)

package gnmi

import (
	"context"
	"encoding/json"
	"fmt"
	"sort"
	"strings"
	"testing"
	"time"

	"github.com/gogo/protobuf/proto"
	"github.com/golang/mock/gomock"
	"github.com/google/uuid"
	adminapi "github.com/onosproject/onos-api/go/onos/config/admin"
	configapi "github.com/onosproject/onos-api/go/onos/config/v2"
	topoapi "github.com/onosproject/onos-api/go/onos/topo"
	pluginmock "github.com/onosproject/onos-config/internal/pluginregistry"
	"github.com/onosproject/onos-config/pkg/pluginregistry"
	transactionstore "github.com/onosproject/onos-config/pkg/store/v2/transaction"
	"github.com/onosproject/onos-config/pkg/utils"
	"github.com/onosproject/onos-config/pkg/utils/path"
	"github.com/openconfig/gnmi/proto/gnmi"
)

const (
	c03Target  = configapi.TargetID("target-1")
	c03Type    = "devicesim"
	c03Version = "1.0.0"
)

// c03Model is a small read-write model: leaves whose names are prefixes of each other, containers, a
// single-key list with a nested list, a list whose name is a prefix of another list, a two-key list
func c03Model() path.ReadWritePathMap {
	rw := path.ReadWritePathMap{}
	leaf := func(p string) {
		rw[p] = adminapi.ReadWritePath{Path: p, ValueType: configapi.ValueType_STRING}
	}
	key := func(p string, attr string) {
		rw[p] = adminapi.ReadWritePath{Path: p, ValueType: configapi.ValueType_STRING, IsAKey: true, AttrName: attr}
	}
	leaf("/foo")
	leaf("/foobar")
	leaf("/cont/leaf")
	leaf("/cont/leaf2")
	leaf("/cont/sub/x")
	leaf("/cont/sub/y")
	leaf("/cont2/leaf")
	key("/list[name=*]/name", "name")
	leaf("/list[name=*]/val")
	leaf("/list[name=*]/value")
	leaf("/list[name=*]/sub/x")
	key("/list[name=*]/inner[id=*]/id", "id")
	leaf("/list[name=*]/inner[id=*]/v")
	key("/list2[name=*]/name", "name")
	leaf("/list2[name=*]/val")
	key("/mk[a=*][b=*]/a", "a")
	key("/mk[a=*][b=*]/b", "b")
	leaf("/mk[a=*][b=*]/v")
	return rw
}

func c03Setup(t *testing.T) *testContext {
	test := createServer(t)
	plugin := pluginmock.NewMockModelPlugin(test.mctl)
	plugin.EXPECT().GetInfo().AnyTimes().
		Return(&pluginregistry.ModelPluginInfo{Info: adminapi.ModelInfo{Name: c03Type, Version: c03Version}, ReadWritePaths: c03Model()})
	plugin.EXPECT().Validate(gomock.Any(), gomock.Any()).AnyTimes().DoAndReturn(
		func(_ context.Context, json []byte) error {
			if strings.Contains(string(json), "INVALID") {
				return fmt.Errorf("the configuration holds an INVALID value")
			}
			return nil
		})
	// a flat JSON object {"leaf": "value", ...} decomposes to <prefix>/leaf = value
	plugin.EXPECT().GetPathValues(gomock.Any(), gomock.Any(), gomock.Any()).AnyTimes().DoAndReturn(
		func(_ context.Context, prefix string, doc []byte) ([]*configapi.PathValue, error) {
			flat := map[string]string{}
			if err := json.Unmarshal(doc, &flat); err != nil {
				return nil, err
			}
			var pvs []*configapi.PathValue
			for k, v := range flat {
				pvs = append(pvs, &configapi.PathValue{Path: strings.TrimSuffix(prefix, "/") + "/" + k, Value: *configapi.NewTypedValueString(v)})
			}
			return pvs, nil
		})
	test.registry.EXPECT().GetPlugin(configapi.TargetType(c03Type), configapi.TargetVersion(c03Version)).AnyTimes().
		Return(plugin, true)
	for _, id := range []topoapi.ID{topoapi.ID(c03Target), "target-2"} {
		test.topo.EXPECT().Get(gomock.Any(), gomock.Eq(id)).AnyTimes().
			Return(topoEntity(id, c03Type, c03Version), nil)
	}
	test.topo.EXPECT().Watch(gomock.Any(), gomock.Any(), gomock.Any()).AnyTimes().Return(nil)
	test.startControllers(t)
	return test
}

func c03Path(t *testing.T, p string) *gnmi.Path {
	gp, err := utils.ParseGNMIElements(utils.SplitPath(p))
	if err != nil {
		t.Fatalf("bad path %s: %v", p, err)
	}
	gp.Target = string(c03Target)
	return gp
}

type c03KV struct {
	path  string
	value string
}

// c03Set sends one Set (deletes, then updates in the given order) and waits until it is committed.
// It returns the transaction index.
func c03Set(t *testing.T, test *testContext, deletes []string, updates []c03KV) (configapi.Index, error) {
	req := &gnmi.SetRequest{}
	for _, d := range deletes {
		req.Delete = append(req.Delete, c03Path(t, d))
	}
	for _, u := range updates {
		req.Update = append(req.Update, &gnmi.Update{
			Path: c03Path(t, u.path),
			Val:  &gnmi.TypedValue{Value: &gnmi.TypedValue_StringVal{StringVal: u.value}},
		})
	}
	ctx, cancel := context.WithTimeout(context.Background(), 20*time.Second)
	defer cancel()
	resp, err := test.server.Set(ctx, req)
	if err != nil {
		return 0, err
	}
	info := &configapi.TransactionInfo{}
	if err := proto.Unmarshal(resp.Extension[0].GetRegisteredExt().GetMsg(), info); err != nil {
		return 0, err
	}
	return info.Index, nil
}

// c03Rollback rolls the transaction with the given index back and waits for the rollback to be committed
func c03Rollback(t *testing.T, test *testContext, index configapi.Index) error {
	ctx, cancel := context.WithTimeout(context.Background(), 20*time.Second)
	defer cancel()
	tx := &configapi.Transaction{
		ID: configapi.TransactionID("uuid:" + uuid.New().String()),
		Details: &configapi.Transaction_Rollback{
			Rollback: &configapi.RollbackTransaction{RollbackIndex: index},
		},
	}
	if err := test.transaction.Create(ctx, tx); err != nil {
		return err
	}
	ch := make(chan configapi.TransactionEvent)
	if err := test.transaction.Watch(ctx, ch, transactionstore.WithReplay(), transactionstore.WithTransactionID(tx.ID)); err != nil {
		return err
	}
	for e := range ch {
		switch e.Transaction.Status.State {
		case configapi.TransactionStatus_COMMITTED, configapi.TransactionStatus_APPLIED:
			return nil
		case configapi.TransactionStatus_FAILED:
			return fmt.Errorf("rollback of %d failed: %v", index, e.Transaction.Status.Failure)
		}
	}
	return ctx.Err()
}

// c03Get reads the given path (PROTO encoding) and returns the leaves as path -> value
func c03Get(t *testing.T, test *testContext, p string) map[string]string {
	req := &gnmi.GetRequest{
		Path:     []*gnmi.Path{c03Path(t, p)},
		Encoding: gnmi.Encoding_PROTO,
	}
	resp, err := test.server.Get(context.TODO(), req)
	if err != nil {
		t.Fatalf("Get %s: %v", p, err)
	}
	out := map[string]string{}
	for _, n := range resp.Notification {
		for _, u := range n.Update {
			if u.Val == nil {
				continue
			}
			out[utils.StrPath(u.Path)] = u.Val.GetStringVal()
		}
	}
	return out
}

func c03Fmt(m map[string]string) string {
	keys := make([]string, 0, len(m))
	for k := range m {
		keys = append(keys, k)
	}
	sort.Strings(keys)
	var b strings.Builder
	for _, k := range keys {
		fmt.Fprintf(&b, "  %s = %s\n", k, m[k])
	}
	return b.String()
}

// c03IsBeneath reports whether p is the node at anc or lies beneath it at a path element boundary
func c03IsBeneath(p string, anc string) bool {
	if p == anc {
		return true
	}
	if !strings.HasPrefix(p, anc) {
		return false
	}
	c := p[len(anc)]
	return c == '/' || c == '['
}

// c03Ref is the reference: the leaves of a target after gNMI Sets applied one after another
type c03Ref map[string]string

func (r c03Ref) clone() c03Ref {
	c := c03Ref{}
	for k, v := range r {
		c[k] = v
	}
	return c
}

func (r c03Ref) apply(deletes []string, updates []c03KV) {
	for _, d := range deletes {
		for k := range r {
			if c03IsBeneath(k, d) {
				delete(r, k)
			}
		}
	}
	for _, u := range updates {
		r[u.path] = u.value
	}
}
