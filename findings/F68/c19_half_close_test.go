// SPDX-FileCopyrightText: 2020-present Open Networking Foundation <info@opennetworking.org>
//
// SPDX-License-Identifier: Apache-2.0

package gnmi

import (
	"context"
	"net"
	"testing"
	"time"

	sb "github.com/onosproject/onos-config/pkg/southbound/gnmi"
	"github.com/openconfig/gnmi/proto/gnmi"
	"github.com/stretchr/testify/assert"
	"github.com/stretchr/testify/require"
	"google.golang.org/grpc"
	"google.golang.org/grpc/credentials/insecure"
)

// A subscriber sends its (ONCE) subscription and closes its sending direction (CloseSend) - it has nothing
// more to say, and waits for the updates. Recv then reports io.EOF. That is the orderly end of the
// subscriber's messages, not a failure: the updates of the target still have to be relayed, and the RPC must
// not be ended with an error.
func TestC19_HalfClose_UpdatesStillRelayed(t *testing.T) {
	conns := sb.NewConnManager()
	target := c19StartTarget(t, conns, "target-1", nil)
	server := &Server{conns: conns}

	a := c19NewStream(t, server)
	a.in <- c19Subscribe(gnmi.SubscriptionList_ONCE, c19Path("target-1"), c19Path("", "a"))
	sa := target.awaitStream(t)
	close(a.in) // CloseSend

	err, ended := a.result(300 * time.Millisecond)
	assert.False(t, ended, "the RPC was ended when the subscriber closed its sending direction")
	assert.NoError(t, err, "status of the RPC after the subscriber closed its sending direction")
	if ended {
		// grpc cancels the context of the RPC when the handler returns
		a.cancel()
	}

	// The target answers the subscription a little later
	time.Sleep(100 * time.Millisecond)
	_ = sa.send("a-1")
	resp, ok := a.next(time.Second)
	require.True(t, ok, "the update of the target was not relayed to the subscriber")
	assert.Equal(t, "a-1", c19Value(resp))
}

// The same as a gNMI client sees it over gRPC
func TestC19_HalfClose_OverGRPC(t *testing.T) {
	conns := sb.NewConnManager()
	target := c19StartTarget(t, conns, "target-1", nil)

	lis, err := net.Listen("tcp", "127.0.0.1:0")
	require.NoError(t, err)
	nb := grpc.NewServer()
	gnmi.RegisterGNMIServer(nb, &Server{conns: conns})
	go func() { _ = nb.Serve(lis) }()
	defer nb.Stop()
	cc, err := grpc.Dial(lis.Addr().String(), grpc.WithTransportCredentials(insecure.NewCredentials()))
	require.NoError(t, err)
	defer cc.Close()

	ctx, cancel := context.WithTimeout(context.Background(), c19Timeout)
	defer cancel()
	stream, err := gnmi.NewGNMIClient(cc).Subscribe(ctx)
	require.NoError(t, err)
	require.NoError(t, stream.Send(c19Subscribe(gnmi.SubscriptionList_ONCE, c19Path("target-1"), c19Path("", "a"))))
	sa := target.awaitStream(t)
	require.NoError(t, stream.CloseSend())
	time.Sleep(100 * time.Millisecond)
	_ = sa.send("a-1")

	resp, err := stream.Recv()
	require.NoError(t, err, "what the subscriber reads after CloseSend")
	assert.Equal(t, "a-1", c19Value(resp))
}
