// SPDX-FileCopyrightText: 2020-present Open Networking Foundation <info@opennetworking.org>
//
// SPDX-License-Identifier: Apache-2.0

package gnmi

// Shared fixture of the c19_*_test.go files (property C19: subscriptions reach exactly the targets
// they name). It provides
//   - c19Target: a gNMI target served on a loopback port, reachable through the real southbound
//     connection manager, that records every southbound Subscribe stream, what was written on it, and lets
//     the test emit responses on a chosen stream;
//   - c19Stream: a northbound GNMI_SubscribeServer stream driven by the test.

import (
	"context"
	"fmt"
	"io"
	"net"
	"sync"
	"sync/atomic"
	"testing"
	"time"

	topoapi "github.com/onosproject/onos-api/go/onos/topo"
	sb "github.com/onosproject/onos-config/pkg/southbound/gnmi"
	"github.com/openconfig/gnmi/proto/gnmi"
	"github.com/stretchr/testify/assert"
	"github.com/stretchr/testify/require"
	"google.golang.org/grpc"
)

const c19Timeout = 3 * time.Second

// c19TargetStream is one southbound Subscribe stream accepted by a c19Target
type c19TargetStream struct {
	index  int
	srv    gnmi.GNMI_SubscribeServer
	sendMu sync.Mutex
	mu     sync.Mutex
	subs   []*gnmi.SubscribeRequest // subscription messages received on the stream
	polls  int                      // poll messages received on the stream
	closed chan struct{}            // closed when the stream handler returned
	finish chan error               // the test may push a status to end the stream with
}

func (ts *c19TargetStream) pollCount() int {
	ts.mu.Lock()
	defer ts.mu.Unlock()
	return ts.polls
}

func (ts *c19TargetStream) subscriptions() []*gnmi.SubscribeRequest {
	ts.mu.Lock()
	defer ts.mu.Unlock()
	return append([]*gnmi.SubscribeRequest{}, ts.subs...)
}

// send emits an update carrying the given string on this southbound stream
func (ts *c19TargetStream) send(value string) error {
	ts.sendMu.Lock()
	defer ts.sendMu.Unlock()
	return ts.srv.Send(c19Update(value))
}

func c19Update(value string) *gnmi.SubscribeResponse {
	return &gnmi.SubscribeResponse{
		Response: &gnmi.SubscribeResponse_Update{
			Update: &gnmi.Notification{
				Timestamp: 1,
				Update: []*gnmi.Update{{
					Path: &gnmi.Path{Elem: []*gnmi.PathElem{{Name: "leaf"}}},
					Val:  &gnmi.TypedValue{Value: &gnmi.TypedValue_StringVal{StringVal: value}},
				}},
			},
		},
	}
}

func c19Value(resp *gnmi.SubscribeResponse) string {
	upd := resp.GetUpdate().GetUpdate()
	if len(upd) == 0 {
		return ""
	}
	return upd[0].GetVal().GetStringVal()
}

// c19Target is a gNMI target on a loopback port
type c19Target struct {
	gnmi.UnimplementedGNMIServer
	name     string
	server   *grpc.Server
	address  string
	mu       sync.Mutex
	streams  []*c19TargetStream
	streamCh chan *c19TargetStream
	// reject, when set, is the status every Subscribe stream is ended with as soon as the subscription arrived
	reject error
}

func (t *c19Target) Subscribe(srv gnmi.GNMI_SubscribeServer) error {
	t.mu.Lock()
	ts := &c19TargetStream{index: len(t.streams), srv: srv, closed: make(chan struct{}), finish: make(chan error, 1)}
	t.streams = append(t.streams, ts)
	t.mu.Unlock()
	defer close(ts.closed)

	recvErr := make(chan error, 1)
	announced := false
	go func() {
		for {
			req, err := srv.Recv()
			if err != nil {
				recvErr <- err
				return
			}
			ts.mu.Lock()
			if req.GetSubscribe() != nil {
				ts.subs = append(ts.subs, req)
			} else if req.GetPoll() != nil {
				ts.polls++
			}
			ts.mu.Unlock()
			if !announced {
				announced = true
				if t.reject != nil {
					ts.finish <- t.reject
					return
				}
				t.streamCh <- ts
			}
		}
	}()
	select {
	case err := <-ts.finish:
		return err
	case err := <-recvErr:
		if err == io.EOF {
			return nil
		}
		return err
	}
}

// awaitStream waits for the next southbound stream on which a subscription arrived
func (t *c19Target) awaitStream(tt *testing.T) *c19TargetStream {
	select {
	case ts := <-t.streamCh:
		return ts
	case <-time.After(c19Timeout):
		require.FailNow(tt, fmt.Sprintf("target %s received no subscription", t.name))
		return nil
	}
}

// noStream asserts that no (further) southbound subscription reaches the target
func (t *c19Target) noStream(tt *testing.T) {
	select {
	case ts := <-t.streamCh:
		assert.Fail(tt, fmt.Sprintf("target %s received an unexpected subscription: %v", t.name, ts.subscriptions()))
	case <-time.After(200 * time.Millisecond):
	}
}

// c19StartTarget serves a target on a loopback port and connects the connection manager to it
func c19StartTarget(t *testing.T, conns sb.ConnManager, name string, reject error) *c19Target {
	lis, err := net.Listen("tcp", "127.0.0.1:0")
	require.NoError(t, err)
	target := &c19Target{
		name:     name,
		server:   grpc.NewServer(),
		address:  lis.Addr().String(),
		streamCh: make(chan *c19TargetStream, 16),
		reject:   reject,
	}
	gnmi.RegisterGNMIServer(target.server, target)
	go func() { _ = target.server.Serve(lis) }()
	t.Cleanup(target.server.Stop)

	object := &topoapi.Object{
		ID:   topoapi.ID(name),
		Type: topoapi.Object_ENTITY,
		Obj:  &topoapi.Object_Entity{Entity: &topoapi.Entity{KindID: "devicesim"}},
	}
	timeout := c19Timeout
	require.NoError(t, object.SetAspect(&topoapi.Configurable{
		Type: "devicesim", Version: "1.0.0", Address: target.address, Timeout: &timeout,
	}))
	require.NoError(t, object.SetAspect(&topoapi.TLSOptions{Plain: true}))
	require.NoError(t, conns.Connect(context.Background(), object))
	t.Cleanup(func() { _ = conns.Disconnect(context.Background(), topoapi.ID(name)) })
	return target
}

// c19Stream is the northbound side of a Subscribe RPC, driven by the test
type c19Stream struct {
	grpc.ServerStream
	ctx      context.Context
	cancel   context.CancelFunc
	in       chan *gnmi.SubscribeRequest
	out      chan *gnmi.SubscribeResponse
	done     chan error // result of Server.Subscribe
	inflight int32
	overlaps int32
	sendTime time.Duration // how long a Send stays in flight
}

func c19NewStream(t *testing.T, server *Server) *c19Stream {
	ctx, cancel := context.WithCancel(context.Background())
	s := &c19Stream{
		ctx:    ctx,
		cancel: cancel,
		in:     make(chan *gnmi.SubscribeRequest, 16),
		out:    make(chan *gnmi.SubscribeResponse, 4096),
		done:   make(chan error, 1),
	}
	go func() { s.done <- server.Subscribe(s) }()
	t.Cleanup(cancel)
	return s
}

func (s *c19Stream) Context() context.Context { return s.ctx }

func (s *c19Stream) Recv() (*gnmi.SubscribeRequest, error) {
	select {
	case <-s.ctx.Done():
		return nil, s.ctx.Err()
	case req, ok := <-s.in:
		if !ok {
			return nil, io.EOF // the subscriber closed its sending direction
		}
		return req, nil
	}
}

// Send records the response. Like grpc.ServerStream.SendMsg it must not be called from two goroutines at
// once; such overlapping calls are counted.
func (s *c19Stream) Send(resp *gnmi.SubscribeResponse) error {
	if atomic.AddInt32(&s.inflight, 1) > 1 {
		atomic.AddInt32(&s.overlaps, 1)
	}
	if s.sendTime > 0 {
		time.Sleep(s.sendTime)
	}
	atomic.AddInt32(&s.inflight, -1)
	select {
	case s.out <- resp:
		return nil
	case <-s.ctx.Done():
		return s.ctx.Err()
	}
}

// next waits for the next response relayed to the subscriber
func (s *c19Stream) next(wait time.Duration) (*gnmi.SubscribeResponse, bool) {
	select {
	case resp := <-s.out:
		return resp, true
	case <-time.After(wait):
		return nil, false
	}
}

// result waits for Server.Subscribe to return
func (s *c19Stream) result(wait time.Duration) (error, bool) {
	select {
	case err := <-s.done:
		return err, true
	case <-time.After(wait):
		return nil, false
	}
}

func c19Path(target string, elems ...string) *gnmi.Path {
	p := &gnmi.Path{Target: target}
	for _, e := range elems {
		p.Elem = append(p.Elem, &gnmi.PathElem{Name: e})
	}
	return p
}

func c19Subscribe(mode gnmi.SubscriptionList_Mode, prefix *gnmi.Path, paths ...*gnmi.Path) *gnmi.SubscribeRequest {
	list := &gnmi.SubscriptionList{Prefix: prefix, Mode: mode}
	for _, p := range paths {
		list.Subscription = append(list.Subscription, &gnmi.Subscription{Path: p})
	}
	return &gnmi.SubscribeRequest{Request: &gnmi.SubscribeRequest_Subscribe{Subscribe: list}}
}

func c19Poll() *gnmi.SubscribeRequest {
	return &gnmi.SubscribeRequest{Request: &gnmi.SubscribeRequest_Poll{Poll: &gnmi.Poll{}}}
}
