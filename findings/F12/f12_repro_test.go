package proposal

import (
	"context"
	"testing"

	"github.com/atomix/go-sdk/pkg/test"
	"github.com/golang/mock/gomock"
	configapi "github.com/onosproject/onos-api/go/onos/config/v2"
	topoapi "github.com/onosproject/onos-api/go/onos/topo"
	pluginmock "github.com/onosproject/onos-config/internal/pluginregistry"
	sbmock "github.com/onosproject/onos-config/internal/southbound/gnmi"
	topomock "github.com/onosproject/onos-config/internal/store/topo"
	controllerutils "github.com/onosproject/onos-config/pkg/controller/utils"
	"github.com/onosproject/onos-config/pkg/store/v2/configuration"
	proposalstore "github.com/onosproject/onos-config/pkg/store/v2/proposal"
	"github.com/onosproject/onos-lib-go/pkg/errors"
	"github.com/stretchr/testify/assert"
	"google.golang.org/grpc/codes"
	"google.golang.org/grpc/status"
)

// F12: the southbound client returns errors.FromGRPC(err) (a *TypedError, which has no
// GRPCStatus method), and reconcileApply classifies it with status.Code(err), which is Unknown for
// every TypedError. A device that is merely unreachable (Unavailable) is therefore recorded as a
// refusal: the proposal is FAILED/UNKNOWN instead of staying APPLYING for a retry.
func TestF12UnavailableDeviceFailsTheChange(t *testing.T) {
	mctl := gomock.NewController(t)
	defer mctl.Finish()
	cluster := test.NewClient()
	defer cluster.Close()
	cfgs, err := configuration.NewAtomixStore(cluster)
	assert.NoError(t, err)
	props, err := proposalstore.NewAtomixStore(cluster)
	assert.NoError(t, err)
	topo := topomock.NewMockStore(mctl)
	conns := sbmock.NewMockConnManager(mctl)
	conn := sbmock.NewMockConn(mctl)
	registry := pluginmock.NewMockPluginRegistry(mctl)
	r := &Reconciler{proposals: props, configurations: cfgs, topo: topo, conns: conns, pluginRegistry: registry}
	ctx := context.Background()

	target := configapi.TargetID("target-1")
	entity := &topoapi.Object{ID: topoapi.ID(target), Type: topoapi.Object_ENTITY, Obj: &topoapi.Object_Entity{Entity: &topoapi.Entity{}}}
	assert.NoError(t, entity.SetAspect(&topoapi.Configurable{Type: "devicesim", Version: "1.0.0"}))
	relation := &topoapi.Object{ID: "rel-1", Type: topoapi.Object_RELATION, Obj: &topoapi.Object_Relation{Relation: &topoapi.Relation{
		KindID: topoapi.CONTROLS, SrcEntityID: controllerutils.GetOnosConfigID(), TgtEntityID: topoapi.ID(target)}}}
	topo.EXPECT().Get(gomock.Any(), topoapi.ID(target)).Return(entity, nil).AnyTimes()
	topo.EXPECT().Get(gomock.Any(), topoapi.ID("rel-1")).Return(relation, nil).AnyTimes()
	conns.EXPECT().Get(gomock.Any(), gomock.Any()).Return(conn, true).AnyTimes()
	// exactly what pkg/southbound/gnmi.(*client).Set returns for an unreachable device
	conn.EXPECT().Set(gomock.Any(), gomock.Any()).Return(nil, errors.FromGRPC(status.Error(codes.Unavailable, "connection refused"))).AnyTimes()

	cfg := &configapi.Configuration{
		ID: configuration.NewID(target, "devicesim", "1.0.0"), TargetID: target,
		Status: configapi.ConfigurationStatus{
			State:      configapi.ConfigurationStatus_SYNCHRONIZED,
			Mastership: configapi.MastershipInfo{Master: "rel-1", Term: 1},
			Proposed:   configapi.ProposedConfigurationStatus{Index: 1},
			Committed:  configapi.CommittedConfigurationStatus{Index: 1},
			Applied:    configapi.AppliedConfigurationStatus{Index: 0, Mastership: configapi.MastershipInfo{Master: "rel-1", Term: 1}},
		},
	}
	assert.NoError(t, cfgs.Create(ctx, cfg))
	p1 := &configapi.Proposal{
		ID: proposalstore.NewID(target, 1), TargetID: target, TransactionIndex: 1,
		TargetTypeVersion: configapi.TargetTypeVersion{TargetType: "devicesim", TargetVersion: "1.0.0"},
		Details: &configapi.Proposal_Change{Change: &configapi.ChangeProposal{Values: map[string]*configapi.PathValue{
			"/foo": {Path: "/foo", Value: configapi.TypedValue{Bytes: []byte("bar"), Type: configapi.ValueType_STRING}, Index: 1}}}},
	}
	assert.NoError(t, props.Create(ctx, p1))
	p1.Status.Phases.Apply = &configapi.ProposalApplyPhase{}
	assert.NoError(t, props.UpdateStatus(ctx, p1))

	_, err = r.reconcileApply(ctx, p1)
	p1, gerr := props.Get(ctx, p1.ID)
	assert.NoError(t, gerr)
	assert.Equal(t, configapi.ProposalApplyPhase_APPLYING, p1.Status.Phases.Apply.State,
		"the device was only unreachable: the change must stay pending, not be failed")
	assert.Error(t, err, "the transient error must be returned so that the controller retries")
}
