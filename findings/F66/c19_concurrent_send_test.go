// SPDX-FileCopyrightText: 2020-present Open Networking Foundation <info@opennetworking.org>
//
// SPDX-License-Identifier: Apache-2.0

package gnmi

import (
	"fmt"
	"sync"
	"sync/atomic"
	"testing"
	"time"

	sb "github.com/onosproject/onos-config/pkg/southbound/gnmi"
	"github.com/openconfig/gnmi/proto/gnmi"
	"github.com/stretchr/testify/assert"
	"github.com/stretchr/testify/require"
)

// One subscriber names two targets. Both targets emit updates at the same time. The updates are relayed on
// ONE northbound stream, and a gRPC stream does not allow SendMsg from two goroutines at once
// (grpc.ServerStream: "It is not safe to call SendMsg on the same stream in different goroutines"): the
// relays of the targets have to be serialised.
func TestC19_ConcurrentSend_TwoTargetsOneSubscriber(t *testing.T) {
	conns := sb.NewConnManager()
	target1 := c19StartTarget(t, conns, "target-1", nil)
	target2 := c19StartTarget(t, conns, "target-2", nil)
	server := &Server{conns: conns}

	a := c19NewStream(t, server)
	a.sendTime = 200 * time.Microsecond
	a.in <- c19Subscribe(gnmi.SubscriptionList_STREAM, nil, c19Path("target-1", "a"), c19Path("target-2", "a"))
	s1 := target1.awaitStream(t)
	s2 := target2.awaitStream(t)

	const count = 200
	var wg sync.WaitGroup
	for _, ts := range []*c19TargetStream{s1, s2} {
		wg.Add(1)
		go func(ts *c19TargetStream) {
			defer wg.Done()
			for i := 0; i < count; i++ {
				if err := ts.send(fmt.Sprintf("u-%d", i)); err != nil {
					return
				}
			}
		}(ts)
	}
	wg.Wait()

	received := 0
	for received < 2*count {
		if _, ok := a.next(c19Timeout); !ok {
			break
		}
		received++
	}
	require.Equal(t, 2*count, received, "updates relayed to the subscriber")
	assert.Zero(t, atomic.LoadInt32(&a.overlaps),
		"Send was called on the subscriber's stream while another Send on the same stream was in flight")
}
