package gnmi

import (
	"testing"

	configapi "github.com/onosproject/onos-api/go/onos/config/v2"
	"github.com/onosproject/onos-config/pkg/utils"
	pathutils "github.com/onosproject/onos-config/pkg/utils/path"
	"github.com/openconfig/gnmi/proto/gnmi"
	"github.com/stretchr/testify/assert"
)

// F16: a key value may contain '/' (IsPathValid accepts it, StrPath renders it unescaped inside
// the brackets, SplitPath keeps it together). Two places cut textual paths on raw '/' instead:
// the PROTO branch of Get, which then fails to parse the halves, and GetParentPath.
func TestF16RawSlashSplitting(t *testing.T) {
	stored := "/interfaces/interface[name=eth1/1]/mtu"
	assert.NoError(t, pathutils.IsPathValid(stored))
	assert.Equal(t, []string{"interfaces", "interface[name=eth1/1]", "mtu"}, utils.SplitPath(stored))

	values := []*configapi.PathValue{{Path: stored, Value: *configapi.NewTypedValueUint(1500, 16)}}
	updates, err := createUpdate(nil, &gnmi.Path{Target: "target-1"}, values, gnmi.Encoding_PROTO)
	assert.NoError(t, err, "Get in PROTO encoding fails on a stored path whose key value contains '/'")
	if assert.Len(t, updates, 1) {
		assert.Equal(t, stored, utils.StrPath(updates[0].Path), "the path reported back is the path that is stored")
	}

	assert.Equal(t, "/interfaces", pathutils.GetParentPath("/interfaces/interface[name=eth1/1]"),
		"the parent of a path is that path without its last element")
}
