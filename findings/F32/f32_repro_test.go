package gnmi

import (
	"context"
	"strings"
	"testing"

	"github.com/openconfig/gnmi/proto/gnmi"
	"github.com/stretchr/testify/assert"
)

// F32: the wildcard expression of a Get path is compiled with regexp.MustCompile. Every '*' of the
// path becomes a character class, so the size of the expression is proportional to the request; Go's
// regexp package refuses expressions above its size limit ("expression too large") and MustCompile
// turns that refusal into a panic. A Get whose path carries about two million '*' (2 MB, within the
// default 4 MB gRPC message limit) crashes the handler.
func TestF32HugeWildcardPath(t *testing.T) {
	test := createServer(t)
	defer test.atomix.Close()
	defer test.mctl.Finish()
	setupTopoAndRegistry(test, "target-1", "devicesim", "1.0.0", false)
	test.startControllers(t)
	defer test.stopControllers()

	// a configuration must exist for the target: set one value first
	_, err := test.server.Set(context.TODO(), &gnmi.SetRequest{Update: []*gnmi.Update{{Path: targetPath(t, "target-1", "foo"),
		Val: &gnmi.TypedValue{Value: &gnmi.TypedValue_StringVal{StringVal: "x"}}}}})
	assert.NoError(t, err)

	path := &gnmi.Path{Target: "target-1", Elem: []*gnmi.PathElem{{Name: strings.Repeat("*", 2000000)}}}
	var panicked interface{}
	var getErr error
	func() {
		defer func() { panicked = recover() }()
		_, getErr = test.server.Get(context.TODO(), &gnmi.GetRequest{Path: []*gnmi.Path{path}})
	}()
	if panicked != nil {
		s, _ := panicked.(string)
		if len(s) > 120 {
			s = s[:120] + "…"
		}
		t.Fatalf("the Get handler must answer, not panic: %s", s)
	}
	assert.Error(t, getErr, "a path that cannot be matched is refused")
}

// ordinary wildcards keep working
func TestF32OrdinaryWildcardPath(t *testing.T) {
	test := createServer(t)
	defer test.atomix.Close()
	defer test.mctl.Finish()
	setupTopoAndRegistry(test, "target-1", "devicesim", "1.0.0", false)
	test.startControllers(t)
	defer test.stopControllers()
	_, err := test.server.Set(context.TODO(), &gnmi.SetRequest{Update: []*gnmi.Update{{Path: targetPath(t, "target-1", "foo"),
		Val: &gnmi.TypedValue{Value: &gnmi.TypedValue_StringVal{StringVal: "x"}}}}})
	assert.NoError(t, err)
	resp, err := test.server.Get(context.TODO(), &gnmi.GetRequest{Path: []*gnmi.Path{{Target: "target-1", Elem: []*gnmi.PathElem{{Name: "f*"}}}}})
	assert.NoError(t, err)
	assert.NotNil(t, resp)
}
