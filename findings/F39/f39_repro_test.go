// SPDX-FileCopyrightText: 2020-present Open Networking Foundation <info@opennetworking.org>
//
// SPDX-License-Identifier: Apache-2.0

// Review tests for the property "Only members of an admin group may change configuration".
// Goes into pkg/northbound/gnmi/v2 (package gnmi).

package gnmi

import (
	"context"
	"crypto/hmac"
	"crypto/sha256"
	"encoding/base64"
	"encoding/json"
	"net"
	"os"
	"testing"
	"time"

	"github.com/golang/mock/gomock"
	grpc_auth "github.com/grpc-ecosystem/go-grpc-middleware/auth"
	configapi "github.com/onosproject/onos-api/go/onos/config/v2"
	topoapi "github.com/onosproject/onos-api/go/onos/topo"
	libauth "github.com/onosproject/onos-lib-go/pkg/grpc/auth"
	"github.com/openconfig/gnmi/proto/gnmi"
	"github.com/stretchr/testify/assert"
	"google.golang.org/grpc"
	"google.golang.org/grpc/credentials/insecure"
	"google.golang.org/grpc/metadata"
	"google.golang.org/grpc/test/bufconn"
)

const f39Secret = "f39-secret"

func f39Setenv(t *testing.T, key, value string) {
	old, had := os.LookupEnv(key)
	assert.NoError(t, os.Setenv(key, value))
	t.Cleanup(func() {
		if had {
			_ = os.Setenv(key, old)
		} else {
			_ = os.Unsetenv(key)
		}
	})
}

// f39Token signs a JWT (HS256, SHARED_SECRET_KEY) the way an identity provider would.
func f39Token(t *testing.T, claims map[string]interface{}) string {
	enc := base64.RawURLEncoding
	header := enc.EncodeToString([]byte(`{"alg":"HS256","typ":"JWT"}`))
	claims["exp"] = time.Now().Add(time.Hour).Unix()
	claims["iss"] = "http://dex:32000"
	body, err := json.Marshal(claims)
	assert.NoError(t, err)
	payload := enc.EncodeToString(body)
	mac := hmac.New(sha256.New, []byte(f39Secret))
	mac.Write([]byte(header + "." + payload))
	return header + "." + payload + "." + enc.EncodeToString(mac.Sum(nil))
}

// f39AuthenticatedContext is the context the northbound server hands to Set/Get when security is on:
// the wire metadata sent by the client passed through onos-lib-go's AuthenticationInterceptor
// (pkg/manager/manager.go startNorthboundServer -> northbound.NewServer -> grpc_auth interceptor).
func f39AuthenticatedContext(t *testing.T, claims map[string]interface{}, clientHeaders ...string) context.Context {
	f39Setenv(t, "SHARED_SECRET_KEY", f39Secret)
	kv := append([]string{"authorization", "bearer " + f39Token(t, claims)}, clientHeaders...)
	ctx, err := libauth.AuthenticationInterceptor(metadata.NewIncomingContext(context.Background(), metadata.Pairs(kv...)))
	assert.NoError(t, err)
	return ctx
}

func f39SetRequest(t *testing.T) *gnmi.SetRequest {
	return &gnmi.SetRequest{
		Update: []*gnmi.Update{{
			Path: targetPath(t, "target-1", "foo"),
			Val:  &gnmi.TypedValue{Value: &gnmi.TypedValue_StringVal{StringVal: "Hello world!"}},
		}},
	}
}

func f39Transactions(t *testing.T, test *testContext) []*configapi.Transaction {
	txs, err := test.transaction.List(context.TODO())
	assert.NoError(t, err)
	return txs
}

func f39SetServer(t *testing.T) *testContext {
	test := createServer(t)
	t.Cleanup(func() {
		test.mctl.Finish()
		test.atomix.Close()
	})
	setupTopoAndRegistry(test, "target-1", "devicesim", "1.0.0", false)
	test.startControllers(t)
	t.Cleanup(test.stopControllers)
	f39Setenv(t, "ADMINGROUPS", "AetherROCAdmin,EnterpriseAdmin")
	return test
}

// F1: a caller that is in no administrator group sends its own "groups" request header next to a valid token.
func TestF39SetClientSuppliedGroupsHeader(t *testing.T) {
	test := f39SetServer(t)
	ctx := f39AuthenticatedContext(t, map[string]interface{}{
		"name": "Bob Cratchit", "preferred_username": "bobc", "email": "bobc@opennetworking.org",
		"groups": []string{"charlieGroup"},
	}, "groups", "AetherROCAdmin")

	_, err := test.server.Set(ctx, f39SetRequest(t))
	assert.Error(t, err, "bobc is only in charlieGroup: Set must be refused")
	assert.Len(t, f39Transactions(t, test), 0, "a refused Set must not append to the transaction log")
}

// F1 (variant): the token carries no groups claim at all
func TestF39SetClientSuppliedGroupsHeaderNoGroupsClaim(t *testing.T) {
	test := f39SetServer(t)
	ctx := f39AuthenticatedContext(t, map[string]interface{}{
		"name": "Bob Cratchit", "preferred_username": "bobc", "email": "bobc@opennetworking.org",
	}, "groups", "EnterpriseAdmin")

	_, err := test.server.Set(ctx, f39SetRequest(t))
	assert.Error(t, err, "bobc has no groups: Set must be refused")
	assert.Len(t, f39Transactions(t, test), 0, "a refused Set must not append to the transaction log")
}

func f39ListServer(t *testing.T) *testContext {
	test := createServer(t)
	t.Cleanup(func() {
		test.mctl.Finish()
		test.atomix.Close()
	})
	f39Setenv(t, OIDCServerURL, "http://dex:32000")
	test.topo.EXPECT().List(gomock.Any(), gomock.Any()).Return(
		[]topoapi.Object{
			*topoEntity("target-1", "devicesim", "1.0.0"),
			*topoEntity("target-2", "devicesim", "1.0.0"),
			*topoEntity("target-3", "devicesim", "1.0.0"),
		}, nil,
	).AnyTimes()
	return test
}

func f39ListTargets(t *testing.T, test *testContext, ctx context.Context) []string {
	resp, err := test.server.Get(ctx, &gnmi.GetRequest{
		Encoding: gnmi.Encoding_PROTO,
		Path:     []*gnmi.Path{{Target: "*"}},
	})
	assert.NoError(t, err)
	targets := make([]string, 0)
	if resp == nil {
		return targets
	}
	for _, e := range resp.Notification[0].Update[0].Val.GetLeaflistVal().GetElement() {
		targets = append(targets, e.GetStringVal())
	}
	return targets
}

// F1 on the listing: the caller's own header makes it ROC admin
func TestF39ListClientSuppliedGroupsHeader(t *testing.T) {
	test := f39ListServer(t)
	ctx := f39AuthenticatedContext(t, map[string]interface{}{
		"name": "Bob Cratchit", "preferred_username": "bobc", "email": "bobc@opennetworking.org",
		"groups": []string{"target-2"},
	}, "groups", aetherROCAdmin)
	assert.Equal(t, []string{"target-2"}, f39ListTargets(t, test, ctx))
}

// F1 end to end: a real gRPC server wired as pkg/manager does when OIDC_SERVER_URL is set
// (grpc_auth interceptor with onos-lib-go's AuthenticationInterceptor), a real gRPC client that adds
// a "groups" header to its call.
func TestF39SetClientSuppliedGroupsHeaderOverGRPC(t *testing.T) {
	test := f39SetServer(t)
	f39Setenv(t, "SHARED_SECRET_KEY", f39Secret)

	lis := bufconn.Listen(1024 * 1024)
	srv := grpc.NewServer(grpc.UnaryInterceptor(grpc_auth.UnaryServerInterceptor(libauth.AuthenticationInterceptor)))
	gnmi.RegisterGNMIServer(srv, test.server)
	go func() { _ = srv.Serve(lis) }()
	defer srv.Stop()

	conn, err := grpc.DialContext(context.Background(), "bufnet",
		grpc.WithContextDialer(func(context.Context, string) (net.Conn, error) { return lis.Dial() }),
		grpc.WithTransportCredentials(insecure.NewCredentials()))
	assert.NoError(t, err)
	defer conn.Close()

	token := f39Token(t, map[string]interface{}{
		"name": "Bob Cratchit", "preferred_username": "bobc", "email": "bobc@opennetworking.org",
		"groups": []string{"charlieGroup"},
	})
	ctx, cancel := context.WithTimeout(context.Background(), 10*time.Second)
	defer cancel()

	// the honest call is refused ...
	honest := metadata.AppendToOutgoingContext(ctx, "authorization", "bearer "+token)
	_, err = gnmi.NewGNMIClient(conn).Set(honest, f39SetRequest(t))
	assert.Error(t, err)
	assert.Len(t, f39Transactions(t, test), 0)

	// ... the same caller with one more header is not
	forged := metadata.AppendToOutgoingContext(ctx, "authorization", "bearer "+token, "groups", "EnterpriseAdmin")
	_, err = gnmi.NewGNMIClient(conn).Set(forged, f39SetRequest(t))
	assert.Error(t, err, "bobc is only in charlieGroup: Set must be refused")
	assert.Len(t, f39Transactions(t, test), 0, "a refused Set must not append to the transaction log")
}
