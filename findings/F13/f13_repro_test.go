package gnmi

import (
	"context"
	"testing"
	"time"

	configapi "github.com/onosproject/onos-api/go/onos/config/v2"
	"github.com/openconfig/gnmi/proto/gnmi"
	"github.com/stretchr/testify/assert"
)

// F13: computeChange discards the error of NewChangeValue for deletes. A delete path that fails
// IsPathValid (the root "/") yields a nil change value, which is logged as part of transaction 1.
// The transaction controller then dereferences it (changeValue.Index = ...) and the whole process
// dies. The request must be refused and nothing logged.
func TestF13DeleteOfRootIsLoggedWithNilValue(t *testing.T) {
	test := createServer(t)
	defer test.atomix.Close()
	defer test.mctl.Finish()
	setupTopoAndRegistry(test, "target-1", "devicesim", "1.0.0", false)

	targetID := configapi.TargetID("target-1")
	request := gnmi.SetRequest{Delete: []*gnmi.Path{targetPath(t, targetID)}}
	ctx, cancel := context.WithTimeout(context.Background(), 2*time.Second)
	defer cancel()
	_, err := test.server.Set(ctx, &request)
	assert.Error(t, err)

	txs, lerr := test.transaction.List(context.Background())
	assert.NoError(t, lerr)
	for _, tx := range txs {
		for target, change := range tx.GetChange().Values {
			for path, value := range change.Values {
				assert.NotNil(t, value, "transaction %d logs a nil change value for %s %s: the transaction controller dereferences it and the process crashes", tx.Index, target, path)
			}
		}
	}
	assert.Empty(t, txs, "a Set that deletes an invalid path must be refused before anything is logged")
}
