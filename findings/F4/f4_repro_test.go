package gnmi

import (
	"testing"

	"github.com/openconfig/gnmi/proto/gnmi"
	"github.com/stretchr/testify/assert"
)

// F4: a SubscribeRequest without prefix (or with a subscription entry without path) is perfectly
// decodable from the wire; splitSubscribeRequest dereferences subs.Prefix / sub.Path directly and
// the stream handler panics (the gRPC server has no recovery interceptor).
func TestF4SubscribeWithoutPrefixOrPath(t *testing.T) {
	noPrefix := &gnmi.SubscribeRequest{Request: &gnmi.SubscribeRequest_Subscribe{Subscribe: &gnmi.SubscriptionList{
		Subscription: []*gnmi.Subscription{{Path: &gnmi.Path{Target: "target-1", Elem: []*gnmi.PathElem{{Name: "foo"}}}}},
	}}}
	sctx := &subContext{}
	assert.NotPanics(t, func() { _ = splitSubscribeRequest(sctx, noPrefix) }, "request without prefix")
	if assert.Contains(t, sctx.treqs, "target-1") {
		assert.Len(t, sctx.treqs["target-1"].GetSubscribe().GetSubscription(), 1)
	}

	noPath := &gnmi.SubscribeRequest{Request: &gnmi.SubscribeRequest_Subscribe{Subscribe: &gnmi.SubscriptionList{
		Prefix:       &gnmi.Path{},
		Subscription: []*gnmi.Subscription{{}},
	}}}
	sctx = &subContext{}
	var err error
	assert.NotPanics(t, func() { err = splitSubscribeRequest(sctx, noPath) }, "subscription entry without path")
	assert.Error(t, err, "a request naming no target is refused")
}
