// SPDX-FileCopyrightText: 2020-present Open Networking Foundation <info@opennetworking.org>
//
// SPDX-License-Identifier: Apache-2.0

package configuration

import (
	"context"
	"fmt"
	"testing"
	"time"

	"github.com/atomix/go-sdk/pkg/test"
	configapi "github.com/onosproject/onos-api/go/onos/config/v2"
	"github.com/stretchr/testify/assert"
)

// A subscriber that cancels its watch is told so by the close of its channel (that is what the main loop of Watch
// does, what the transaction stores do on every exit, and what the consumers - `for event := range ch` in the
// admin service, in the gNMI Get and in every controller watcher - rely on to end).
// Here the subscriber cancels while the replay is in progress.
func TestC15WatchCancelledDuringReplayClosesChannel(t *testing.T) {
	cluster := test.NewClient()
	defer cluster.Close()

	store, err := NewAtomixStore(cluster)
	assert.NoError(t, err)

	ctx, cancel := context.WithTimeout(context.Background(), 60*time.Second)
	defer cancel()

	for i := 0; i < 20; i++ {
		targetID := configapi.TargetID(fmt.Sprintf("target-%d", i))
		assert.NoError(t, store.Create(ctx, &configapi.Configuration{
			ID:       configapi.ConfigurationID(targetID),
			TargetID: targetID,
			Values: map[string]*configapi.PathValue{
				"/foo": {
					Path:  "/foo",
					Value: configapi.TypedValue{Bytes: []byte("Hello world!"), Type: configapi.ValueType_STRING},
				},
			},
		}))
	}

	const attempts = 5
	unclosed := 0
	for i := 0; i < attempts; i++ {
		watchCtx, watchCancel := context.WithCancel(ctx)
		ch := make(chan configapi.ConfigurationEvent)
		assert.NoError(t, store.Watch(watchCtx, ch, WithReplay()))

		closed := make(chan struct{})
		go func() {
			defer close(closed)
			events := 0
			for range ch {
				events++
				if events == 3 {
					// the subscriber has seen enough and leaves; it keeps draining until the store closes the channel
					watchCancel()
				}
			}
		}()

		select {
		case <-closed:
		case <-time.After(2 * time.Second):
			unclosed++
		}
		watchCancel()
	}
	assert.Zero(t, unclosed, "the channel of %d of %d cancelled watches was never closed", unclosed, attempts)

	// the store and new watchers are not affected
	ch := make(chan configapi.ConfigurationEvent, 100)
	assert.NoError(t, store.Watch(ctx, ch, WithReplay()))
	for i := 0; i < 20; i++ {
		select {
		case <-ch:
		case <-time.After(5 * time.Second):
			t.Fatalf("a new watcher was replayed only %d of 20 configurations", i)
		}
	}
}
