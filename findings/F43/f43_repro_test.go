// SPDX-License-Identifier: Apache-2.0
//
// Review test for property C11. Goes into pkg/controller/v2/transaction (package transaction).
//
// The real proposal controller runs (event driven) over the in-memory Atomix stores with two scripted
// devices; the transaction reconciler is stepped by hand so that the schedule can be chosen: the transaction
// controller (ONE goroutine for all transactions, UnaryPartitioner) is held up between starting the apply
// phase of the first proposal and that of the second one, long enough for the first device to refuse.

package transaction

import (
	"context"
	"sync"
	"sync/atomic"
	"testing"
	"time"

	"github.com/atomix/go-sdk/pkg/test"
	"github.com/golang/mock/gomock"
	configapi "github.com/onosproject/onos-api/go/onos/config/v2"
	topoapi "github.com/onosproject/onos-api/go/onos/topo"
	pluginmock "github.com/onosproject/onos-config/internal/pluginregistry"
	sbmock "github.com/onosproject/onos-config/internal/southbound/gnmi"
	topomock "github.com/onosproject/onos-config/internal/store/topo"
	controllerutils "github.com/onosproject/onos-config/pkg/controller/utils"
	proposalcontroller "github.com/onosproject/onos-config/pkg/controller/v2/proposal"
	sb "github.com/onosproject/onos-config/pkg/southbound/gnmi"
	"github.com/onosproject/onos-config/pkg/store/v2/configuration"
	proposalstore "github.com/onosproject/onos-config/pkg/store/v2/proposal"
	transactionstore "github.com/onosproject/onos-config/pkg/store/v2/transaction"
	"github.com/onosproject/onos-lib-go/pkg/controller"
	"github.com/onosproject/onos-lib-go/pkg/errors"
	"github.com/openconfig/gnmi/proto/gnmi"
	"github.com/stretchr/testify/assert"
	"google.golang.org/grpc/codes"
	"google.golang.org/grpc/status"
)

// countingConfigurations counts the reads of the proposal controller (to show the busy loop)
type countingConfigurations struct {
	configuration.Store
	gets atomic.Int64
}

func (c *countingConfigurations) Get(ctx context.Context, id configapi.ConfigurationID) (*configapi.Configuration, error) {
	c.gets.Add(1)
	return c.Store.Get(ctx, id)
}

func c11Change(value string) *configapi.PathValues {
	return &configapi.PathValues{
		Values: map[string]*configapi.PathValue{
			"/foo": {
				Path:  "/foo",
				Value: configapi.TypedValue{Bytes: []byte(value), Type: configapi.ValueType_STRING},
			},
		},
	}
}

func c11Await(timeout time.Duration, cond func() bool) bool {
	deadline := time.Now().Add(timeout)
	for time.Now().Before(deadline) {
		if cond() {
			return true
		}
		time.Sleep(10 * time.Millisecond)
	}
	return cond()
}

func TestF43_RefusalOnOneTargetLeavesOtherTargetOfTransactionUnapplied(t *testing.T) {
	ctx := context.Background()
	mctl := gomock.NewController(t)
	cluster := test.NewClient()
	defer cluster.Close()

	configurations, err := configuration.NewAtomixStore(cluster)
	assert.NoError(t, err)
	proposals, err := proposalstore.NewAtomixStore(cluster)
	assert.NoError(t, err)
	transactions, err := transactionstore.NewAtomixStore(cluster)
	assert.NoError(t, err)

	// Two mastered, connected targets. The device that is asked FIRST refuses its change; the other accepts.
	var mu sync.Mutex
	var refusing topoapi.ID
	sets := map[topoapi.ID]int{}
	topo := topomock.NewMockStore(mctl)
	conns := sbmock.NewMockConnManager(mctl)
	targets := []topoapi.ID{"target-a", "target-b"}
	for _, target := range targets {
		target := target
		entity := &topoapi.Object{ID: target, Type: topoapi.Object_ENTITY, Obj: &topoapi.Object_Entity{Entity: &topoapi.Entity{}}}
		assert.NoError(t, entity.SetAspect(&topoapi.Configurable{Type: "devicesim", Version: "1.0.0", Target: string(target)}))
		topo.EXPECT().Get(gomock.Any(), gomock.Eq(target)).AnyTimes().Return(entity, nil)
		rel := "rel-" + target
		topo.EXPECT().Get(gomock.Any(), gomock.Eq(rel)).AnyTimes().Return(&topoapi.Object{
			ID: rel, Type: topoapi.Object_RELATION,
			Obj: &topoapi.Object_Relation{Relation: &topoapi.Relation{
				KindID: topoapi.CONTROLS, SrcEntityID: controllerutils.GetOnosConfigID(), TgtEntityID: target}},
		}, nil)
		conn := sbmock.NewMockConn(mctl)
		conn.EXPECT().Set(gomock.Any(), gomock.Any()).AnyTimes().DoAndReturn(
			func(context.Context, *gnmi.SetRequest) (*gnmi.SetResponse, error) {
				mu.Lock()
				defer mu.Unlock()
				sets[target]++
				if refusing == "" {
					refusing = target
					// what pkg/southbound/gnmi client.Set returns for a refusal
					return nil, errors.FromGRPC(status.Error(codes.InvalidArgument, "value refused by device"))
				}
				return &gnmi.SetResponse{}, nil
			})
		conns.EXPECT().Get(gomock.Any(), gomock.Eq(sb.ConnID(rel))).AnyTimes().Return(conn, true)

		assert.NoError(t, configurations.Create(ctx, &configapi.Configuration{
			ID:       configuration.NewID(configapi.TargetID(target), "devicesim", "1.0.0"),
			TargetID: configapi.TargetID(target),
			Status: configapi.ConfigurationStatus{
				State:      configapi.ConfigurationStatus_SYNCHRONIZED,
				Mastership: configapi.MastershipInfo{Master: string(rel), Term: 1},
				Applied:    configapi.AppliedConfigurationStatus{Mastership: configapi.MastershipInfo{Master: string(rel), Term: 1}},
			},
		}))
	}
	plugin := pluginmock.NewMockModelPlugin(mctl)
	plugin.EXPECT().Validate(gomock.Any(), gomock.Any()).AnyTimes().Return(nil)
	registry := pluginmock.NewMockPluginRegistry(mctl)
	registry.EXPECT().GetPlugin(configapi.TargetType("devicesim"), configapi.TargetVersion("1.0.0")).AnyTimes().Return(plugin, true)

	counting := &countingConfigurations{Store: configurations}
	proposalController := proposalcontroller.NewController(topo, conns, proposals, counting, registry)
	assert.NoError(t, proposalController.Start())
	defer proposalController.Stop()

	reconciler := &Reconciler{transactions: transactions, proposals: proposals}
	step := func(index configapi.Index) {
		_, err := reconciler.Reconcile(controller.NewID(index))
		assert.NoError(t, err)
	}
	overrides := &configapi.TargetVersionOverrides{Overrides: map[string]*configapi.TargetTypeVersion{
		"target-a": {TargetType: "devicesim", TargetVersion: "1.0.0"},
		"target-b": {TargetType: "devicesim", TargetVersion: "1.0.0"},
	}}

	// Transaction 1 changes both targets
	tx1 := &configapi.Transaction{
		Details: &configapi.Transaction_Change{Change: &configapi.ChangeTransaction{
			Values: map[configapi.TargetID]*configapi.PathValues{"target-a": c11Change("one"), "target-b": c11Change("one")},
		}},
		TransactionStrategy:    configapi.TransactionStrategy{Synchronicity: configapi.TransactionStrategy_SYNCHRONOUS},
		TargetVersionOverrides: overrides,
	}
	assert.NoError(t, transactions.Create(ctx, tx1))

	applyStarted := func() (started []*configapi.Proposal, notStarted []*configapi.Proposal) {
		for _, target := range targets {
			p, err := proposals.Get(ctx, proposalstore.NewID(configapi.TargetID(target), tx1.Index))
			if err != nil {
				continue
			}
			if p.Status.Phases.Apply != nil {
				started = append(started, p)
			} else {
				notStarted = append(notStarted, p)
			}
		}
		return
	}

	// The transaction controller works the transaction up to the point where it has started the apply phase
	// of ONE of the two proposals (it starts one per pass) ...
	ok := c11Await(20*time.Second, func() bool {
		step(tx1.Index)
		started, _ := applyStarted()
		return len(started) > 0
	})
	assert.True(t, ok, "transaction 1 never reached the apply phase")
	started, notStarted := applyStarted()
	if !assert.Len(t, started, 1) || !assert.Len(t, notStarted, 1) {
		return
	}
	first, second := started[0], notStarted[0]

	// ... and is then held up (busy with other transactions / restarted) while the first device refuses
	ok = c11Await(10*time.Second, func() bool {
		p, err := proposals.Get(ctx, first.ID)
		return err == nil && p.Status.Phases.Apply.State == configapi.ProposalApplyPhase_FAILED
	})
	assert.True(t, ok, "the first device did not refuse")

	// The transaction controller resumes
	c11Await(2*time.Second, func() bool {
		step(tx1.Index)
		p, err := proposals.Get(ctx, second.ID)
		return err == nil && p.Status.Phases.Apply != nil && p.Status.Phases.Apply.State == configapi.ProposalApplyPhase_APPLIED
	})
	tx, err := transactions.GetByIndex(ctx, tx1.Index)
	assert.NoError(t, err)
	assert.Equal(t, configapi.TransactionStatus_FAILED, tx.Status.State)
	p2, err := proposals.Get(ctx, second.ID)
	assert.NoError(t, err)
	mu.Lock()
	secondSets := sets[topoapi.ID(second.TargetID)]
	mu.Unlock()
	assert.NotNil(t, p2.Status.Phases.Apply, "target %s refused, and the committed change of transaction %d to target %s "+
		"is never sent to its device (Set calls: %d)", first.TargetID, tx1.Index, second.TargetID, secondSets)

	// Transaction 2 changes the OTHER target only: it must proceed
	tx2 := &configapi.Transaction{
		Details: &configapi.Transaction_Change{Change: &configapi.ChangeTransaction{
			Values: map[configapi.TargetID]*configapi.PathValues{second.TargetID: c11Change("two")},
		}},
		TransactionStrategy:    configapi.TransactionStrategy{Synchronicity: configapi.TransactionStrategy_SYNCHRONOUS},
		TargetVersionOverrides: overrides,
	}
	assert.NoError(t, transactions.Create(ctx, tx2))
	applied := c11Await(5*time.Second, func() bool {
		step(tx1.Index)
		step(tx2.Index)
		tx, err := transactions.GetByIndex(ctx, tx2.Index)
		return err == nil && tx.Status.State == configapi.TransactionStatus_APPLIED
	})
	tx, err = transactions.GetByIndex(ctx, tx2.Index)
	assert.NoError(t, err)
	assert.True(t, applied, "transaction %d on target %s (whose device refused nothing) never proceeds: state %s",
		tx2.Index, second.TargetID, tx.Status.State)

	// ... and the proposal controller spins between the two proposals of that target
	before := counting.gets.Load()
	time.Sleep(500 * time.Millisecond)
	spins := counting.gets.Load() - before
	assert.Less(t, spins, int64(50), "proposal controller read the configuration %d times in 500ms with nothing to do", spins)
}
