// Review tests for property C13: "A refused Set changes nothing; targets and paths resolve as documented".
// Package directory: pkg/northbound/gnmi/v2

package gnmi

import (
	"context"
	"strings"
	"testing"
	"time"

	"github.com/golang/mock/gomock"
	adminapi "github.com/onosproject/onos-api/go/onos/config/admin"
	configapi "github.com/onosproject/onos-api/go/onos/config/v2"
	topoapi "github.com/onosproject/onos-api/go/onos/topo"
	pluginmock "github.com/onosproject/onos-config/internal/pluginregistry"
	"github.com/onosproject/onos-config/pkg/pluginregistry"
	configuration "github.com/onosproject/onos-config/pkg/store/v2/configuration"
	"github.com/onosproject/onos-config/pkg/utils/path"
	"github.com/openconfig/gnmi/proto/gnmi"
	"github.com/openconfig/gnmi/proto/gnmi_ext"
	"github.com/stretchr/testify/assert"
)

const (
	c13Target  = "target-1"
	c13Type    = "testdevice"
	c13Version = "1.0.x"
)

// c13Model is the read-write path table of the testdevice-1.0.x model (as dumped from the model's schema), plus
// an openconfig-platform like pair of nested lists that are both keyed by "name".
func c13Model() path.ReadWritePathMap {
	m := path.ReadWritePathMap{}
	add := func(p string, vt configapi.ValueType, key bool) {
		m[p] = adminapi.ReadWritePath{Path: p, ValueType: vt, IsAKey: key, AttrName: p[strings.LastIndex(p, "/")+1:]}
	}
	add("/cont1a/cont2a/leaf2a", configapi.ValueType_UINT, false)
	add("/cont1a/cont2a/leaf2b", configapi.ValueType_DECIMAL, false)
	add("/cont1a/cont2a/leaf2g", configapi.ValueType_BOOL, false)
	add("/cont1a/leaf1a", configapi.ValueType_STRING, false)
	add("/cont1a/list2a[name=*]/name", configapi.ValueType_STRING, true)
	add("/cont1a/list2a[name=*]/tx-power", configapi.ValueType_UINT, false)
	add("/cont1a/list2a[name=*]/ref2d", configapi.ValueType_STRING, false)
	add("/cont1a/list4[id=*]/id", configapi.ValueType_STRING, true)
	add("/cont1a/list4[id=*]/leaf4b", configapi.ValueType_STRING, false)
	add("/cont1a/list4[id=*]/list4a[fkey1=*][fkey2=*]/displayname", configapi.ValueType_STRING, false)
	add("/cont1a/list4[id=*]/list4a[fkey1=*][fkey2=*]/fkey1", configapi.ValueType_STRING, true)
	add("/cont1a/list4[id=*]/list4a[fkey1=*][fkey2=*]/fkey2", configapi.ValueType_STRING, true)
	add("/cont1a/list5[key1=*][key2=*]/key1", configapi.ValueType_STRING, true)
	add("/cont1a/list5[key1=*][key2=*]/key2", configapi.ValueType_UINT, true)
	add("/cont1a/list5[key1=*][key2=*]/leaf5a", configapi.ValueType_STRING, false)
	add("/leafAtTopLevel", configapi.ValueType_STRING, false)
	// openconfig-platform: component[name]/properties/property[name], component[name]/subcomponents/subcomponent[name]
	add("/components/component[name=*]/name", configapi.ValueType_STRING, true)
	add("/components/component[name=*]/properties/property[name=*]/name", configapi.ValueType_STRING, true)
	add("/components/component[name=*]/properties/property[name=*]/value", configapi.ValueType_STRING, false)
	return m
}

// c13Setup registers one target in the (mock) topo and one model plugin. The plugin registry mock resolves plugins the
// way the real registry does (pkg/pluginregistry/registry.go GetPlugin: lower case "<type>-<version>").
// topoType is the type spelled in the target's Configurable aspect.
func c13Setup(test *testContext, topoType string, jsonPathValues []*configapi.PathValue) {
	plugin := pluginmock.NewMockModelPlugin(test.mctl)
	plugin.EXPECT().GetInfo().AnyTimes().
		Return(&pluginregistry.ModelPluginInfo{Info: adminapi.ModelInfo{Name: c13Type, Version: c13Version}, ReadWritePaths: c13Model()})
	plugin.EXPECT().Validate(gomock.Any(), gomock.Any()).AnyTimes().Return(nil)
	plugin.EXPECT().GetPathValues(gomock.Any(), gomock.Any(), gomock.Any()).AnyTimes().Return(jsonPathValues, nil)

	test.registry.EXPECT().GetPlugin(gomock.Any(), gomock.Any()).AnyTimes().DoAndReturn(
		func(t configapi.TargetType, v configapi.TargetVersion) (pluginregistry.ModelPlugin, bool) {
			if strings.ToLower(string(t)+"-"+string(v)) == strings.ToLower(c13Type+"-"+c13Version) {
				return plugin, true
			}
			return nil, false
		})
	test.topo.EXPECT().Get(gomock.Any(), gomock.Eq(topoapi.ID(c13Target))).AnyTimes().
		Return(topoEntity(topoapi.ID(c13Target), topoType, c13Version), nil)
	test.topo.EXPECT().Watch(gomock.Any(), gomock.Any(), gomock.Any()).AnyTimes().Return(nil)
}

func c13Path(target string, elems ...*gnmi.PathElem) *gnmi.Path {
	return &gnmi.Path{Target: target, Elem: elems}
}

func c13E(name string, kv ...string) *gnmi.PathElem {
	e := &gnmi.PathElem{Name: name}
	for i := 0; i+1 < len(kv); i += 2 {
		if e.Key == nil {
			e.Key = map[string]string{}
		}
		e.Key[kv[i]] = kv[i+1]
	}
	return e
}

func c13Str(s string) *gnmi.TypedValue {
	return &gnmi.TypedValue{Value: &gnmi.TypedValue_StringVal{StringVal: s}}
}

func c13Uint(u uint64) *gnmi.TypedValue {
	return &gnmi.TypedValue{Value: &gnmi.TypedValue_UintVal{UintVal: u}}
}

// c13AssertRefused runs the Set without any controller (an accepted Set then blocks until the deadline) and holds the
// outcome against "refused before being logged": an error, and no transaction in the log.
func c13AssertRefused(t *testing.T, test *testContext, name string, req *gnmi.SetRequest) {
	ctx, cancel := context.WithTimeout(context.Background(), 500*time.Millisecond)
	defer cancel()
	before, err := test.transaction.List(context.TODO())
	assert.NoError(t, err)
	_, err = test.server.Set(ctx, req)
	assert.Error(t, err, name)
	after, lerr := test.transaction.List(context.TODO())
	assert.NoError(t, lerr)
	if len(after) != len(before) {
		tx := after[len(after)-1]
		t.Errorf("%s: the Set must be refused, but it was logged as transaction %d with change %v (Set returned: %v)",
			name, tx.Index, tx.GetChange().GetValues(), err)
	}
}

// F1: a delete is accepted for paths that are not paths of the model.
func Test_C13_DeleteOfNonModelPathIsRefused(t *testing.T) {
	test := createServer(t)
	defer test.atomix.Close()
	defer test.mctl.Finish()
	c13Setup(test, c13Type, nil)

	cases := map[string]*gnmi.Path{
		// "leaf2" is no node of the model ("leaf2a", "leaf2b" ... are; "leaf2c" is read-only)
		"partial leaf name /cont1a/cont2a/leaf2": c13Path(c13Target, c13E("cont1a"), c13E("cont2a"), c13E("leaf2")),
		"partial container name /c":              c13Path(c13Target, c13E("c")),
		"unknown key name":                       c13Path(c13Target, c13E("cont1a"), c13E("list2a", "bogus", "x"), c13E("tx-power")),
		"key on a container":                     c13Path(c13Target, c13E("cont1a", "x", "y"), c13E("cont2a"), c13E("leaf2a")),
		"list leaf without key":                  c13Path(c13Target, c13E("cont1a"), c13E("list2a"), c13E("tx-power")),
		"bracket group in front of a name":       c13Path(c13Target, c13E("[a=b]cont1a"), c13E("cont2a")),
	}
	for name, p := range cases {
		c13AssertRefused(t, test, name, &gnmi.SetRequest{Delete: []*gnmi.Path{p}})
	}
}

// F1 (consequence): the Set is answered with an error, yet all of it - including the valid update - is committed.
func Test_C13_SetAnsweredWithErrorChangesNothing(t *testing.T) {
	test := createServer(t)
	defer test.atomix.Close()
	defer test.mctl.Finish()
	c13Setup(test, c13Type, nil)
	test.startControllers(t)
	defer test.stopControllers()

	ctx, cancel := context.WithTimeout(context.Background(), 10*time.Second)
	defer cancel()
	_, err := test.server.Set(ctx, &gnmi.SetRequest{
		Update: []*gnmi.Update{{Path: c13Path(c13Target, c13E("cont1a"), c13E("leaf1a")), Val: c13Str("changed")}},
		Delete: []*gnmi.Path{c13Path(c13Target, c13E("[a=b]cont1a"), c13E("cont2a"))},
	})
	if assert.Error(t, err, "the delete names no model path") {
		t.Logf("Set returned: %v", err)
		time.Sleep(500 * time.Millisecond)
		txs, lerr := test.transaction.List(context.TODO())
		assert.NoError(t, lerr)
		assert.Len(t, txs, 0, "a Set that was answered with an error must not be in the transaction log")
		config, gerr := test.configuration.Get(context.TODO(), configuration.NewID(c13Target, c13Type, c13Version))
		if gerr == nil {
			_, changed := config.Values["/cont1a/leaf1a"]
			assert.False(t, changed, "a Set that was answered with an error must not change the configuration: %v", config.Values)
		}
	}
}

// F2: a delete and an update of one path in one request: gNMI processes deletes first, then replaces, then updates
// (gNMI specification 3.4.3), so the update is what must remain.
func Test_C13_DeleteAndUpdateOfSamePath(t *testing.T) {
	test := createServer(t)
	defer test.atomix.Close()
	defer test.mctl.Finish()
	c13Setup(test, c13Type, nil)
	test.startControllers(t)
	defer test.stopControllers()

	leaf := func() *gnmi.Path { return c13Path(c13Target, c13E("cont1a"), c13E("leaf1a")) }
	ctx, cancel := context.WithTimeout(context.Background(), 10*time.Second)
	defer cancel()
	resp, err := test.server.Set(ctx, &gnmi.SetRequest{
		Delete: []*gnmi.Path{leaf()},
		Update: []*gnmi.Update{{Path: leaf(), Val: c13Str("new-value")}},
	})
	assert.NoError(t, err)
	if resp != nil {
		for _, r := range resp.Response {
			t.Logf("response: %s %s", r.Op, r.Path)
		}
	}
	config, err := test.configuration.Get(context.TODO(), configuration.NewID(c13Target, c13Type, c13Version))
	assert.NoError(t, err)
	if config != nil {
		v := config.Values["/cont1a/leaf1a"]
		if assert.NotNil(t, v) {
			assert.False(t, v.Deleted, "the update of /cont1a/leaf1a was dropped, the path is recorded as deleted")
			assert.Equal(t, "new-value", v.Value.ValueToString())
		}
	}
}

// F3: the value of a key leaf is held against any index of that name in the path, not against the key of its own list.
func Test_C13_KeyLeafContradictingItsOwnKey(t *testing.T) {
	test := createServer(t)
	defer test.atomix.Close()
	defer test.mctl.Finish()
	c13Setup(test, c13Type, nil)

	// /components/component[name=cpu0]/properties/property[name=speed]/name = "cpu0"
	c13AssertRefused(t, test, "key leaf of the inner list set to the key of the outer list", &gnmi.SetRequest{
		Update: []*gnmi.Update{{
			Path: c13Path(c13Target, c13E("components"), c13E("component", "name", "cpu0"), c13E("properties"),
				c13E("property", "name", "speed"), c13E("name")),
			Val: c13Str("cpu0"),
		}},
	})
}

// F4: what the JSON branch puts into the transaction is not held against anything: not against the writable paths,
// not against the key value pattern.
func Test_C13_JsonUpdateIsCheckedLikePathUpdate(t *testing.T) {
	t.Run("empty key value", func(t *testing.T) {
		test := createServer(t)
		defer test.atomix.Close()
		defer test.mctl.Finish()
		// what a plain decomposition of {"list2a":[{"name":"","tx-power":5}]} under /cont1a yields
		c13Setup(test, c13Type, []*configapi.PathValue{
			{Path: "/cont1a/list2a[name=]/name", Value: *configapi.NewTypedValueString("")},
			{Path: "/cont1a/list2a[name=]/tx-power", Value: *configapi.NewTypedValueUint(5, 16)},
		})
		test.startControllers(t)
		defer test.stopControllers()
		ctx, cancel := context.WithTimeout(context.Background(), 10*time.Second)
		defer cancel()
		_, err := test.server.Set(ctx, &gnmi.SetRequest{
			Update: []*gnmi.Update{{
				Path: c13Path(c13Target, c13E("cont1a")),
				Val:  &gnmi.TypedValue{Value: &gnmi.TypedValue_JsonVal{JsonVal: []byte(`{"list2a":[{"name":"","tx-power":5}]}`)}},
			}},
		})
		if assert.Error(t, err) {
			t.Logf("Set returned: %v", err)
			time.Sleep(500 * time.Millisecond)
			txs, lerr := test.transaction.List(context.TODO())
			assert.NoError(t, lerr)
			assert.Len(t, txs, 0, "a Set that was answered with an error must not be in the transaction log")
		}
	})
	t.Run("path that is not writable", func(t *testing.T) {
		test := createServer(t)
		defer test.atomix.Close()
		defer test.mctl.Finish()
		// /cont1a/cont2a/leaf2c is the read-only leaf of the model
		c13Setup(test, c13Type, []*configapi.PathValue{
			{Path: "/cont1a/cont2a/leaf2c", Value: *configapi.NewTypedValueString("x")},
		})
		c13AssertRefused(t, test, "read-only leaf in a JSON document", &gnmi.SetRequest{
			Update: []*gnmi.Update{{
				Path: c13Path(c13Target, c13E("cont1a")),
				Val:  &gnmi.TypedValue{Value: &gnmi.TypedValue_JsonVal{JsonVal: []byte(`{"cont2a":{"leaf2c":"x"}}`)}},
			}},
		})
	})
}

// F5: Set files the change under the type as it is spelled in topo (or in the override), Get and every other reader
// look it up under the name the plugin reports; the plugin registry folds case, so both spellings are "known".
func Test_C13_SetAndGetResolveOneTargetToOneConfiguration(t *testing.T) {
	test := createServer(t)
	defer test.atomix.Close()
	defer test.mctl.Finish()
	c13Setup(test, "TestDevice", nil) // the Configurable aspect says "TestDevice", the plugin calls itself "testdevice"
	test.startControllers(t)
	defer test.stopControllers()

	ctx, cancel := context.WithTimeout(context.Background(), 10*time.Second)
	defer cancel()
	_, err := test.server.Set(ctx, &gnmi.SetRequest{
		Update: []*gnmi.Update{{Path: c13Path(c13Target, c13E("cont1a"), c13E("leaf1a")), Val: c13Str("hello")}},
	})
	assert.NoError(t, err)

	resp, err := test.server.Get(ctx, &gnmi.GetRequest{
		Path:     []*gnmi.Path{c13Path(c13Target, c13E("cont1a"), c13E("leaf1a"))},
		Encoding: gnmi.Encoding_PROTO,
	})
	assert.NoError(t, err, "Get of what was just Set")
	if resp != nil && assert.Len(t, resp.Notification, 1) && assert.Len(t, resp.Notification[0].Update, 1) {
		assert.Equal(t, "hello", resp.Notification[0].Update[0].Val.GetStringVal())
	}
	configs, err := test.configuration.List(context.TODO())
	assert.NoError(t, err)
	for _, c := range configs {
		t.Logf("configuration %s: %d values", c.ID, len(c.Values))
	}
}

// F6: an extension that carries a value outside of the enumeration is not refused; the Set is logged and carried out
// but never answered.
func Test_C13_StrategyOutsideOfEnumerationIsRefused(t *testing.T) {
	test := createServer(t)
	defer test.atomix.Close()
	defer test.mctl.Finish()
	c13Setup(test, c13Type, nil)
	test.startControllers(t)
	defer test.stopControllers()

	strategy := configapi.TransactionStrategy{Synchronicity: configapi.TransactionStrategy_Synchronicity(7)}
	b, err := strategy.Marshal()
	assert.NoError(t, err)
	ctx, cancel := context.WithTimeout(context.Background(), 3*time.Second)
	defer cancel()
	_, err = test.server.Set(ctx, &gnmi.SetRequest{
		Update: []*gnmi.Update{{Path: c13Path(c13Target, c13E("cont1a"), c13E("leaf1a")), Val: c13Str("hello")}},
		Extension: []*gnmi_ext.Extension{{Ext: &gnmi_ext.Extension_RegisteredExt{
			RegisteredExt: &gnmi_ext.RegisteredExtension{Id: configapi.TransactionStrategyExtensionID, Msg: b}}}},
	})
	assert.Error(t, err)
	t.Logf("Set returned: %v", err)
	txs, lerr := test.transaction.List(context.TODO())
	assert.NoError(t, lerr)
	for _, tx := range txs {
		t.Errorf("malformed extension, yet transaction %d was logged and is %s", tx.Index, tx.Status.State)
	}
}

// F7: with a prefix and an empty path the effective path is the prefix; the code appends "/" to it.
func Test_C13_PrefixWithEmptyPath(t *testing.T) {
	test := createServer(t)
	defer test.atomix.Close()
	defer test.mctl.Finish()
	c13Setup(test, c13Type, nil)
	test.startControllers(t)
	defer test.stopControllers()

	ctx, cancel := context.WithTimeout(context.Background(), 10*time.Second)
	defer cancel()
	_, err := test.server.Set(ctx, &gnmi.SetRequest{
		Prefix: c13Path(c13Target, c13E("cont1a"), c13E("cont2a"), c13E("leaf2a")),
		Update: []*gnmi.Update{{Path: &gnmi.Path{}, Val: c13Uint(11)}},
	})
	assert.NoError(t, err, "update: prefix /cont1a/cont2a/leaf2a + empty path")
	_, err = test.server.Set(ctx, &gnmi.SetRequest{
		Prefix: c13Path(c13Target, c13E("cont1a"), c13E("cont2a")),
		Delete: []*gnmi.Path{{}},
	})
	assert.NoError(t, err, "delete: prefix /cont1a/cont2a + empty path")
}

// F8 (minor): the limit is held against the number of distinct paths, not against the number of operations.
func Test_C13_SizeLimitCountsOperations(t *testing.T) {
	test := createServer(t)
	defer test.atomix.Close()
	defer test.mctl.Finish()
	c13Setup(test, c13Type, nil)
	test.server.gnmiSetSizeLimit = 2

	leaf := func() *gnmi.Path { return c13Path(c13Target, c13E("cont1a"), c13E("leaf1a")) }
	c13AssertRefused(t, test, "3 operations, GNMI_SET_SIZE_LIMIT=2", &gnmi.SetRequest{
		Update: []*gnmi.Update{
			{Path: leaf(), Val: c13Str("a")},
			{Path: leaf(), Val: c13Str("b")},
			{Path: leaf(), Val: c13Str("c")},
		},
	})
}
