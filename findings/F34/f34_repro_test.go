package gnmi

import (
	"context"
	"testing"
	"time"

	baseClient "github.com/openconfig/gnmi/client"
	gclient "github.com/openconfig/gnmi/client/gnmi"
	gpb "github.com/openconfig/gnmi/proto/gnmi"
	"github.com/stretchr/testify/assert"
	"google.golang.org/grpc"
	"google.golang.org/grpc/credentials/insecure"
)

// F34: a poll is relayed to every target of the stream's subscription, whether or not the southbound
// subscription to that target could be opened (the northbound handler discards that error and keeps the
// target). The backing gNMI client writes the poll to its subscription stream without looking: with no
// stream it dereferences nil — in the gRPC handler goroutine of the northbound Subscribe RPC, so one
// subscriber polling an unreachable target takes the server down.
func TestF34PollWithoutOpenSubscription(t *testing.T) {
	conn, err := grpc.Dial("127.0.0.1:1", grpc.WithTransportCredentials(insecure.NewCredentials()))
	assert.NoError(t, err)
	defer conn.Close()
	base, err := gclient.NewFromConn(context.Background(), conn, baseClient.Destination{Addrs: []string{"127.0.0.1:1"}, Timeout: time.Second})
	assert.NoError(t, err)
	c := &client{client: base}

	// never subscribed at all
	var panicked interface{}
	var pollErr error
	func() {
		defer func() { panicked = recover() }()
		pollErr = c.Poll()
	}()
	assert.Nil(t, panicked, "a poll without a subscription must be refused, not crash")
	assert.Error(t, pollErr)

	// a subscription that could not be opened
	ctx, cancel := context.WithCancel(context.Background())
	cancel()
	q := baseClient.Query{Type: baseClient.Poll, SubReq: &gpb.SubscribeRequest{Request: &gpb.SubscribeRequest_Subscribe{Subscribe: &gpb.SubscriptionList{Mode: gpb.SubscriptionList_POLL}}}}
	assert.Error(t, c.Subscribe(ctx, q))
	func() {
		defer func() { panicked = recover() }()
		pollErr = c.Poll()
	}()
	assert.Nil(t, panicked, "a poll after a failed subscription must be refused, not crash")
	assert.Error(t, pollErr)
}
