package gnmi

import (
	"context"
	"math"
	"net"
	"sync/atomic"
	"testing"
	"time"

	baseClient "github.com/openconfig/gnmi/client"
	gclient "github.com/openconfig/gnmi/client/gnmi"
	gpb "github.com/openconfig/gnmi/proto/gnmi"
	"google.golang.org/grpc"
	"google.golang.org/grpc/credentials/insecure"
	"google.golang.org/grpc/test/bufconn"
	"google.golang.org/protobuf/proto"
)

type chattyTarget struct {
	gpb.UnimplementedGNMIServer
}

// Subscribe streams updates as fast as it can, tagged with the first path element of the subscription
func (chattyTarget) Subscribe(stream gpb.GNMI_SubscribeServer) error {
	req, err := stream.Recv()
	if err != nil {
		return err
	}
	tag := req.GetSubscribe().GetSubscription()[0].GetPath().GetElem()[0].GetName()
	payload := make([]byte, 2048)
	for stream.Context().Err() == nil {
		err := stream.Send(&gpb.SubscribeResponse{Response: &gpb.SubscribeResponse_Update{Update: &gpb.Notification{
			Update: []*gpb.Update{{Path: &gpb.Path{Elem: []*gpb.PathElem{{Name: tag}}}, Val: &gpb.TypedValue{Value: &gpb.TypedValue_BytesVal{BytesVal: payload}}}},
		}}})
		if err != nil {
			return err
		}
	}
	return nil
}

func subReq(tag string) *gpb.SubscribeRequest {
	return &gpb.SubscribeRequest{Request: &gpb.SubscribeRequest_Subscribe{Subscribe: &gpb.SubscriptionList{
		Prefix:       &gpb.Path{Target: "t1"},
		Subscription: []*gpb.Subscription{{Path: &gpb.Path{Elem: []*gpb.PathElem{{Name: tag}}}}},
	}}}
}

// Two northbound Subscribe requests for one target: each must keep getting its own responses.
// The southbound client of a target is one object (connManager.targets) that connManager.GetByTarget hands
// to every northbound stream; this test does with it exactly what Server.sendSubscriptionRequest does.
func Test_C12_TwoSubscribersOneTarget(t *testing.T) {
	lis := bufconn.Listen(1 << 20)
	srv := grpc.NewServer()
	gpb.RegisterGNMIServer(srv, chattyTarget{})
	go func() { _ = srv.Serve(lis) }()
	defer srv.Stop()

	cc, err := grpc.Dial("bufnet", grpc.WithContextDialer(func(ctx context.Context, s string) (net.Conn, error) { return lis.DialContext(ctx) }),
		grpc.WithTransportCredentials(insecure.NewCredentials()),
		grpc.WithDefaultCallOptions(grpc.MaxCallRecvMsgSize(math.MaxInt32))) // as connManager.Connect dials
	if err != nil {
		t.Fatal(err)
	}
	defer cc.Close()
	gc, err := gclient.NewFromConn(context.Background(), cc, baseClient.Destination{})
	if err != nil {
		t.Fatal(err)
	}
	shared := &client{client: gc}

	var foreign1, foreign2, own1, own2 atomic.Int64
	subscribe := func(ctx context.Context, tag string, own, foreign *atomic.Int64) {
		q, err := baseClient.NewQuery(subReq(tag))
		if err != nil {
			t.Fatal(err)
		}
		q.NotificationHandler = nil
		q.ProtoHandler = func(msg proto.Message) error { // stands for sctx.stream.Send(resp)
			resp := msg.(*gpb.SubscribeResponse)
			if resp.GetUpdate().GetUpdate()[0].GetPath().GetElem()[0].GetName() == tag {
				own.Add(1)
			} else {
				foreign.Add(1)
			}
			return nil
		}
		if err := shared.Subscribe(ctx, q); err != nil {
			t.Fatal(err)
		}
	}
	ctx1, cancel1 := context.WithCancel(context.Background())
	defer cancel1()
	ctx2, cancel2 := context.WithCancel(context.Background())
	defer cancel2()
	subscribe(ctx1, "one", &own1, &foreign1)
	time.Sleep(100 * time.Millisecond)
	subscribe(ctx2, "two", &own2, &foreign2)
	time.Sleep(2 * time.Second)
	before1, before2 := own1.Load(), own2.Load()
	time.Sleep(1 * time.Second)
	after1, after2 := own1.Load(), own2.Load()
	t.Logf("subscriber one: %d own, %d foreign; subscriber two: %d own, %d foreign", after1, foreign1.Load(), after2, foreign2.Load())
	if foreign1.Load()+foreign2.Load() > 0 {
		t.Errorf("a response of one subscription was handed to the other subscriber")
	}
	if after1 == before1 {
		t.Errorf("subscriber one gets nothing any more (and no status): %d responses in the last second", after1-before1)
	}
	if after2 == before2 {
		t.Errorf("subscriber two gets nothing any more (and no status): %d responses in the last second", after2-before2)
	}
}
