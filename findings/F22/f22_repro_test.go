package values

import (
	"math"
	"testing"

	"github.com/openconfig/gnmi/proto/gnmi"
	"github.com/stretchr/testify/assert"
)

// F22: a gNMI float value NaN is decodable from the wire; NewTypedValueFloat builds a big.Float from
// it, and big.NewFloat panics on NaN.
func TestF22NaNFloatDoesNotPanic(t *testing.T) {
	var err error
	assert.NotPanics(t, func() {
		_, err = GnmiTypedValueToNativeType(&gnmi.TypedValue{Value: &gnmi.TypedValue_FloatVal{FloatVal: float32(math.NaN())}}, nil)
	})
	assert.Error(t, err, "NaN is refused")
	assert.NotPanics(t, func() {
		_, err = GnmiTypedValueToNativeType(&gnmi.TypedValue{Value: &gnmi.TypedValue_LeaflistVal{LeaflistVal: &gnmi.ScalarArray{
			Element: []*gnmi.TypedValue{{Value: &gnmi.TypedValue_FloatVal{FloatVal: float32(math.NaN())}}}}}}, nil)
	})
}
