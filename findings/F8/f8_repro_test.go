package proposal

import (
	"context"
	"testing"

	"github.com/atomix/go-sdk/pkg/test"
	"github.com/golang/mock/gomock"
	configapi "github.com/onosproject/onos-api/go/onos/config/v2"
	pluginmock "github.com/onosproject/onos-config/internal/pluginregistry"
	"github.com/onosproject/onos-config/pkg/store/v2/configuration"
	proposalstore "github.com/onosproject/onos-config/pkg/store/v2/proposal"
	"github.com/stretchr/testify/assert"
)

// F8: deleting a container cascades to its children at commit time (AddDeleteChildren marks every
// stored child as deleted), but the prior values captured for a rollback cover only the paths
// named by the change itself. Rolling the delete back restores a tombstone for /some and leaves
// the two leaves deleted.
func TestF8RollbackOfSubtreeDeleteDoesNotRestoreChildren(t *testing.T) {
	mctl := gomock.NewController(t)
	defer mctl.Finish()
	cluster := test.NewClient()
	defer cluster.Close()
	cfgs, err := configuration.NewAtomixStore(cluster)
	assert.NoError(t, err)
	props, err := proposalstore.NewAtomixStore(cluster)
	assert.NoError(t, err)
	registry := pluginmock.NewMockPluginRegistry(mctl)
	plugin := pluginmock.NewMockModelPlugin(mctl)
	plugin.EXPECT().Validate(gomock.Any(), gomock.Any()).Return(nil).AnyTimes()
	registry.EXPECT().GetPlugin(gomock.Any(), gomock.Any()).Return(plugin, true).AnyTimes()
	r := &Reconciler{proposals: props, configurations: cfgs, pluginRegistry: registry}
	ctx := context.Background()
	target := configapi.TargetID("target-1")
	ttv := configapi.TargetTypeVersion{TargetType: "devicesim", TargetVersion: "1.0.0"}
	str := func(s string) configapi.TypedValue {
		return configapi.TypedValue{Bytes: []byte(s), Type: configapi.ValueType_STRING}
	}

	cfg := &configapi.Configuration{ID: configuration.NewID(target, "devicesim", "1.0.0"), TargetID: target}
	assert.NoError(t, cfgs.Create(ctx, cfg))
	cfg.Index = 1
	cfg.Values = map[string]*configapi.PathValue{
		"/some/a": {Path: "/some/a", Value: str("1"), Index: 1},
		"/some/b": {Path: "/some/b", Value: str("2"), Index: 1},
	}
	cfg.Status.Proposed.Index = 1
	cfg.Status.Committed.Index = 1
	assert.NoError(t, cfgs.Update(ctx, cfg))

	// transaction 2: delete /some
	p2 := &configapi.Proposal{ID: proposalstore.NewID(target, 2), TargetID: target, TransactionIndex: 2, TargetTypeVersion: ttv,
		Details: &configapi.Proposal_Change{Change: &configapi.ChangeProposal{Values: map[string]*configapi.PathValue{
			"/some": {Path: "/some", Deleted: true, Index: 2}}}}}
	assert.NoError(t, props.Create(ctx, p2))
	p2.Status.PrevIndex = 1
	p2.Status.Phases.Validate = &configapi.ProposalValidatePhase{}
	assert.NoError(t, props.UpdateStatus(ctx, p2))
	_, err = r.reconcileValidate(ctx, p2)
	assert.NoError(t, err)
	assert.Equal(t, configapi.ProposalValidatePhase_VALIDATED, p2.Status.Phases.Validate.State)
	p2.Status.Phases.Commit = &configapi.ProposalCommitPhase{}
	assert.NoError(t, props.UpdateStatus(ctx, p2))
	_, err = r.reconcileCommit(ctx, p2)
	assert.NoError(t, err)
	cfg, err = cfgs.Get(ctx, cfg.ID)
	assert.NoError(t, err)
	assert.Equal(t, configapi.Index(2), cfg.Index)

	// transaction 3: roll transaction 2 back
	p3 := &configapi.Proposal{ID: proposalstore.NewID(target, 3), TargetID: target, TransactionIndex: 3, TargetTypeVersion: ttv,
		Details: &configapi.Proposal_Rollback{Rollback: &configapi.RollbackProposal{RollbackIndex: 2}}}
	assert.NoError(t, props.Create(ctx, p3))
	p3.Status.PrevIndex = 2
	p3.Status.Phases.Validate = &configapi.ProposalValidatePhase{}
	assert.NoError(t, props.UpdateStatus(ctx, p3))
	_, err = r.reconcileValidate(ctx, p3)
	assert.NoError(t, err)
	assert.Equal(t, configapi.ProposalValidatePhase_VALIDATED, p3.Status.Phases.Validate.State)
	p3.Status.Phases.Commit = &configapi.ProposalCommitPhase{}
	assert.NoError(t, props.UpdateStatus(ctx, p3))
	_, err = r.reconcileCommit(ctx, p3)
	assert.NoError(t, err)

	cfg, err = cfgs.Get(ctx, cfg.ID)
	assert.NoError(t, err)
	assert.Equal(t, configapi.Index(1), cfg.Index)
	for _, path := range []string{"/some/a", "/some/b"} {
		v, ok := cfg.Values[path]
		if assert.True(t, ok, "%s must be back after the rollback", path) {
			assert.False(t, v.Deleted, "%s is still deleted after rolling the delete of /some back", path)
		}
	}
}
