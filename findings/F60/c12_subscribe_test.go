package gnmi

import (
	"context"
	"testing"
	"time"

	sb "github.com/onosproject/onos-config/pkg/southbound/gnmi"
	"github.com/openconfig/gnmi/proto/gnmi"
	"google.golang.org/grpc/metadata"
	"google.golang.org/protobuf/proto"
)

// fakeSubscribeStream is the server side of one northbound Subscribe call
type fakeSubscribeStream struct {
	ctx  context.Context
	in   chan *gnmi.SubscribeRequest
	sent chan *gnmi.SubscribeResponse
}

func (f *fakeSubscribeStream) Send(r *gnmi.SubscribeResponse) error { f.sent <- r; return nil }
func (f *fakeSubscribeStream) Recv() (*gnmi.SubscribeRequest, error) {
	select {
	case r := <-f.in:
		return r, nil
	case <-f.ctx.Done():
		return nil, f.ctx.Err()
	}
}
func (f *fakeSubscribeStream) SetHeader(metadata.MD) error  { return nil }
func (f *fakeSubscribeStream) SendHeader(metadata.MD) error { return nil }
func (f *fakeSubscribeStream) SetTrailer(metadata.MD)       {}
func (f *fakeSubscribeStream) Context() context.Context     { return f.ctx }
func (f *fakeSubscribeStream) SendMsg(m interface{}) error  { return nil }
func (f *fakeSubscribeStream) RecvMsg(m interface{}) error  { return nil }

// A Subscribe request (ONCE) that names a target onos-config has no connection to must be answered:
// with a response or with a status.
func Test_C12_SubscribeUnknownTargetIsAnswered(t *testing.T) {
	server := &Server{conns: sb.NewConnManager()}
	request := &gnmi.SubscribeRequest{Request: &gnmi.SubscribeRequest_Subscribe{Subscribe: &gnmi.SubscriptionList{
		Prefix:       &gnmi.Path{Target: "no-such-target"},
		Mode:         gnmi.SubscriptionList_ONCE,
		Subscription: []*gnmi.Subscription{{Path: &gnmi.Path{Elem: []*gnmi.PathElem{{Name: "cont1a"}}}}},
	}}}
	wire, err := proto.Marshal(request)
	if err != nil {
		t.Fatal(err)
	}
	decoded := &gnmi.SubscribeRequest{}
	if err := proto.Unmarshal(wire, decoded); err != nil {
		t.Fatal(err)
	}

	ctx, cancel := context.WithCancel(context.Background())
	defer cancel()
	stream := &fakeSubscribeStream{ctx: ctx, in: make(chan *gnmi.SubscribeRequest, 1), sent: make(chan *gnmi.SubscribeResponse, 1)}
	stream.in <- decoded
	status := make(chan error, 1)
	go func() { status <- server.Subscribe(stream) }()

	select {
	case resp := <-stream.sent:
		t.Logf("answered with response %v", resp)
	case err := <-status:
		if err == nil {
			t.Fatalf("the call ended with status OK and without any response")
		}
		t.Logf("answered with status %v", err)
	case <-time.After(3 * time.Second):
		t.Fatalf("neither a response nor a status after 3s: the error of sendSubscriptionRequest is dropped and the handler goes back to Recv")
	}
}
