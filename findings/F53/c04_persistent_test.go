package proposal

import (
	"testing"
	"time"
)

// A target whose Configurable aspect says Persistent is connected and has a master: a change must reach it.
func TestC04PersistentTargetIsNeverConfigured(t *testing.T) {
	e := newC04Env(t, "target-1", true)
	defer e.stop()
	e.startControllers()
	e.connect()
	e.change(set("/a", "1"))
	ok := eventually(5*time.Second, func() bool { return txDone(e.tx(1)) })
	if !ok {
		t.Fatalf("transaction 1 is still applying after 5s on a connected target with a master; nothing was sent to the device\n%s", e.dump())
	}
	if got, want := render(e.device.snapshot()), render(live(e.config().Values)); got != want {
		t.Fatalf("device %s, stored %s", got, want)
	}
}
