package gnmi

import (
	"context"
	"testing"
	"time"

	configapi "github.com/onosproject/onos-api/go/onos/config/v2"
	transactionstore "github.com/onosproject/onos-config/pkg/store/v2/transaction"
	"github.com/openconfig/gnmi/proto/gnmi"
	"github.com/stretchr/testify/assert"
)

// fastControllers stands for controllers that finish a transaction between the handler's
// "create transaction" and "subscribe to its events" steps: when the handler subscribes, the
// transaction is already APPLIED, and the replay shows it exactly that state.
type fastControllers struct {
	transactionstore.Store
	created *configapi.Transaction
}

func (s *fastControllers) Create(ctx context.Context, tx *configapi.Transaction) error {
	err := s.Store.Create(ctx, tx)
	s.created = tx
	return err
}

func (s *fastControllers) Watch(ctx context.Context, ch chan<- configapi.TransactionEvent, opts ...transactionstore.WatchOption) error {
	tx, err := s.Store.Get(ctx, s.created.ID)
	if err != nil {
		return err
	}
	tx.Status.State = configapi.TransactionStatus_APPLIED
	if err := s.Store.UpdateStatus(ctx, tx); err != nil {
		return err
	}
	return s.Store.Watch(ctx, ch, opts...)
}

// F9: an asynchronous Set (the default) waits for COMMITTED only. If the transaction has already
// been applied when the handler subscribes, the replayed state is APPLIED, which the wait loop
// ignores for asynchronous requests: the handler waits until the client gives up, although the
// Set succeeded.
func TestF9AsynchronousSetMissesAppliedTransaction(t *testing.T) {
	test := createServer(t)
	defer test.atomix.Close()
	defer test.mctl.Finish()
	setupTopoAndRegistry(test, "target-1", "devicesim", "1.0.0", false)
	test.server.transactions = &fastControllers{Store: test.server.transactions}

	targetID := configapi.TargetID("target-1")
	request := gnmi.SetRequest{
		Update: []*gnmi.Update{{
			Path: targetPath(t, targetID, "foo"),
			Val:  &gnmi.TypedValue{Value: &gnmi.TypedValue_StringVal{StringVal: "Hello world!"}},
		}},
	}
	ctx, cancel := context.WithTimeout(context.Background(), 3*time.Second)
	defer cancel()
	result, err := test.server.Set(ctx, &request)
	assert.NoError(t, err, "the transaction was committed and applied, the Set must be answered with success")
	assert.NotNil(t, result)
}
