// SPDX-FileCopyrightText: 2020-present Open Networking Foundation <info@opennetworking.org>
//
// SPDX-License-Identifier: Apache-2.0

package transaction

import (
	"context"
	"strings"
	"sync"
	"testing"

	"github.com/atomix/go-sdk/pkg/test"
	"github.com/golang/mock/gomock"
	configapi "github.com/onosproject/onos-api/go/onos/config/v3"
	topoapi "github.com/onosproject/onos-api/go/onos/topo"
	pluginmock "github.com/onosproject/onos-config/internal/pluginregistry"
	gnmimock "github.com/onosproject/onos-config/internal/southbound/gnmi"
	topomock "github.com/onosproject/onos-config/internal/store/topo"
	"github.com/onosproject/onos-config/pkg/southbound/gnmi"
	configurationstore "github.com/onosproject/onos-config/pkg/store/v3/configuration"
	transactionstore "github.com/onosproject/onos-config/pkg/store/v3/transaction"
	"github.com/onosproject/onos-lib-go/pkg/controller"
	"github.com/onosproject/onos-lib-go/pkg/errors"
	gpb "github.com/openconfig/gnmi/proto/gnmi"
	"github.com/stretchr/testify/assert"
)

// f18Configurations fails the next UpdateStatus with the injected error.
type f18Configurations struct {
	configurationstore.Store
	mu   sync.Mutex
	fail error
}

func (s *f18Configurations) UpdateStatus(ctx context.Context, configuration *configapi.Configuration) error {
	s.mu.Lock()
	err := s.fail
	s.fail = nil
	s.mu.Unlock()
	if err != nil {
		return err
	}
	return s.Store.UpdateStatus(ctx, configuration)
}

type f18Device struct {
	mu     sync.Mutex
	values map[string]string
	fail   error
	sets   int
}

func (d *f18Device) set(_ context.Context, request *gpb.SetRequest) (*gpb.SetResponse, error) {
	d.mu.Lock()
	defer d.mu.Unlock()
	d.sets++
	if d.fail != nil {
		return nil, d.fail
	}
	for _, update := range request.Update {
		var sb strings.Builder
		for _, elem := range update.Path.Elem {
			sb.WriteString("/" + elem.Name)
		}
		d.values[sb.String()] = update.Val.GetStringVal()
	}
	return &gpb.SetResponse{}, nil
}

type f18Env struct {
	r              *Reconciler
	transactions   transactionstore.Store
	configurations *f18Configurations
	device         *f18Device
	target         configapi.Target
	plugins        *pluginmock.MockPluginRegistry
	done           func()
}

func f18Change(target configapi.Target, index configapi.Index, key, path, value string) *configapi.Transaction {
	return &configapi.Transaction{
		ObjectMeta: configapi.ObjectMeta{Key: key},
		ID:         configapi.TransactionID{Target: target},
		Values: map[string]configapi.PathValue{path: {Path: path, Index: index,
			Value: configapi.TypedValue{Bytes: []byte(value), Type: configapi.ValueType_STRING}}},
		Status: configapi.TransactionStatus{
			Phase: configapi.TransactionStatus_CHANGE,
			Change: configapi.TransactionChangeStatus{
				Commit: &configapi.TransactionPhaseStatus{State: configapi.TransactionPhaseStatus_PENDING},
				Apply:  &configapi.TransactionPhaseStatus{State: configapi.TransactionPhaseStatus_PENDING},
			},
		},
	}
}

func f18Setup(t *testing.T, pluginPresent func() bool, validateCapabilities bool) *f18Env {
	ctx := context.Background()
	cluster := test.NewClient()
	transactions, err := transactionstore.NewAtomixStore(cluster)
	assert.NoError(t, err)
	realConfigurations, err := configurationstore.NewAtomixStore(cluster)
	assert.NoError(t, err)
	configurations := &f18Configurations{Store: realConfigurations}

	const nodeID = configapi.NodeID("onos-config-0")
	const relationID = topoapi.ID("onos-config-0-controls-target-1")
	target := configapi.Target{ID: "target-1", Type: "devicesim", Version: "1.0.0"}
	mctl := gomock.NewController(t)

	entity := &topoapi.Object{ID: topoapi.ID(target.ID), Type: topoapi.Object_ENTITY,
		Obj: &topoapi.Object_Entity{Entity: &topoapi.Entity{KindID: "devicesim"}}}
	if validateCapabilities {
		assert.NoError(t, entity.SetAspect(&topoapi.Configurable{ValidateCapabilities: true}))
	}
	topo := topomock.NewMockStore(mctl)
	topo.EXPECT().Get(gomock.Any(), topoapi.ID(target.ID)).Return(entity, nil).AnyTimes()
	topo.EXPECT().Get(gomock.Any(), relationID).Return(&topoapi.Object{ID: relationID, Type: topoapi.Object_RELATION,
		Obj: &topoapi.Object_Relation{Relation: &topoapi.Relation{KindID: topoapi.CONTROLS, SrcEntityID: topoapi.ID(nodeID), TgtEntityID: topoapi.ID(target.ID)}}}, nil).AnyTimes()

	device := &f18Device{values: map[string]string{}}
	conn := gnmimock.NewMockConn(mctl)
	conn.EXPECT().Set(gomock.Any(), gomock.Any()).DoAndReturn(device.set).AnyTimes()
	conn.EXPECT().Capabilities(gomock.Any(), gomock.Any()).Return(&gpb.CapabilityResponse{}, nil).AnyTimes()
	conns := gnmimock.NewMockConnManager(mctl)
	conns.EXPECT().Get(gomock.Any(), gnmi.ConnID(relationID)).Return(conn, true).AnyTimes()

	plugin := pluginmock.NewMockModelPlugin(mctl)
	plugin.EXPECT().Validate(gomock.Any(), gomock.Any()).Return(nil).AnyTimes()
	plugin.EXPECT().Capabilities(gomock.Any()).Return(&gpb.CapabilityResponse{}).AnyTimes()
	plugins := pluginmock.NewMockPluginRegistry(mctl)
	plugins.EXPECT().GetPlugin(gomock.Any(), gomock.Any()).DoAndReturn(func(_, _ interface{}) (interface{}, bool) {
		return plugin, pluginPresent == nil || pluginPresent()
	}).AnyTimes()

	r := &Reconciler{nodeID: nodeID, transactions: transactions, configurations: configurations, conns: conns, topo: topo, plugins: plugins}
	assert.NoError(t, configurations.Create(ctx, &configapi.Configuration{
		ID:        configapi.ConfigurationID{Target: target},
		Committed: configapi.CommittedConfiguration{Values: map[string]configapi.PathValue{}},
		Applied:   configapi.AppliedConfiguration{Term: 1},
		Status: configapi.ConfigurationStatus{State: configapi.ConfigurationStatus_SYNCHRONIZED,
			Mastership: &configapi.MastershipStatus{Master: configapi.NodeID(relationID), Term: 1}},
	}))
	return &f18Env{r: r, transactions: transactions, configurations: configurations, device: device, target: target, plugins: plugins,
		done: func() { mctl.Finish(); cluster.Close() }}
}

func (e *f18Env) step(index configapi.Index) error {
	_, err := e.r.Reconcile(controller.NewID(configapi.TransactionID{Target: e.target, Index: index}))
	return err
}

func (e *f18Env) tx(t *testing.T, index configapi.Index) *configapi.Transaction {
	transaction, err := e.transactions.Get(context.Background(), configapi.TransactionID{Target: e.target, Index: index})
	assert.NoError(t, err)
	return transaction
}

// F18a: a failed configuration write in commitRollback is answered with success: nothing retries it.
func TestF18aRollbackCommitReportsFailedConfigurationWrite(t *testing.T) {
	e := f18Setup(t, nil, false)
	defer e.done()
	ctx := context.Background()
	assert.NoError(t, e.transactions.Create(ctx, f18Change(e.target, 1, "change-1", "/foo", "one")))
	for i := 0; i < 6; i++ {
		assert.NoError(t, e.step(1))
	}
	transaction := e.tx(t, 1)
	assert.Equal(t, configapi.TransactionPhaseStatus_COMPLETE, transaction.Status.Change.Apply.State)
	// request the rollback the way the northbound does
	transaction.Status.Phase = configapi.TransactionStatus_ROLLBACK
	transaction.Status.Rollback.Commit = &configapi.TransactionPhaseStatus{State: configapi.TransactionPhaseStatus_PENDING}
	transaction.Status.Rollback.Apply = &configapi.TransactionPhaseStatus{State: configapi.TransactionPhaseStatus_PENDING}
	assert.NoError(t, e.transactions.UpdateStatus(ctx, transaction))

	e.configurations.fail = errors.NewUnavailable("injected: store unreachable")
	err := e.step(1)
	assert.Error(t, err, "the failed configuration write must be reported so that the controller retries")
}

// F18b: an unreachable device (typed Unavailable from the southbound client) must not fail the change.
func TestF18bUnavailableDeviceDoesNotFailTheChange(t *testing.T) {
	e := f18Setup(t, nil, false)
	defer e.done()
	ctx := context.Background()
	assert.NoError(t, e.transactions.Create(ctx, f18Change(e.target, 1, "change-1", "/foo", "one")))
	e.device.fail = errors.NewUnavailable("injected: device unreachable")
	for i := 0; i < 6; i++ {
		_ = e.step(1)
	}
	transaction := e.tx(t, 1)
	assert.Equal(t, configapi.TransactionPhaseStatus_IN_PROGRESS, transaction.Status.Change.Apply.State,
		"an unreachable device leaves the apply in progress; it is not a refusal")
	e.device.fail = nil
	for i := 0; i < 3; i++ {
		assert.NoError(t, e.step(1))
	}
	assert.Equal(t, configapi.TransactionPhaseStatus_COMPLETE, e.tx(t, 1).Status.Change.Apply.State)
	assert.Equal(t, "one", e.device.values["/foo"])
}

// F18c: the model plugin disappears between commit and apply of a change: the controller panics
// dereferencing Status.Rollback.Apply, which is nil in the change phase.
func TestF18cMissingPluginInChangeApplyDoesNotPanic(t *testing.T) {
	present := true
	e := f18Setup(t, func() bool { return present }, true)
	defer e.done()
	ctx := context.Background()
	assert.NoError(t, e.transactions.Create(ctx, f18Change(e.target, 1, "change-1", "/foo", "one")))
	for i := 0; i < 3; i++ {
		assert.NoError(t, e.step(1))
	}
	assert.Equal(t, configapi.TransactionPhaseStatus_IN_PROGRESS, e.tx(t, 1).Status.Change.Apply.State)
	present = false
	assert.NotPanics(t, func() { _ = e.step(1) })
	assert.Equal(t, configapi.TransactionPhaseStatus_FAILED, e.tx(t, 1).Status.Change.Apply.State)
	assert.Nil(t, e.tx(t, 1).Status.Rollback.Apply)
}

// F18d (known finding, not repaired): the configuration write of a successful apply is lost to a
// conflict that the wrapper swallows; the transaction is nevertheless recorded COMPLETE, and the
// applied configuration never reflects it.
func TestF18dSwallowedConflictCompletesWithoutConfiguration(t *testing.T) {
	e := f18Setup(t, nil, false)
	defer e.done()
	ctx := context.Background()
	assert.NoError(t, e.transactions.Create(ctx, f18Change(e.target, 1, "change-1", "/foo", "one")))
	for i := 0; i < 3; i++ {
		assert.NoError(t, e.step(1))
	}
	assert.Equal(t, configapi.TransactionPhaseStatus_IN_PROGRESS, e.tx(t, 1).Status.Change.Apply.State)
	e.configurations.fail = errors.NewConflict("injected: concurrent update of the configuration")
	assert.NoError(t, e.step(1))
	configuration, err := e.configurations.Get(ctx, configapi.ConfigurationID{Target: e.target})
	assert.NoError(t, err)
	if e.tx(t, 1).Status.Change.Apply.State == configapi.TransactionPhaseStatus_COMPLETE {
		assert.Equal(t, configapi.Revision(1), configuration.Applied.Revision,
			"transaction 1 is recorded as applied, so the applied configuration must be at its revision")
	}
}
