package proposal

import (
	"context"
	"testing"

	"github.com/atomix/go-sdk/pkg/test"
	configapi "github.com/onosproject/onos-api/go/onos/config/v2"
	"github.com/onosproject/onos-config/pkg/store/v2/configuration"
	proposalstore "github.com/onosproject/onos-config/pkg/store/v2/proposal"
	"github.com/onosproject/onos-lib-go/pkg/controller"
	"github.com/stretchr/testify/assert"
)

// F10: proposal 3 (VALIDATING, PrevIndex 2) waits for Committed.Index == 2 and, as its only
// wake-up, re-queues proposal 2. Proposal 2 aborts and moves the cursors to 2. Reconciling
// proposal 2 afterwards (from proposal 3's re-queue or from the configuration event, which maps
// to Applied.Index = 2) must pass the baton to NextIndex = 3, as COMMITTED and APPLIED do; it
// returns an empty result instead, and nothing else ever re-examines proposal 3.
func TestF10AbortedProposalDoesNotWakeSuccessor(t *testing.T) {
	cluster := test.NewClient()
	defer cluster.Close()
	cfgs, err := configuration.NewAtomixStore(cluster)
	assert.NoError(t, err)
	props, err := proposalstore.NewAtomixStore(cluster)
	assert.NoError(t, err)
	r := &Reconciler{proposals: props, configurations: cfgs}
	ctx := context.Background()
	target := configapi.TargetID("target-1")
	ttv := configapi.TargetTypeVersion{TargetType: "devicesim", TargetVersion: "1.0.0"}

	cfg := &configapi.Configuration{
		ID: configuration.NewID(target, "devicesim", "1.0.0"), TargetID: target, Index: 1,
		Status: configapi.ConfigurationStatus{
			Proposed:  configapi.ProposedConfigurationStatus{Index: 3},
			Committed: configapi.CommittedConfigurationStatus{Index: 1},
			Applied:   configapi.AppliedConfigurationStatus{Index: 1},
		},
	}
	assert.NoError(t, cfgs.Create(ctx, cfg))

	p2 := &configapi.Proposal{ID: proposalstore.NewID(target, 2), TargetID: target, TransactionIndex: 2, TargetTypeVersion: ttv,
		Details: &configapi.Proposal_Change{Change: &configapi.ChangeProposal{}}}
	assert.NoError(t, props.Create(ctx, p2))
	p2.Status.PrevIndex = 1
	p2.Status.NextIndex = 3
	p2.Status.Phases.Abort = &configapi.ProposalAbortPhase{}
	assert.NoError(t, props.UpdateStatus(ctx, p2))

	p3 := &configapi.Proposal{ID: proposalstore.NewID(target, 3), TargetID: target, TransactionIndex: 3, TargetTypeVersion: ttv,
		Details: &configapi.Proposal_Change{Change: &configapi.ChangeProposal{}}}
	assert.NoError(t, props.Create(ctx, p3))
	p3.Status.PrevIndex = 2
	p3.Status.Phases.Validate = &configapi.ProposalValidatePhase{}
	assert.NoError(t, props.UpdateStatus(ctx, p3))

	// proposal 3 waits for proposal 2 and pokes it
	res, err := r.Reconcile(controller.NewID(p3.ID))
	assert.NoError(t, err)
	assert.Equal(t, controller.NewID(p2.ID), res.Requeue)

	// proposal 2 aborts: cursors move to 2
	_, err = r.Reconcile(controller.NewID(p2.ID))
	assert.NoError(t, err)
	cfg, err = cfgs.Get(ctx, cfg.ID)
	assert.NoError(t, err)
	assert.Equal(t, configapi.Index(2), cfg.Status.Committed.Index)

	// every later examination of proposal 2 must hand over to its successor
	res, err = r.Reconcile(controller.NewID(p2.ID))
	assert.NoError(t, err)
	assert.Equal(t, controller.NewID(p3.ID), res.Requeue,
		"ABORTED proposal 2 does not re-queue NextIndex=3: proposal 3 can now validate but nothing wakes it")
}
