package utils

import (
	"testing"

	configapi "github.com/onosproject/onos-api/go/onos/config/v2"
	"github.com/onosproject/onos-config/pkg/utils/v2/tree"
	"github.com/stretchr/testify/assert"
)

func leaf(path string, deleted bool) *configapi.PathValue {
	return &configapi.PathValue{Path: path, Deleted: deleted, Value: configapi.TypedValue{Bytes: []byte("v"), Type: configapi.ValueType_STRING}}
}

// F6: the subtree relation is a raw string prefix test. Deleting /some/nested also tombstones the
// unrelated sibling /some/nestedx (cascade), and a tombstone for /some/nested prunes /some/nestedx
// and /some/nested-2 from what is persisted, rendered and sent to the device.
func TestF6SiblingsSharingATextualPrefixAreDeleted(t *testing.T) {
	config := map[string]*configapi.PathValue{
		"/some/nested/leaf": leaf("/some/nested/leaf", false),
		"/some/nestedx":     leaf("/some/nestedx", false),
		"/some/nested-2":    leaf("/some/nested-2", false),
	}
	change := map[string]*configapi.PathValue{"/some/nested": leaf("/some/nested", true)}
	cascade := AddDeleteChildren(2, change, config)
	assert.Contains(t, cascade, "/some/nested/leaf", "the child of the deleted container is cascaded")
	assert.NotContains(t, cascade, "/some/nestedx", "a sibling whose name merely starts with the deleted name is not part of the subtree")
	assert.NotContains(t, cascade, "/some/nested-2", "a sibling whose name merely starts with the deleted name is not part of the subtree")

	values := []*configapi.PathValue{
		leaf("/some/nested", true),
		leaf("/some/nested/leaf", false),
		leaf("/some/nestedx", false),
		leaf("/some/nested-2", false),
		leaf("/other", false),
	}
	var kept []string
	for _, pv := range tree.PrunePathValues(values, false) {
		kept = append(kept, pv.Path)
	}
	assert.ElementsMatch(t, []string{"/some/nestedx", "/some/nested-2", "/other"}, kept,
		"pruning the deleted subtree must remove exactly /some/nested and what lies beneath it")
}
