package transaction

import (
	"context"
	"os"
	"os/exec"
	"testing"
	"time"

	"github.com/atomix/go-sdk/pkg/test"
	configapi "github.com/onosproject/onos-api/go/onos/config/v3"
	"github.com/stretchr/testify/assert"
)

// F14: the v3 transaction store's Watch goroutine defers close(ch) and also closes ch explicitly
// when the context is cancelled (and on a list error): cancelling any watch panics with "close of
// closed channel" on a store goroutine, which kills the process. The panic cannot be recovered by
// the test, so the scenario runs in a child process.
func TestF14CancellingAWatchPanics(t *testing.T) {
	if os.Getenv("F14_CHILD") == "1" {
		cluster := test.NewClient()
		defer cluster.Close()
		store, err := NewAtomixStore(cluster)
		if err != nil {
			t.Fatal(err)
		}
		ctx, cancel := context.WithCancel(context.Background())
		ch := make(chan configapi.TransactionEvent)
		if err := store.Watch(ctx, ch); err != nil {
			t.Fatal(err)
		}
		time.Sleep(200 * time.Millisecond)
		cancel()
		time.Sleep(500 * time.Millisecond)
		return
	}
	cmd := exec.Command(os.Args[0], "-test.run", "TestF14CancellingAWatchPanics")
	cmd.Env = append(os.Environ(), "F14_CHILD=1")
	out, err := cmd.CombinedOutput()
	assert.NoError(t, err, "cancelling a watch kills the process:\n%s", tail(string(out)))
}

func tail(s string) string {
	if len(s) > 600 {
		return s[:600]
	}
	return s
}
