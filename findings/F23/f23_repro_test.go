package proposal

import (
	"context"
	"testing"

	"github.com/atomix/go-sdk/pkg/test"
	"github.com/golang/mock/gomock"
	configapi "github.com/onosproject/onos-api/go/onos/config/v2"
	topoapi "github.com/onosproject/onos-api/go/onos/topo"
	pluginmock "github.com/onosproject/onos-config/internal/pluginregistry"
	sbmock "github.com/onosproject/onos-config/internal/southbound/gnmi"
	topomock "github.com/onosproject/onos-config/internal/store/topo"
	controllerutils "github.com/onosproject/onos-config/pkg/controller/utils"
	"github.com/onosproject/onos-config/pkg/store/v2/configuration"
	proposalstore "github.com/onosproject/onos-config/pkg/store/v2/proposal"
	gpb "github.com/openconfig/gnmi/proto/gnmi"
	"github.com/stretchr/testify/assert"
)

// F23: with capability validation enabled, a proposal whose model plugin has disappeared between
// validation and apply is marked FAILED without advancing the applied cursor. The next proposal
// of the target (PrevIndex = this one) then waits for ever on Applied.Index == PrevIndex.
func TestF23ApplyFailedForMissingPluginLeavesAppliedCursor(t *testing.T) {
	mctl := gomock.NewController(t)
	defer mctl.Finish()
	cluster := test.NewClient()
	defer cluster.Close()
	cfgs, err := configuration.NewAtomixStore(cluster)
	assert.NoError(t, err)
	props, err := proposalstore.NewAtomixStore(cluster)
	assert.NoError(t, err)
	topo := topomock.NewMockStore(mctl)
	conns := sbmock.NewMockConnManager(mctl)
	conn := sbmock.NewMockConn(mctl)
	registry := pluginmock.NewMockPluginRegistry(mctl)
	r := &Reconciler{proposals: props, configurations: cfgs, topo: topo, conns: conns, pluginRegistry: registry}
	ctx := context.Background()

	target := configapi.TargetID("target-1")
	entity := &topoapi.Object{ID: topoapi.ID(target), Type: topoapi.Object_ENTITY, Obj: &topoapi.Object_Entity{Entity: &topoapi.Entity{}}}
	assert.NoError(t, entity.SetAspect(&topoapi.Configurable{Type: "devicesim", Version: "1.0.0", ValidateCapabilities: true}))
	relation := &topoapi.Object{ID: "rel-1", Type: topoapi.Object_RELATION, Obj: &topoapi.Object_Relation{Relation: &topoapi.Relation{
		KindID: topoapi.CONTROLS, SrcEntityID: controllerutils.GetOnosConfigID(), TgtEntityID: topoapi.ID(target)}}}
	topo.EXPECT().Get(gomock.Any(), topoapi.ID(target)).Return(entity, nil).AnyTimes()
	topo.EXPECT().Get(gomock.Any(), topoapi.ID("rel-1")).Return(relation, nil).AnyTimes()
	conns.EXPECT().Get(gomock.Any(), gomock.Any()).Return(conn, true).AnyTimes()
	conn.EXPECT().Capabilities(gomock.Any(), gomock.Any()).Return(&gpb.CapabilityResponse{}, nil).AnyTimes()
	registry.EXPECT().GetPlugin(gomock.Any(), gomock.Any()).Return(nil, false).AnyTimes() // the plugin has gone

	cfg := &configapi.Configuration{
		ID:       configuration.NewID(target, "devicesim", "1.0.0"),
		TargetID: target,
		Status: configapi.ConfigurationStatus{
			State:      configapi.ConfigurationStatus_SYNCHRONIZED,
			Mastership: configapi.MastershipInfo{Master: "rel-1", Term: 1},
			Proposed:   configapi.ProposedConfigurationStatus{Index: 2},
			Committed:  configapi.CommittedConfigurationStatus{Index: 2},
			Applied:    configapi.AppliedConfigurationStatus{Index: 1, Mastership: configapi.MastershipInfo{Master: "rel-1", Term: 1}},
		},
	}
	assert.NoError(t, cfgs.Create(ctx, cfg))

	p2 := &configapi.Proposal{
		ID: proposalstore.NewID(target, 2), TargetID: target, TransactionIndex: 2,
		TargetTypeVersion: configapi.TargetTypeVersion{TargetType: "devicesim", TargetVersion: "1.0.0"},
		Details:           &configapi.Proposal_Change{Change: &configapi.ChangeProposal{}},
	}
	assert.NoError(t, props.Create(ctx, p2))
	p2.Status.PrevIndex = 1
	p2.Status.Phases.Apply = &configapi.ProposalApplyPhase{}
	assert.NoError(t, props.UpdateStatus(ctx, p2))

	_, err = r.reconcileApply(ctx, p2)
	assert.NoError(t, err)
	p2, err = props.Get(ctx, p2.ID)
	assert.NoError(t, err)
	assert.Equal(t, configapi.ProposalApplyPhase_FAILED, p2.Status.Phases.Apply.State)

	cfg, err = cfgs.Get(ctx, cfg.ID)
	assert.NoError(t, err)
	assert.Equal(t, configapi.Index(2), cfg.Status.Applied.Index,
		"proposal 2's apply FAILED but the applied cursor is still on its predecessor: proposal 3 (PrevIndex=2) can never be applied")
}
