// SPDX-FileCopyrightText: 2020-present Open Networking Foundation <info@opennetworking.org>
//
// SPDX-License-Identifier: Apache-2.0

package gnmi

import (
	"context"
	"net"
	"testing"

	sb "github.com/onosproject/onos-config/pkg/southbound/gnmi"
	"github.com/openconfig/gnmi/proto/gnmi"
	"github.com/stretchr/testify/assert"
	"github.com/stretchr/testify/require"
	"google.golang.org/grpc"
	"google.golang.org/grpc/codes"
	"google.golang.org/grpc/credentials/insecure"
	"google.golang.org/grpc/status"
)

// The refusals of Subscribe, as a gNMI client sees them over gRPC. Get and Set answer a malformed request
// with INVALID_ARGUMENT and an unknown target with NOT_FOUND (errors.Status(err).Err()); Subscribe has to
// refuse with the status of its error as well, not with UNKNOWN.
func TestC19_StatusCode_Refusals(t *testing.T) {
	conns := sb.NewConnManager()
	c19StartTarget(t, conns, "target-1", nil)

	lis, err := net.Listen("tcp", "127.0.0.1:0")
	require.NoError(t, err)
	nb := grpc.NewServer()
	gnmi.RegisterGNMIServer(nb, &Server{conns: conns})
	go func() { _ = nb.Serve(lis) }()
	defer nb.Stop()

	cc, err := grpc.Dial(lis.Addr().String(), grpc.WithTransportCredentials(insecure.NewCredentials()))
	require.NoError(t, err)
	defer cc.Close()
	client := gnmi.NewGNMIClient(cc)

	refusal := func(reqs ...*gnmi.SubscribeRequest) error {
		ctx, cancel := context.WithTimeout(context.Background(), c19Timeout)
		defer cancel()
		stream, err := client.Subscribe(ctx)
		require.NoError(t, err)
		for _, req := range reqs {
			require.NoError(t, stream.Send(req))
		}
		_, err = stream.Recv()
		return err
	}

	t.Run("poll before subscribing", func(t *testing.T) {
		err := refusal(c19Poll())
		require.Error(t, err)
		assert.Equal(t, codes.InvalidArgument.String(), status.Code(err).String(), err.Error())
	})
	t.Run("no target named", func(t *testing.T) {
		err := refusal(c19Subscribe(gnmi.SubscriptionList_STREAM, nil, c19Path("", "a")))
		require.Error(t, err)
		assert.Equal(t, codes.InvalidArgument.String(), status.Code(err).String(), err.Error())
	})
	t.Run("second subscription", func(t *testing.T) {
		sub := c19Subscribe(gnmi.SubscriptionList_STREAM, c19Path("target-1"), c19Path("", "a"))
		err := refusal(sub, sub)
		require.Error(t, err)
		assert.Equal(t, codes.InvalidArgument.String(), status.Code(err).String(), err.Error())
	})
	t.Run("unknown target", func(t *testing.T) {
		err := refusal(c19Subscribe(gnmi.SubscriptionList_STREAM, c19Path("no-such-target"), c19Path("", "a")))
		require.Error(t, err)
		assert.Equal(t, codes.NotFound.String(), status.Code(err).String(), err.Error())
	})
}
