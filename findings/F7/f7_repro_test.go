package utils

import (
	"testing"

	configapi "github.com/onosproject/onos-api/go/onos/config/v2"
	"github.com/stretchr/testify/assert"
)

// F7: one request that deletes /some and updates /some/nested/path. The cascade is computed inside
// ranges over Go maps and writes entries other than the iteration's own: whether the update
// survives depends on the order in which the two operations happen to be visited.
func TestF7MergeDependsOnMapIterationOrder(t *testing.T) {
	outcomes := map[bool]int{}
	for i := 0; i < 200; i++ {
		str := func(s string) configapi.TypedValue {
			return configapi.TypedValue{Bytes: []byte(s), Type: configapi.ValueType_STRING}
		}
		config := map[string]*configapi.PathValue{
			"/some/nested/path": {Path: "/some/nested/path", Value: str("old"), Index: 1},
		}
		change := map[string]*configapi.PathValue{
			"/some":             {Path: "/some", Deleted: true, Index: 2},
			"/some/nested/path": {Path: "/some/nested/path", Value: str("new"), Index: 2},
		}
		result := AddDeleteChildren(2, change, config)
		outcomes[result["/some/nested/path"].Deleted]++
	}
	assert.Len(t, outcomes, 1, "the same request gives different results from run to run: update kept %d times, lost %d times", outcomes[false], outcomes[true])
}
