package configuration

import (
	"context"
	"fmt"
	"testing"

	"github.com/atomix/go-sdk/pkg/test"
	configapi "github.com/onosproject/onos-api/go/onos/config/v3"
	"github.com/stretchr/testify/assert"
)

// F28: store() hands the address of its range variable to the map transaction (Insert(pv.Path, &pv)).
// The module is built with go 1.19 loop semantics (one variable for the whole loop) and the
// transaction encodes the values at Commit: every entry written in one transaction is the last
// iterated value.
func TestF28EveryValueOfAConfigurationIsStored(t *testing.T) {
	cluster := test.NewClient()
	defer cluster.Close()
	store, err := NewAtomixStore(cluster)
	assert.NoError(t, err)
	values := map[string]configapi.PathValue{}
	for _, p := range []string{"/a", "/b", "/c", "/d"} {
		values[p] = configapi.PathValue{Path: p, Index: 1, Value: configapi.TypedValue{Bytes: []byte("val" + p), Type: configapi.ValueType_STRING}}
	}
	target := configapi.Target{ID: "target-1", Type: "foo", Version: "1"}
	config := &configapi.Configuration{ID: configapi.ConfigurationID{Target: target}}
	config.Committed.Values = values
	assert.NoError(t, store.Create(context.TODO(), config))
	read, err := store.Get(context.TODO(), configapi.ConfigurationID{Target: target})
	assert.NoError(t, err)
	for p := range values {
		got := read.Committed.Values[p]
		assert.Equal(t, p, got.Path, fmt.Sprintf("entry %s holds the value of %s", p, got.Path))
		assert.Equal(t, "val"+p, string(got.Value.Bytes))
	}
}
