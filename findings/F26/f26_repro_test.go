package tree

import (
	"testing"

	configapi "github.com/onosproject/onos-api/go/onos/config/v2"
	"github.com/stretchr/testify/assert"
)

// F26: addPathToTree cuts list keys out of a path element with unchecked strings.Index results. A key
// value containing "]]=" (escaped by StrPathElem as \]\]=) leaves "\]=b]" after the first key; the
// next round slices [eq+1:close] with close < eq+1 and panics. Also an element with '=' and no '['.
func TestF26MalformedListKeysDoNotPanic(t *testing.T) {
	for _, p := range []string{`/l[k=a\]\]=b]/x`, `/a=b/c`, `/l[k=v]x=/y`} {
		values := []*configapi.PathValue{{Path: p, Value: configapi.TypedValue{Bytes: []byte("v"), Type: configapi.ValueType_STRING}}}
		assert.NotPanics(t, func() { _, _ = BuildTree(values, true) }, p)
	}
}
