// SPDX-License-Identifier: Apache-2.0

// Review harness for property C09 ("controllers never strand a transaction that could make progress").
// Goes into pkg/controller/v2/proposal (package proposal).
//
// The harness runs the four REAL v2 controllers (transaction, proposal, configuration, mastership) with
// their REAL watchers on the REAL stores (in-memory Atomix test client). Only the outside world is faked:
// onos-topo (an in-memory topo.Store that delivers events), the gNMI connection manager / device, and the
// model plugin registry.

package proposal

import (
	"context"
	"fmt"
	"sync"
	"sync/atomic"
	"testing"
	"time"

	"github.com/atomix/go-sdk/pkg/test"
	"github.com/golang/mock/gomock"
	adminapi "github.com/onosproject/onos-api/go/onos/config/admin"
	configapi "github.com/onosproject/onos-api/go/onos/config/v2"
	topoapi "github.com/onosproject/onos-api/go/onos/topo"
	pluginmock "github.com/onosproject/onos-config/internal/pluginregistry"
	controllerutils "github.com/onosproject/onos-config/pkg/controller/utils"
	configurationcontroller "github.com/onosproject/onos-config/pkg/controller/v2/configuration"
	mastershipcontroller "github.com/onosproject/onos-config/pkg/controller/v2/mastership"
	transactioncontroller "github.com/onosproject/onos-config/pkg/controller/v2/transaction"
	"github.com/onosproject/onos-config/pkg/pluginregistry"
	"github.com/onosproject/onos-config/pkg/southbound/gnmi"
	"github.com/onosproject/onos-config/pkg/store/v2/configuration"
	proposalstore "github.com/onosproject/onos-config/pkg/store/v2/proposal"
	transactionstore "github.com/onosproject/onos-config/pkg/store/v2/transaction"
	"github.com/onosproject/onos-lib-go/pkg/controller"
	"github.com/onosproject/onos-lib-go/pkg/errors"
	gpb "github.com/openconfig/gnmi/proto/gnmi"
	"github.com/stretchr/testify/assert"
)

const (
	c09Type    = "devicesim"
	c09Version = "1.0.0"
)

// ---------------------------------------------------------------------------------------------------------
// fake onos-topo

type fakeTopo struct {
	mu       sync.Mutex
	objects  map[topoapi.ID]*topoapi.Object
	watchers []chan<- topoapi.Event
}

func newFakeTopo() *fakeTopo {
	return &fakeTopo{objects: make(map[topoapi.ID]*topoapi.Object)}
}

func (s *fakeTopo) publish(eventType topoapi.EventType, object *topoapi.Object) {
	for _, ch := range s.watchers {
		ch := ch
		event := topoapi.Event{Type: eventType, Object: *object}
		go func() { ch <- event }()
	}
}

func (s *fakeTopo) Create(ctx context.Context, object *topoapi.Object) error {
	s.mu.Lock()
	defer s.mu.Unlock()
	if _, ok := s.objects[object.ID]; ok {
		return errors.NewAlreadyExists("object %s exists", object.ID)
	}
	s.objects[object.ID] = object
	s.publish(topoapi.EventType_ADDED, object)
	return nil
}

func (s *fakeTopo) Update(ctx context.Context, object *topoapi.Object) error {
	s.mu.Lock()
	defer s.mu.Unlock()
	s.objects[object.ID] = object
	s.publish(topoapi.EventType_UPDATED, object)
	return nil
}

func (s *fakeTopo) Get(ctx context.Context, id topoapi.ID) (*topoapi.Object, error) {
	s.mu.Lock()
	defer s.mu.Unlock()
	object, ok := s.objects[id]
	if !ok {
		return nil, errors.NewNotFound("object %s not found", id)
	}
	return object, nil
}

func (s *fakeTopo) List(ctx context.Context, filters *topoapi.Filters) ([]topoapi.Object, error) {
	s.mu.Lock()
	defer s.mu.Unlock()
	var objects []topoapi.Object
	for _, object := range s.objects {
		if filters != nil && filters.RelationFilter != nil {
			relation := object.GetRelation()
			if relation == nil || string(relation.KindID) != filters.RelationFilter.RelationKind {
				continue
			}
		}
		objects = append(objects, *object)
	}
	return objects, nil
}

func (s *fakeTopo) Delete(ctx context.Context, object *topoapi.Object) error {
	s.mu.Lock()
	defer s.mu.Unlock()
	if _, ok := s.objects[object.ID]; !ok {
		return errors.NewNotFound("object %s not found", object.ID)
	}
	delete(s.objects, object.ID)
	s.publish(topoapi.EventType_REMOVED, object)
	return nil
}

func (s *fakeTopo) Watch(ctx context.Context, ch chan<- topoapi.Event, filters *topoapi.Filters) error {
	s.mu.Lock()
	defer s.mu.Unlock()
	s.watchers = append(s.watchers, ch)
	for _, object := range s.objects {
		event := topoapi.Event{Type: topoapi.EventType_NONE, Object: *object}
		go func() { ch <- event }()
	}
	return nil
}

// ---------------------------------------------------------------------------------------------------------
// fake southbound

type fakeConn struct {
	gnmi.Conn // the methods the controllers do not call stay nil
	id        gnmi.ConnID
	target    topoapi.ID
	sets      int32
	setFn     func(*gpb.SetRequest) error
}

func (c *fakeConn) ID() gnmi.ConnID      { return c.id }
func (c *fakeConn) TargetID() topoapi.ID { return c.target }
func (c *fakeConn) Set(ctx context.Context, r *gpb.SetRequest) (*gpb.SetResponse, error) {
	atomic.AddInt32(&c.sets, 1)
	if c.setFn != nil {
		if err := c.setFn(r); err != nil {
			return nil, err
		}
	}
	return &gpb.SetResponse{}, nil
}

type fakeConns struct {
	mu    sync.Mutex
	conns map[gnmi.ConnID]gnmi.Conn
}

func (m *fakeConns) Get(ctx context.Context, connID gnmi.ConnID) (gnmi.Conn, bool) {
	m.mu.Lock()
	defer m.mu.Unlock()
	conn, ok := m.conns[connID]
	return conn, ok
}
func (m *fakeConns) GetByTarget(ctx context.Context, targetID topoapi.ID) (gnmi.Client, error) {
	return nil, errors.NewNotFound("not used")
}
func (m *fakeConns) Connect(ctx context.Context, target *topoapi.Object) error { return nil }
func (m *fakeConns) Disconnect(ctx context.Context, targetID topoapi.ID) error { return nil }
func (m *fakeConns) Watch(ctx context.Context, ch chan<- gnmi.Conn) error      { return nil }

// ---------------------------------------------------------------------------------------------------------
// the environment

type c09Env struct {
	t        *testing.T
	mctl     *gomock.Controller
	atomix   *test.Client
	topo     *fakeTopo
	conns    *fakeConns
	registry *pluginmock.MockPluginRegistry
	cfgs     configuration.Store
	props    proposalstore.Store
	txs      transactionstore.Store
	// validate decides what the model plugin says about a candidate configuration (nil: valid)
	validate    func(json []byte) error
	controllers []*controller.Controller
	// ctlProps, if set, is the proposal store handed to the proposal controller (fault injection)
	ctlProps proposalstore.Store
	// ctlTxs, if set, is the transaction store handed to the transaction controller (fault injection)
	ctlTxs transactionstore.Store
}

func newC09Env(t *testing.T) *c09Env {
	env := &c09Env{
		t:      t,
		mctl:   gomock.NewController(t),
		atomix: test.NewClient(),
		topo:   newFakeTopo(),
		conns:  &fakeConns{conns: make(map[gnmi.ConnID]gnmi.Conn)},
	}
	var err error
	env.cfgs, err = configuration.NewAtomixStore(env.atomix)
	assert.NoError(t, err)
	env.props, err = proposalstore.NewAtomixStore(env.atomix)
	assert.NoError(t, err)
	env.txs, err = transactionstore.NewAtomixStore(env.atomix)
	assert.NoError(t, err)

	plugin := pluginmock.NewMockModelPlugin(env.mctl)
	plugin.EXPECT().GetInfo().AnyTimes().Return(&pluginregistry.ModelPluginInfo{
		Info: adminapi.ModelInfo{Name: c09Type, Version: c09Version}})
	plugin.EXPECT().Validate(gomock.Any(), gomock.Any()).AnyTimes().DoAndReturn(
		func(ctx context.Context, json []byte) error {
			if env.validate != nil {
				return env.validate(json)
			}
			return nil
		})
	plugin.EXPECT().Capabilities(gomock.Any()).AnyTimes().Return(&gpb.CapabilityResponse{})
	env.registry = pluginmock.NewMockPluginRegistry(env.mctl)
	env.registry.EXPECT().GetPlugin(gomock.Any(), gomock.Any()).AnyTimes().Return(plugin, true)

	// this onos-config instance
	assert.NoError(t, env.topo.Create(context.TODO(),
		topoapi.NewEntity(controllerutils.GetOnosConfigID(), topoapi.ONOS_CONFIG)))
	return env
}

func (env *c09Env) close() {
	for _, c := range env.controllers {
		c.Stop()
	}
	env.atomix.Close()
}

// addTarget registers a (not yet connected) configurable target in topo
func (env *c09Env) addTarget(id configapi.TargetID) {
	entity := topoapi.NewEntity(topoapi.ID(id), "devicesim")
	assert.NoError(env.t, entity.SetAspect(&topoapi.Configurable{
		Type: c09Type, Version: c09Version, Target: string(id)}))
	assert.NoError(env.t, env.topo.Create(context.TODO(), entity))
}

// connect does what the southbound connection manager and the connection controller do when the gNMI
// connection to the target is up: the connection is registered, then its CONTROLS relation is created
func (env *c09Env) connect(id configapi.TargetID) *fakeConn {
	connID := gnmi.ConnID(fmt.Sprintf("conn-%s", id))
	conn := &fakeConn{id: connID, target: topoapi.ID(id)}
	env.conns.mu.Lock()
	env.conns.conns[connID] = conn
	env.conns.mu.Unlock()
	relation := &topoapi.Object{
		ID:   topoapi.ID(connID),
		Type: topoapi.Object_RELATION,
		Obj: &topoapi.Object_Relation{Relation: &topoapi.Relation{
			KindID:      topoapi.CONTROLS,
			SrcEntityID: controllerutils.GetOnosConfigID(),
			TgtEntityID: topoapi.ID(id),
		}},
	}
	assert.NoError(env.t, env.topo.Create(context.TODO(), relation))
	return conn
}

// startControllers starts the four v2 controllers as pkg/manager wires them
func (env *c09Env) startControllers() {
	if env.ctlProps == nil {
		env.ctlProps = env.props
	}
	if env.ctlTxs == nil {
		env.ctlTxs = env.txs
	}
	env.controllers = []*controller.Controller{
		configurationcontroller.NewController(env.topo, env.conns, env.cfgs),
		NewController(env.topo, env.conns, env.ctlProps, env.cfgs, env.registry),
		transactioncontroller.NewController(env.ctlTxs, env.props),
		mastershipcontroller.NewController(env.topo, env.cfgs),
	}
	for _, c := range env.controllers {
		assert.NoError(env.t, c.Start())
	}
}

// submit appends a change transaction the way the gNMI Set handler does (pkg/northbound/gnmi/v2/set_utils.go)
func (env *c09Env) submit(isolation configapi.TransactionStrategy_Isolation, value string, targets ...configapi.TargetID) *configapi.Transaction {
	targetValues := make(map[configapi.TargetID]string)
	for _, target := range targets {
		targetValues[target] = value
	}
	return env.submitValues(isolation, targetValues)
}

func (env *c09Env) submitValues(isolation configapi.TransactionStrategy_Isolation, targetValues map[configapi.TargetID]string) *configapi.Transaction {
	values := make(map[configapi.TargetID]*configapi.PathValues)
	overrides := &configapi.TargetVersionOverrides{Overrides: make(map[string]*configapi.TargetTypeVersion)}
	for target, value := range targetValues {
		values[target] = &configapi.PathValues{Values: map[string]*configapi.PathValue{
			"/foo": {Path: "/foo", Value: *configapi.NewTypedValueString(value)},
		}}
		overrides.Overrides[string(target)] = &configapi.TargetTypeVersion{TargetType: c09Type, TargetVersion: c09Version}
	}
	tx := &configapi.Transaction{
		Details:                &configapi.Transaction_Change{Change: &configapi.ChangeTransaction{Values: values}},
		TransactionStrategy:    configapi.TransactionStrategy{Isolation: isolation, Synchronicity: configapi.TransactionStrategy_SYNCHRONOUS},
		TargetVersionOverrides: overrides,
	}
	assert.NoError(env.t, env.txs.Create(context.TODO(), tx))
	return tx
}

func (env *c09Env) tx(index configapi.Index) *configapi.Transaction {
	tx, err := env.txs.GetByIndex(context.TODO(), index)
	assert.NoError(env.t, err)
	return tx
}

func (env *c09Env) proposal(target configapi.TargetID, index configapi.Index) *configapi.Proposal {
	p, err := env.props.Get(context.TODO(), proposalstore.NewID(target, index))
	assert.NoError(env.t, err)
	return p
}

// peek is proposal() for polling: an empty proposal while it does not exist yet
func (env *c09Env) peek(target configapi.TargetID, index configapi.Index) *configapi.Proposal {
	p, err := env.props.Get(context.TODO(), proposalstore.NewID(target, index))
	if err != nil {
		return &configapi.Proposal{}
	}
	return p
}

func (env *c09Env) config(target configapi.TargetID) *configapi.Configuration {
	c, err := env.cfgs.Get(context.TODO(), configuration.NewID(target, c09Type, c09Version))
	assert.NoError(env.t, err)
	return c
}

// eventually polls cond; the controllers run on an in-memory store, a step takes well under a millisecond
func (env *c09Env) eventually(what string, timeout time.Duration, cond func() bool) bool {
	deadline := time.Now().Add(timeout)
	for time.Now().Before(deadline) {
		if cond() {
			return true
		}
		time.Sleep(20 * time.Millisecond)
	}
	env.t.Errorf("not reached within %s: %s", timeout, what)
	return false
}

func (env *c09Env) applying(target configapi.TargetID, index configapi.Index) func() bool {
	return func() bool {
		p, err := env.props.Get(context.TODO(), proposalstore.NewID(target, index))
		return err == nil && p.Status.Phases.Apply != nil && p.Status.Phases.Apply.State == configapi.ProposalApplyPhase_APPLYING
	}
}

// versions is a snapshot of the revision of every stored object: two equal snapshots, nothing was written
func (env *c09Env) versions() map[string]uint64 {
	versions := make(map[string]uint64)
	txs, err := env.txs.List(context.TODO())
	assert.NoError(env.t, err)
	for _, tx := range txs {
		versions[fmt.Sprintf("transaction %d", tx.Index)] = tx.Version
	}
	props, err := env.props.List(context.TODO())
	assert.NoError(env.t, err)
	for _, p := range props {
		versions[fmt.Sprintf("proposal %s", p.ID)] = p.Version
	}
	cfgs, err := env.cfgs.List(context.TODO())
	assert.NoError(env.t, err)
	for _, c := range cfgs {
		versions[fmt.Sprintf("configuration %s", c.ID)] = c.Version
	}
	return versions
}

// quiesce waits until nothing has been written for a while: the controllers have no pending work
func (env *c09Env) quiesce() map[string]uint64 {
	last := env.versions()
	stable := 0
	for i := 0; i < 200 && stable < 10; i++ {
		time.Sleep(30 * time.Millisecond)
		now := env.versions()
		if fmt.Sprint(now) == fmt.Sprint(last) {
			stable++
		} else {
			stable = 0
			last = now
		}
	}
	return last
}

func idOf(target configapi.TargetID, index configapi.Index) controller.ID {
	return controller.NewID(proposalstore.NewID(target, index))
}

// flakyProposals is the proposal store with one injected fault: the first status write for which fail()
// says so is answered Unavailable and not performed (a timed-out / refused write, or a crash at that point)
type flakyProposals struct {
	proposalstore.Store
	fail func(*configapi.Proposal) bool
	// interfere, if set, replaces the injected error: it runs just before the selected write, which is then
	// performed for real (what a second onos-config replica does between this replica's read and write)
	interfere func(*configapi.Proposal)
	failed    int32
	gets      int32
}

func (s *flakyProposals) Get(ctx context.Context, id configapi.ProposalID) (*configapi.Proposal, error) {
	atomic.AddInt32(&s.gets, 1)
	return s.Store.Get(ctx, id)
}

func (s *flakyProposals) UpdateStatus(ctx context.Context, proposal *configapi.Proposal) error {
	if s.fail(proposal) && atomic.CompareAndSwapInt32(&s.failed, 0, 1) {
		if s.interfere != nil {
			s.interfere(proposal)
			return s.Store.UpdateStatus(ctx, proposal)
		}
		return errors.NewUnavailable("injected: write of proposal %s not performed", proposal.ID)
	}
	return s.Store.UpdateStatus(ctx, proposal)
}

// lostReplyTransactions is the transaction store with one injected fault: the first status write for which
// lose() says so IS performed, but its reply is lost (the caller sees a timeout)
type lostReplyTransactions struct {
	transactionstore.Store
	lose func(*configapi.Transaction) bool
	lost int32
}

func (s *lostReplyTransactions) UpdateStatus(ctx context.Context, transaction *configapi.Transaction) error {
	if s.lose(transaction) && atomic.CompareAndSwapInt32(&s.lost, 0, 1) {
		if err := s.Store.UpdateStatus(ctx, transaction); err != nil {
			return err
		}
		return errors.NewTimeout("injected: reply to the write of transaction %d lost", transaction.Index)
	}
	return s.Store.UpdateStatus(ctx, transaction)
}
