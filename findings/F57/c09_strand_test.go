// SPDX-License-Identifier: Apache-2.0

package proposal

import (
	"context"
	"github.com/onosproject/onos-lib-go/pkg/errors"
	"strings"
	"sync/atomic"
	"testing"
	"time"

	configapi "github.com/onosproject/onos-api/go/onos/config/v2"
	"github.com/stretchr/testify/assert"
)

// Control: one change submitted while the target is down is applied as soon as the target connects.
func TestC09_Control_ChangeAppliedWhenTargetConnects(t *testing.T) {
	env := newC09Env(t)
	defer env.close()
	env.addTarget("a")
	env.startControllers()

	env.submit(configapi.TransactionStrategy_SERIALIZABLE, "one", "a")
	if !env.eventually("proposal a-1 waits in APPLYING for the target", 10*time.Second, env.applying("a", 1)) {
		return
	}
	env.quiesce()

	conn := env.connect("a")
	env.eventually("transaction 1 APPLIED after the target connected", 10*time.Second, func() bool {
		return env.tx(1).Status.State == configapi.TransactionStatus_APPLIED
	})
	assert.Equal(t, int32(1), conn.sets)
}

// F1. The very first change of a target (Applied.Index == 0) waits in APPLYING for the target to connect.
// A second change is committed behind it and - correctly - waits for the first, which is SERIALIZABLE, to be
// applied before it starts its own apply phase. When the target connects, every configuration event
// (new master, SYNCHRONIZING, SYNCHRONIZED) is mapped by ConfigurationWatcher to proposals
// {Index=2, Applied.Index=0, Proposed.Index=2} = {a-2, a-0, a-2}. a-2 is COMMITTED with no apply phase: it
// neither does anything nor pokes its predecessor. a-1, the only proposal the event enables, is never examined.
func TestC09_F1_FirstChangeStrandedBehindCommittedSuccessor(t *testing.T) {
	env := newC09Env(t)
	defer env.close()
	env.addTarget("a")
	env.startControllers()

	env.submit(configapi.TransactionStrategy_SERIALIZABLE, "one", "a")
	if !env.eventually("proposal a-1 waits in APPLYING for the target", 10*time.Second, env.applying("a", 1)) {
		return
	}
	env.submit(configapi.TransactionStrategy_DEFAULT, "two", "a")
	if !env.eventually("transaction 2 COMMITTED", 10*time.Second, func() bool {
		return env.tx(2).Status.State == configapi.TransactionStatus_COMMITTED
	}) {
		return
	}
	env.quiesce()
	assert.Nil(t, env.proposal("a", 2).Status.Phases.Apply, "transaction 2 must wait for serializable transaction 1")

	// the target connects: mastership is elected, the configuration is synchronized
	conn := env.connect("a")
	env.eventually("configuration of a has a master and is SYNCHRONIZED", 10*time.Second, func() bool {
		c := env.config("a")
		return c.Status.Mastership.Master != "" && c.Status.State == configapi.ConfigurationStatus_SYNCHRONIZED &&
			c.Status.Applied.Mastership.Term == c.Status.Mastership.Term
	})
	before := env.quiesce()

	// PROPERTY (liveness): the target is connected, transaction 1 reaches a final state without prodding
	ok := env.eventually("transaction 1 APPLIED after the target connected", 5*time.Second, func() bool {
		return env.tx(1).Status.State == configapi.TransactionStatus_APPLIED
	})
	if !ok {
		c := env.config("a")
		t.Logf("configuration a: index=%d committed=%d applied=%d proposed=%d master=%q term=%d state=%s; device Sets=%d",
			c.Index, c.Status.Committed.Index, c.Status.Applied.Index, c.Status.Proposed.Index,
			c.Status.Mastership.Master, c.Status.Mastership.Term, c.Status.State, conn.sets)
		t.Logf("proposal a-1 apply=%v ; proposal a-2 commit=%v apply=%v",
			env.proposal("a", 1).Status.Phases.Apply.State, env.proposal("a", 2).Status.Phases.Commit.State, env.proposal("a", 2).Status.Phases.Apply)
	}

	// PROPERTY (fixed point): the controllers are idle, so re-examining proposal a-1 must change nothing
	r := &Reconciler{conns: env.conns, topo: env.topo, proposals: env.props, configurations: env.cfgs, pluginRegistry: env.registry}
	if !ok {
		_, err := r.Reconcile(idOf("a", 1))
		assert.NoError(t, err)
		after := env.versions()
		assert.Equal(t, before, after, "the controllers were idle, yet re-examining a-1 made progress: not a fixed point")
	}
}

// F2. The abort of a proposal is two writes: the configuration cursors are moved onto the proposal, then the
// proposal is marked ABORTED. If the second write is not performed once (store timeout, or the process stops
// between the two), the retry finds Committed.Index == Applied.Index == own index, which none of the three
// branches of reconcileAbort recognises: the proposal stays ABORTING for ever, and - having a predecessor -
// it re-queues the predecessor, which (APPLIED) re-queues it, endlessly.
func TestC09_F2_AbortNotResumableAfterCursorWrite(t *testing.T) {
	// a: the write of ABORTED is not performed once (store timeout / the process stops between the two writes)
	t.Run("write lost", func(t *testing.T) { c09AbortNotResumable(t, false) })
	// b: no fault at all. A second replica links a successor to the proposal (reconcileInitialize writes
	// NextIndex of the predecessor) between this replica's read and its ABORTED write: the write is refused
	// with a version conflict, which updateProposalStatus swallows.
	t.Run("write refused by a concurrent link of the successor", func(t *testing.T) { c09AbortNotResumable(t, true) })
}

func c09AbortNotResumable(t *testing.T, conflict bool) {
	env := newC09Env(t)
	defer env.close()
	env.addTarget("a")
	env.connect("a")
	flaky := &flakyProposals{Store: env.props, fail: func(p *configapi.Proposal) bool {
		return p.Status.Phases.Abort != nil && p.Status.Phases.Abort.State == configapi.ProposalAbortPhase_ABORTED
	}}
	if conflict {
		flaky.interfere = func(p *configapi.Proposal) {
			other := env.proposal("a", p.TransactionIndex)
			other.Status.NextIndex = p.TransactionIndex + 1
			assert.NoError(t, env.props.UpdateStatus(context.TODO(), other))
		}
	}
	env.ctlProps = flaky
	env.validate = func(json []byte) error {
		if strings.Contains(string(json), "invalid") {
			return errors.NewInvalid("value refused by the model")
		}
		return nil
	}
	env.startControllers()

	env.submit(configapi.TransactionStrategy_DEFAULT, "one", "a")
	if !env.eventually("transaction 1 APPLIED", 10*time.Second, func() bool {
		return env.tx(1).Status.State == configapi.TransactionStatus_APPLIED
	}) {
		return
	}
	env.submit(configapi.TransactionStrategy_DEFAULT, "invalid", "a")
	if !env.eventually("transaction 2 FAILED and the ABORTED write of a-2 refused once", 10*time.Second, func() bool {
		return env.tx(2).Status.State == configapi.TransactionStatus_FAILED && atomic.LoadInt32(&flaky.failed) == 1
	}) {
		return
	}

	// PROPERTY: the failed write is retried (the controller library re-runs a reconciliation that returned
	// an error) and the abort completes
	ok := env.eventually("proposal a-2 ABORTED and the abort phase of transaction 2 ABORTED", 8*time.Second, func() bool {
		p := env.proposal("a", 2)
		tx := env.tx(2)
		return p.Status.Phases.Abort.State == configapi.ProposalAbortPhase_ABORTED &&
			tx.Status.Phases.Abort != nil && tx.Status.Phases.Abort.State == configapi.TransactionAbortPhase_ABORTED
	})
	if !ok {
		c := env.config("a")
		t.Logf("configuration a: committed=%d applied=%d ; proposal a-2: prev=%d abort=%s", c.Status.Committed.Index,
			c.Status.Applied.Index, env.proposal("a", 2).Status.PrevIndex, env.proposal("a", 2).Status.Phases.Abort.State)
	}

	// PROPERTY: the controllers come to rest
	before := env.versions()
	gets := atomic.LoadInt32(&flaky.gets)
	time.Sleep(time.Second)
	assert.Equal(t, before, env.versions())
	spin := atomic.LoadInt32(&flaky.gets) - gets
	assert.Less(t, spin, int32(50), "nothing is written any more, yet the proposal controller reconciled %d times in one second", spin)
}

// F4. An abort that finds Committed.Index == PrevIndex but Applied.Index behind (its predecessor is not applied
// yet) moves the committed cursor and stays ABORTING. That write is what the successor's validation waits for,
// but nobody tells the successor: the aborting proposal re-queues only its PREDECESSOR, writes no proposal
// status, and ConfigurationWatcher maps the event to {Index, Applied.Index, Proposed.Index}, none of which is
// the successor when a later proposal (whose transaction waits, correctly, for the serializable successor to
// be validated) is the last proposed one.
//
// Schedule: the validation failure of transaction 2 (on target b) is delivered after transactions 3 and 4
// were initialized - here by a model plugin that takes its time on b.
func TestC09_F4_AbortMovesCommittedCursorWithoutWakingSuccessor(t *testing.T) {
	env := newC09Env(t)
	defer env.close()
	env.addTarget("a") // stays disconnected: nothing below needs the device
	env.addTarget("b")
	release := make(chan struct{})
	env.validate = func(json []byte) error {
		if strings.Contains(string(json), "slow-and-invalid") {
			<-release
			return errors.NewInvalid("value refused by the model")
		}
		return nil
	}
	env.startControllers()
	defer func() {
		select {
		case <-release:
		default:
			close(release)
		}
	}()

	env.submit(configapi.TransactionStrategy_DEFAULT, "one", "a")
	if !env.eventually("a-1 waits in APPLYING for the target", 10*time.Second, env.applying("a", 1)) {
		return
	}
	env.submitValues(configapi.TransactionStrategy_DEFAULT, map[configapi.TargetID]string{"a": "two", "b": "slow-and-invalid"})
	env.submit(configapi.TransactionStrategy_SERIALIZABLE, "three", "a")
	env.submit(configapi.TransactionStrategy_DEFAULT, "four", "a")
	if !env.eventually("a-2 VALIDATED, a-3 VALIDATING (waits for a-2 to be committed), a-4 initialized", 10*time.Second, func() bool {
		p2, p3 := env.peek("a", 2), env.peek("a", 3)
		tx4 := env.tx(4)
		return p2.Status.Phases.Validate != nil && p2.Status.Phases.Validate.State == configapi.ProposalValidatePhase_VALIDATED &&
			p3.Status.Phases.Validate != nil && p3.Status.Phases.Validate.State == configapi.ProposalValidatePhase_VALIDATING &&
			tx4.Status.Phases.Initialize != nil && tx4.Status.Phases.Initialize.State == configapi.TransactionInitializePhase_INITIALIZED
	}) {
		return
	}
	env.quiesce()

	// the model plugin answers for b: transaction 2 fails and is aborted
	close(release)
	if !env.eventually("transaction 2 FAILED and a-2 aborting with the committed cursor on it", 10*time.Second, func() bool {
		return env.tx(2).Status.State == configapi.TransactionStatus_FAILED && env.config("a").Status.Committed.Index == 2
	}) {
		return
	}
	before := env.quiesce()

	// PROPERTY: validation needs no device. a-3 waited for Committed.Index == 2, which now holds.
	ok := env.eventually("serializable transaction 3 VALIDATED", 5*time.Second, func() bool {
		return env.tx(3).Status.State >= configapi.TransactionStatus_VALIDATED
	})
	if !ok {
		c := env.config("a")
		t.Logf("configuration a: index=%d committed=%d applied=%d proposed=%d", c.Index, c.Status.Committed.Index, c.Status.Applied.Index, c.Status.Proposed.Index)
		t.Logf("a-2 abort=%s ; a-3 prev=%d validate=%s ; a-4 validate=%v", env.proposal("a", 2).Status.Phases.Abort.State,
			env.proposal("a", 3).Status.PrevIndex, env.proposal("a", 3).Status.Phases.Validate.State, env.proposal("a", 4).Status.Phases.Validate)

		// PROPERTY (fixed point): the controllers are idle, so re-examining a-3 must change nothing
		r := &Reconciler{conns: env.conns, topo: env.topo, proposals: env.props, configurations: env.cfgs, pluginRegistry: env.registry}
		_, err := r.Reconcile(idOf("a", 3))
		assert.NoError(t, err)
		assert.Equal(t, before, env.versions(), "the controllers were idle, yet re-examining a-3 made progress: not a fixed point")
	}
}

// F5. A proposal that waits in APPLYING for its predecessor re-queues the predecessor; a predecessor that is
// COMMITTED (its transaction has not started the apply phase, here because it waits - correctly - for a
// serializable transaction on a disconnected target) re-queues its successor. Neither changes anything: the two
// re-queue each other at full speed for as long as the wait lasts. The controllers never come to rest.
func TestC09_F5_WaitingSuccessorAndCommittedPredecessorRequeueEachOther(t *testing.T) {
	env := newC09Env(t)
	defer env.close()
	env.addTarget("a")
	env.addTarget("b") // down
	env.connect("a")
	counting := &flakyProposals{Store: env.props, fail: func(p *configapi.Proposal) bool { return false }}
	env.ctlProps = counting
	env.startControllers()

	env.submit(configapi.TransactionStrategy_SERIALIZABLE, "one", "b")
	if !env.eventually("b-1 waits in APPLYING for the target", 10*time.Second, env.applying("b", 1)) {
		return
	}
	env.submit(configapi.TransactionStrategy_DEFAULT, "two", "a", "b") // waits for transaction 1 to be applied
	env.submit(configapi.TransactionStrategy_DEFAULT, "three", "a")    // waits for a-2 to be applied
	if !env.eventually("transaction 2 COMMITTED, a-3 APPLYING", 10*time.Second, func() bool {
		return env.tx(2).Status.State == configapi.TransactionStatus_COMMITTED && env.applying("a", 3)()
	}) {
		return
	}
	before := env.quiesce()

	gets := atomic.LoadInt32(&counting.gets)
	time.Sleep(time.Second)
	spin := atomic.LoadInt32(&counting.gets) - gets
	assert.Equal(t, before, env.versions(), "nothing may be written while everything waits for target b")
	assert.Less(t, spin, int32(50), "everything waits for target b, yet the proposal controller reconciled %d times in one second", spin)
}

// F3. Transaction N+1 waits in INITIALIZING until transaction N is initialized. It is woken by nothing but the
// Requeue that the reconciliation of N returns together with the write that starts N's validation - and only
// if that very call returns without error. If the write is performed but its reply is lost (timeout), the
// reconciliation is retried, finds N already validating, and the re-queue of N+1 is never issued. The same
// happens when the replica that wrote dies before it processes its own re-queue: the store event of N, which
// every replica sees, is mapped to N alone (transaction/watcher.go).
func TestC09_F3_NextTransactionWokenOnlyByTheWritersRequeue(t *testing.T) {
	env := newC09Env(t)
	defer env.close()
	env.addTarget("a")
	env.addTarget("b")
	env.connect("a")
	env.connect("b")
	lossy := &lostReplyTransactions{Store: env.txs, lose: func(tx *configapi.Transaction) bool {
		return tx.Index == 1 && tx.Status.Phases.Validate != nil && tx.Status.Phases.Commit == nil &&
			tx.Status.Phases.Validate.State == configapi.TransactionValidatePhase_VALIDATING && tx.Status.State == configapi.TransactionStatus_PENDING
	}}
	env.ctlTxs = lossy

	// both transactions are in the log when the controllers start: 2 is examined while 1 is still initializing
	env.submit(configapi.TransactionStrategy_DEFAULT, "one", "a")
	env.submit(configapi.TransactionStrategy_DEFAULT, "two", "b")
	env.startControllers()

	if !env.eventually("transaction 1 APPLIED (the reply to the write that started its validation was lost once)", 10*time.Second, func() bool {
		return env.tx(1).Status.State == configapi.TransactionStatus_APPLIED && atomic.LoadInt32(&lossy.lost) == 1
	}) {
		return
	}
	env.quiesce()

	// PROPERTY: transaction 2 (another, connected, target) reaches a final state without prodding
	ok := env.eventually("transaction 2 APPLIED", 5*time.Second, func() bool {
		return env.tx(2).Status.State == configapi.TransactionStatus_APPLIED
	})
	if !ok {
		tx2 := env.tx(2)
		t.Logf("transaction 1: %s ; transaction 2: state=%s initialize=%s proposals=%v", env.tx(1).Status.State, tx2.Status.State,
			tx2.Status.Phases.Initialize.State, tx2.Status.Proposals)
	}
}
