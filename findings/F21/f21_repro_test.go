package gnmi

import (
	"context"
	"testing"
	"time"

	configapi "github.com/onosproject/onos-api/go/onos/config/v2"
	"github.com/openconfig/gnmi/proto/gnmi"
	"github.com/openconfig/gnmi/proto/gnmi_ext"
	"github.com/stretchr/testify/assert"
)

// F21: a target-version-overrides extension whose map entry carries a key and no value decodes to a
// nil *TargetTypeVersion; getTargetInfo dereferences it under "ok" and the Set handler panics.
func TestF21OverridesEntryWithoutValue(t *testing.T) {
	test := createServer(t)
	defer test.atomix.Close()
	defer test.mctl.Finish()
	setupTopoAndRegistry(test, "target-1", "devicesim", "1.0.0", false)
	test.startControllers(t)
	defer test.stopControllers()

	// field 1 (map entry), length 10: { field 1 (key), length 8, "target-1" } — no value field
	entry := append([]byte{0x0a, 0x08}, []byte("target-1")...)
	payload := append([]byte{0x0a, byte(len(entry))}, entry...)
	decoded := &configapi.TargetVersionOverrides{}
	assert.NoError(t, decoded.Unmarshal(payload))
	v, present := decoded.Overrides["target-1"]
	assert.True(t, present)
	assert.Nil(t, v, "a key without value decodes to a nil element")

	request := &gnmi.SetRequest{
		Update: []*gnmi.Update{{Path: targetPath(t, "target-1", "foo"),
			Val: &gnmi.TypedValue{Value: &gnmi.TypedValue_StringVal{StringVal: "Hello world!"}}}},
		Extension: []*gnmi_ext.Extension{{Ext: &gnmi_ext.Extension_RegisteredExt{
			RegisteredExt: &gnmi_ext.RegisteredExtension{Id: configapi.TargetVersionOverridesID, Msg: payload}}}},
	}
	time.Sleep(200 * time.Millisecond)
	var panicked interface{}
	func() {
		defer func() { panicked = recover() }()
		_, _ = test.server.Set(context.TODO(), request)
	}()
	assert.Nil(t, panicked, "the Set handler must answer, not panic")
}
