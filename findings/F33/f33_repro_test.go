package gnmi

import (
	"context"
	"testing"
	"time"

	baseClient "github.com/openconfig/gnmi/client"
	gclient "github.com/openconfig/gnmi/client/gnmi"
	gpb "github.com/openconfig/gnmi/proto/gnmi"
	"github.com/stretchr/testify/assert"
	"google.golang.org/grpc"
	"google.golang.org/grpc/credentials/insecure"
)

// F33: client.Subscribe starts the goroutine that reads the subscription stream before it looks at
// the error of the call that opens the stream. When that call fails (the RPC cannot be initialised:
// cancelled context, connection being closed, device gone) no stream exists, and the goroutine's first
// Recv dereferences the nil stream: a panic in a goroutine that nothing can recover, for a northbound
// Subscribe request relayed to a target at the wrong moment.
//
// With the defect this test does not fail an assertion: the reader goroutine panics and takes the test
// binary down ("invalid memory address or nil pointer dereference" in (*Client).Recv), which is the
// behaviour being demonstrated. Without it the test passes.
func TestF33NoReaderAfterFailedSubscribe(t *testing.T) {
	conn, err := grpc.Dial("127.0.0.1:1", grpc.WithTransportCredentials(insecure.NewCredentials()))
	assert.NoError(t, err)
	defer conn.Close()
	base, err := gclient.NewFromConn(context.Background(), conn, baseClient.Destination{Addrs: []string{"127.0.0.1:1"}, Timeout: time.Second})
	assert.NoError(t, err)
	c := &client{client: base}

	ctx, cancel := context.WithCancel(context.Background())
	cancel() // the RPC cannot be initialised
	q := baseClient.Query{Type: baseClient.Stream, SubReq: &gpb.SubscribeRequest{Request: &gpb.SubscribeRequest_Subscribe{Subscribe: &gpb.SubscriptionList{}}}}
	err = c.Subscribe(ctx, q)
	assert.Error(t, err, "the subscription cannot be opened")
	time.Sleep(500 * time.Millisecond) // a reader started on the missing stream would have crashed the process by now
}
