// SPDX-License-Identifier: Apache-2.0
//
// Review tests for property C11 ("a device refusing a change fails that change only, and only real
// refusals"). Goes into pkg/northbound/gnmi/v2 (package gnmi): it re-uses createServer /
// setupTopoAndRegistry / targetPath of get_test.go and runs the real configuration, proposal and
// transaction controllers over the in-memory Atomix stores, with a scripted gNMI device.

package gnmi

import (
	"context"
	"sync"
	"sync/atomic"
	"testing"
	"time"

	"github.com/golang/mock/gomock"
	configapi "github.com/onosproject/onos-api/go/onos/config/v2"
	topoapi "github.com/onosproject/onos-api/go/onos/topo"
	sbmock "github.com/onosproject/onos-config/internal/southbound/gnmi"
	controllerutils "github.com/onosproject/onos-config/pkg/controller/utils"
	configurationcontroller "github.com/onosproject/onos-config/pkg/controller/v2/configuration"
	proposalcontroller "github.com/onosproject/onos-config/pkg/controller/v2/proposal"
	transactioncontroller "github.com/onosproject/onos-config/pkg/controller/v2/transaction"
	sb "github.com/onosproject/onos-config/pkg/southbound/gnmi"
	"github.com/onosproject/onos-config/pkg/store/v2/configuration"
	proposalstore "github.com/onosproject/onos-config/pkg/store/v2/proposal"
	"github.com/onosproject/onos-lib-go/pkg/errors"
	"github.com/openconfig/gnmi/proto/gnmi"
	"github.com/openconfig/gnmi/proto/gnmi_ext"
	"github.com/stretchr/testify/assert"
	"google.golang.org/grpc/codes"
	"google.golang.org/grpc/status"
)

// c11Device is a scripted gNMI device: every Set is answered by the current answer function
type c11Device struct {
	mu     sync.Mutex
	answer func(n int) error // n is the 1-based number of the Set call
	calls  int
	notify chan int
}

func (d *c11Device) set(_ context.Context, _ *gnmi.SetRequest) (*gnmi.SetResponse, error) {
	d.mu.Lock()
	d.calls++
	n := d.calls
	answer := d.answer
	d.mu.Unlock()
	err := answer(n)
	select {
	case d.notify <- n:
	default:
	}
	if err != nil {
		// what pkg/southbound/gnmi client.Set hands to the controllers
		return nil, errors.FromGRPC(err)
	}
	return &gnmi.SetResponse{}, nil
}

func (d *c11Device) script(answer func(n int) error) {
	d.mu.Lock()
	d.answer = answer
	d.mu.Unlock()
}

func c11Relation(id topoapi.ID, target topoapi.ID) *topoapi.Object {
	return &topoapi.Object{
		ID:   id,
		Type: topoapi.Object_RELATION,
		Obj: &topoapi.Object_Relation{
			Relation: &topoapi.Relation{
				KindID:      topoapi.CONTROLS,
				SrcEntityID: controllerutils.GetOnosConfigID(),
				TgtEntityID: target,
			},
		},
	}
}

// c11Start wires a mastered target "target-1" whose connection ("rel-1", and "rel-2" for a later term)
// leads to the scripted device, and starts the real controllers.
func c11Start(t *testing.T, test *testContext, device *c11Device) {
	setupTopoAndRegistry(test, "target-1", "devicesim", "1.0.0", false)
	conns := sbmock.NewMockConnManager(test.mctl)
	for _, rel := range []string{"rel-1", "rel-2"} {
		test.topo.EXPECT().Get(gomock.Any(), gomock.Eq(topoapi.ID(rel))).AnyTimes().
			Return(c11Relation(topoapi.ID(rel), "target-1"), nil)
		conn := sbmock.NewMockConn(test.mctl)
		conn.EXPECT().Set(gomock.Any(), gomock.Any()).AnyTimes().DoAndReturn(device.set)
		conns.EXPECT().Get(gomock.Any(), gomock.Eq(sb.ConnID(rel))).AnyTimes().Return(conn, true)
	}

	// The configuration as the mastership and configuration controllers leave it for a connected target
	err := test.configuration.Create(context.TODO(), &configapi.Configuration{
		ID:       configuration.NewID("target-1", "devicesim", "1.0.0"),
		TargetID: "target-1",
		Status: configapi.ConfigurationStatus{
			State:      configapi.ConfigurationStatus_SYNCHRONIZED,
			Mastership: configapi.MastershipInfo{Master: "rel-1", Term: 1},
			Applied: configapi.AppliedConfigurationStatus{
				Mastership: configapi.MastershipInfo{Master: "rel-1", Term: 1},
			},
		},
	})
	assert.NoError(t, err)

	test.conns = conns
	test.configurationController = configurationcontroller.NewController(test.topo, conns, test.server.configurations)
	assert.NoError(t, test.configurationController.Start())
	test.proposalController = proposalcontroller.NewController(test.topo, conns, test.server.proposals, test.server.configurations, test.registry)
	assert.NoError(t, test.proposalController.Start())
	test.transactionController = transactioncontroller.NewController(test.server.transactions, test.server.proposals)
	assert.NoError(t, test.transactionController.Start())
}

func c11Strategy(t *testing.T, sync configapi.TransactionStrategy_Synchronicity) *gnmi_ext.Extension {
	b, err := (&configapi.TransactionStrategy{Synchronicity: sync}).Marshal()
	assert.NoError(t, err)
	return &gnmi_ext.Extension{
		Ext: &gnmi_ext.Extension_RegisteredExt{
			RegisteredExt: &gnmi_ext.RegisteredExtension{Id: configapi.TransactionStrategyExtensionID, Msg: b},
		},
	}
}

func c11SetRequest(t *testing.T, value string, sync configapi.TransactionStrategy_Synchronicity) *gnmi.SetRequest {
	return &gnmi.SetRequest{
		Update: []*gnmi.Update{{
			Path: targetPath(t, "target-1", "foo"),
			Val:  &gnmi.TypedValue{Value: &gnmi.TypedValue_StringVal{StringVal: value}},
		}},
		Extension: []*gnmi_ext.Extension{c11Strategy(t, sync)},
	}
}

// c11Rollback does what the admin RollbackTransaction RPC does: it appends a synchronous rollback transaction
func c11Rollback(t *testing.T, test *testContext, index configapi.Index) *configapi.Transaction {
	tx := &configapi.Transaction{
		Details: &configapi.Transaction_Rollback{
			Rollback: &configapi.RollbackTransaction{RollbackIndex: index},
		},
		TransactionStrategy: configapi.TransactionStrategy{Synchronicity: configapi.TransactionStrategy_SYNCHRONOUS},
	}
	assert.NoError(t, test.transaction.Create(context.TODO(), tx))
	return tx
}

func c11Await(timeout time.Duration, cond func() bool) bool {
	deadline := time.Now().Add(timeout)
	for time.Now().Before(deadline) {
		if cond() {
			return true
		}
		time.Sleep(20 * time.Millisecond)
	}
	return cond()
}

func c11TxState(test *testContext, index configapi.Index) string {
	tx, err := test.transaction.GetByIndex(context.TODO(), index)
	if err != nil {
		return err.Error()
	}
	s := tx.Status.State.String()
	if tx.Status.Failure != nil {
		s += "(" + tx.Status.Failure.Type.String() + ")"
	}
	return s
}

func c11ProposalState(test *testContext, index configapi.Index) string {
	p, err := test.proposal.Get(context.TODO(), proposalstore.NewID("target-1", index))
	if err != nil {
		return err.Error()
	}
	switch {
	case p.Status.Phases.Apply != nil:
		return "apply:" + p.Status.Phases.Apply.State.String()
	case p.Status.Phases.Commit != nil:
		return "commit:" + p.Status.Phases.Commit.State.String()
	default:
		return "earlier"
	}
}

// c11NewTerm does what the mastership controller does when a new master is elected for the target; the
// (real) configuration controller then re-synchronizes the target and records the new applied term.
func c11NewTerm(t *testing.T, test *testContext, master string) {
	id := configuration.NewID("target-1", "devicesim", "1.0.0")
	ok := c11Await(5*time.Second, func() bool {
		config, err := test.configuration.Get(context.TODO(), id)
		if err != nil {
			return false
		}
		config.Status.Mastership.Term++
		config.Status.Mastership.Master = master
		return test.configuration.UpdateStatus(context.TODO(), config) == nil
	})
	assert.True(t, ok, "could not record the new mastership term")
	ok = c11Await(5*time.Second, func() bool {
		config, err := test.configuration.Get(context.TODO(), id)
		return err == nil && config.Status.State == configapi.ConfigurationStatus_SYNCHRONIZED &&
			config.Status.Applied.Mastership.Term == config.Status.Mastership.Term
	})
	assert.True(t, ok, "configuration was not re-synchronized in the new term")
}

// A rollback (the usual answer to a refused change) that has to wait for a new mastership term must be
// applied once the term has settled. It is, when the change before it was APPLIED (control), and it is
// never resumed when the change before it was refused by the device.
func TestF42_RollbackBehindRefusedChangeResumesAfterSupersededMastership(t *testing.T) {
	for _, refuseFirst := range []bool{false, true} {
		name := "control_previous_change_applied"
		if refuseFirst {
			name = "previous_change_refused"
		}
		t.Run(name, func(t *testing.T) {
			test := createServer(t)
			defer test.atomix.Close()
			device := &c11Device{notify: make(chan int, 100)}
			var superseded atomic.Bool
			superseded.Store(false)
			device.script(func(n int) error {
				if n == 1 && refuseFirst {
					return status.Error(codes.InvalidArgument, "value refused by device")
				}
				if superseded.Load() {
					return status.Error(codes.PermissionDenied, "election id 1 was superseded")
				}
				return nil
			})
			c11Start(t, test, device)
			defer test.stopControllers()

			// Transaction 1: a synchronous change, refused (or accepted) by the device
			_, err := test.server.Set(context.TODO(), c11SetRequest(t, "one", configapi.TransactionStrategy_SYNCHRONOUS))
			if refuseFirst {
				assert.Equal(t, codes.InvalidArgument, status.Code(err), "transaction 1: %v", err)
			} else {
				assert.NoError(t, err)
			}

			// The device now answers PermissionDenied: another master was elected in a later term
			superseded.Store(true)
			for len(device.notify) > 0 {
				<-device.notify
			}

			// Transaction 2: roll transaction 1 back
			c11Rollback(t, test, 1)
			select {
			case <-device.notify:
			case <-time.After(10 * time.Second):
				t.Fatalf("rollback never reached the device: tx2=%s proposal2=%s", c11TxState(test, 2), c11ProposalState(test, 2))
			}
			time.Sleep(200 * time.Millisecond)
			assert.Equal(t, "apply:APPLYING", c11ProposalState(test, 2), "a superseded master must leave the rollback pending")

			// The new term settles: mastership controller elects, configuration controller re-synchronizes
			superseded.Store(false)
			c11NewTerm(t, test, "rel-2")

			applied := c11Await(8*time.Second, func() bool {
				tx, err := test.transaction.GetByIndex(context.TODO(), 2)
				return err == nil && tx.Status.State == configapi.TransactionStatus_APPLIED
			})
			assert.True(t, applied, "rollback stays pending although the device is reachable and the term has settled: "+
				"tx1=%s tx2=%s proposal1=%s proposal2=%s", c11TxState(test, 1), c11TxState(test, 2),
				c11ProposalState(test, 1), c11ProposalState(test, 2))
		})
	}
}

// A change is pending on an unreachable device (UNAVAILABLE burst); its rollback is queued behind it. When the
// device is back it refuses the change: that transaction fails, and the rollback behind it must then proceed.
func TestF42_RollbackQueuedBehindPendingChangeThatIsThenRefused(t *testing.T) {
	test := createServer(t)
	defer test.atomix.Close()
	device := &c11Device{notify: make(chan int, 1000)}
	var mode atomic.Int32 // 0 unreachable, 1 refuse once, 2 accept
	device.script(func(n int) error {
		switch mode.Load() {
		case 0:
			return status.Error(codes.Unavailable, "connection refused")
		case 1:
			mode.Store(2)
			return status.Error(codes.InvalidArgument, "value refused by device")
		default:
			return nil
		}
	})
	c11Start(t, test, device)
	defer test.stopControllers()

	// Transaction 1: asynchronous change, returns once committed; the device cannot be reached
	_, err := test.server.Set(context.TODO(), c11SetRequest(t, "one", configapi.TransactionStrategy_ASYNCHRONOUS))
	assert.NoError(t, err)

	// Transaction 2: rollback of transaction 1, queued behind it
	c11Rollback(t, test, 1)
	queued := c11Await(10*time.Second, func() bool {
		return c11ProposalState(test, 1) == "apply:APPLYING" && c11ProposalState(test, 2) == "apply:APPLYING"
	})
	assert.True(t, queued, "proposal1=%s proposal2=%s", c11ProposalState(test, 1), c11ProposalState(test, 2))
	time.Sleep(300 * time.Millisecond)
	assert.Equal(t, "apply:APPLYING", c11ProposalState(test, 1), "an unreachable device must not fail the change")

	// The device is back, and refuses the change of transaction 1
	mode.Store(1)
	failed := c11Await(15*time.Second, func() bool {
		tx, err := test.transaction.GetByIndex(context.TODO(), 1)
		return err == nil && tx.Status.State == configapi.TransactionStatus_FAILED
	})
	assert.True(t, failed, "tx1=%s", c11TxState(test, 1))

	applied := c11Await(8*time.Second, func() bool {
		tx, err := test.transaction.GetByIndex(context.TODO(), 2)
		return err == nil && tx.Status.State == configapi.TransactionStatus_APPLIED
	})
	assert.True(t, applied, "the later transaction on the same target never proceeds: tx1=%s tx2=%s proposal1=%s proposal2=%s",
		c11TxState(test, 1), c11TxState(test, 2), c11ProposalState(test, 1), c11ProposalState(test, 2))
}

// Every status code that reconcileApply records as a refusal must come back to the (synchronous) caller as
// the same class, and the next transaction on the target must still go through.
func TestF42_RefusalClassReachesCaller(t *testing.T) {
	test := createServer(t)
	defer test.atomix.Close()
	device := &c11Device{notify: make(chan int, 1000)}
	var code atomic.Uint32
	device.script(func(n int) error {
		if c := codes.Code(code.Load()); c != codes.OK {
			return status.Error(c, "refused by device")
		}
		return nil
	})
	c11Start(t, test, device)
	defer test.stopControllers()

	refusals := []codes.Code{
		codes.Unknown, codes.InvalidArgument, codes.NotFound, codes.AlreadyExists, codes.ResourceExhausted,
		codes.FailedPrecondition, codes.Aborted, codes.OutOfRange, codes.Unimplemented, codes.Internal,
		codes.DataLoss, codes.Unauthenticated,
	}
	for _, c := range refusals {
		code.Store(uint32(c))
		ctx, cancel := context.WithTimeout(context.Background(), 10*time.Second)
		_, err := test.server.Set(ctx, c11SetRequest(t, "v-"+c.String(), configapi.TransactionStrategy_SYNCHRONOUS))
		cancel()
		assert.Equal(t, c.String(), status.Code(err).String(), "device refused with %s, caller was told: %v", c, err)
	}
	code.Store(uint32(codes.OK))
	ctx, cancel := context.WithTimeout(context.Background(), 10*time.Second)
	defer cancel()
	_, err := test.server.Set(ctx, c11SetRequest(t, "accepted", configapi.TransactionStrategy_SYNCHRONOUS))
	assert.NoError(t, err, "a change after a series of refused ones must go through")
}

// Unscripted (timing dependent) demonstration of what TestF42_RefusalOnOneTargetLeavesOtherTargetOfTransactionUnapplied
// (pkg/controller/v2/transaction) scripts: with the real controllers running freely, one transaction over several
// targets, and devices that refuse quickly, the transaction is FAILED before the apply phase of every proposal
// has been started; the proposals left behind are never sent to their devices.
func TestF42_Unscripted_ManyTargetsOneRefusal(t *testing.T) {
	test := createServer(t)
	defer test.atomix.Close()
	const n = 8
	conns := sbmock.NewMockConnManager(test.mctl)
	var sets atomic.Int32
	req := &gnmi.SetRequest{Extension: []*gnmi_ext.Extension{c11Strategy(t, configapi.TransactionStrategy_SYNCHRONOUS)}}
	for i := 0; i < n; i++ {
		target := "target-" + string(rune('a'+i))
		rel := "rel-" + target
		setupTopoAndRegistry(test, target, "devicesim", "1.0.0", false)
		test.topo.EXPECT().Get(gomock.Any(), gomock.Eq(topoapi.ID(rel))).AnyTimes().
			Return(c11Relation(topoapi.ID(rel), topoapi.ID(target)), nil)
		conn := sbmock.NewMockConn(test.mctl)
		conn.EXPECT().Set(gomock.Any(), gomock.Any()).AnyTimes().DoAndReturn(
			func(context.Context, *gnmi.SetRequest) (*gnmi.SetResponse, error) {
				if sets.Add(1) == 1 {
					// only the device that is asked first refuses
					return nil, errors.FromGRPC(status.Error(codes.InvalidArgument, "value refused by device"))
				}
				return &gnmi.SetResponse{}, nil
			})
		conns.EXPECT().Get(gomock.Any(), gomock.Eq(sb.ConnID(rel))).AnyTimes().Return(conn, true)
		assert.NoError(t, test.configuration.Create(context.TODO(), &configapi.Configuration{
			ID:       configuration.NewID(configapi.TargetID(target), "devicesim", "1.0.0"),
			TargetID: configapi.TargetID(target),
			Status: configapi.ConfigurationStatus{
				State:      configapi.ConfigurationStatus_SYNCHRONIZED,
				Mastership: configapi.MastershipInfo{Master: rel, Term: 1},
				Applied:    configapi.AppliedConfigurationStatus{Mastership: configapi.MastershipInfo{Master: rel, Term: 1}},
			},
		}))
		req.Update = append(req.Update, &gnmi.Update{
			Path: targetPath(t, configapi.TargetID(target), "foo"),
			Val:  &gnmi.TypedValue{Value: &gnmi.TypedValue_StringVal{StringVal: "one"}},
		})
	}
	test.conns = conns
	test.configurationController = configurationcontroller.NewController(test.topo, conns, test.server.configurations)
	assert.NoError(t, test.configurationController.Start())
	test.proposalController = proposalcontroller.NewController(test.topo, conns, test.server.proposals, test.server.configurations, test.registry)
	assert.NoError(t, test.proposalController.Start())
	test.transactionController = transactioncontroller.NewController(test.server.transactions, test.server.proposals)
	assert.NoError(t, test.transactionController.Start())
	defer test.stopControllers()

	ctx, cancel := context.WithTimeout(context.Background(), 20*time.Second)
	defer cancel()
	_, err := test.server.Set(ctx, req)
	assert.Equal(t, codes.InvalidArgument, status.Code(err), "%v", err)
	time.Sleep(2 * time.Second)

	tx, err := test.transaction.GetByIndex(context.TODO(), 1)
	assert.NoError(t, err)
	neverStarted := 0
	for _, id := range tx.Status.Proposals {
		p, err := test.proposal.Get(context.TODO(), id)
		assert.NoError(t, err)
		if p.Status.Phases.Apply == nil {
			neverStarted++
		}
	}
	assert.Zero(t, neverStarted, "transaction 1 is %s; %d of its %d committed proposals never entered the apply phase (devices asked: %d)",
		tx.Status.State, neverStarted, len(tx.Status.Proposals), sets.Load())
}
