package proposal

import (
	"context"
	"testing"

	"github.com/atomix/go-sdk/pkg/test"
	configapi "github.com/onosproject/onos-api/go/onos/config/v2"
	"github.com/onosproject/onos-config/pkg/store/v2/configuration"
	proposalstore "github.com/onosproject/onos-config/pkg/store/v2/proposal"
	"github.com/stretchr/testify/assert"
)

// F19: transaction 1 is committed while the device is offline (applied cursor stays behind),
// transaction 2 is rejected and aborts. The abort first moves the committed cursor (it has to
// wait for the predecessor's apply), and when transaction 1 is finally applied the abort
// finishes — but writes the committed cursor a second time instead of the applied cursor.
// Proposal 2 is ABORTED with Applied.Index still on 1, so proposal 3 (PrevIndex 2) can never
// pass "Applied.Index == PrevIndex".
func TestF19AbortLeavesAppliedCursorOnPredecessor(t *testing.T) {
	cluster := test.NewClient()
	defer cluster.Close()
	cfgs, err := configuration.NewAtomixStore(cluster)
	assert.NoError(t, err)
	props, err := proposalstore.NewAtomixStore(cluster)
	assert.NoError(t, err)
	r := &Reconciler{proposals: props, configurations: cfgs}
	ctx := context.Background()

	target := configapi.TargetID("target-1")
	cfg := &configapi.Configuration{
		ID:       configuration.NewID(target, "devicesim", "1.0.0"),
		TargetID: target,
		Status: configapi.ConfigurationStatus{
			Proposed:  configapi.ProposedConfigurationStatus{Index: 2},
			Committed: configapi.CommittedConfigurationStatus{Index: 1}, // tx 1 merged
			Applied:   configapi.AppliedConfigurationStatus{Index: 0},   // ... but not yet applied (device offline)
		},
	}
	assert.NoError(t, cfgs.Create(ctx, cfg))

	p2 := &configapi.Proposal{
		ID:               proposalstore.NewID(target, 2),
		TargetID:         target,
		TransactionIndex: 2,
		TargetTypeVersion: configapi.TargetTypeVersion{
			TargetType: "devicesim", TargetVersion: "1.0.0",
		},
		Details: &configapi.Proposal_Change{Change: &configapi.ChangeProposal{}},
	}
	assert.NoError(t, props.Create(ctx, p2))
	p2.Status.PrevIndex = 1
	p2.Status.Phases.Abort = &configapi.ProposalAbortPhase{}
	assert.NoError(t, props.UpdateStatus(ctx, p2))

	// first abort step: committed cursor moves past the aborted proposal, abort keeps waiting
	_, err = r.reconcileAbort(ctx, p2)
	assert.NoError(t, err)
	cfg, err = cfgs.Get(ctx, cfg.ID)
	assert.NoError(t, err)
	assert.Equal(t, configapi.Index(2), cfg.Status.Committed.Index)
	assert.Equal(t, configapi.ProposalAbortPhase_ABORTING, p2.Status.Phases.Abort.State)

	// the device comes online and transaction 1 is applied
	cfg.Status.Applied.Index = 1
	assert.NoError(t, cfgs.UpdateStatus(ctx, cfg))

	// second abort step: the abort completes
	p2, err = props.Get(ctx, p2.ID)
	assert.NoError(t, err)
	_, err = r.reconcileAbort(ctx, p2)
	assert.NoError(t, err)
	p2, err = props.Get(ctx, p2.ID)
	assert.NoError(t, err)
	assert.Equal(t, configapi.ProposalAbortPhase_ABORTED, p2.Status.Phases.Abort.State)

	cfg, err = cfgs.Get(ctx, cfg.ID)
	assert.NoError(t, err)
	assert.Equal(t, configapi.Index(2), cfg.Status.Applied.Index,
		"proposal 2 is ABORTED but the applied cursor is still on its predecessor: proposal 3 (PrevIndex=2) can never be applied")
}
