package configuration

import (
	"context"
	"testing"

	"github.com/atomix/go-sdk/pkg/test"
	configapi "github.com/onosproject/onos-api/go/onos/config/v2"
	"github.com/stretchr/testify/assert"
)

// F20: the committed and the applied value maps of a configuration are built by the same helper
// with the same primitive name ("configurations-<id>"), so they are one and the same Atomix map.
// A value that was only committed (never sent to the device) reads back as applied.
func TestF20CommittedValuesReadBackAsApplied(t *testing.T) {
	cluster := test.NewClient()
	defer cluster.Close()
	store, err := NewAtomixStore(cluster)
	assert.NoError(t, err)
	ctx := context.Background()

	cfg := &configapi.Configuration{ID: "target-1-devicesim-1.0.0", TargetID: "target-1"}
	assert.NoError(t, store.Create(ctx, cfg))

	// a change is committed (merged into Values) but not applied
	cfg.Values = map[string]*configapi.PathValue{
		"/foo": {Path: "/foo", Value: configapi.TypedValue{Bytes: []byte("bar"), Type: configapi.ValueType_STRING}, Index: 1},
	}
	cfg.Index = 1
	cfg.Status.Committed.Index = 1
	assert.NoError(t, store.Update(ctx, cfg))

	got, err := store.Get(ctx, cfg.ID)
	assert.NoError(t, err)
	assert.Contains(t, got.Values, "/foo")
	assert.Equal(t, configapi.Index(0), got.Status.Applied.Index)
	assert.Empty(t, got.Status.Applied.Values,
		"nothing was applied, yet Status.Applied.Values holds the committed value: the re-push after a mastership change would send it to the device")
}
