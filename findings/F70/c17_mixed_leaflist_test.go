package values

import (
	"testing"

	gnmi "github.com/openconfig/gnmi/proto/gnmi"
	"gotest.tools/assert"
)

// Test_C17MixedLeafList: a gNMI ScalarArray need not be homogeneous (a leaf-list of a union type). The elements are
// sorted in to one list per type, and only the list of the first type in a fixed order (string, int, uint, ...) is
// kept: the other elements are dropped without an error, so the client is told its Set succeeded
func Test_C17MixedLeafList(t *testing.T) {
	intVal := func(i int64) *gnmi.TypedValue { return &gnmi.TypedValue{Value: &gnmi.TypedValue_IntVal{IntVal: i}} }
	uintVal := func(i uint64) *gnmi.TypedValue { return &gnmi.TypedValue{Value: &gnmi.TypedValue_UintVal{UintVal: i}} }
	strVal := func(s string) *gnmi.TypedValue {
		return &gnmi.TypedValue{Value: &gnmi.TypedValue_StringVal{StringVal: s}}
	}

	for _, tc := range []struct {
		name     string
		elements []*gnmi.TypedValue
	}{
		{"int string int", []*gnmi.TypedValue{intVal(1), strVal("all"), intVal(-2)}},
		{"uint int uint", []*gnmi.TypedValue{uintVal(1), intVal(-2), uintVal(3)}},
	} {
		tc := tc
		t.Run(tc.name, func(t *testing.T) {
			set := &gnmi.TypedValue{Value: &gnmi.TypedValue_LeaflistVal{LeaflistVal: &gnmi.ScalarArray{Element: tc.elements}}}
			stored, err := GnmiTypedValueToNativeType(set, nil)
			if err != nil {
				return // refused: the client knows
			}
			// accepted: then every element is stored and sent to the device
			sent, err := NativeTypeToGnmiTypedValue(stored)
			assert.NilError(t, err)
			assert.Equal(t, len(tc.elements), len(sent.GetLeaflistVal().GetElement()),
				"set %v, stored and sent to the device %v", set, sent)
		})
	}
}
