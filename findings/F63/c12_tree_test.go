package tree

import (
	"testing"

	configapi "github.com/onosproject/onos-api/go/onos/config/v2"
	pathutils "github.com/onosproject/onos-config/pkg/utils/path"
)

// BuildTree is fed with whatever paths are in the store: for any path that IsPathValid lets into a
// transaction it must return (a tree or an error), not panic.
func Test_C12_BuildTreeNeverPanics(t *testing.T) {
	for _, p := range []string{"/a=b[c]/d", "/x=[y]/z/w", "/"} {
		if err := pathutils.IsPathValid(p); err != nil && p != "/" {
			t.Fatalf("%s is not even a valid path: %v", p, err)
		}
		func() {
			defer func() {
				if r := recover(); r != nil {
					t.Errorf("BuildTree panics on %s: %v", p, r)
				}
			}()
			_, err := BuildTree([]*configapi.PathValue{{Path: p, Value: *configapi.NewTypedValueString("v")}}, true)
			t.Logf("%s: %v", p, err)
		}()
	}
}
