// SPDX-FileCopyrightText: 2020-present Open Networking Foundation <info@opennetworking.org>
//
// SPDX-License-Identifier: Apache-2.0

// Review tests for the property "Only members of an admin group may change configuration".
// Goes into pkg/northbound/gnmi/v2 (package gnmi).

package gnmi

import (
	"context"
	"crypto/hmac"
	"crypto/sha256"
	"encoding/base64"
	"encoding/json"
	"os"
	"testing"
	"time"

	configapi "github.com/onosproject/onos-api/go/onos/config/v2"
	libauth "github.com/onosproject/onos-lib-go/pkg/grpc/auth"
	"github.com/openconfig/gnmi/proto/gnmi"
	"github.com/stretchr/testify/assert"
	"google.golang.org/grpc/metadata"
)

const f40Secret = "f40-secret"

func f40Setenv(t *testing.T, key, value string) {
	old, had := os.LookupEnv(key)
	assert.NoError(t, os.Setenv(key, value))
	t.Cleanup(func() {
		if had {
			_ = os.Setenv(key, old)
		} else {
			_ = os.Unsetenv(key)
		}
	})
}

// f40Token signs a JWT (HS256, SHARED_SECRET_KEY) the way an identity provider would.
func f40Token(t *testing.T, claims map[string]interface{}) string {
	enc := base64.RawURLEncoding
	header := enc.EncodeToString([]byte(`{"alg":"HS256","typ":"JWT"}`))
	claims["exp"] = time.Now().Add(time.Hour).Unix()
	claims["iss"] = "http://dex:32000"
	body, err := json.Marshal(claims)
	assert.NoError(t, err)
	payload := enc.EncodeToString(body)
	mac := hmac.New(sha256.New, []byte(f40Secret))
	mac.Write([]byte(header + "." + payload))
	return header + "." + payload + "." + enc.EncodeToString(mac.Sum(nil))
}

// f40AuthenticatedContext is the context the northbound server hands to Set/Get when security is on:
// the wire metadata sent by the client passed through onos-lib-go's AuthenticationInterceptor
// (pkg/manager/manager.go startNorthboundServer -> northbound.NewServer -> grpc_auth interceptor).
func f40AuthenticatedContext(t *testing.T, claims map[string]interface{}, clientHeaders ...string) context.Context {
	f40Setenv(t, "SHARED_SECRET_KEY", f40Secret)
	kv := append([]string{"authorization", "bearer " + f40Token(t, claims)}, clientHeaders...)
	ctx, err := libauth.AuthenticationInterceptor(metadata.NewIncomingContext(context.Background(), metadata.Pairs(kv...)))
	assert.NoError(t, err)
	return ctx
}

func f40SetRequest(t *testing.T) *gnmi.SetRequest {
	return &gnmi.SetRequest{
		Update: []*gnmi.Update{{
			Path: targetPath(t, "target-1", "foo"),
			Val:  &gnmi.TypedValue{Value: &gnmi.TypedValue_StringVal{StringVal: "Hello world!"}},
		}},
	}
}

func f40Transactions(t *testing.T, test *testContext) []*configapi.Transaction {
	txs, err := test.transaction.List(context.TODO())
	assert.NoError(t, err)
	return txs
}

func f40SetServer(t *testing.T) *testContext {
	test := createServer(t)
	t.Cleanup(func() {
		test.mctl.Finish()
		test.atomix.Close()
	})
	setupTopoAndRegistry(test, "target-1", "devicesim", "1.0.0", false)
	test.startControllers(t)
	t.Cleanup(test.stopControllers)
	f40Setenv(t, "ADMINGROUPS", "AetherROCAdmin,EnterpriseAdmin")
	return test
}

// F3: a valid token that has none of the claims name, preferred_username, email, groups
// (e.g. a client-credentials / service-account token with only sub, aud, iss, exp)
func TestF40SetTokenWithoutProfileClaims(t *testing.T) {
	test := f40SetServer(t)
	// security is on: this is what makes pkg/manager install the authentication interceptor
	f40Setenv(t, "OIDC_SERVER_URL", "http://dex:32000")
	ctx := f40AuthenticatedContext(t, map[string]interface{}{
		"sub": "5a1b8b2e-service-account", "aud": "onos-config",
	})

	_, err := test.server.Set(ctx, f40SetRequest(t))
	assert.Error(t, err, "an authenticated caller without groups must be refused")
	assert.Len(t, f40Transactions(t, test), 0, "a refused Set must not append to the transaction log")
}
