package gnmi

import (
	"context"
	"testing"

	"github.com/golang/mock/gomock"
	adminapi "github.com/onosproject/onos-api/go/onos/config/admin"
	configapi "github.com/onosproject/onos-api/go/onos/config/v2"
	topoapi "github.com/onosproject/onos-api/go/onos/topo"
	pluginmock "github.com/onosproject/onos-config/internal/pluginregistry"
	"github.com/onosproject/onos-config/pkg/pluginregistry"
	"github.com/onosproject/onos-config/pkg/utils/path"
	"github.com/openconfig/gnmi/proto/gnmi"
	"github.com/stretchr/testify/assert"
)

// F30: an update whose value is a JSON document is resolved by the model plugin relative to a base
// path. The handler passes the request's *prefix* as that base and ignores the update's own path, so
// {"leaf": ...} sent to /some/nested lands at /leaf (under the prefix) instead of /some/nested/leaf:
// the operation does not land on the path it names (prefix followed by path).
//
// The mock plugin records the base it is asked to resolve the document against and answers with the
// leaves the real plugin would produce for that base.
func f30Server(t *testing.T, bases *[]string) *testContext {
	test := createServer(t)
	plugin := pluginmock.NewMockModelPlugin(test.mctl)
	rwPaths := path.ReadWritePathMap{}
	for _, p := range []string{"/foo", "/some/nested/path", "/path"} {
		rwPaths[p] = adminapi.ReadWritePath{ValueType: configapi.ValueType_STRING}
	}
	plugin.EXPECT().GetInfo().AnyTimes().
		Return(&pluginregistry.ModelPluginInfo{Info: adminapi.ModelInfo{Name: "devicesim", Version: "1.0.0"}, ReadWritePaths: rwPaths})
	plugin.EXPECT().Validate(gomock.Any(), gomock.Any()).AnyTimes().Return(nil)
	plugin.EXPECT().GetPathValues(gomock.Any(), gomock.Any(), gomock.Any()).AnyTimes().
		DoAndReturn(func(_ context.Context, base string, _ []byte) ([]*configapi.PathValue, error) {
			*bases = append(*bases, base)
			leaf := base + "/path"
			if base == "/" {
				leaf = "/path"
			}
			return []*configapi.PathValue{{Path: leaf, Value: configapi.TypedValue{Bytes: []byte("v"), Type: configapi.ValueType_STRING, TypeOpts: []int32{}}}}, nil
		})
	test.registry.EXPECT().GetPlugin(configapi.TargetType("devicesim"), configapi.TargetVersion("1.0.0")).AnyTimes().Return(plugin, true)
	test.topo.EXPECT().Get(gomock.Any(), gomock.Eq(topoapi.ID("target-1"))).AnyTimes().
		Return(topoEntity(topoapi.ID("target-1"), "devicesim", "1.0.0"), nil)
	test.topo.EXPECT().Watch(gomock.Any(), gomock.Any(), gomock.Any()).AnyTimes().Return(nil)
	return test
}

func TestF30JsonUpdateLandsBeneathItsOwnPath(t *testing.T) {
	var bases []string
	test := f30Server(t, &bases)
	defer test.atomix.Close()
	defer test.mctl.Finish()
	test.startControllers(t)
	defer test.stopControllers()

	request := gnmi.SetRequest{Update: []*gnmi.Update{{
		Path: targetPath(t, "target-1", "some", "nested"),
		Val:  &gnmi.TypedValue{Value: &gnmi.TypedValue_JsonVal{JsonVal: []byte(`{"path": "v"}`)}},
	}}}
	result, err := test.server.Set(context.TODO(), &request)
	assert.NoError(t, err)
	assert.Equal(t, []string{"/some/nested"}, bases, "the document is resolved relative to the update's own path")
	if assert.NotNil(t, result) && assert.Len(t, result.Response, 1) {
		got := ""
		for _, e := range result.Response[0].Path.Elem {
			got += "/" + e.Name
		}
		assert.Equal(t, "/some/nested/path", got)
	}
}

func TestF30JsonUpdateWithPrefixAndOwnPath(t *testing.T) {
	var bases []string
	test := f30Server(t, &bases)
	defer test.atomix.Close()
	defer test.mctl.Finish()
	test.startControllers(t)
	defer test.stopControllers()

	prefix := targetPath(t, "target-1", "some")
	request := gnmi.SetRequest{Prefix: prefix, Update: []*gnmi.Update{{
		Path: targetPath(t, "target-1", "nested"),
		Val:  &gnmi.TypedValue{Value: &gnmi.TypedValue_JsonVal{JsonVal: []byte(`{"path": "v"}`)}},
	}}}
	_, err := test.server.Set(context.TODO(), &request)
	assert.NoError(t, err)
	assert.Equal(t, []string{"/some/nested"}, bases, "prefix followed by the update's own path")
}

// the documented usage (the update's own path carries the target only) keeps its behaviour
func TestF30JsonUpdateAtPrefixOnly(t *testing.T) {
	var bases []string
	test := f30Server(t, &bases)
	defer test.atomix.Close()
	defer test.mctl.Finish()
	test.startControllers(t)
	defer test.stopControllers()

	request := gnmi.SetRequest{Prefix: targetPath(t, "target-1", "some", "nested"), Update: []*gnmi.Update{{
		Path: targetPath(t, "target-1"),
		Val:  &gnmi.TypedValue{Value: &gnmi.TypedValue_JsonVal{JsonVal: []byte(`{"path": "v"}`)}},
	}}}
	_, err := test.server.Set(context.TODO(), &request)
	assert.NoError(t, err)
	assert.Equal(t, []string{"/some/nested"}, bases)

	bases = nil
	request = gnmi.SetRequest{Update: []*gnmi.Update{{
		Path: targetPath(t, "target-1"),
		Val:  &gnmi.TypedValue{Value: &gnmi.TypedValue_JsonVal{JsonVal: []byte(`{"path": "v"}`)}},
	}}}
	_, err = test.server.Set(context.TODO(), &request)
	assert.NoError(t, err)
	assert.Equal(t, []string{"/"}, bases)
}
