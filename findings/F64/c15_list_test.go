// SPDX-FileCopyrightText: 2020-present Open Networking Foundation <info@opennetworking.org>
//
// SPDX-License-Identifier: Apache-2.0

package transaction

import (
	"context"
	"testing"
	"time"

	"github.com/atomix/go-sdk/pkg/test"
	configapi "github.com/onosproject/onos-api/go/onos/config/v3"
	"github.com/stretchr/testify/assert"
)

// List has to return every transaction of every target.
func TestC15ListReturnsTransactionsOfEveryTarget(t *testing.T) {
	cluster := test.NewClient()
	defer cluster.Close()

	store, err := NewAtomixStore(cluster)
	assert.NoError(t, err)

	ctx, cancel := context.WithTimeout(context.Background(), 30*time.Second)
	defer cancel()

	target1 := configapi.Target{ID: "target-1", Type: "foo", Version: "1"}
	target2 := configapi.Target{ID: "target-2", Type: "foo", Version: "1"}
	target3 := configapi.Target{ID: "target-3", Type: "foo", Version: "1"}

	want := make(map[configapi.TransactionID]bool)
	for _, target := range []configapi.Target{target1, target2, target1, target3, target2, target1} {
		transaction := c15NewTransaction(target, "")
		assert.NoError(t, store.Create(ctx, transaction))
		want[transaction.ID] = true
	}
	assert.Len(t, want, 6)

	transactions, err := store.List(ctx)
	assert.NoError(t, err)
	got := make(map[configapi.TransactionID]bool)
	for _, transaction := range transactions {
		got[transaction.ID] = true
	}
	var missing []configapi.TransactionID
	for id := range want {
		if !got[id] {
			missing = append(missing, id)
		}
	}
	assert.Empty(t, missing, "List returned %d of the %d transactions stored", len(got), len(want))
}

func c15NewTransaction(target configapi.Target, key string) *configapi.Transaction {
	return &configapi.Transaction{
		ObjectMeta: configapi.ObjectMeta{Key: key},
		ID:         configapi.TransactionID{Target: target},
		Values: map[string]configapi.PathValue{
			"/foo": {
				Path:  "/foo",
				Value: configapi.TypedValue{Bytes: []byte(key), Type: configapi.ValueType_STRING},
			},
		},
	}
}
