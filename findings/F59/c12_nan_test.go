package gnmi

import (
	"context"
	"math"
	"testing"
	"time"

	configapi "github.com/onosproject/onos-api/go/onos/config/v2"
	"github.com/openconfig/gnmi/proto/gnmi"
	"github.com/stretchr/testify/assert"
	"google.golang.org/protobuf/proto"
)

// A Set whose value is a leaf-list with a NaN (or +Inf / -Inf) float element must be answered, with a
// response or with a status, and must not take the target's configuration pipeline down with it.
func Test_C12_SetLeafListFloatNaNIsAnswered(t *testing.T) {
	for name, f := range map[string]float32{"NaN": float32(math.NaN()), "+Inf": float32(math.Inf(1))} {
		t.Run(name, func(t *testing.T) {
			test := createServer(t)
			defer test.atomix.Close()
			defer test.mctl.Finish()
			setupTopoAndRegistry(test, "target-1", "devicesim", "1.0.0", false)
			test.startControllers(t)
			defer test.stopControllers()

			targetID := configapi.TargetID("target-1")
			request := &gnmi.SetRequest{
				Update: []*gnmi.Update{{
					Path: targetPath(t, targetID, "foo"),
					Val: &gnmi.TypedValue{Value: &gnmi.TypedValue_LeaflistVal{LeaflistVal: &gnmi.ScalarArray{Element: []*gnmi.TypedValue{
						{Value: &gnmi.TypedValue_FloatVal{FloatVal: f}},
					}}}},
				}},
			}
			// the request is what a client can put on the wire
			wire, err := proto.Marshal(request)
			assert.NoError(t, err)
			decoded := &gnmi.SetRequest{}
			assert.NoError(t, proto.Unmarshal(wire, decoded))

			type answer struct {
				resp *gnmi.SetResponse
				err  error
			}
			done := make(chan answer, 1)
			go func() {
				resp, err := test.server.Set(context.Background(), decoded)
				done <- answer{resp, err}
			}()
			select {
			case a := <-done:
				t.Logf("answered: %v %v", a.resp, a.err)
			case <-time.After(10 * time.Second):
				t.Errorf("Set was not answered within 10s: its proposal cannot be validated and is retried for ever")
			}

			// ... and the target must still take a well-formed Set
			ctx, cancel := context.WithTimeout(context.Background(), 10*time.Second)
			defer cancel()
			_, err = test.server.Set(ctx, &gnmi.SetRequest{Update: []*gnmi.Update{{
				Path: targetPath(t, targetID, "foo"),
				Val:  &gnmi.TypedValue{Value: &gnmi.TypedValue_StringVal{StringVal: "ok"}},
			}}})
			assert.NoError(t, err, "a later well-formed Set to the same target is stuck behind it")
		})
	}
}
