package transaction

import (
	"context"
	"testing"
	"time"

	"github.com/atomix/go-sdk/pkg/test"
	configapi "github.com/onosproject/onos-api/go/onos/config/v2"
	"github.com/stretchr/testify/assert"
)

// F15: every watch forwards events to its subscriber with a bare `ch <- event`. A subscriber that
// has stopped reading (the Set handler returns as soon as it has its answer; its context is
// cancelled a little later) leaves the forwarding goroutine blocked in that send, where it never
// sees ctx.Done(). The next event for that watch then blocks the store's single dispatcher, and
// with it every other watcher — in production the transaction controller.
func TestF15DepartedSubscriberBlocksTheDispatcher(t *testing.T) {
	cluster := test.NewClient()
	defer cluster.Close()
	store, err := NewAtomixStore(cluster)
	assert.NoError(t, err)
	ctx := context.Background()

	tx1 := &configapi.Transaction{ID: "tx-1", Details: &configapi.Transaction_Change{Change: &configapi.ChangeTransaction{}}}
	assert.NoError(t, store.Create(ctx, tx1))

	// watcher B: watches everything and keeps reading (stands for the transaction controller)
	chB := make(chan configapi.TransactionEvent, 100)
	assert.NoError(t, store.Watch(ctx, chB))

	// watcher A: watches tx-1, receives nothing any more (the handler has its answer and is gone)
	ctxA, cancelA := context.WithCancel(ctx)
	chA := make(chan configapi.TransactionEvent)
	assert.NoError(t, store.Watch(ctxA, chA, WithTransactionID(tx1.ID)))

	// an update of tx-1: A's forwarder now sits in `chA <- event`
	tx1.Status.State = configapi.TransactionStatus_COMMITTED
	assert.NoError(t, store.UpdateStatus(ctx, tx1))
	time.Sleep(200 * time.Millisecond)
	// the handler's context is cancelled (gRPC does that when the handler returns)
	cancelA()
	time.Sleep(200 * time.Millisecond)
	// the next update of tx-1 is dispatched to A's per-watch channel ...
	tx1.Status.State = configapi.TransactionStatus_APPLIED
	assert.NoError(t, store.UpdateStatus(ctx, tx1))

	// ... and from now on nobody else hears anything
	tx2 := &configapi.Transaction{ID: "tx-2", Details: &configapi.Transaction_Change{Change: &configapi.ChangeTransaction{}}}
	assert.NoError(t, store.Create(ctx, tx2))
	deadline := time.After(3 * time.Second)
	for {
		select {
		case ev := <-chB:
			if ev.Transaction.ID == tx2.ID {
				return // B was told about tx-2: the store is alive
			}
		case <-deadline:
			t.Fatal("watcher B never learns of transaction tx-2: the store's dispatcher is blocked behind the departed subscriber A")
		}
	}
}
