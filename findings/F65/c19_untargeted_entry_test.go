// SPDX-FileCopyrightText: 2020-present Open Networking Foundation <info@opennetworking.org>
//
// SPDX-License-Identifier: Apache-2.0

package gnmi

import (
	"testing"
	"time"

	sb "github.com/onosproject/onos-config/pkg/southbound/gnmi"
	"github.com/openconfig/gnmi/proto/gnmi"
	"github.com/stretchr/testify/assert"
)

// The prefix names no target; one entry names target-1, another entry names no target at all. The entry
// that names no target can be forwarded nowhere, so the request has to be refused - what must not happen is
// that the subscription is accepted and the entry silently vanishes.
func TestC19_UntargetedEntry_IsNotSilentlyDropped(t *testing.T) {
	conns := sb.NewConnManager()
	target := c19StartTarget(t, conns, "target-1", nil)
	server := &Server{conns: conns}

	a := c19NewStream(t, server)
	a.in <- c19Subscribe(gnmi.SubscriptionList_STREAM, nil, c19Path("target-1", "a"), c19Path("", "b"))

	if err, ended := a.result(500 * time.Millisecond); ended {
		assert.Error(t, err, "the RPC ended without an error")
		return // refused: fine
	}

	// The request was accepted: then every entry has to have been forwarded to some target
	forwarded := map[string]bool{}
	select {
	case ts := <-target.streamCh:
		for _, req := range ts.subscriptions() {
			for _, sub := range req.GetSubscribe().GetSubscription() {
				forwarded[sub.GetPath().GetElem()[0].GetName()] = true
			}
		}
	case <-time.After(c19Timeout):
	}
	assert.True(t, forwarded["a"], "entry target-1:/a forwarded")
	assert.True(t, forwarded["b"], "the request was accepted, but its entry /b (naming no target) was forwarded to no target")
}

// The same at the level of the split function
func TestC19_UntargetedEntry_Split(t *testing.T) {
	sctx := &subContext{}
	req := c19Subscribe(gnmi.SubscriptionList_STREAM, &gnmi.Path{}, c19Path("target-1", "a"), c19Path("", "b"), c19Path("target-2", "c"))
	err := splitSubscribeRequest(sctx, req)
	if err != nil {
		return // refused: fine
	}
	entries := 0
	for _, treq := range sctx.treqs {
		entries += len(treq.GetSubscribe().GetSubscription())
	}
	assert.Equal(t, 3, entries, "entries forwarded, of the 3 entries of the accepted request")
}
