package utils

import (
	"os"
	"testing"

	"github.com/grpc-ecosystem/go-grpc-middleware/util/metautils"
	"github.com/stretchr/testify/assert"
)

// F1: the group check is strings.Contains(ADMINGROUPS, group): any caller group that is a
// substring of the configured list is admitted — including the empty group of an authenticated
// caller that has no groups at all.
func TestF1GroupsThatMerelyResembleAnAdminGroupAreAdmitted(t *testing.T) {
	os.Setenv("ADMINGROUPS", "AetherROCAdmin,EnterpriseAdmin")
	defer os.Unsetenv("ADMINGROUPS")
	identity := func(groups string) metautils.NiceMD {
		md := metautils.NiceMD{}
		md.Set("preferred_username", "alice").Set("name", "Alice").Set("email", "alice@example.org")
		if groups != "" {
			md.Set("groups", groups)
		}
		return md
	}
	assert.NoError(t, TemporaryEvaluate(identity("EnterpriseAdmin")), "a member of an admin group is admitted")
	assert.NoError(t, TemporaryEvaluate(identity("users;AetherROCAdmin")), "a member of an admin group is admitted")
	for _, g := range []string{"Admin", "ROC", "Enterprise", "A", "users;Admin"} {
		assert.Error(t, TemporaryEvaluate(identity(g)), "group %q merely resembles an administrator group", g)
	}
	assert.Error(t, TemporaryEvaluate(identity("")), "an authenticated caller without groups must be refused")
}
