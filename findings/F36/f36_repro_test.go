package values

import (
	"math/big"
	"testing"

	"github.com/openconfig/gnmi/proto/gnmi"
	"github.com/stretchr/testify/assert"
)

func f36Dec(digits int64, precision uint32) *gnmi.TypedValue {
	return &gnmi.TypedValue{Value: &gnmi.TypedValue_DecimalVal{DecimalVal: &gnmi.Decimal64{Digits: digits, Precision: precision}}}
}

func f36Rat(d *gnmi.Decimal64) *big.Rat {
	den := new(big.Int).Exp(big.NewInt(10), big.NewInt(int64(d.Precision)), nil)
	return new(big.Rat).SetFrac(big.NewInt(d.Digits), den)
}

// F36: a leaf-list of decimal64 keeps one precision for the whole list and takes it from the LAST
// element: [1.5 (15/1), 2.25 (225/2)] is stored, sent to the device and returned as [0.15, 2.25].
// Either the list is refused or every element keeps its value.
func TestF36DecimalLeafListMixedPrecision(t *testing.T) {
	in := []*gnmi.TypedValue{f36Dec(15, 1), f36Dec(225, 2)}
	tv := &gnmi.TypedValue{Value: &gnmi.TypedValue_LeaflistVal{LeaflistVal: &gnmi.ScalarArray{Element: in}}}
	native, err := GnmiTypedValueToNativeType(tv, nil)
	if err != nil {
		return // refused: nothing is stored
	}
	back, err := NativeTypeToGnmiTypedValue(native)
	assert.NoError(t, err)
	out := back.GetLeaflistVal().GetElement()
	if assert.Len(t, out, len(in)) {
		for i := range in {
			want, got := f36Rat(in[i].GetDecimalVal()), f36Rat(out[i].GetDecimalVal())
			assert.Equal(t, 0, want.Cmp(got), "element %d: set %s, stored and sent %s", i, want.FloatString(4), got.FloatString(4))
		}
	}
}

// a list with one precision keeps working
func TestF36DecimalLeafListOnePrecision(t *testing.T) {
	in := []*gnmi.TypedValue{f36Dec(150, 2), f36Dec(225, 2)}
	tv := &gnmi.TypedValue{Value: &gnmi.TypedValue_LeaflistVal{LeaflistVal: &gnmi.ScalarArray{Element: in}}}
	native, err := GnmiTypedValueToNativeType(tv, nil)
	assert.NoError(t, err)
	back, err := NativeTypeToGnmiTypedValue(native)
	assert.NoError(t, err)
	out := back.GetLeaflistVal().GetElement()
	if assert.Len(t, out, 2) {
		for i := range in {
			assert.Equal(t, 0, f36Rat(in[i].GetDecimalVal()).Cmp(f36Rat(out[i].GetDecimalVal())))
		}
	}
}
