// SPDX-FileCopyrightText: 2020-present Open Networking Foundation <info@opennetworking.org>
//
// SPDX-License-Identifier: Apache-2.0

// Review test for the property "Only members of an admin group may change configuration".
// Goes into pkg/northbound/admin (package admin).

package admin

import (
	"context"
	"os"
	"testing"
	"time"

	adminapi "github.com/onosproject/onos-api/go/onos/config/admin"
	"github.com/stretchr/testify/assert"
	"google.golang.org/grpc/metadata"
)

// F4: RollbackTransaction changes the configuration of every target of the rolled back transaction,
// and is open to a caller that Set refuses.
func TestF41RollbackByNonAdmin(t *testing.T) {
	test := createServer(t)
	defer test.atomix.Close()
	defer test.mctl.Finish()

	old, had := os.LookupEnv("ADMINGROUPS")
	assert.NoError(t, os.Setenv("ADMINGROUPS", "AetherROCAdmin,EnterpriseAdmin"))
	defer func() {
		if had {
			_ = os.Setenv("ADMINGROUPS", old)
		} else {
			_ = os.Unsetenv("ADMINGROUPS")
		}
	}()

	ctx, cancel := context.WithTimeout(metadata.NewIncomingContext(context.Background(),
		metadata.Pairs("name", "Bob Cratchit", "preferred_username", "bobc", "email", "bobc@opennetworking.org",
			"groups", "charlieGroup")), 2*time.Second)
	defer cancel()

	// no controllers run: an admitted request stays pending until the deadline
	_, err := test.server.RollbackTransaction(ctx, &adminapi.RollbackRequest{Index: 1})
	assert.Error(t, err)
	assert.NotEqual(t, context.DeadlineExceeded, err, "the request was admitted and waited for its transaction")

	txs, err := test.server.transactionsStore.List(context.Background())
	assert.NoError(t, err)
	assert.Len(t, txs, 0, "a caller outside the administrator groups must not append to the transaction log")
}
