// SPDX-FileCopyrightText: 2020-present Open Networking Foundation <info@opennetworking.org>
//
// SPDX-License-Identifier: Apache-2.0

package gnmi

import (
	"context"
	"sync"
	"testing"
	"time"

	"github.com/gogo/protobuf/proto"
	"github.com/golang/mock/gomock"
	configapi "github.com/onosproject/onos-api/go/onos/config/v2"
	topoapi "github.com/onosproject/onos-api/go/onos/topo"
	sbmock "github.com/onosproject/onos-config/internal/southbound/gnmi"
	controllerutils "github.com/onosproject/onos-config/pkg/controller/utils"
	configurationcontroller "github.com/onosproject/onos-config/pkg/controller/v2/configuration"
	proposalcontroller "github.com/onosproject/onos-config/pkg/controller/v2/proposal"
	transactioncontroller "github.com/onosproject/onos-config/pkg/controller/v2/transaction"
	sb "github.com/onosproject/onos-config/pkg/southbound/gnmi"
	configuration "github.com/onosproject/onos-config/pkg/store/v2/configuration"
	"github.com/onosproject/onos-config/pkg/utils"
	"github.com/onosproject/onos-lib-go/pkg/errors"
	"github.com/openconfig/gnmi/proto/gnmi"
	"github.com/openconfig/gnmi/proto/gnmi_ext"
	"github.com/stretchr/testify/assert"
	"google.golang.org/grpc/codes"
	"google.golang.org/grpc/status"
)

const (
	seed1Target   = "target-1"
	seed1Relation = "rel-1"
)

// seed1Device is a scripted gNMI device: it records every SetRequest it receives, refuses (with the
// given error) any request that touches refusePath and accepts everything else.
type seed1Device struct {
	mu         sync.Mutex
	refusePath string
	refuseErr  error
	requests   []*gnmi.SetRequest
	state      map[string]string
	hook       func()
}

func (d *seed1Device) set(_ context.Context, req *gnmi.SetRequest) (*gnmi.SetResponse, error) {
	d.mu.Lock()
	defer d.mu.Unlock()
	d.requests = append(d.requests, req)
	for _, u := range req.Update {
		if utils.StrPath(u.Path) == d.refusePath {
			if d.hook != nil {
				d.hook()
			}
			return nil, d.refuseErr
		}
	}
	for _, p := range req.Delete {
		delete(d.state, utils.StrPath(p))
	}
	for _, u := range req.Update {
		d.state[utils.StrPath(u.Path)] = u.Val.GetStringVal()
	}
	return &gnmi.SetResponse{}, nil
}

// requestsTouching counts the SetRequests received so far that update the given path
func (d *seed1Device) requestsTouching(path string) int {
	d.mu.Lock()
	defer d.mu.Unlock()
	n := 0
	for _, req := range d.requests {
		for _, u := range req.Update {
			if utils.StrPath(u.Path) == path {
				n++
			}
		}
	}
	return n
}

func (d *seed1Device) value(path string) (string, bool) {
	d.mu.Lock()
	defer d.mu.Unlock()
	v, ok := d.state[path]
	return v, ok
}

// startSeed1Controllers starts the configuration, proposal and transaction controllers with this node
// being the master (term 1) of seed1Target and the given scripted device behind the master connection.
func startSeed1Controllers(t *testing.T, test *testContext, device *seed1Device) func() {
	relation := &topoapi.Object{
		ID:   seed1Relation,
		Type: topoapi.Object_RELATION,
		Obj: &topoapi.Object_Relation{
			Relation: &topoapi.Relation{
				KindID:      topoapi.CONTROLS,
				SrcEntityID: controllerutils.GetOnosConfigID(),
				TgtEntityID: seed1Target,
			},
		},
	}
	test.topo.EXPECT().Get(gomock.Any(), gomock.Eq(topoapi.ID(seed1Relation))).AnyTimes().Return(relation, nil)

	conn := sbmock.NewMockConn(test.mctl)
	conn.EXPECT().Set(gomock.Any(), gomock.Any()).AnyTimes().DoAndReturn(device.set)
	conns := sbmock.NewMockConnManager(test.mctl)
	conns.EXPECT().Get(gomock.Any(), gomock.Eq(sb.ConnID(seed1Relation))).AnyTimes().Return(conn, true)
	test.conns = conns

	// The mastership controller is not part of the suite: record the election result by hand.
	err := test.configuration.Create(context.TODO(), &configapi.Configuration{
		ID:       configuration.NewID(seed1Target, "devicesim", "1.0.0"),
		TargetID: seed1Target,
		Status: configapi.ConfigurationStatus{
			State:      configapi.ConfigurationStatus_SYNCHRONIZED,
			Mastership: configapi.MastershipInfo{Master: seed1Relation, Term: 1},
			Applied: configapi.AppliedConfigurationStatus{
				Mastership: configapi.MastershipInfo{Master: seed1Relation, Term: 1},
			},
		},
	})
	assert.NoError(t, err)

	test.configurationController = configurationcontroller.NewController(test.topo, test.conns, test.server.configurations)
	assert.NoError(t, test.configurationController.Start())
	test.proposalController = proposalcontroller.NewController(test.topo, test.conns, test.server.proposals, test.server.configurations, test.registry)
	assert.NoError(t, test.proposalController.Start())
	test.transactionController = transactioncontroller.NewController(test.server.transactions, test.server.proposals)
	assert.NoError(t, test.transactionController.Start())

	return func() {
		test.transactionController.Stop()
		test.proposalController.Stop()
		test.configurationController.Stop()
		time.Sleep(100 * time.Millisecond)
	}
}

func seed1Strategy(t *testing.T, isolation configapi.TransactionStrategy_Isolation) *gnmi_ext.Extension {
	b, err := proto.Marshal(&configapi.TransactionStrategy{
		Synchronicity: configapi.TransactionStrategy_SYNCHRONOUS,
		Isolation:     isolation,
	})
	assert.NoError(t, err)
	return &gnmi_ext.Extension{
		Ext: &gnmi_ext.Extension_RegisteredExt{
			RegisteredExt: &gnmi_ext.RegisteredExtension{
				Id:  configapi.TransactionStrategyExtensionID,
				Msg: b,
			},
		},
	}
}

// seed1Set issues a synchronous gNMI Set of one string leaf and waits at most 10 seconds for the outcome
func seed1Set(t *testing.T, test *testContext, isolation configapi.TransactionStrategy_Isolation, leaf string, value string) error {
	ctx, cancel := context.WithTimeout(context.Background(), 10*time.Second)
	defer cancel()
	_, err := test.server.Set(ctx, &gnmi.SetRequest{
		Update: []*gnmi.Update{
			{
				Path: targetPath(t, seed1Target, leaf),
				Val:  &gnmi.TypedValue{Value: &gnmi.TypedValue_StringVal{StringVal: value}},
			},
		},
		Extension: []*gnmi_ext.Extension{seed1Strategy(t, isolation)},
	})
	return err
}

func seed1Configuration(t *testing.T, test *testContext) *configapi.Configuration {
	cfg, err := test.configuration.Get(context.TODO(), configuration.NewID(seed1Target, "devicesim", "1.0.0"))
	assert.NoError(t, err)
	return cfg
}

// A change refused by the device must leave the device as it was - also after the next mastership
// election, when the configuration controller re-synchronises the device from the applied values -
// and later transactions to the same target must still be applied.
func Test_SeedC11_RefusedChangeStaysOffTheDevice(t *testing.T) {
	test := createServer(t)
	defer test.atomix.Close()
	defer test.mctl.Finish()

	setupTopoAndRegistry(test, seed1Target, "devicesim", "1.0.0", false)
	device := &seed1Device{
		refusePath: "/bar",
		refuseErr:  errors.NewInvalid("bar is not acceptable"),
		state:      make(map[string]string),
	}
	stop := startSeed1Controllers(t, test, device)
	defer stop()

	// Transaction 1: the device refuses it; the Set reports the device's error class
	err := seed1Set(t, test, configapi.TransactionStrategy_DEFAULT, "bar", "refuse me")
	assert.Error(t, err)
	assert.Equal(t, codes.InvalidArgument, status.Code(err))

	tx1, err := test.transaction.GetByIndex(context.TODO(), 1)
	assert.NoError(t, err)
	assert.Equal(t, configapi.TransactionStatus_FAILED, tx1.Status.State)
	assert.NotNil(t, tx1.Status.Failure)
	assert.Equal(t, configapi.Failure_INVALID, tx1.Status.Failure.Type)

	// The device has seen the change once and nothing claims that it took it
	assert.Equal(t, 1, device.requestsTouching("/bar"))
	_, onDevice := device.value("/bar")
	assert.False(t, onDevice)
	cfg := seed1Configuration(t, test)
	assert.Equal(t, configapi.Index(1), cfg.Status.Applied.Index)
	_, recorded := cfg.Status.Applied.Values["/bar"]
	assert.False(t, recorded, "refused change recorded as applied to the device")

	// A new mastership term begins (e.g. the connection flapped and this node was re-elected):
	// the configuration controller re-synchronises the device from what was applied so far.
	for {
		cfg = seed1Configuration(t, test)
		cfg.Status.Mastership.Term = 2
		err = test.configuration.UpdateStatus(context.TODO(), cfg)
		if err == nil {
			break
		}
		assert.True(t, errors.IsConflict(err), "unexpected error %v", err)
	}
	synchronized := false
	for deadline := time.Now().Add(10 * time.Second); time.Now().Before(deadline); time.Sleep(50 * time.Millisecond) {
		cfg = seed1Configuration(t, test)
		if cfg.Status.State == configapi.ConfigurationStatus_SYNCHRONIZED && cfg.Status.Applied.Mastership.Term == 2 {
			synchronized = true
			break
		}
	}
	assert.True(t, synchronized, "configuration not synchronized in term 2")
	assert.Equal(t, 1, device.requestsTouching("/bar"), "refused change was sent to the device again")
	_, onDevice = device.value("/bar")
	assert.False(t, onDevice)

	// Transaction 2 to the same target is applied
	err = seed1Set(t, test, configapi.TransactionStrategy_DEFAULT, "foo", "accept me")
	assert.NoError(t, err)
	v, _ := device.value("/foo")
	assert.Equal(t, "accept me", v)
}
