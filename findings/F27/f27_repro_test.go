// SPDX-FileCopyrightText: 2020-present Open Networking Foundation <info@opennetworking.org>
//
// SPDX-License-Identifier: Apache-2.0

package gnmi

import (
	"context"
	"testing"

	configapi "github.com/onosproject/onos-api/go/onos/config/v2"
	proposalstore "github.com/onosproject/onos-config/pkg/store/v2/proposal"
	"github.com/onosproject/onos-lib-go/pkg/errors"
	"github.com/stretchr/testify/assert"
)

// NOT a demonstration of the seeded change: this FAILS ON THE UNMODIFIED HEAD. It needs seed_c11_1_test.go
// (for the scripted device) in the same directory.
//
// While the device is refusing proposal 1, another reconciler writes proposal 1's status (here: what the
// successor's reconcileInitialize does when it links NextIndex). reconcileApply's FAILED write then hits a
// version conflict, which updateProposalStatus swallows; the configuration's applied index was already
// advanced, so the next pass takes the "already applied" shortcut and marks the proposal APPLIED.
func TestF27RefusalLostOnStatusConflict(t *testing.T) {
	test := createServer(t)
	defer test.atomix.Close()
	defer test.mctl.Finish()
	setupTopoAndRegistry(test, seed1Target, "devicesim", "1.0.0", false)
	device := &seed1Device{refusePath: "/bar", refuseErr: errors.NewInvalid("no"), state: map[string]string{}}
	device.hook = func() {
		p, err := test.proposal.Get(context.TODO(), proposalstore.NewID(seed1Target, 1))
		if err == nil && p.Status.NextIndex == 0 {
			p.Status.NextIndex = 2
			_ = test.proposal.UpdateStatus(context.TODO(), p)
		}
	}
	stop := startSeed1Controllers(t, test, device)
	defer stop()

	err := seed1Set(t, test, configapi.TransactionStrategy_DEFAULT, "bar", "refuse me")
	assert.Error(t, err, "the device refused the change but the Set succeeded")
	tx1, _ := test.transaction.GetByIndex(context.TODO(), 1)
	assert.Equal(t, configapi.TransactionStatus_FAILED, tx1.Status.State)
}
