package gnmi

import (
	"testing"

	configapi "github.com/onosproject/onos-api/go/onos/config/v2"
	"github.com/onosproject/onos-config/pkg/utils/v2/tree"
	valueutils "github.com/onosproject/onos-config/pkg/utils/v2/values"
	"github.com/openconfig/gnmi/proto/gnmi"
	"github.com/stretchr/testify/assert"
)

// F31: the precision of a gNMI Decimal64 is a uint32 on the wire and is narrowed to uint8 without a
// range check. Rendering such a value divides by 10^precision computed in an int64, which is 0 for
// every precision >= 64: the Set is accepted and logged, and the proposal controller panics ("integer
// divide by zero") when it builds the candidate document for validation — the process dies in a
// goroutine no handler can recover. A JSON Get of the stored value crashes the same way.
//
// The test follows the value along the real functions: what the Set handler accepts is handed to the
// function that proposal validation and Get use to render it.
func f31Render(t *testing.T, precision uint32) (accepted bool, panicked interface{}) {
	tv := &gnmi.TypedValue{Value: &gnmi.TypedValue_DecimalVal{DecimalVal: &gnmi.Decimal64{Digits: 1234, Precision: precision}}}
	native, err := valueutils.GnmiTypedValueToNativeType(tv, nil)
	if err != nil {
		return false, nil
	}
	func() {
		defer func() { panicked = recover() }()
		_, _ = tree.BuildTree([]*configapi.PathValue{{Path: "/foo", Value: *native}}, true)
	}()
	return true, panicked
}

func TestF31DecimalPrecisionOutOfRange(t *testing.T) {
	for _, precision := range []uint32{64, 200, 255, 256 + 64, 1 << 20} {
		accepted, panicked := f31Render(t, precision)
		assert.Nil(t, panicked, "precision %d: a value the Set handler accepts must not crash validation", precision)
		assert.False(t, accepted, "precision %d is not a decimal64 precision (at most 18 fraction digits) and is refused", precision)
	}
}

func TestF31DecimalPrecisionInRange(t *testing.T) {
	for _, precision := range []uint32{0, 1, 2, 6, 18} {
		accepted, panicked := f31Render(t, precision)
		assert.Nil(t, panicked)
		assert.True(t, accepted, "precision %d is accepted", precision)
	}
}
