package configuration

import (
	"context"
	"testing"

	"github.com/atomix/go-sdk/pkg/test"
	configapi "github.com/onosproject/onos-api/go/onos/config/v2"
	"github.com/stretchr/testify/assert"
)

func f35Value(index configapi.Index, s string) *configapi.PathValue {
	return &configapi.PathValue{Path: "/foo", Index: index, Value: configapi.TypedValue{Bytes: []byte(s), Type: configapi.ValueType_STRING}}
}

// F35: the value maps of a configuration live in primitives of their own and are written BEFORE the
// version-guarded write of the record. The per-path guards inside store() use versions that store()
// reads itself, so a writer holding a stale record passes them: its Update is refused (the record's
// version moved) — and its values are in the store all the same. The update that was acknowledged
// is lost, the one that was refused is readable.
func TestF35RefusedUpdateLeavesNoTrace(t *testing.T) {
	cluster := test.NewClient()
	defer cluster.Close()
	store, err := NewAtomixStore(cluster)
	assert.NoError(t, err)
	ctx := context.TODO()

	cfg := &configapi.Configuration{ID: "c1", TargetID: "t1", Values: map[string]*configapi.PathValue{"/foo": f35Value(1, "initial")}}
	assert.NoError(t, store.Create(ctx, cfg))

	a, err := store.Get(ctx, "c1")
	assert.NoError(t, err)
	b, err := store.Get(ctx, "c1")
	assert.NoError(t, err)
	assert.Equal(t, a.Version, b.Version, "both writers read the same version")

	a.Values["/foo"] = f35Value(2, "A")
	a.Index = 2
	assert.NoError(t, store.Update(ctx, a), "the first writer succeeds")

	b.Values["/foo"] = f35Value(3, "B")
	b.Index = 3
	assert.Error(t, store.Update(ctx, b), "the second writer, holding the old version, is refused")

	got, err := store.Get(ctx, "c1")
	assert.NoError(t, err)
	assert.Equal(t, a.Version, got.Version)
	assert.Equal(t, "A", string(got.Values["/foo"].Value.Bytes), "the acknowledged update is what is stored; the refused one left no trace")
}

// the same for the applied values: a status writer that read the configuration before an apply puts
// the old applied values back although its own write is refused (the mastership and configuration
// controllers write the status concurrently with the proposal controller's apply step)
func TestF35RefusedStatusUpdateLeavesNoTrace(t *testing.T) {
	cluster := test.NewClient()
	defer cluster.Close()
	store, err := NewAtomixStore(cluster)
	assert.NoError(t, err)
	ctx := context.TODO()

	cfg := &configapi.Configuration{ID: "c1", TargetID: "t1"}
	assert.NoError(t, store.Create(ctx, cfg))
	cfg.Status.Applied.Index = 1
	cfg.Status.Applied.Values = map[string]*configapi.PathValue{"/foo": f35Value(1, "old")}
	assert.NoError(t, store.UpdateStatus(ctx, cfg))

	stale, err := store.Get(ctx, "c1") // e.g. the mastership controller, about to record a new term
	assert.NoError(t, err)
	applier, err := store.Get(ctx, "c1") // the proposal controller, applying transaction 2
	assert.NoError(t, err)

	applier.Status.Applied.Index = 2
	applier.Status.Applied.Values["/foo"] = f35Value(2, "new")
	assert.NoError(t, store.UpdateStatus(ctx, applier))

	stale.Status.Mastership.Term++
	assert.Error(t, store.UpdateStatus(ctx, stale), "the stale status write is refused")

	got, err := store.Get(ctx, "c1")
	assert.NoError(t, err)
	assert.Equal(t, "new", string(got.Status.Applied.Values["/foo"].Value.Bytes), "what was applied stays recorded as applied")
}
