// Review tests for property C10 ("Only the current master writes, in its term, after re-synchronising").
// Package directory: pkg/controller/v2/mastership
//
//	go test ./pkg/controller/v2/mastership/ -run 'TestC10Review' -count=1 -v
package mastership

import (
	"context"
	"sync"
	"testing"
	"time"

	"github.com/atomix/go-sdk/pkg/test"
	configapi "github.com/onosproject/onos-api/go/onos/config/v2"
	topoapi "github.com/onosproject/onos-api/go/onos/topo"
	"github.com/onosproject/onos-config/pkg/store/v2/configuration"
	"github.com/onosproject/onos-lib-go/pkg/controller"
	"github.com/onosproject/onos-lib-go/pkg/errors"
	"github.com/stretchr/testify/assert"
	"github.com/stretchr/testify/require"
)

// c10Topo is an in-memory topo.Store that answers List the way onos-topo does for the one
// filter the mastership controller uses: a RelationFilter{SrcId, RelationKind, RELATIONS_ONLY}
// returns the relations of the given kind that LEAVE the entity SrcId (onos-api: "Filter for
// targets of given relation kinds and given source ids").
type c10Topo struct {
	mu       sync.Mutex
	objects  map[topoapi.ID]*topoapi.Object
	watchers []chan<- topoapi.Event
}

func newC10Topo() *c10Topo {
	return &c10Topo{objects: make(map[topoapi.ID]*topoapi.Object)}
}

func (s *c10Topo) Create(_ context.Context, object *topoapi.Object) error {
	s.mu.Lock()
	defer s.mu.Unlock()
	if _, ok := s.objects[object.ID]; ok {
		return errors.NewAlreadyExists("object %s exists", object.ID)
	}
	s.objects[object.ID] = object
	return nil
}

func (s *c10Topo) Update(_ context.Context, object *topoapi.Object) error {
	s.mu.Lock()
	defer s.mu.Unlock()
	s.objects[object.ID] = object
	return nil
}

func (s *c10Topo) Get(_ context.Context, id topoapi.ID) (*topoapi.Object, error) {
	s.mu.Lock()
	defer s.mu.Unlock()
	if o, ok := s.objects[id]; ok {
		return o, nil
	}
	return nil, errors.NewNotFound("object %s not found", id)
}

func (s *c10Topo) List(_ context.Context, filters *topoapi.Filters) ([]topoapi.Object, error) {
	s.mu.Lock()
	defer s.mu.Unlock()
	var result []topoapi.Object
	for _, o := range s.objects {
		if filters != nil && filters.RelationFilter != nil {
			f := filters.RelationFilter
			r := o.GetRelation()
			if r == nil || string(r.KindID) != f.RelationKind {
				continue
			}
			if f.SrcId != "" && string(r.SrcEntityID) != f.SrcId {
				continue
			}
			if f.TargetId != "" && string(r.TgtEntityID) != f.TargetId {
				continue
			}
		}
		result = append(result, *o)
	}
	return result, nil
}

func (s *c10Topo) Delete(_ context.Context, object *topoapi.Object) error {
	s.mu.Lock()
	defer s.mu.Unlock()
	if _, ok := s.objects[object.ID]; !ok {
		return errors.NewNotFound("object %s not found", object.ID)
	}
	delete(s.objects, object.ID)
	return nil
}

func (s *c10Topo) Watch(_ context.Context, ch chan<- topoapi.Event, _ *topoapi.Filters) error {
	s.mu.Lock()
	defer s.mu.Unlock()
	s.watchers = append(s.watchers, ch)
	return nil
}

func (s *c10Topo) emit(event topoapi.Event) {
	s.mu.Lock()
	watchers := append([]chan<- topoapi.Event(nil), s.watchers...)
	s.mu.Unlock()
	for _, ch := range watchers {
		ch <- event
	}
}

func c10Node(id string) *topoapi.Object {
	return &topoapi.Object{
		ID:   topoapi.ID("gnmi:" + id),
		Type: topoapi.Object_ENTITY,
		Obj:  &topoapi.Object_Entity{Entity: &topoapi.Entity{KindID: topoapi.ONOS_CONFIG}},
	}
}

func c10Target(t *testing.T, id string, version string) *topoapi.Object {
	o := &topoapi.Object{
		ID:   topoapi.ID(id),
		Type: topoapi.Object_ENTITY,
		Obj:  &topoapi.Object_Entity{Entity: &topoapi.Entity{KindID: "devicesim"}},
	}
	require.NoError(t, o.SetAspect(&topoapi.Configurable{Type: "devicesim", Version: version, Address: "device:1"}))
	return o
}

// c10Controls is the CONTROLS relation the connection controller creates for a live connection
// (pkg/controller/connection/controller.go createRelation): relation ID == connection ID.
func c10Controls(connID string, node string, target string) *topoapi.Object {
	return &topoapi.Object{
		ID:   topoapi.ID(connID),
		Type: topoapi.Object_RELATION,
		Obj: &topoapi.Object_Relation{Relation: &topoapi.Relation{
			KindID:      topoapi.CONTROLS,
			SrcEntityID: topoapi.ID("gnmi:" + node),
			TgtEntityID: topoapi.ID(target),
		}},
	}
}

type c10Env struct {
	t       *testing.T
	topo    *c10Topo
	configs configuration.Store
	r       *Reconciler
}

func newC10Env(t *testing.T) (*c10Env, func()) {
	cluster := test.NewClient()
	configs, err := configuration.NewAtomixStore(cluster)
	require.NoError(t, err)
	topo := newC10Topo()
	return &c10Env{
		t:       t,
		topo:    topo,
		configs: configs,
		r:       &Reconciler{topo: topo, configurations: configs},
	}, func() { cluster.Close() }
}

func (e *c10Env) createConfig(target string, version string) configapi.ConfigurationID {
	id := configuration.NewID(configapi.TargetID(target), "devicesim", configapi.TargetVersion(version))
	require.NoError(e.t, e.configs.Create(context.TODO(), &configapi.Configuration{ID: id, TargetID: configapi.TargetID(target)}))
	return id
}

// reconcileAs runs one pass of the mastership reconciler the way the onos-config instance `node` would
// (the instance identity is read from POD_ID on every call of utils.GetOnosConfigID).
func (e *c10Env) reconcileAs(node string, id configapi.ConfigurationID) configapi.MastershipInfo {
	e.t.Setenv("POD_ID", node)
	_, err := e.r.Reconcile(controller.NewID(id))
	require.NoError(e.t, err)
	config, err := e.configs.Get(context.TODO(), id)
	require.NoError(e.t, err)
	return config.Status.Mastership
}

// An instance that has no connection of its own to the target must not depose the live master
// connection of another instance ("resigned when none" quantifies over ALL live CONTROLS relations
// of the target).
func TestC10Review_InstanceWithoutConnectionResignsLiveMasterOfAnotherInstance(t *testing.T) {
	e, done := newC10Env(t)
	defer done()
	ctx := context.TODO()
	require.NoError(t, e.topo.Create(ctx, c10Node("node-a")))
	require.NoError(t, e.topo.Create(ctx, c10Node("node-b")))
	require.NoError(t, e.topo.Create(ctx, c10Target(t, "target-1", "1.0.0")))
	require.NoError(t, e.topo.Create(ctx, c10Controls("uuid:conn-a1", "node-a", "target-1")))
	id := e.createConfig("target-1", "1.0.0")

	m := e.reconcileAs("node-a", id)
	require.Equal(t, "uuid:conn-a1", m.Master)
	require.Equal(t, configapi.MastershipTerm(1), m.Term)

	// node-b has no connection to target-1 (e.g. it cannot reach the device). node-a's connection is alive.
	m = e.reconcileAs("node-b", id)
	assert.Equal(t, "uuid:conn-a1", m.Master, "live master connection of node-a was deposed by node-b")
	assert.Equal(t, configapi.MastershipTerm(1), m.Term)

	// ... and node-a then starts a new term although its connection was never lost.
	m = e.reconcileAs("node-a", id)
	assert.Equal(t, configapi.MastershipTerm(1), m.Term, "new term without any connection loss")
}

// Two instances that both hold a live connection to the target must agree on one master. No connection
// is lost in this test, so the term must stay 1 and the master must stay the same relation.
func TestC10Review_TwoInstancesStealMastershipFromEachOtherForever(t *testing.T) {
	e, done := newC10Env(t)
	defer done()
	ctx := context.TODO()
	require.NoError(t, e.topo.Create(ctx, c10Node("node-a")))
	require.NoError(t, e.topo.Create(ctx, c10Node("node-b")))
	require.NoError(t, e.topo.Create(ctx, c10Target(t, "target-1", "1.0.0")))
	require.NoError(t, e.topo.Create(ctx, c10Controls("uuid:conn-a1", "node-a", "target-1")))
	require.NoError(t, e.topo.Create(ctx, c10Controls("uuid:conn-b1", "node-b", "target-1")))
	id := e.createConfig("target-1", "1.0.0")

	first := e.reconcileAs("node-a", id)
	require.Equal(t, configapi.MastershipTerm(1), first.Term)

	// Every mastership write is a Configuration event, and every Configuration event makes the mastership
	// controller of every instance reconcile (ConfigurationStoreWatcher): play five such rounds.
	last := first
	for round := 0; round < 5; round++ {
		last = e.reconcileAs("node-b", id)
		last = e.reconcileAs("node-a", id)
	}
	assert.Equal(t, first.Master, last.Master)
	assert.Equal(t, first.Term, last.Term, "term advanced %d times although no connection was lost", last.Term-first.Term)
}

// Mastership is an attribute of the TARGET ("each target has at most one master connection ... and its
// term never decreases"), and the election id a device compares is per device. The controller keeps it per
// Configuration record (target, type, version), so a second record of the same target (a Set carrying a
// target version override, or the Configurable aspect being edited after a device upgrade) starts again at term 1.
func TestC10Review_SecondConfigurationOfTargetRestartsTerm(t *testing.T) {
	e, done := newC10Env(t)
	defer done()
	ctx := context.TODO()
	require.NoError(t, e.topo.Create(ctx, c10Node("node-a")))
	require.NoError(t, e.topo.Create(ctx, c10Target(t, "target-1", "1.0.0")))
	require.NoError(t, e.topo.Create(ctx, c10Controls("uuid:conn-1", "node-a", "target-1")))
	idV1 := e.createConfig("target-1", "1.0.0")
	require.Equal(t, configapi.MastershipTerm(1), e.reconcileAs("node-a", idV1).Term)

	// The connection is lost and re-established twice: terms 2 and 3.
	for _, c := range []struct{ old, new string }{{"uuid:conn-1", "uuid:conn-2"}, {"uuid:conn-2", "uuid:conn-3"}} {
		require.NoError(t, e.topo.Delete(ctx, &topoapi.Object{ID: topoapi.ID(c.old)}))
		require.NoError(t, e.topo.Create(ctx, c10Controls(c.new, "node-a", "target-1")))
		e.reconcileAs("node-a", idV1)
	}
	v1 := e.reconcileAs("node-a", idV1)
	require.Equal(t, configapi.MastershipTerm(3), v1.Term)

	// A Set with extension 101/102 (target version override 2.0.0) makes reconcileInitialize create a
	// second Configuration record for the same target; its creation event makes the mastership controller run.
	idV2 := e.createConfig("target-1", "2.0.0")
	v2 := e.reconcileAs("node-a", idV2)
	assert.Equal(t, v1.Master, v2.Master)
	assert.GreaterOrEqual(t, uint64(v2.Term), uint64(v1.Term),
		"writes for %s will carry election id %d after the device has already seen election id %d", idV2, v2.Term, v1.Term)
}

// The master instance node-a dies. Its lease runs out, a peer deletes its ONOS_CONFIG entity and onos-topo removes the
// CONTROLS relations that leave it. The surviving instance must re-evaluate the mastership of the target those
// relations pointed at: that is the only event that tells it the controlling connection is gone.
func TestC10Review_RemovalOfDeadInstanceRelationDoesNotWakeMastership(t *testing.T) {
	t.Setenv("POD_ID", "node-b")
	topo := newC10Topo()
	ctx := context.TODO()
	require.NoError(t, topo.Create(ctx, c10Node("node-b")))
	require.NoError(t, topo.Create(ctx, c10Target(t, "target-1", "1.0.0")))
	// node-a's entity and its relation uuid:conn-a1 -> target-1 are already gone from the store when the event is handled

	cluster := test.NewClient()
	defer cluster.Close()
	configurations, err := configuration.NewAtomixStore(cluster)
	require.NoError(t, err)
	w := &TopoWatcher{topo: topo, configurations: configurations}
	ch := make(chan controller.ID, 10)
	require.NoError(t, w.Start(ch))
	defer w.Stop()

	topo.emit(topoapi.Event{Type: topoapi.EventType_REMOVED, Object: *c10Controls("uuid:conn-a1", "node-a", "target-1")})
	// a later, unrelated event proves that the watcher has consumed the removal
	topo.emit(topoapi.Event{Type: topoapi.EventType_UPDATED, Object: *c10Target(t, "target-2", "1.0.0")})

	want := controller.NewID(configuration.NewID("target-1", "devicesim", "1.0.0"))
	select {
	case id := <-ch:
		assert.Equal(t, want, id, "the Configuration of target-1 was not enqueued when its master relation was removed")
	case <-time.After(5 * time.Second):
		t.Fatal("nothing enqueued")
	}
}
