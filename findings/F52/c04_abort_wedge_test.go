package proposal

import (
	"testing"
	"time"
)

// While the device is unreachable three good changes and one invalid request (a rollback of a change that
// is not the latest one, refused at validation) are made. When the device connects the three changes must be
// applied. They are not, and neither is any later change made while the device is connected.
func TestC04AbortedProposalWedgesTargetConnectedLater(t *testing.T) {
	e := newC04Env(t, "target-1", false)
	defer e.stop()
	e.startControllers()

	e.change(set("/a", "1"))
	e.change(set("/b", "2"))
	e.rollback(1) // invalid: transaction 1 is not the latest change; fails validation and is aborted
	e.change(set("/c", "3"))
	if !eventually(10*time.Second, func() bool {
		return e.tx(1).Status.Phases.Apply != nil && e.tx(2).Status.Phases.Apply != nil &&
			e.tx(3).Status.Phases.Abort != nil && e.tx(4).Status.Phases.Apply != nil
	}) {
		t.Fatalf("not applying\n%s", e.dump())
	}
	time.Sleep(300 * time.Millisecond)

	e.connect()
	settled := e.settle(8 * time.Second)
	if !settled {
		t.Logf("8s after the device connected the waiting transactions are not applied:\n%s", e.dump())
		// a new change made while the device is connected does not get things moving either
		e.change(set("/d", "4"))
		settled = e.settle(8 * time.Second)
	}
	if !settled {
		t.Fatalf("the device is connected, mastered and synchronized, but nothing is applied any more\n%s", e.dump())
	}
	if got, want := render(e.device.snapshot()), render(live(e.config().Values)); got != want {
		t.Fatalf("device %s, stored %s\n%s", got, want, e.dump())
	}
}
