package proposal

import (
	"testing"
	"time"
)

// The device is not reachable when a change and its rollback are made. When it connects later both must be
// applied (in order) and the system must become quiescent with the device equal to the stored configuration.
func TestC04OfflineChangeAndRollbackNeverApplied(t *testing.T) {
	e := newC04Env(t, "target-1", false)
	defer e.stop()
	e.startControllers()

	e.change(set("/a", "1"))
	e.rollback(1)
	if !e.allCommitted(20 * time.Second) {
		t.Fatalf("not committed\n%s", e.dump())
	}
	if !eventually(10*time.Second, func() bool {
		return e.tx(1).Status.Phases.Apply != nil && e.tx(2).Status.Phases.Apply != nil
	}) {
		t.Fatalf("not applying\n%s", e.dump())
	}
	time.Sleep(300 * time.Millisecond)

	e.connect()
	if !e.settle(10 * time.Second) {
		t.Fatalf("the device is connected, mastered and synchronized, but the waiting transactions are not applied after 10s\n%s", e.dump())
	}
	if got, want := render(e.device.snapshot()), render(live(e.config().Values)); got != want {
		t.Fatalf("device %s, stored %s\n%s", got, want, e.dump())
	}
}
