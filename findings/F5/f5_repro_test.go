package path

import (
	"testing"

	"github.com/onosproject/onos-api/go/onos/config/admin"
	"github.com/stretchr/testify/assert"
)

// F5: ExtractIndexNames slices every bracketed group at its last '=' without testing that there is
// one, and FindPathFromModel indexes the last extracted name of a path ending in ']' without testing
// that there is any. A gNMI path element may be named "a[b]" or "a]" (names are free text on the
// wire); doDelete hands such a path to FindPathFromModel(…, false) and the Set handler panics.
func TestF5BracketsWithoutEqualsDoNotPanic(t *testing.T) {
	rw := ReadWritePathMap{"/cont1a/leaf1a": admin.ReadWritePath{}}
	assert.NotPanics(t, func() { ExtractIndexNames("/a[b]") })
	assert.NotPanics(t, func() { _, _, _ = FindPathFromModel("/a[b]", rw, false) })
	assert.NotPanics(t, func() { _, _, _ = FindPathFromModel("/a]", rw, false) })
	names, values := ExtractIndexNames("/l[k=v]/m[x]/n[j=w]")
	assert.Equal(t, []string{"k", "j"}, names)
	assert.Equal(t, []string{"v", "w"}, values)
}
