package gnmi

import (
	"context"
	"testing"
	"time"

	"github.com/golang/mock/gomock"
	adminapi "github.com/onosproject/onos-api/go/onos/config/admin"
	configapi "github.com/onosproject/onos-api/go/onos/config/v2"
	topoapi "github.com/onosproject/onos-api/go/onos/topo"
	pluginmock "github.com/onosproject/onos-config/internal/pluginregistry"
	"github.com/onosproject/onos-config/pkg/pluginregistry"
	"github.com/onosproject/onos-config/pkg/utils"
	"github.com/onosproject/onos-config/pkg/utils/path"
	"github.com/openconfig/gnmi/proto/gnmi"
	"github.com/stretchr/testify/assert"
)

// F37: a list key with the empty value is rendered as [k=], which the path parser refuses ("failed
// to find key value"). An update with such a key is refused by the key check, a DELETE is not checked:
// it is logged and committed, the tombstone /l[k=]/v is stored, and every later step that has to parse
// the stored text fails — the Set is answered with a raw parse error after the commit, and the apply
// step can never build its SetRequest, so the proposal stays APPLYING and blocks the target for good.
//
// The property at stake is the round trip: a path the system accepts can be converted to text and back.
func TestF37DeleteWithEmptyKeyValue(t *testing.T) {
	test := createServer(t)
	defer test.atomix.Close()
	defer test.mctl.Finish()
	plugin := pluginmock.NewMockModelPlugin(test.mctl)
	rwPaths := path.ReadWritePathMap{
		"/l[k=*]/v": adminapi.ReadWritePath{ValueType: configapi.ValueType_STRING},
		"/l[k=*]/k": adminapi.ReadWritePath{ValueType: configapi.ValueType_STRING, IsAKey: true, AttrName: "k"},
		"/foo":      adminapi.ReadWritePath{ValueType: configapi.ValueType_STRING},
	}
	plugin.EXPECT().GetInfo().AnyTimes().
		Return(&pluginregistry.ModelPluginInfo{Info: adminapi.ModelInfo{Name: "devicesim", Version: "1.0.0"}, ReadWritePaths: rwPaths})
	plugin.EXPECT().Validate(gomock.Any(), gomock.Any()).AnyTimes().Return(nil)
	test.registry.EXPECT().GetPlugin(configapi.TargetType("devicesim"), configapi.TargetVersion("1.0.0")).AnyTimes().Return(plugin, true)
	test.topo.EXPECT().Get(gomock.Any(), gomock.Eq(topoapi.ID("target-1"))).AnyTimes().
		Return(topoEntity(topoapi.ID("target-1"), "devicesim", "1.0.0"), nil)
	test.topo.EXPECT().Watch(gomock.Any(), gomock.Any(), gomock.Any()).AnyTimes().Return(nil)
	test.startControllers(t)
	defer test.stopControllers()

	del := &gnmi.Path{Target: "target-1", Elem: []*gnmi.PathElem{{Name: "l", Key: map[string]string{"k": ""}}, {Name: "v"}}}
	text := utils.StrPath(del)
	_, parseErr := utils.ParseGNMIElements(utils.SplitPath(text))

	ctx, cancel := context.WithTimeout(context.Background(), 5*time.Second)
	defer cancel()
	_, err := test.server.Set(ctx, &gnmi.SetRequest{Delete: []*gnmi.Path{del}})
	txs, lerr := test.transaction.List(context.TODO())
	assert.NoError(t, lerr)
	if parseErr != nil {
		// the text of this path cannot be read back: the request must be refused before anything is logged
		assert.Error(t, err, "a path whose text (%s) cannot be parsed back is refused", text)
		assert.Len(t, txs, 0, "and nothing is logged for it")
	} else {
		assert.NoError(t, err)
	}
}
