package transaction

import (
	"context"
	"testing"
	"time"

	"github.com/atomix/go-sdk/pkg/test"
	configapi "github.com/onosproject/onos-api/go/onos/config/v2"
	"github.com/stretchr/testify/assert"
)

// F29: a watch goroutine that leaves during replay (its context is already cancelled, or the replay
// read fails) returns without draining its per-watch channel. The store's single dispatcher copies the
// watcher list under the lock and sends outside it: an event dispatched while such a watcher was still
// registered is sent to a channel nobody reads, and the dispatcher — and with it every watcher of the
// store — blocks for ever.
func TestF29WatchLeavingDuringReplayDoesNotWedgeTheStore(t *testing.T) {
	cluster := test.NewClient()
	defer cluster.Close()
	store, err := NewAtomixStore(cluster)
	assert.NoError(t, err)
	ctx := context.Background()
	tx := &configapi.Transaction{ID: "tx-1", Details: &configapi.Transaction_Change{Change: &configapi.ChangeTransaction{}}}
	assert.NoError(t, store.Create(ctx, tx))

	good := make(chan configapi.TransactionEvent, 100000)
	assert.NoError(t, store.Watch(ctx, good))

	for i := 0; i < 400; i++ {
		cancelled, cancel := context.WithCancel(ctx)
		cancel()
		ch := make(chan configapi.TransactionEvent)
		_ = store.Watch(cancelled, ch, WithReplay())
		tx.Status.State = configapi.TransactionStatus_PENDING
		if err := store.UpdateStatus(ctx, tx); err != nil {
			tx, _ = store.Get(ctx, "tx-1")
		}
	}
	// drain what arrived so far, then make one more update and expect to see it
	time.Sleep(500 * time.Millisecond)
	for len(good) > 0 {
		<-good
	}
	tx, err = store.Get(ctx, "tx-1")
	assert.NoError(t, err)
	assert.NoError(t, store.UpdateStatus(ctx, tx))
	select {
	case <-good:
	case <-time.After(3 * time.Second):
		t.Fatal("the store no longer delivers events: its dispatcher is blocked on a watcher that left during replay")
	}
}
