package transaction

import (
	"context"
	"testing"

	"github.com/atomix/go-sdk/pkg/test"
	configapi "github.com/onosproject/onos-api/go/onos/config/v2"
	proposalstore "github.com/onosproject/onos-config/pkg/store/v2/proposal"
	transactionstore "github.com/onosproject/onos-config/pkg/store/v2/transaction"
	"github.com/onosproject/onos-lib-go/pkg/controller"
	"github.com/stretchr/testify/assert"
)

// F11: transaction 2 waits in INITIALIZING until transaction 1 has left INITIALIZING, and is woken
// only by the re-queue that transaction 1 issues when it opens its Validate phase. A rollback of
// a missing index fails initialisation and goes straight to Abort: it never opens Validate, so
// the failing pass itself has to wake index+1. It returns an empty result.
func TestF11FailedInitializeDoesNotWakeNextTransaction(t *testing.T) {
	cluster := test.NewClient()
	defer cluster.Close()
	txs, err := transactionstore.NewAtomixStore(cluster)
	assert.NoError(t, err)
	props, err := proposalstore.NewAtomixStore(cluster)
	assert.NoError(t, err)
	r := &Reconciler{transactions: txs, proposals: props}
	ctx := context.Background()

	tx1 := &configapi.Transaction{ID: "tx-1", Details: &configapi.Transaction_Rollback{Rollback: &configapi.RollbackTransaction{RollbackIndex: 42}}}
	assert.NoError(t, txs.Create(ctx, tx1))
	tx2 := &configapi.Transaction{ID: "tx-2", Details: &configapi.Transaction_Change{Change: &configapi.ChangeTransaction{Values: map[configapi.TargetID]*configapi.PathValues{}}}}
	assert.NoError(t, txs.Create(ctx, tx2))

	// tx1: create Initialize phase
	_, err = r.Reconcile(controller.NewID(tx1.Index))
	assert.NoError(t, err)
	// tx2: create Initialize phase, then wait for tx1
	_, err = r.Reconcile(controller.NewID(tx2.Index))
	assert.NoError(t, err)
	res, err := r.Reconcile(controller.NewID(tx2.Index))
	assert.NoError(t, err)
	assert.Equal(t, controller.Result{}, res) // waiting, no wake-up of its own

	// tx1: initialisation fails (rolled-back index does not exist)
	res, err = r.Reconcile(controller.NewID(tx1.Index))
	assert.NoError(t, err)
	tx1, err = txs.Get(ctx, tx1.ID)
	assert.NoError(t, err)
	assert.Equal(t, configapi.TransactionInitializePhase_FAILED, tx1.Status.Phases.Initialize.State)
	assert.Equal(t, controller.NewID(tx2.Index), res.Requeue,
		"the pass that fails tx1's initialisation does not re-queue index+1: tx2 stays INITIALIZING for ever")
}
