// SPDX-FileCopyrightText: 2022-present Intel Corporation
//
// SPDX-License-Identifier: Apache-2.0

package proposal

import (
	"context"
	"testing"
	"time"

	"github.com/atomix/go-sdk/pkg/test"
	"github.com/golang/mock/gomock"
	configapi "github.com/onosproject/onos-api/go/onos/config/v2"
	pluginmock "github.com/onosproject/onos-config/internal/pluginregistry"
	"github.com/onosproject/onos-config/pkg/store/v2/configuration"
	proposalstore "github.com/onosproject/onos-config/pkg/store/v2/proposal"
	"github.com/onosproject/onos-lib-go/pkg/controller"
	"github.com/stretchr/testify/assert"
)

const (
	f25Target  = configapi.TargetID("target-1")
	f25Type    = configapi.TargetType("devicesim")
	f25Version = configapi.TargetVersion("1.0.0")
)

type f25Harness struct {
	t              *testing.T
	reconciler     *Reconciler
	proposals      proposalstore.Store
	configurations configuration.Store
}

func newF25Harness(t *testing.T) (*f25Harness, func()) {
	mctl := gomock.NewController(t)
	cluster := test.NewClient()
	configurations, err := configuration.NewAtomixStore(cluster)
	assert.NoError(t, err)
	proposals, err := proposalstore.NewAtomixStore(cluster)
	assert.NoError(t, err)
	plugin := pluginmock.NewMockModelPlugin(mctl)
	plugin.EXPECT().Validate(gomock.Any(), gomock.Any()).AnyTimes().Return(nil)
	registry := pluginmock.NewMockPluginRegistry(mctl)
	registry.EXPECT().GetPlugin(f25Type, f25Version).AnyTimes().Return(plugin, true)
	h := &f25Harness{t: t, reconciler: &Reconciler{proposals: proposals, configurations: configurations, pluginRegistry: registry},
		proposals: proposals, configurations: configurations}
	return h, func() { cluster.Close(); mctl.Finish() }
}

// commit carries one change (what a gNMI Set of the given updates and deletes becomes) through
// initialize, validate and commit, playing the transaction controller's part between the phases.
func (h *f25Harness) commit(index configapi.Index, updates map[string]string, deletes ...string) {
	values := map[string]*configapi.PathValue{}
	for path, value := range updates {
		values[path] = &configapi.PathValue{Path: path, Value: *configapi.NewTypedValueString(value), Index: index}
	}
	for _, path := range deletes {
		values[path] = &configapi.PathValue{Path: path, Deleted: true, Index: index}
	}
	id := proposalstore.NewID(f25Target, index)
	assert.NoError(h.t, h.proposals.Create(context.TODO(), &configapi.Proposal{
		ID: id, TransactionIndex: index, TargetID: f25Target,
		Details:           &configapi.Proposal_Change{Change: &configapi.ChangeProposal{Values: values}},
		TargetTypeVersion: configapi.TargetTypeVersion{TargetType: f25Type, TargetVersion: f25Version},
	}))
	for round := 0; round < 30; round++ {
		_, err := h.reconciler.Reconcile(controller.NewID(id))
		assert.NoError(h.t, err)
		proposal, err := h.proposals.Get(context.TODO(), id)
		assert.NoError(h.t, err)
		now := time.Now()
		phases := &proposal.Status.Phases
		switch {
		case phases.Initialize == nil || phases.Initialize.State != configapi.ProposalInitializePhase_INITIALIZED:
			continue
		case phases.Validate == nil:
			phases.Validate = &configapi.ProposalValidatePhase{ProposalPhaseStatus: configapi.ProposalPhaseStatus{Start: &now}}
		case phases.Validate.State != configapi.ProposalValidatePhase_VALIDATED:
			continue
		case phases.Commit == nil:
			phases.Commit = &configapi.ProposalCommitPhase{ProposalPhaseStatus: configapi.ProposalPhaseStatus{Start: &now}}
		case phases.Commit.State == configapi.ProposalCommitPhase_COMMITTED:
			return
		default:
			continue
		}
		assert.NoError(h.t, h.proposals.UpdateStatus(context.TODO(), proposal))
	}
	h.t.Fatalf("change %d was not committed", index)
}

// leaves is what a gNMI Get of the whole target filters from: the stored values not marked deleted.
func (h *f25Harness) leaves() map[string]string {
	config, err := h.configurations.Get(context.TODO(), configuration.NewID(f25Target, f25Type, f25Version))
	assert.NoError(h.t, err)
	leaves := make(map[string]string)
	for path, value := range config.Values {
		if !value.Deleted {
			leaves[path] = string(value.Value.Bytes)
		}
	}
	return leaves
}

// F25: a value written after one of its ancestors was deleted must stay readable until it is itself
// deleted. The commit removes the ancestor's tombstone from the in-memory map only; the persisted
// tombstone comes back with the next read, and the store then prunes the re-created value away as
// soon as any other Set commits.
func TestF25RecreatedValueSurvivesLaterSets(t *testing.T) {
	h, cleanup := newF25Harness(t)
	defer cleanup()
	h.commit(1, map[string]string{"/a/b": "1", "/a/c": "2"})
	h.commit(2, nil, "/a")
	assert.Equal(t, map[string]string{}, h.leaves())
	h.commit(3, map[string]string{"/a/b": "5"})
	assert.Equal(t, map[string]string{"/a/b": "5"}, h.leaves())
	h.commit(4, map[string]string{"/x": "1"})
	assert.Equal(t, map[string]string{"/a/b": "5", "/x": "1"}, h.leaves(), "an unrelated Set must not remove /a/b")
}

// F25 (second form): after deleting a whole list, a new entry is dropped at once.
func TestF25EntryCreatedAfterDeletingTheList(t *testing.T) {
	h, cleanup := newF25Harness(t)
	defer cleanup()
	h.commit(1, map[string]string{"/l[k=1]/k": "1", "/l[k=1]/v": "a"})
	h.commit(2, nil, "/l")
	assert.Equal(t, map[string]string{}, h.leaves())
	h.commit(3, map[string]string{"/l[k=2]/k": "2", "/l[k=2]/v": "b"})
	assert.Equal(t, map[string]string{"/l[k=2]/k": "2", "/l[k=2]/v": "b"}, h.leaves())
}
