// SPDX-FileCopyrightText: 2020-present Open Networking Foundation <info@opennetworking.org>
//
// SPDX-License-Identifier: Apache-2.0

// F38: the authentication interceptor of the pinned onos-lib-go adds one metadata value per element of the
// token's groups claim; the handlers read md.Get("groups"), which is the FIRST value only, and split it at ";".
// A caller whose administrator (or ROC-admin, or target) group is not the first of its groups is treated as if it
// did not hold it, and a single group named "x;AetherROCAdmin" is taken for two groups.

package gnmi

import (
	"context"
	"crypto/hmac"
	"crypto/sha256"
	"encoding/base64"
	"encoding/json"
	"os"
	"testing"
	"time"

	"github.com/golang/mock/gomock"
	configapi "github.com/onosproject/onos-api/go/onos/config/v2"
	topoapi "github.com/onosproject/onos-api/go/onos/topo"
	libauth "github.com/onosproject/onos-lib-go/pkg/grpc/auth"
	"github.com/openconfig/gnmi/proto/gnmi"
	"github.com/stretchr/testify/assert"
	"google.golang.org/grpc/metadata"
)

const f38Secret = "f38-secret"

func f38Setenv(t *testing.T, key, value string) {
	old, had := os.LookupEnv(key)
	assert.NoError(t, os.Setenv(key, value))
	t.Cleanup(func() {
		if had {
			_ = os.Setenv(key, old)
		} else {
			_ = os.Unsetenv(key)
		}
	})
}

// f38Token signs a JWT (HS256, SHARED_SECRET_KEY) the way an identity provider would.
func f38Token(t *testing.T, claims map[string]interface{}) string {
	enc := base64.RawURLEncoding
	header := enc.EncodeToString([]byte(`{"alg":"HS256","typ":"JWT"}`))
	claims["exp"] = time.Now().Add(time.Hour).Unix()
	claims["iss"] = "http://dex:32000"
	body, err := json.Marshal(claims)
	assert.NoError(t, err)
	payload := enc.EncodeToString(body)
	mac := hmac.New(sha256.New, []byte(f38Secret))
	mac.Write([]byte(header + "." + payload))
	return header + "." + payload + "." + enc.EncodeToString(mac.Sum(nil))
}

// f38AuthenticatedContext is the context the northbound server hands to Set/Get when security is on:
// the wire metadata sent by the client passed through onos-lib-go's AuthenticationInterceptor
// (pkg/manager/manager.go startNorthboundServer -> northbound.NewServer -> grpc_auth interceptor).
func f38AuthenticatedContext(t *testing.T, claims map[string]interface{}, clientHeaders ...string) context.Context {
	f38Setenv(t, "SHARED_SECRET_KEY", f38Secret)
	kv := append([]string{"authorization", "bearer " + f38Token(t, claims)}, clientHeaders...)
	ctx, err := libauth.AuthenticationInterceptor(metadata.NewIncomingContext(context.Background(), metadata.Pairs(kv...)))
	assert.NoError(t, err)
	return ctx
}

func f38SetRequest(t *testing.T) *gnmi.SetRequest {
	return &gnmi.SetRequest{
		Update: []*gnmi.Update{{
			Path: targetPath(t, "target-1", "foo"),
			Val:  &gnmi.TypedValue{Value: &gnmi.TypedValue_StringVal{StringVal: "Hello world!"}},
		}},
	}
}

func f38Transactions(t *testing.T, test *testContext) []*configapi.Transaction {
	txs, err := test.transaction.List(context.TODO())
	assert.NoError(t, err)
	return txs
}

func f38SetServer(t *testing.T) *testContext {
	test := createServer(t)
	t.Cleanup(func() {
		test.mctl.Finish()
		test.atomix.Close()
	})
	setupTopoAndRegistry(test, "target-1", "devicesim", "1.0.0", false)
	test.startControllers(t)
	t.Cleanup(test.stopControllers)
	f38Setenv(t, "ADMINGROUPS", "AetherROCAdmin,EnterpriseAdmin")
	return test
}

// F2: the administrator group is not the first group of the caller's token
func TestF38SetAdminGroupNotFirst(t *testing.T) {
	test := f38SetServer(t)
	ctx := f38AuthenticatedContext(t, map[string]interface{}{
		"name": "Alice Admin", "preferred_username": "alicea", "email": "alicea@opennetworking.org",
		"groups": []string{"mixedGroup", "AetherROCAdmin"},
	})

	_, err := test.server.Set(ctx, f38SetRequest(t))
	assert.NoError(t, err, "alicea holds AetherROCAdmin: Set must be permitted")
	assert.Len(t, f38Transactions(t, test), 1)
}

func f38ListServer(t *testing.T) *testContext {
	test := createServer(t)
	t.Cleanup(func() {
		test.mctl.Finish()
		test.atomix.Close()
	})
	f38Setenv(t, OIDCServerURL, "http://dex:32000")
	test.topo.EXPECT().List(gomock.Any(), gomock.Any()).Return(
		[]topoapi.Object{
			*topoEntity("target-1", "devicesim", "1.0.0"),
			*topoEntity("target-2", "devicesim", "1.0.0"),
			*topoEntity("target-3", "devicesim", "1.0.0"),
		}, nil,
	).AnyTimes()
	return test
}

func f38ListTargets(t *testing.T, test *testContext, ctx context.Context) []string {
	resp, err := test.server.Get(ctx, &gnmi.GetRequest{
		Encoding: gnmi.Encoding_PROTO,
		Path:     []*gnmi.Path{{Target: "*"}},
	})
	assert.NoError(t, err)
	targets := make([]string, 0)
	if resp == nil {
		return targets
	}
	for _, e := range resp.Notification[0].Update[0].Val.GetLeaflistVal().GetElement() {
		targets = append(targets, e.GetStringVal())
	}
	return targets
}

// F2 on the listing: only the first group of the token is looked at
func TestF38ListSeveralGroups(t *testing.T) {
	test := f38ListServer(t)
	ctx := f38AuthenticatedContext(t, map[string]interface{}{
		"name": "Daisy Duke", "preferred_username": "daisyd", "email": "daisyd@opennetworking.org",
		"groups": []string{"target-1", "target-3"},
	})
	assert.Equal(t, []string{"target-1", "target-3"}, f38ListTargets(t, test, ctx))

	ctx = f38AuthenticatedContext(t, map[string]interface{}{
		"name": "Alice Admin", "preferred_username": "alicea", "email": "alicea@opennetworking.org",
		"groups": []string{"mixedGroup", aetherROCAdmin},
	})
	assert.Equal(t, []string{"target-1", "target-2", "target-3"}, f38ListTargets(t, test, ctx))
}
