// Review harness for property C04 ("a connected device converges to the stored configuration").
// In-memory topo store, connection manager and gNMI device; every controller and store is the real one.

package proposal

import (
	"context"
	"fmt"
	"os"
	"sort"
	"strings"
	"sync"
	"testing"
	"time"

	atomixtest "github.com/atomix/go-sdk/pkg/test"
	"github.com/golang/mock/gomock"
	"github.com/google/uuid"
	configapi "github.com/onosproject/onos-api/go/onos/config/v2"
	topoapi "github.com/onosproject/onos-api/go/onos/topo"
	pluginmock "github.com/onosproject/onos-config/internal/pluginregistry"
	connectioncontroller "github.com/onosproject/onos-config/pkg/controller/connection"
	controllerutils "github.com/onosproject/onos-config/pkg/controller/utils"
	configurationcontroller "github.com/onosproject/onos-config/pkg/controller/v2/configuration"
	mastershipcontroller "github.com/onosproject/onos-config/pkg/controller/v2/mastership"
	transactioncontroller "github.com/onosproject/onos-config/pkg/controller/v2/transaction"
	"github.com/onosproject/onos-config/pkg/southbound/gnmi"
	configurationstore "github.com/onosproject/onos-config/pkg/store/v2/configuration"
	proposalstore "github.com/onosproject/onos-config/pkg/store/v2/proposal"
	transactionstore "github.com/onosproject/onos-config/pkg/store/v2/transaction"
	"github.com/onosproject/onos-config/pkg/utils"
	pathutils "github.com/onosproject/onos-config/pkg/utils/path"
	"github.com/onosproject/onos-lib-go/pkg/controller"
	"github.com/onosproject/onos-lib-go/pkg/errors"
	baseClient "github.com/openconfig/gnmi/client"
	gpb "github.com/openconfig/gnmi/proto/gnmi"
	"google.golang.org/grpc/codes"
	"google.golang.org/grpc/status"
)

// ---------------------------------------------------------------------------------------------
// topo

type fakeTopo struct {
	mu       sync.Mutex
	objects  map[topoapi.ID]*topoapi.Object
	watchers []*topoWatcher
}

type topoWatcher struct {
	mu    sync.Mutex
	cond  *sync.Cond
	queue []topoapi.Event
}

func newFakeTopo() *fakeTopo {
	return &fakeTopo{objects: make(map[topoapi.ID]*topoapi.Object)}
}

func (s *fakeTopo) notify(t topoapi.EventType, o *topoapi.Object) {
	for _, w := range s.watchers {
		w.mu.Lock()
		w.queue = append(w.queue, topoapi.Event{Type: t, Object: *o})
		w.cond.Signal()
		w.mu.Unlock()
	}
}

func (s *fakeTopo) Create(ctx context.Context, object *topoapi.Object) error {
	s.mu.Lock()
	defer s.mu.Unlock()
	if _, ok := s.objects[object.ID]; ok {
		return errors.NewAlreadyExists("object %s exists", object.ID)
	}
	object.Revision = 1
	s.objects[object.ID] = object
	s.notify(topoapi.EventType_ADDED, object)
	return nil
}

func (s *fakeTopo) Update(ctx context.Context, object *topoapi.Object) error {
	s.mu.Lock()
	defer s.mu.Unlock()
	if _, ok := s.objects[object.ID]; !ok {
		return errors.NewNotFound("object %s not found", object.ID)
	}
	object.Revision++
	s.objects[object.ID] = object
	s.notify(topoapi.EventType_UPDATED, object)
	return nil
}

func (s *fakeTopo) Get(ctx context.Context, id topoapi.ID) (*topoapi.Object, error) {
	s.mu.Lock()
	defer s.mu.Unlock()
	o, ok := s.objects[id]
	if !ok {
		return nil, errors.NewNotFound("object %s not found", id)
	}
	return o, nil
}

func (s *fakeTopo) List(ctx context.Context, filters *topoapi.Filters) ([]topoapi.Object, error) {
	s.mu.Lock()
	defer s.mu.Unlock()
	var out []topoapi.Object
	for _, o := range s.objects {
		if filters != nil && filters.RelationFilter != nil {
			rel := o.GetRelation()
			if rel == nil {
				continue
			}
			f := filters.RelationFilter
			if f.RelationKind != "" && string(rel.KindID) != f.RelationKind {
				continue
			}
			if f.SrcId != "" && string(rel.SrcEntityID) != f.SrcId {
				continue
			}
			if f.TargetId != "" && string(rel.TgtEntityID) != f.TargetId {
				continue
			}
		}
		out = append(out, *o)
	}
	return out, nil
}

func (s *fakeTopo) Delete(ctx context.Context, object *topoapi.Object) error {
	s.mu.Lock()
	defer s.mu.Unlock()
	o, ok := s.objects[object.ID]
	if !ok {
		return errors.NewNotFound("object %s not found", object.ID)
	}
	delete(s.objects, object.ID)
	s.notify(topoapi.EventType_REMOVED, o)
	return nil
}

func (s *fakeTopo) Watch(ctx context.Context, ch chan<- topoapi.Event, filters *topoapi.Filters) error {
	w := &topoWatcher{}
	w.cond = sync.NewCond(&w.mu)
	s.mu.Lock()
	for _, o := range s.objects {
		w.queue = append(w.queue, topoapi.Event{Type: topoapi.EventType_NONE, Object: *o})
	}
	s.watchers = append(s.watchers, w)
	s.mu.Unlock()
	go func() {
		<-ctx.Done()
		w.mu.Lock()
		w.cond.Broadcast()
		w.mu.Unlock()
	}()
	go func() {
		defer close(ch)
		for {
			w.mu.Lock()
			for len(w.queue) == 0 && ctx.Err() == nil {
				w.cond.Wait()
			}
			if ctx.Err() != nil {
				w.mu.Unlock()
				return
			}
			e := w.queue[0]
			w.queue = w.queue[1:]
			w.mu.Unlock()
			select {
			case ch <- e:
			case <-ctx.Done():
				return
			}
		}
	}()
	return nil
}

// ---------------------------------------------------------------------------------------------
// device

// fakeDevice is a gNMI target holding leaves; a delete removes the node and everything beneath it.
type fakeDevice struct {
	mu     sync.Mutex
	values map[string]string
	sets   []string // log of the Set requests received, rendered
	// reject, when set, decides the outcome of a Set before it is applied
	reject func(req *gpb.SetRequest) error
	// hold, when set, is called (unlocked) before a Set is applied: lets a test park a request
	hold func(req *gpb.SetRequest)
	// latency is the time the device takes to commit one Set
	latency time.Duration
}

func newFakeDevice() *fakeDevice {
	return &fakeDevice{values: make(map[string]string)}
}

func renderSet(req *gpb.SetRequest) string {
	var parts []string
	for _, d := range req.Delete {
		parts = append(parts, "-"+utils.StrPath(d))
	}
	for _, u := range req.Replace {
		parts = append(parts, "="+utils.StrPath(u.Path)+":"+utils.StrVal(u.Val))
	}
	for _, u := range req.Update {
		parts = append(parts, "+"+utils.StrPath(u.Path)+":"+utils.StrVal(u.Val))
	}
	return strings.Join(parts, " ")
}

func (d *fakeDevice) set(ctx context.Context, req *gpb.SetRequest) (*gpb.SetResponse, error) {
	if h := d.getHold(); h != nil {
		h(req)
	}
	d.mu.Lock()
	latency := d.latency
	d.mu.Unlock()
	if latency > 0 {
		select {
		case <-time.After(latency):
		case <-ctx.Done():
			// what the gRPC client reports when the context of the call expires
			return nil, status.Error(codes.DeadlineExceeded, ctx.Err().Error())
		}
	}
	d.mu.Lock()
	defer d.mu.Unlock()
	if d.reject != nil {
		if err := d.reject(req); err != nil {
			d.sets = append(d.sets, "REJECTED "+renderSet(req))
			return nil, err
		}
	}
	d.sets = append(d.sets, renderSet(req))
	for _, del := range req.Delete {
		p := utils.StrPath(del)
		for k := range d.values {
			if k == p || pathutils.IsDescendantPath(k, p) {
				delete(d.values, k)
			}
		}
	}
	for _, u := range append(append([]*gpb.Update{}, req.Replace...), req.Update...) {
		d.values[utils.StrPath(u.Path)] = utils.StrVal(u.Val)
	}
	return &gpb.SetResponse{}, nil
}

func (d *fakeDevice) getHold() func(req *gpb.SetRequest) {
	d.mu.Lock()
	defer d.mu.Unlock()
	return d.hold
}

func (d *fakeDevice) snapshot() map[string]string {
	d.mu.Lock()
	defer d.mu.Unlock()
	out := make(map[string]string, len(d.values))
	for k, v := range d.values {
		out[k] = v
	}
	return out
}

func (d *fakeDevice) log() []string {
	d.mu.Lock()
	defer d.mu.Unlock()
	return append([]string{}, d.sets...)
}

// wipe models a restart of the device with empty state
func (d *fakeDevice) wipe() {
	d.mu.Lock()
	d.values = make(map[string]string)
	d.mu.Unlock()
}

// ---------------------------------------------------------------------------------------------
// connections

type fakeConn struct {
	id     gnmi.ConnID
	target topoapi.ID
	device *fakeDevice
}

func (c *fakeConn) ID() gnmi.ConnID       { return c.id }
func (c *fakeConn) TargetID() topoapi.ID { return c.target }
func (c *fakeConn) Close() error         { return nil }
func (c *fakeConn) Capabilities(ctx context.Context, r *gpb.CapabilityRequest) (*gpb.CapabilityResponse, error) {
	return &gpb.CapabilityResponse{}, nil
}
func (c *fakeConn) CapabilitiesWithString(ctx context.Context, request string) (*gpb.CapabilityResponse, error) {
	return &gpb.CapabilityResponse{}, nil
}
func (c *fakeConn) Get(ctx context.Context, r *gpb.GetRequest) (*gpb.GetResponse, error) {
	return &gpb.GetResponse{}, nil
}
func (c *fakeConn) GetWithString(ctx context.Context, request string) (*gpb.GetResponse, error) {
	return &gpb.GetResponse{}, nil
}
func (c *fakeConn) Set(ctx context.Context, r *gpb.SetRequest) (*gpb.SetResponse, error) {
	// the real client converts the gRPC error of the device with errors.FromGRPC
	resp, err := c.device.set(ctx, r)
	return resp, errors.FromGRPC(err)
}
func (c *fakeConn) SetWithString(ctx context.Context, request string) (*gpb.SetResponse, error) {
	return nil, errors.NewNotSupported("not supported")
}
func (c *fakeConn) Subscribe(ctx context.Context, q baseClient.Query) error { return nil }
func (c *fakeConn) Poll() error                                             { return nil }

var _ gnmi.Conn = &fakeConn{}

type fakeConnManager struct {
	mu       sync.Mutex
	conns    map[gnmi.ConnID]gnmi.Conn
	watchers []chan<- gnmi.Conn
}

func newFakeConnManager() *fakeConnManager {
	return &fakeConnManager{conns: make(map[gnmi.ConnID]gnmi.Conn)}
}

func (m *fakeConnManager) Get(ctx context.Context, connID gnmi.ConnID) (gnmi.Conn, bool) {
	m.mu.Lock()
	defer m.mu.Unlock()
	c, ok := m.conns[connID]
	return c, ok
}
func (m *fakeConnManager) GetByTarget(ctx context.Context, targetID topoapi.ID) (gnmi.Client, error) {
	m.mu.Lock()
	defer m.mu.Unlock()
	for _, c := range m.conns {
		if c.TargetID() == targetID {
			return c, nil
		}
	}
	return nil, errors.NewNotFound("no client")
}
func (m *fakeConnManager) Connect(ctx context.Context, target *topoapi.Object) error { return nil }
func (m *fakeConnManager) Disconnect(ctx context.Context, targetID topoapi.ID) error { return nil }
func (m *fakeConnManager) Watch(ctx context.Context, ch chan<- gnmi.Conn) error {
	m.mu.Lock()
	defer m.mu.Unlock()
	m.watchers = append(m.watchers, ch)
	for _, c := range m.conns {
		c := c
		go func() { ch <- c }()
	}
	return nil
}
func (m *fakeConnManager) add(c gnmi.Conn) {
	m.mu.Lock()
	m.conns[c.ID()] = c
	ws := append([]chan<- gnmi.Conn{}, m.watchers...)
	m.mu.Unlock()
	for _, w := range ws {
		w <- c
	}
}
func (m *fakeConnManager) remove(id gnmi.ConnID) {
	m.mu.Lock()
	c, ok := m.conns[id]
	delete(m.conns, id)
	ws := append([]chan<- gnmi.Conn{}, m.watchers...)
	m.mu.Unlock()
	if ok {
		for _, w := range ws {
			w <- c
		}
	}
}

var _ gnmi.ConnManager = &fakeConnManager{}

// ---------------------------------------------------------------------------------------------
// environment

const (
	c04Type    = "devicesim"
	c04Version = "1.0.0"
)

type c04Env struct {
	t              *testing.T
	mctl           *gomock.Controller
	atomix         *atomixtest.Client
	topo           *fakeTopo
	conns          *fakeConnManager
	configurations configurationstore.Store
	proposals      proposalstore.Store
	transactions   transactionstore.Store
	registry       *pluginmock.MockPluginRegistry
	controllers    []*controller.Controller
	target         configapi.TargetID
	device         *fakeDevice
	conn           *fakeConn
	connSeq        int
	// version is the target version the transactions are made for (the TargetVersionOverrides of a Set);
	// the Configurable aspect of the topo entity always says c04Version
	version configapi.TargetVersion
}

func newC04Env(t *testing.T, target string, persistent bool) *c04Env {
	_ = os.Setenv("POD_ID", "onos-config-c04")
	mctl := gomock.NewController(t)
	cluster := atomixtest.NewClient()
	cfgs, err := configurationstore.NewAtomixStore(cluster)
	if err != nil {
		t.Fatal(err)
	}
	props, err := proposalstore.NewAtomixStore(cluster)
	if err != nil {
		t.Fatal(err)
	}
	txs, err := transactionstore.NewAtomixStore(cluster)
	if err != nil {
		t.Fatal(err)
	}

	registry := pluginmock.NewMockPluginRegistry(mctl)
	plugin := pluginmock.NewMockModelPlugin(mctl)
	plugin.EXPECT().Validate(gomock.Any(), gomock.Any()).AnyTimes().Return(nil)
	plugin.EXPECT().Capabilities(gomock.Any()).AnyTimes().Return(&gpb.CapabilityResponse{})
	registry.EXPECT().GetPlugin(gomock.Any(), gomock.Any()).AnyTimes().Return(plugin, true)

	topo := newFakeTopo()
	node := &topoapi.Object{
		ID:   controllerutils.GetOnosConfigID(),
		Type: topoapi.Object_ENTITY,
		Obj:  &topoapi.Object_Entity{Entity: &topoapi.Entity{KindID: topoapi.ONOS_CONFIG}},
	}
	if err := topo.Create(context.TODO(), node); err != nil {
		t.Fatal(err)
	}
	entity := &topoapi.Object{
		ID:   topoapi.ID(target),
		Type: topoapi.Object_ENTITY,
		Obj:  &topoapi.Object_Entity{Entity: &topoapi.Entity{KindID: "devicesim"}},
	}
	if err := entity.SetAspect(&topoapi.Configurable{
		Type: c04Type, Version: c04Version, Target: target, Persistent: persistent,
	}); err != nil {
		t.Fatal(err)
	}
	if err := topo.Create(context.TODO(), entity); err != nil {
		t.Fatal(err)
	}

	return &c04Env{
		t: t, mctl: mctl, atomix: cluster, topo: topo, conns: newFakeConnManager(),
		configurations: cfgs, proposals: props, transactions: txs, registry: registry,
		target: configapi.TargetID(target), device: newFakeDevice(), version: c04Version,
	}
}

// startControllers starts every controller of the manager that takes part in pushing configuration
func (e *c04Env) startControllers() {
	cs := []*controller.Controller{
		connectioncontroller.NewController(e.topo, e.conns),
		configurationcontroller.NewController(e.topo, e.conns, e.configurations),
		NewController(e.topo, e.conns, e.proposals, e.configurations, e.registry),
		transactioncontroller.NewController(e.transactions, e.proposals),
		mastershipcontroller.NewController(e.topo, e.configurations),
	}
	for _, c := range cs {
		if err := c.Start(); err != nil {
			e.t.Fatal(err)
		}
	}
	e.controllers = cs
}

// restartControllers models a restart of the onos-config process (the device connection is kept by the test)
func (e *c04Env) restartControllers() {
	for _, c := range e.controllers {
		c.Stop()
	}
	e.startControllers()
}

func (e *c04Env) stop() {
	for _, c := range e.controllers {
		c.Stop()
	}
	e.atomix.Close()
}

func (e *c04Env) configID() configapi.ConfigurationID {
	return configurationstore.NewID(e.target, c04Type, e.version)
}

// connect opens a (new) connection to the device
func (e *c04Env) connect() {
	e.connSeq++
	e.conn = &fakeConn{id: gnmi.ConnID(fmt.Sprintf("uuid:conn-%d-%s", e.connSeq, uuid.New().String())), target: topoapi.ID(e.target), device: e.device}
	e.conns.add(e.conn)
}

// disconnect drops the current connection
func (e *c04Env) disconnect() {
	if e.conn != nil {
		e.conns.remove(e.conn.id)
		e.conn = nil
	}
}

// restartEmpty models a device that restarts with empty state: the connection is lost and replaced
func (e *c04Env) restartEmpty() {
	e.disconnect()
	e.device.wipe()
	e.connect()
}

func strValue(s string) configapi.TypedValue {
	return *configapi.NewTypedValueString(s)
}

type c04Op struct {
	path   string
	value  string
	delete bool
}

func set(path, value string) c04Op { return c04Op{path: path, value: value} }
func del(path string) c04Op        { return c04Op{path: path, delete: true} }

// change submits a change transaction the way the northbound Set does
func (e *c04Env) change(ops ...c04Op) *configapi.Transaction {
	values := make(map[string]*configapi.PathValue)
	for _, op := range ops {
		if op.delete {
			values[op.path] = &configapi.PathValue{Path: op.path, Value: *configapi.NewTypedValueEmpty(), Deleted: true}
		} else {
			values[op.path] = &configapi.PathValue{Path: op.path, Value: strValue(op.value)}
		}
	}
	tx := &configapi.Transaction{
		ID: configapi.TransactionID("uuid:" + uuid.New().String()),
		Details: &configapi.Transaction_Change{Change: &configapi.ChangeTransaction{
			Values: map[configapi.TargetID]*configapi.PathValues{e.target: {Values: values}},
		}},
		TargetVersionOverrides: &configapi.TargetVersionOverrides{Overrides: map[string]*configapi.TargetTypeVersion{
			string(e.target): {TargetType: c04Type, TargetVersion: e.version},
		}},
	}
	if err := e.transactions.Create(context.TODO(), tx); err != nil {
		e.t.Fatal(err)
	}
	return tx
}

// rollback submits a rollback transaction the way the admin service does
func (e *c04Env) rollback(index configapi.Index) *configapi.Transaction {
	tx := &configapi.Transaction{
		ID:      configapi.TransactionID("uuid:" + uuid.New().String()),
		Details: &configapi.Transaction_Rollback{Rollback: &configapi.RollbackTransaction{RollbackIndex: index}},
	}
	if err := e.transactions.Create(context.TODO(), tx); err != nil {
		e.t.Fatal(err)
	}
	return tx
}

func (e *c04Env) tx(index configapi.Index) *configapi.Transaction {
	tx, err := e.transactions.GetByIndex(context.TODO(), index)
	if err != nil {
		e.t.Fatalf("transaction %d: %v", index, err)
	}
	return tx
}

func (e *c04Env) config() *configapi.Configuration {
	c, err := e.configurations.Get(context.TODO(), e.configID())
	if err != nil {
		return nil
	}
	return c
}

func txDone(tx *configapi.Transaction) bool {
	p := tx.Status.Phases
	if p.Apply != nil && p.Apply.State != configapi.TransactionApplyPhase_APPLYING {
		return true
	}
	if p.Abort != nil && p.Abort.State == configapi.TransactionAbortPhase_ABORTED {
		return true
	}
	return false
}

func txCommitted(tx *configapi.Transaction) bool {
	p := tx.Status.Phases
	if p.Commit != nil && p.Commit.State == configapi.TransactionCommitPhase_COMMITTED {
		return true
	}
	if p.Abort != nil && p.Abort.State == configapi.TransactionAbortPhase_ABORTED {
		return true
	}
	return false
}

// eventually polls until cond holds; reports whether it did within the timeout
func eventually(timeout time.Duration, cond func() bool) bool {
	deadline := time.Now().Add(timeout)
	for time.Now().Before(deadline) {
		if cond() {
			return true
		}
		time.Sleep(10 * time.Millisecond)
	}
	return cond()
}

// quiescent: no transaction in flight and the target connected and reported synchronized in the current term
func (e *c04Env) quiescent() bool {
	txs, err := e.transactions.List(context.TODO())
	if err != nil {
		return false
	}
	for _, tx := range txs {
		if !txDone(tx) {
			return false
		}
	}
	c := e.config()
	if c == nil {
		return len(txs) == 0
	}
	if e.conn == nil {
		return false
	}
	return c.Status.State == configapi.ConfigurationStatus_SYNCHRONIZED &&
		c.Status.Mastership.Master == string(e.conn.id) &&
		c.Status.Applied.Mastership.Term == c.Status.Mastership.Term
}

// settle waits until the system is quiescent and stays so
func (e *c04Env) settle(timeout time.Duration) bool {
	return eventually(timeout, func() bool {
		if !e.quiescent() {
			return false
		}
		before := len(e.device.log())
		time.Sleep(150 * time.Millisecond)
		return e.quiescent() && len(e.device.log()) == before
	})
}

// allCommitted waits until every transaction is committed (or aborted)
func (e *c04Env) allCommitted(timeout time.Duration) bool {
	return eventually(timeout, func() bool {
		txs, err := e.transactions.List(context.TODO())
		if err != nil {
			return false
		}
		for _, tx := range txs {
			if !txCommitted(tx) {
				return false
			}
		}
		return true
	})
}

// live renders the leaves of a stored value map that are not deleted
func live(values map[string]*configapi.PathValue) map[string]string {
	out := make(map[string]string)
	for p, v := range values {
		if !v.Deleted {
			out[p] = string(v.Value.Bytes)
		}
	}
	return out
}

func render(m map[string]string) string {
	keys := make([]string, 0, len(m))
	for k := range m {
		keys = append(keys, k)
	}
	sort.Strings(keys)
	var parts []string
	for _, k := range keys {
		parts = append(parts, k+"="+m[k])
	}
	return "{" + strings.Join(parts, " ") + "}"
}

func (e *c04Env) dump() string {
	var b strings.Builder
	c := e.config()
	if c != nil {
		fmt.Fprintf(&b, "configuration: index=%d state=%s master=%q term=%d applied(index=%d term=%d) committed=%d proposed=%d\n",
			c.Index, c.Status.State, c.Status.Mastership.Master, c.Status.Mastership.Term,
			c.Status.Applied.Index, c.Status.Applied.Mastership.Term, c.Status.Committed.Index, c.Status.Proposed.Index)
		fmt.Fprintf(&b, "  stored : %s\n  applied: %s\n", render(live(c.Values)), render(live(c.Status.Applied.Values)))
	}
	fmt.Fprintf(&b, "  device : %s\n", render(e.device.snapshot()))
	txs, _ := e.transactions.List(context.TODO())
	for _, tx := range txs {
		fmt.Fprintf(&b, "  tx %d: state=%s", tx.Index, tx.Status.State)
		for _, pid := range tx.Status.Proposals {
			if p, err := e.proposals.Get(context.TODO(), pid); err == nil {
				ph := p.Status.Phases
				switch {
				case ph.Apply != nil:
					fmt.Fprintf(&b, " [%s apply=%s]", pid, ph.Apply.State)
				case ph.Abort != nil:
					fmt.Fprintf(&b, " [%s abort=%s]", pid, ph.Abort.State)
				case ph.Commit != nil:
					fmt.Fprintf(&b, " [%s commit=%s]", pid, ph.Commit.State)
				case ph.Validate != nil:
					fmt.Fprintf(&b, " [%s validate=%s]", pid, ph.Validate.State)
				default:
					fmt.Fprintf(&b, " [%s init]", pid)
				}
			}
		}
		b.WriteString("\n")
	}
	for i, s := range e.device.log() {
		fmt.Fprintf(&b, "  set[%d]: %s\n", i, s)
	}
	return b.String()
}

func grpcErr(code codes.Code, msg string) error {
	return status.Error(code, msg)
}
