package proposal

import (
	"testing"
	"time"
)

// The Set carries a target version override (a supported northbound extension), so the Configuration is
// kept under a version other than the one in the topo entity's Configurable aspect. After the device
// restarts empty and the connection is replaced, the applied configuration must be pushed again.
func TestC04OverriddenVersionIsNotPushedAgainAfterRestart(t *testing.T) {
	e := newC04Env(t, "target-1", false)
	defer e.stop()
	e.version = "2.0.0"
	e.startControllers()
	e.connect()
	e.change(set("/a", "1"))
	if !e.settle(20 * time.Second) {
		t.Fatalf("did not settle\n%s", e.dump())
	}
	if got, want := render(e.device.snapshot()), "{/a=1}"; got != want {
		t.Fatalf("device %s, want %s", got, want)
	}

	e.restartEmpty()
	ok := eventually(5*time.Second, func() bool { return render(e.device.snapshot()) == "{/a=1}" })
	c := e.config()
	if !ok {
		t.Fatalf("5s after the restart: device %s, stored %s; configuration state=%s master=%q (live connection %q) term=%d applied term=%d\n%s",
			render(e.device.snapshot()), render(live(c.Values)), c.Status.State, c.Status.Mastership.Master, e.conn.id,
			c.Status.Mastership.Term, c.Status.Applied.Mastership.Term, e.dump())
	}
}
