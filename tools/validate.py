#!/usr/bin/env python3
import json, glob, sys
import jsonschema
m = json.load(open('MANIFEST.json'))
jsonschema.validate(m, json.load(open('/root/.vp/MANIFEST.schema.json')))
es = json.load(open('/root/.vp/EVIDENCE.schema.json'))
for c in m['checks']:
    try:
        jsonschema.validate(json.load(open(c['evidence_file'])), es)
    except Exception as e:
        print('EVIDENCE INVALID', c['evidence_file'], str(e)[:300]); sys.exit(1)
print('manifest + %d evidence files valid' % len(m['checks']))
