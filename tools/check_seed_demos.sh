#!/bin/bash
# usage: tools/check_seed_demos.sh [-j N] [seed ids...] — re-runs every seed's demonstration on a scratch copy of /repo's HEAD:
# it must PASS without the patch and FAIL with it (run after fix commits, which can invalidate a demonstration's harness).
J=3; IDS=()
while [ $# -gt 0 ]; do case "$1" in -j) shift; J=$1;; *) IDS+=("$1");; esac; shift; done
[ ${#IDS[@]} -eq 0 ] && IDS=($(ls -d /verif/seeded/C*/ | xargs -n1 basename))
one() {
  id="$1"; d=/verif/seeded/$id
  export GOFLAGS=-mod=mod GOPROXY=off GOSUMDB=off GOTOOLCHAIN=local; unset GOWORK
  pkg=$(python3 -c "import json;print(json.load(open('$d/meta.json'))['demonstration']['package'])")
  run=$(python3 -c "import json;print(json.load(open('$d/meta.json'))['demonstration']['run'])")
  S=$(mktemp -d /tmp/demo.XXXXXX); git -C /repo archive HEAD | tar -x -C "$S"; cd "$S"
  cp "$d"/*_test.go "$pkg/"
  go test -vet=off -count=1 -timeout 300s -run "$run" "./$pkg/" >/dev/null 2>&1; without=$?
  if ! patch -s -p1 < "$d/patch.diff" >/dev/null 2>&1; then echo "$id: PATCH DOES NOT APPLY"; cd /; rm -rf "$S"; return; fi
  go test -vet=off -count=1 -timeout 300s -run "$run" "./$pkg/" >/dev/null 2>&1; with=$?
  cd /; rm -rf "$S"
  if [ $without -eq 0 ] && [ $with -ne 0 ]; then echo "$id: ok"; else echo "$id: INVALID without=$without with=$with"; fi
}
export -f one
printf '%s\n' "${IDS[@]}" | xargs -P "$J" -I{} bash -c 'one {}' | sort
