#!/bin/bash
# usage: tools/eval_all_refactors.sh [-j N] [ids...] — every patch under refactors/ is behaviour preserving; whatever the
# checker reports on it is a false alarm. Prints one block per patch and the list of patches that raise an alarm.
J=6; [ "$1" = "-j" ] && { J=$2; shift 2; }
HERE="$(cd "$(dirname "$0")/.." && pwd)"; R=$(mktemp -d /tmp/refres.XXXXXX)
if [ $# -gt 0 ]; then L=$(for i in "$@"; do echo $HERE/refactors/$i.diff; done); else L=$(ls $HERE/refactors/*.diff); fi
echo "$L" | xargs -P $J -I{} sh -c "$HERE/tools/eval_refactor.sh {} > $R/\$(basename {}).txt 2>&1"
cat $R/*.txt
echo "---- patches with false alarms:"; grep -L "scan: 0 unlisted" $R/*.txt | xargs -n1 basename 2>/dev/null | sed 's/.diff.txt//' | tr '\n' ' '; echo
rm -rf $R
