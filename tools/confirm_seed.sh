#!/bin/bash
# usage: tools/confirm_seed.sh <seed-src-dir> <seed-id> <property> <pkg-dir> <run-regex> <needs text>
# Confirms a seeded change in a scratch copy of /repo (HEAD): it applies, builds, passes the existing
# suite, its demonstration fails with the change and passes without; then files it under
# /verif/seeded/<seed-id>/ and records what the checks say about it.
set -u
SRC="$1"; ID="$2"; PROP="$3"; PKG="$4"; RUN="$5"; NEEDS="$6"
HERE="$(cd "$(dirname "$0")/.." && pwd)"
export GOFLAGS=-mod=mod GOPROXY=off GOSUMDB=off GOTOOLCHAIN=local; unset GOWORK
S=$(mktemp -d /tmp/confirm.XXXXXX)
trap 'rm -rf "$S"' EXIT
git -C /repo archive HEAD | tar -x -C "$S"
cd "$S"
patch -s -p1 < "$SRC/patch.diff" || { echo "$ID: PATCH DOES NOT APPLY"; exit 2; }
go build ./... >/dev/null 2>&1 || { echo "$ID: DOES NOT BUILD"; exit 2; }
SUITE=$(go test -vet=off -count=1 ./pkg/... 2>&1 | grep -E "^(FAIL|---)" | head -5)
if [ -n "$SUITE" ]; then
  # flaky under load (TestProposalStore, southbound): the failing packages are run once more on their own
  PK=$(go test -vet=off -count=1 ./pkg/... 2>&1 | grep -E "^FAIL\s+github" | awk '{print $2}' | sort -u)
  SUITE=""
  for q in $PK; do go test -vet=off -count=1 "$q" >/dev/null 2>&1 || SUITE="$SUITE FAIL:$q"; done
fi
[ -z "$SUITE" ] && SUITE_OK=true || SUITE_OK=false
cp "$SRC"/*_test.go "$PKG/"
go test -vet=off -count=1 -timeout 300s -run "$RUN" "./$PKG/" > "$S/with.log" 2>&1; WITH=$?
patch -s -R -p1 < "$SRC/patch.diff"
go test -vet=off -count=1 -timeout 300s -run "$RUN" "./$PKG/" > "$S/without.log" 2>&1; WITHOUT=$?
echo "$ID: suite_ok=$SUITE_OK demo_with_change_exit=$WITH demo_without_change_exit=$WITHOUT"
if [ "$SUITE_OK" = true ] && [ $WITH -ne 0 ] && [ $WITHOUT -eq 0 ]; then
  D="$HERE/seeded/$ID"; mkdir -p "$D"
  cp "$SRC/patch.diff" "$D/"; cp "$SRC"/*_test.go "$D/"; [ -f "$SRC/NOTES.md" ] && cp "$SRC/NOTES.md" "$D/"
  DET=$("$HERE/tools/eval_seed_scratch.sh" "$D" 2>&1 | grep -E "^C[0-9]+ " | awk '{print $1" "$2" "$3}' | sort -u | tr '\n' ';')
  python3 - "$D" "$ID" "$PROP" "$PKG" "$RUN" "$NEEDS" "$DET" <<'PY'
import json,sys
d,i,p,pkg,run,needs,det=sys.argv[1:8]
json.dump({"id":i,"breaks_property":p,"needs_to_manifest":needs,"demonstration":{"package":pkg,"run":run},
 "confirmed":{"applies_to":"/repo HEAD","builds":True,"existing_suite_passes_with_change":True,"demonstration_fails_with_change":True,"demonstration_passes_without_change":True,
  "how":"tools/confirm_seed.sh: scratch copy of /repo HEAD (git archive), patch -p1, go build ./..., go test -vet=off -count=1 ./pkg/..., demonstration with and without the patch"},
 "detected_by":[x for x in det.split(';') if x]}, open(d+"/meta.json","w"), indent=1)
PY
  echo "$ID: kept; detected by: $DET"
else
  echo "$ID: NOT CONFIRMED"; tail -5 "$S/with.log"; tail -5 "$S/without.log"; echo "$SUITE"
fi
