#!/bin/bash
# usage: tools/eval_refactor.sh <patch.diff> — applies a behaviour-preserving patch to a scratch copy of /repo's HEAD
# and scans it: every line printed is a FALSE ALARM of the checker (the patch does not change behaviour).
P="$(realpath "$1")"; S=$(mktemp -d /tmp/evalref.XXXXXX); trap 'rm -rf "$S"' EXIT
git -C /repo archive HEAD | tar -x -C "$S"
(cd "$S" && git apply --whitespace=nowarn "$P" 2>/dev/null || patch -s -p1 < "$P") || { echo "$(basename $P): patch does not apply"; exit 2; }
OUT=$(OCCHECK_VERIF=/verif OCCHECK_REPO="$S" "${OCCHECK_BIN:-/verif/bin/occheck}" scan 2>&1)
echo "== $(basename $P): $(echo "$OUT" | tail -1)"
echo "$OUT" | grep -E "^C[0-9]+ (falsified|undecided)" | sort | uniq -c
