#!/usr/bin/env python3
"""Generates /verif/MANIFEST.json from the table below and the list of checks the binary registers."""
import json, os, subprocess, sys
HERE = os.path.dirname(os.path.dirname(os.path.abspath(__file__)))
ALL = ["C%02d" % i for i in range(1, 21)]

CHECKS = {
 "C01": dict(
   technique="finite-domain evaluation of the all-proposals loop gates over the enum domains, path-condition entailment, who-may-write (ownership) scan",
   text="The five transaction-level state advances are shown to be gated by an all-elements flag over exactly T.Status.Proposals whose loop body, evaluated over the whole state enum, lets only the target state pass; a FAILED validation is shown to fail the transaction and open Abort without ever opening Commit; phases are opened only from their predecessor state and only by the transaction controller; the abort path performs no value-persisting effect and the commit path has no failure outcome. Decides the code shape behind all-or-nothing, not store atomicity. Also decided: the store persists values before the record whose cursor claims them, and the per-target chain is linked under the proposed cursor.",
   note="Trusted: go/types, the occheck path enumerator/canonicaliser/literal solver, the obligation table. Assumes enum fields hold declared constants. Not covered: atomicity of the Atomix stores, crash atomicity beyond C07.",
   ref="DESIGN.md §3 C01"),
 "C02": dict(
   technique="path-condition entailment over enumerated reconciler paths (guarded-effect analysis on the type-checked AST), ownership of cursor writes",
   text="Every ordering guard of the v2 protocol (transaction init order, chain linking, validate/commit/apply cursor guards, apply-after-commit, own-index cursor writes, no terminal state with a cursor left on the predecessor) is shown to dominate its effect on every enumerated path of the v2 proposal and transaction reconcilers. This decides the code shape that makes log order hold on every schedule; it does not observe orders at run time. Also decided: a transaction phase finishes only when every proposal finished it. Also decided: the committed cursor is written after the values it stands for (store write order), and the proposals of one target are keyed to one worker (the partition key is the proposal id cut at its last '-', which NewID builds from the target id).",
   note="Trusted: go/types, the occheck path enumerator/canonicaliser/literal solver, the obligation table. Not covered: interleavings between a guard and its write (relies on C15's version-checked writes), device behaviour.",
   ref="DESIGN.md §3 C02, §2"),
 "C07": dict(
   technique="path-condition entailment (re-entrancy guards), must-precede over enumerated paths (write order), effect-after-effect exclusion, receiver-field ownership, call-argument rule (WithReplay)",
   text="Crash safety is reduced to re-entrancy of every reconcile step and decided structurally: non-idempotent effects sit behind the cursor guards that skip a repeated step, the re-entrancy record is written (and its error honoured) before the status that depends on it, a pass ends after a status write, AlreadyExists is tolerated after Create, reconcilers hold only store interfaces and assign no field, and every controller watcher subscribes with replay. Also decided: replayed records carry the entry's index and version.",
   note="Trusted: as C02. Not covered: equivalence of final outcomes with/without a crash (history property), Atomix durability.",
   ref="DESIGN.md §3 C07"),
 "C09": dict(
   technique="outcome tables over enumerated paths (which class of paths must return which re-queue / error), frozen watcher event-to-id tables",
   text="The wake-up obligations the fixed-point argument rests on are decided: predecessor waits re-queue the predecessor, terminal states of cursor-advancing phases re-queue the successor, Validate entry and failed Initialize re-queue index+1, watcher bodies send exactly the frozen ids, unclassified store failures are returned as errors. Liveness itself is not decided. Also decided: every watcher a controller package defines is registered by its constructor with its dependencies, the manager starts every controller and returns a failed start, and a record with an open phase reaches that phase's function whatever else it says. Also decided: store-event watchers forward whatever the event's type; replayed transaction events carry their log index.",
   note="Trusted: as C02 plus the frozen wake-up table. Known finding F24 (serializable waits carry no wake-up) is listed. Not covered: delivery by the controller library, new kinds of waits.",
   ref="DESIGN.md §3 C09"),
 "C10": dict(
   technique="ownership of term/master writes (operator and package), path-condition entailment of election and master guards, request dataflow (arbitration extension), who-may-call",
   text="The term is shown to be written by ++ only, in the election branch only; a master is assigned only together with a term increment and only from the CONTROLS/self/target-filtered relation set; CONTROLS relations mirror connections; every southbound Set is sent over the master relation's connection under the master guards and carries the term as election id; no new change is sent while SYNCHRONIZING or in a stale applied term. Also decided: an election or resignation is persisted and a failed write retried; the relation literal is a RELATION. Also decided: every write of the configuration record is conditional on the version the writer read.",
   note="Trusted: as C02. Not covered: simultaneous beliefs of several nodes, the device's arbitration.",
   ref="DESIGN.md §3 C10"),
 "C04": dict(
   technique="loop-gate evaluation over enumerated paths (push loop), path-condition entailment, request dataflow (sent == recorded), outcome tables for offline branches, primitive-naming rule on the stores, request-builder case analysis",
   text="The re-push gate, the entry into SYNCHRONIZING, the apply guards against a stale term, the equality of what is sent and what is recorded as applied, the write-free offline branches, the distinctness of the committed/applied Atomix primitives and the totality of the SetRequest builder are decided from the code. Convergence of a real device is not. Also decided: the collected values are pushed when there are any, a completed re-push (or the nothing-applied shortcut) records SYNCHRONIZED in the current term and master, and every assignment of a master starts a new term. Also decided: the connection life cycle (a replaced connection is a new connection with a new id) and the order of the two writes of UpdateStatus (applied values before the applied cursor).",
   note="Trusted: as C02. Not covered: device state, histories with faults. The primitive-sharing defect found by this check was repaired (fix commit 8e55a12).",
   ref="DESIGN.md §3 C04"),
 "C05": dict(
   technique="must-pass-through and receiver identity of the plugin call, provenance dataflow of the validated document over enumerated paths, verdict outcome table, chunk-cursor rule",
   text="VALIDATED is shown to require a successful Validate on the plugin of the proposal's own type/version; the validated bytes are shown to be BuildTree of a slice filled from the full candidate map (all of Configuration.Values plus exactly the change source that commit later merges); the registry is shown to honour the verdict and to stream the document with an exact chunk cursor. Also decided: the registry's Validate returns nil only after every stream error was tested and the plugin's Valid flag read; every proposal of a transaction is validated before the transaction is. Also decided: validated values are stored before the committed cursor that claims them.",
   note="Trusted: as C02; assumes stored proposals have their Details oneof set (shown for both creating literals in C01.7c). Not covered: contents of the JSON document (BuildTree), leaf-for-leaf equality.",
   ref="DESIGN.md §3 C05"),
 "C06": dict(
   technique="path-condition entailment and outcome tables for the rollback admission rules, loop-body capture rule, ownership of Configuration.Index, capture-domain/write-domain agreement",
   text="The three rollback refusals (not the latest change, missing index, rollback of a rollback) at proposal and transaction level, the capture of prior values for every path the change names, the index written at commit, and the agreement between the captured and the mutated collection are decided. The last one fails today (cascaded deletes) and is listed as known finding F8. Also decided: the captured values are stored on the VALIDATED path, the commit of a rollback merges them, and a rollback gets one proposal per target.",
   note="Trusted: as C02. Not covered: value-exact restoration, device side.",
   ref="DESIGN.md §3 C06"),
 "C11": dict(
   technique="finite-domain evaluation of the apply-error classification over all gRPC codes, error-domain agreement between classifier and producers (resolved through interface implementations), composition of four hand-written class tables",
   text="For each of the 17 gRPC codes the outcome class of the apply step (retry / wait / record refusal with the right class and cursor order) is decided; every error classifier is shown to be applied in the domain its argument's producers are in; the device-code to caller-status composition is shown to be the identity on refusals. Also decided: refused values never enter the applied map, a wait on a predecessor is infeasible for a FAILED predecessor, and a computed FAILED verdict is not lost to a swallowed conflict (fails today: known finding F27). Also decided: the cascade helper is never handed the applied record; the proposal controller's configuration watcher maps to the proposal at the applied cursor.",
   note="Trusted: as C02 plus the source of onos-lib-go errors in the module cache. The classifier-domain defect found (status.Code on a TypedError) was repaired (fix commit e6b405d). Not covered: device-side state, retry timing.",
   ref="DESIGN.md §3 C11"),
 "C08": dict(
   technique="finite-domain evaluation of the handlers' wait loops over Synchronicity x State x Failure type; must-precede and argument dataflow for Create/Watch/response",
   text="Both wait loops are evaluated for every (synchronicity, state) pair and every failure type: success, error and keep-waiting cells must match the required table, the failure class table must be total and exact, Create must succeed before a Watch that carries WithReplay and the created id, and the response must be built from the created record. Delivery and timing are not decided. Also decided: the transaction store registers the handler's watcher before the replay read and keeps it registered when other watchers of the same record leave. Also decided: the transaction store's dispatcher leaves its loop only at the end of the stream; a failed Watch, newUpdateResult or Marshal ends the request with an error; the success response's result list is the list the update results were appended to and carries the transaction-info extension of the created transaction; a FAILED transaction is never answered without a constructed error; RollbackTransaction logs a SYNCHRONOUS rollback of the request's index.",
   note="Trusted: as C02. The (ASYNC, APPLIED) cell was wrong in both handlers and was repaired (fix commit 29792fa). Not covered: that the store delivers events (C15 covers registration order).",
   ref="DESIGN.md §3 C08"),
 "C13": dict(
   technique="effect reachability over resolved calls, outcome tables over the handler's enumerated paths (failed check => no Create, error returned), discarded-error discipline over RPC-reachable functions, addressing dataflow",
   text="The only store mutator reachable from Set is transaction.Create; every failing check returns an error without reaching it; the no-operation and size-limit tests dominate it; no RPC-reachable call drops its error while using its value; target precedence, prefix+path order and the per-operation target are as documented. Also decided: the path validity helper accepts only on a whole-string match. Also decided: path by path what getTargetInfo resolves and registers; every check inside the per-operation helpers and the transaction builder ends the request and records nothing; updates and deletes are recorded only after the checks of their kind, including the key-value pattern for every key; the transaction record carries exactly the collected operations, overrides, strategy and user; JSON documents are resolved relative to prefix+path; Service.Register wires GNMI_SET_SIZE_LIMIT into the Server; element names are escaped.",
   note="Trusted: as C02; calls through interfaces are leaves of the reachability. The discarded NewChangeValue error found here was repaired (fix commit a5a0264). Not covered: FindPathFromModel/CheckKeyValue over all models.",
   ref="DESIGN.md §3 C13"),
 "C14": dict(
   technique="must-precede on the handler's paths (evaluation before Create), control-dependence predicate rule on the granting paths of the evaluation (equality required, substring-like predicates banned), listing predicate",
   text="Create in Set is shown to be reachable only after the group evaluation returned nil on the incoming metadata; every granting path of the evaluation is shown to depend on an equality of a non-empty caller group with a configured group (or on the absence of all identity metadata); the target listing under authorization is shown to depend on the two documented equalities. Also decided: the caller's groups are split by the ';' they are joined with and by nothing else.",
   note="Trusted: as C02. The substring/empty-group defect found here was repaired (fix commit def6732). Not covered: token validation, OPA.",
   ref="DESIGN.md §3 C14"),
 "C15": dict(
   technique="argument rule on primitive updates (IfVersion of the version read), ownership of Version/Index/Revision writes, listener-before-snapshot order on Watch paths, channel typestate (close-once, no send after close) and shared-dispatcher select rule on watch goroutines, lock pairing",
   text="For the five stores: every primitive update is shown to be conditional on the version read for the very record written; versions and log indexes are shown to come from the primitive only; Watch is shown to register its listener before any snapshot read; watch goroutines are shown not to close twice, not to send after close, to guard every subscriber send with ctx.Done() behind a shared dispatcher, and to pair every lock. Linearizability and delivery are not decided. Also decided: a departing watcher removes only its own registration, every handed-out record carries the entry's version and index, event kinds and watch options are mapped, the address of a loop variable never outlives its iteration under the module's Go version, every exit of a watch goroutine keeps its channel drained, and names derived from a target use its whole identity. Also decided: dispatchers leave only at the end of the stream and are opened with context.Background(); no close of a published channel; the address of a part of a loop variable is not kept; a refused conditional write leaves no trace (this one fails on the configuration stores: known finding F35).",
   note="Trusted: go/types, the occheck path enumerator (no inlining in store packages), the rule code. The double close of the v3 transaction store and the bare forwards of four stores found here were repaired (fix commits bf36202, e48fc62, 61b4e7b). Not covered: exits of a watch goroutine during replay that do not drain the per-watch channel (observed, documented in DESIGN.md, no rule).",
   ref="DESIGN.md §3 C15"),
 "C03": dict(
   technique="path-relation lint over resolved calls (boundary-aware subtree test), helper-shape check on enumerated paths, regexp-format rule for the Get filter, map-iteration-order rule (own-key writes inside map ranges, followed one call level), persisting decision table by case evaluation",
   text="The clauses of the sequential-effect property that are visible in the code's shape are decided: the subtree relation goes through a boundary-aware helper whose body is checked, the Get filter ends in an element boundary, writes inside map ranges of the change pipeline are keyed by the iteration's own key (this one fails today: known finding F7), tombstones are filtered on read, and the store's persist decision table is complete. Equality with a reference model over histories is not decided. Also decided: the shape of the cascade (AddDeleteChildren) and of pruning (PrunePathValues), that the store's populate() routes each primitive into its own map, that removals from the value map reach the store and ancestor tombstones are searched with the subtree relation (both fail today: known finding F25), that the Get query is normalised, and that a rollback's tombstone differs, for the store, from what the change wrote. Also decided: a collection that a loop fills and hands on inside the same loop is allocated per iteration (a proposal holds its own target's values only); GetParentPath cuts the last element by position.",
   note="Trusted: go/types, occheck rules. The raw-prefix defects (cascade, pruning, Get filter) found here were repaired (fix commits 2029c13, 3279374). Known finding F7 (map-order dependent merge) is listed with 7 construct keys.",
   ref="DESIGN.md §3 C03"),
 "C16": dict(
   technique="API-uniformity lint over resolved calls (one tokenizer for textual paths), extraction and comparison of the renderer's escape set and the parser's structural runes, must-precede (sort before the key loop)",
   text="A textual path is shown to be cut on '/' only by the bracket- and escape-aware tokenizer (one exempted, guarded idiom); the rune constants the renderer escapes are shown to be the ones the splitter and key parser stop at, with backslash as the escape on both sides; keys are shown to be rendered from a sorted slice; GetParentPath is shown to go through the tokenizer. Round trip and injectivity as such are not decided. Also decided: every rune goes through the escaper, the key grammar written by the renderer is the one parseKey reads, the unescaper and the splitter loop consume what they must, and parseElement handles key-less and keyed elements as specified. Also decided: GetParentPath cuts the last element by position; every key value of an operation path is held against the key-value pattern before the operation is recorded.",
   note="Trusted: go/types, occheck rules. The two raw-'/' cuts found here were repaired (fix commit 395fe09). Not covered: escaping of key names / '[' in names (not needed for YANG identifiers).",
   ref="DESIGN.md §3 C16"),
 "C17": dict(
   technique="extraction and comparison of the writer/reader case tables (type switch and value switch), finite evaluation of the RFC 7951 width rule on enumerated paths, narrowing-conversion scan under the build's type sizes, v2/v3 sibling fingerprints",
   text="Every value kind the gNMI-to-native writer can produce is shown to be an explicit case of both readers, and the oneof written back for a kind to be the one the writer maps to it (scalars and leaf-list elements); unsupported kinds are shown to be refused; the JSON width rule is evaluated on every rendering path; narrowing conversions are limited to the listed, bounded ones; the v2 and v3 copies are shown to be the same statements. Digits and byte equality are not decided. Also decided: every value kind is written into the tree through its own accessor type, the width rule holds for integer leaf-lists, and the rendered document reaches the plugin byte for byte. Also decided: the store rewrites an entry whenever its index changed (sign and width live in TypeOpts); no whole-list attribute is taken from the last element of a leaf-list.",
   note="Trusted: go/types, occheck rules, the onos-api constructor-to-kind naming table. Not covered: behaviour of onos-api typed values (including the NaN precondition, which C12 covers).",
   ref="DESIGN.md §3 C17"),
 "C18": dict(
   technique="path-relation lint (shared with C03), v2/v3 sibling fingerprints, guard conditions of the list-entry reuse on enumerated paths, comparator extraction",
   text="The thinnest claim: pruning is shown to use the boundary-aware subtree helper, the two tree packages to be the same statements, and the three facts the list-entry argument rests on (append iff not all keys matched, mismatch resets and continues, input sorted by Path) to hold on every path. That the tree contains exactly the given leaves for all inputs is not decided. Also decided: the tree is built from the tokenizer's elements only. Also decided: a leaf is read through the accessor of its own kind (stated under C18 as well).",
   note="Trusted: go/types, occheck rules. The pruning defects found were repaired (fix commit 2029c13).",
   ref="DESIGN.md §3 C18"),
 "C19": dict(
   technique="routing and provenance dataflow over the enumerated paths of the split/forward functions, copy-completeness of the split request against the struct's exported field list, outcome tables for the refusals, loop-key argument rule for poll and forward",
   text="The per-target map is shown to be written only at the prefix target (original request) or at the iterated entry's own path target (fresh request, fresh slice, the entry itself appended); every exported list-level option is shown to be copied; the three refusals and the no-target refusal are shown to return errors without forwarding; polls and split requests are shown to go, in the handler's goroutine, to the loop's own key; the relay is shown to pass the received message unchanged. Also decided: the accepted subscription is remembered before it is split, an existing per-target request is reused, and every subscription on a southbound client starts its own response monitor.",
   note="Trusted: go/types, occheck path enumeration (no inlining), the rule code. Not covered: the gNMI client library; the deprecated Path.Element of the prefix; errors of sendSubscriptionRequest are discarded by the code (unknown target silently skipped) — noted, not claimed.",
   ref="DESIGN.md §3 C19"),
 "C20": dict(
   technique="guard-table check transcribed from spec/Transaction.tla over the enumerated paths of the four v3 phase functions and applyValues (status wrappers inlined): dominating-condition entailment for every phase-state and cursor write, write-order rules with call events, outcome rules for the re-queue, error-domain and dropped-error discipline, nil-map and phase-status guards",
   text="For every path of commitChange, applyChange, commitRollback, applyRollback and applyValues it is shown that each phase-state write and each cursor write sits under the enabling condition of the corresponding spec action (commit before apply, log order of commits, ordinal order of applies with the predecessor finished, abort when behind the rollback index), that the committed cursor passes a transaction only after validation or after its FAILED state was persisted, that COMPLETE follows the configuration write, that completion re-queues index+1, that the southbound Set is guarded and carries the term, and that no store error is dropped or classified in the wrong domain. The invariants Order and Consistency over histories are not decided. Also decided: the update table of each of the fourteen actions (which cursors and status fields move together), the reverse-order guards of rollbacks, the recovery branches, and the persist table of the v3 configuration store. Also decided: applyChangeToConfig works on a map the function allocated itself, never on the configuration record.",
   note="Trusted: go/types, occheck path enumeration and solver, the transcription of the spec's guards. Known finding F18d (15 sites): the status wrappers swallow Conflict/NotFound and the caller goes on to the dependent write. Four v3 defects were repaired (039eee4, f9f5608, 18c731f, e6209cd). v3 is not wired into the manager.",
   ref="DESIGN.md §3 C20"),
 "C12": dict(
   technique="panic-site analysis over every module function statically reachable from the RPC handlers (and the v2 controllers): path enumeration with site events (pointer dereference, map write, index, slice, type assertion), nullability sources (optional message fields, getters, message-map elements, nil-assigned module fields, parameters through call sites) and dominating-condition entailment with caller-side guard substitution; frozen reviewed tables for assertions and panics; dataflow rule for regexp.MustCompile; NaN guard",
   text="For each reachable function and each enumerated path it is shown that a pointer that can be nil for a decodable request is tested before a field is read through it, that maps which decode or load as nil are tested or allocated before an indexed write, that slice bounds and indexes computed from strings.Index/LastIndex (or len-1) are tested first (the one untested use is discharged by the checked shape of utils.StrPath: every path string begins with '/'), that MustCompile sees request text only through QuoteMeta, that no panic() and no single-value type assertion is reachable outside five reviewed sites, and that request floats reach big.NewFloat only after a NaN test. Absence of every run-time panic is not decided. Also decided: constant indexes into slices the function did not build are length-tested (in the function or at every call site), and helper goroutines follow the WaitGroup/close discipline. Also decided: the value of a failed call is not dereferenced on its error path (store methods included as roots); no close of a channel published in a watcher registry; integer fields of request messages are range-tested before narrowing conversions; MustCompile sees no request-sized text at all (request text is compiled with regexp.Compile); no goroutine is started before the error of the call it depends on is examined; the southbound client polls only when it knows a subscription stream exists.",
   note="Trusted: go/types, occheck walker and solver, the nullability source table, protobuf decoding facts (repeated message elements and selected oneof members are non-nil; optional message fields, empty maps and key-only map entries are nil). Not covered: function literals run as goroutines use free variables (not parameter-rooted), integer conversions, allocation sizes, third-party code, calls through interfaces. Five defects were repaired (4971eb3, 79df5d9, 9392364, 49a676b, e059f0a) in addition to 87a8378.",
   ref="DESIGN.md §3 C12"),
}

def main():
    built = set(subprocess.run([os.path.join(HERE, "bin/occheck"), "list"], capture_output=True, text=True).stdout.split()[0::1])
    checks, na = [], []
    for pid in ALL:
        c = CHECKS.get(pid)
        if c is None or pid not in built:
            na.append({"property_id": pid, "reason": "check not built yet in this round (engine under construction); see DESIGN.md §3 for the planned structural clauses"})
            continue
        checks.append({
            "property_id": pid,
            "quick_cmd": "./bin/occheck run --property %s --tier quick" % pid,
            "thorough_cmd": "./bin/occheck run --property %s --tier thorough" % pid,
            "evidence_file": "evidence/%s.json" % pid,
            "replay_cmd_template": "./bin/occheck explain {path}",
            "engine": "occheck",
            "level_claimed": {"category": "other", "text": c["text"], "design_ref": c["ref"]},
            "level_note": c["note"],
            "technique": c["technique"],
        })
    m = {
        "version": 1,
        "setup_cmd": "cd checker && GOFLAGS=-mod=vendor GOTOOLCHAIN=local GOWORK=off go build -o ../bin/occheck ./cmd/occheck",
        "hooks": {
            "guard": "verif",
            "enable": "no hooks: nothing is executed; the checker reads /repo's working tree through go/packages",
            "baseline_off_cmd": "cd /repo && GOFLAGS=-mod=mod GOPROXY=off GOSUMDB=off GOTOOLCHAIN=local go test -vet=off -count=1 ./...",
            "source_commits": [],
            "add_only": True,
        },
        "engines": [{"name": "occheck", "path": "checker/", "serves_properties": [c["property_id"] for c in checks],
                     "kind_free_text": "repository-specific static analyser in Go (go/packages + go/types; path enumeration with inlining, canonical access paths, literal entailment; SSA/VTA for reachability rules)"}],
        "checks": checks,
        "not_applicable": na,
        "notes": "All checks are static: they load /repo's current working tree with go/packages on every run and execute nothing from it. Level 'other' everywhere: a named structural necessary condition is decided, never the run-time behaviour. Genuine defects found are repaired by 'fix:' commits in /repo or listed in known_findings.json.",
    }
    json.dump(m, open(os.path.join(HERE, "MANIFEST.json"), "w"), indent=1)
    print("checks:", [c["property_id"] for c in checks], "not_applicable:", len(na))

if __name__ == "__main__":
    main()
