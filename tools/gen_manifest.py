#!/usr/bin/env python3
"""Generates /verif/MANIFEST.json from the table below and the list of checks the binary registers."""
import json, os, subprocess, sys
HERE = os.path.dirname(os.path.dirname(os.path.abspath(__file__)))
ALL = ["C%02d" % i for i in range(1, 21)]

CHECKS = {
 "C02": dict(
   technique="path-condition entailment over enumerated reconciler paths (guarded-effect analysis on the type-checked AST), ownership of cursor writes",
   text="Every ordering guard of the v2 protocol (transaction init order, chain linking, validate/commit/apply cursor guards, apply-after-commit, own-index cursor writes, no terminal state with a cursor left on the predecessor) is shown to dominate its effect on every enumerated path of the v2 proposal and transaction reconcilers. This decides the code shape that makes log order hold on every schedule; it does not observe orders at run time.",
   note="Trusted: go/types, the occheck path enumerator/canonicaliser/literal solver, the obligation table. Not covered: interleavings between a guard and its write (relies on C15's version-checked writes), device behaviour.",
   ref="DESIGN.md §3 C02, §2"),
}

def main():
    built = set(subprocess.run([os.path.join(HERE, "bin/occheck"), "list"], capture_output=True, text=True).stdout.split()[0::1])
    checks, na = [], []
    for pid in ALL:
        c = CHECKS.get(pid)
        if c is None or pid not in built:
            na.append({"property_id": pid, "reason": "check not built yet in this round (engine under construction); see DESIGN.md §3 for the planned structural clauses"})
            continue
        checks.append({
            "property_id": pid,
            "quick_cmd": "./bin/occheck run --property %s --tier quick" % pid,
            "thorough_cmd": "./bin/occheck run --property %s --tier thorough" % pid,
            "evidence_file": "evidence/%s.json" % pid,
            "replay_cmd_template": "./bin/occheck explain {path}",
            "engine": "occheck",
            "level_claimed": {"category": "other", "text": c["text"], "design_ref": c["ref"]},
            "level_note": c["note"],
            "technique": c["technique"],
        })
    m = {
        "version": 1,
        "setup_cmd": "cd checker && GOFLAGS=-mod=vendor GOTOOLCHAIN=local GOWORK=off go build -o ../bin/occheck ./cmd/occheck",
        "hooks": {
            "guard": "verif",
            "enable": "no hooks: nothing is executed; the checker reads /repo's working tree through go/packages",
            "baseline_off_cmd": "cd /repo && GOFLAGS=-mod=mod GOPROXY=off GOSUMDB=off GOTOOLCHAIN=local go test -vet=off -count=1 ./...",
            "source_commits": [],
            "add_only": True,
        },
        "engines": [{"name": "occheck", "path": "checker/", "serves_properties": [c["property_id"] for c in checks],
                     "kind_free_text": "repository-specific static analyser in Go (go/packages + go/types; path enumeration with inlining, canonical access paths, literal entailment; SSA/VTA for reachability rules)"}],
        "checks": checks,
        "not_applicable": na,
        "notes": "All checks are static: they load /repo's current working tree with go/packages on every run and execute nothing from it. Level 'other' everywhere: a named structural necessary condition is decided, never the run-time behaviour. Genuine defects found are repaired by 'fix:' commits in /repo or listed in known_findings.json.",
    }
    json.dump(m, open(os.path.join(HERE, "MANIFEST.json"), "w"), indent=1)
    print("checks:", [c["property_id"] for c in checks], "not_applicable:", len(na))

if __name__ == "__main__":
    main()
