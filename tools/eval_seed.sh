#!/bin/bash
# usage: tools/eval_seed.sh <dir containing patch.diff> [property ids...]
# applies the patch to /repo, runs every check without writing anything, and reverts the patch.
set -u
D="$1"; shift
cd /repo || exit 2
git diff --quiet || { echo "/repo has uncommitted changes"; exit 2; }
git apply "$D/patch.diff" || { echo "patch does not apply"; exit 2; }
/verif/bin/occheck scan "$@"
rc=$?
git checkout -- . 
git status --short | grep -v '^??' | head
exit $rc
