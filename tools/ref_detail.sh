#!/bin/bash
# usage: tools/ref_detail.sh <refactor-id> [property ids...] — full messages of what the checker says about a refactor patch
P=/verif/refactors/$1.diff; shift; S=$(mktemp -d /tmp/evalref.XXXXXX); trap 'rm -rf "$S"' EXIT
git -C /repo archive HEAD | tar -x -C "$S"; (cd "$S" && git apply --whitespace=nowarn "$P") || exit 2
OCCHECK_REPO="$S" "${OCCHECK_BIN:-/verif/bin/occheck.dev}" scan "$@" 2>&1 | cut -c1-900
