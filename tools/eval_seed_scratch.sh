#!/bin/bash
# usage: tools/eval_seed_scratch.sh <dir containing patch.diff> — like eval_seed.sh, but on a scratch copy of
# /repo's HEAD (so it can run while something else uses /repo); OCCHECK_BIN selects the checker binary.
D="$(cd "$1" && pwd)"; S=$(mktemp -d /tmp/evalseed.XXXXXX); trap 'rm -rf "$S"' EXIT
git -C /repo archive HEAD | tar -x -C "$S"
(cd "$S" && patch -s -p1 < "$D/patch.diff") || { echo "patch does not apply"; exit 2; }
OCCHECK_VERIF=/verif OCCHECK_REPO="$S" "${OCCHECK_BIN:-/verif/bin/occheck}" scan
