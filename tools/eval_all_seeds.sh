#!/bin/bash
# usage: tools/eval_all_seeds.sh [--update] [-j N] — evaluates every seeded change: the patch is applied to a
# scratch copy of /repo's HEAD (git archive; /repo itself is not touched, so several can run at once), every
# check is run on it (occheck scan with OCCHECK_REPO, writes nothing), the copy is removed; prints per seed
# whether its own property's check fired. With --update, records the obligations that fired in
# seeded/<id>/meta.json (detected_by). tools/eval_seed.sh does the same for one seed by applying it to /repo.
UPDATE=0; J=4
while [ $# -gt 0 ]; do case "$1" in --update) UPDATE=1;; -j) shift; J=$1;; esac; shift; done
export UPDATE
one() {
  d="$1"; id=$(basename "$d"); prop=${id%%-*}
  S=$(mktemp -d /tmp/evalseed.XXXXXX)
  git -C /repo archive HEAD | tar -x -C "$S"
  if ! (cd "$S" && patch -s -p1 --dry-run < "$d/patch.diff" >/dev/null 2>&1); then echo "$id: PATCH DOES NOT APPLY"; rm -rf "$S"; return; fi
  (cd "$S" && patch -s -p1 < "$d/patch.diff")
  out=$(OCCHECK_VERIF=/verif OCCHECK_REPO="$S" "${OCCHECK_BIN:-/verif/bin/occheck}" scan 2>&1)
  rm -rf "$S"
  own=$(echo "$out" | grep -E "^$prop " | awk '{print $1" "$2" "$3}' | sort -u)
  other=$(echo "$out" | grep -E "^C[0-9]+ " | grep -v "^$prop " | awk '{print $1" "$2" "$3}' | sort -u)
  if [ -n "$own" ]; then echo "$id: DETECTED by $(echo $own | tr '\n' ' ') ${other:+(also $(echo $other | tr '\n' ' '))}"; else echo "$id: MISSED by $prop ${other:+(fired: $(echo $other | tr '\n' ' '))}"; fi
  if [ "$UPDATE" = 1 ]; then
    python3 - "$d/meta.json" "$own" "$other" <<'PY'
import json,sys
p,own,other=sys.argv[1:4]
d=json.load(open(p))
d['detected_by']=[x for x in own.split('\n') if x]+[x for x in other.split('\n') if x]
json.dump(d,open(p,'w'),indent=1)
PY
  fi
}
export -f one
ls -d /verif/seeded/C*/ | sed 's|/$||' | xargs -P "$J" -I{} bash -c 'one {}' | sort
