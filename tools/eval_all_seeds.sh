#!/bin/bash
# usage: tools/eval_all_seeds.sh — applies every seeded change to /repo in turn, runs all checks on it
# (occheck scan, writes nothing), reverts; prints per seed whether its own property's check fired.
cd /repo || exit 2
git diff --quiet || { echo "/repo has uncommitted changes"; exit 2; }
for d in /verif/seeded/*/; do
  id=$(basename "$d"); prop=${id%%-*}
  if ! git apply --check "$d/patch.diff" 2>/dev/null; then echo "$id: PATCH DOES NOT APPLY"; continue; fi
  git apply "$d/patch.diff"
  out=$(/verif/bin/occheck scan 2>&1)
  git checkout -- .
  own=$(echo "$out" | grep -E "^$prop " | awk '{print $3}' | sort -u | tr '\n' ' ')
  other=$(echo "$out" | grep -E "^C[0-9]+ " | grep -v "^$prop " | awk '{print $1"/"$3}' | sort -u | tr '\n' ' ')
  if [ -n "$own" ]; then echo "$id: DETECTED by $own ${other:+(also $other)}"; else echo "$id: MISSED by $prop ${other:+(fired: $other)}"; fi
done
git status --short | grep -v '^??' | head
