#!/bin/bash
# usage: tools/eval_all_seeds.sh [--update] — applies every seeded change to /repo in turn, runs all checks
# on it (occheck scan, writes nothing), reverts; prints per seed whether its own property's check fired.
# With --update, records the obligations that fired in seeded/<id>/meta.json (detected_by).
UPDATE=0; [ "${1:-}" = "--update" ] && UPDATE=1
cd /repo || exit 2
git diff --quiet || { echo "/repo has uncommitted changes"; exit 2; }
for d in /verif/seeded/*/; do
  id=$(basename "$d"); prop=${id%%-*}
  if ! git apply --check "$d/patch.diff" 2>/dev/null; then echo "$id: PATCH DOES NOT APPLY"; continue; fi
  git apply "$d/patch.diff"
  out=$(/verif/bin/occheck scan 2>&1)
  git checkout -- .
  own=$(echo "$out" | grep -E "^$prop " | awk '{print $1" "$2" "$3}' | sort -u)
  other=$(echo "$out" | grep -E "^C[0-9]+ " | grep -v "^$prop " | awk '{print $1" "$2" "$3}' | sort -u)
  if [ -n "$own" ]; then echo "$id: DETECTED by $(echo $own | tr '\n' ' ') ${other:+(also $(echo $other | tr '\n' ' '))}"; else echo "$id: MISSED by $prop ${other:+(fired: $(echo $other | tr '\n' ' '))}"; fi
  if [ $UPDATE = 1 ]; then
    python3 - "$d/meta.json" "$own" "$other" <<'PY'
import json,sys
p,own,other=sys.argv[1:4]
d=json.load(open(p))
d['detected_by']=[x for x in own.split('\n') if x]+[x for x in other.split('\n') if x]
json.dump(d,open(p,'w'),indent=1)
PY
  fi
done
git status --short | grep -v '^??' | head
