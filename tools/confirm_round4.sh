#!/bin/bash
# usage: tools/confirm_round4.sh <worktree SEED dir>... — confirms the seeds a round-4 agent left (SEED/<id>/{patch.diff,*_test.go,meta.json})
for sd in "$@"; do
  for d in "$sd"/*/; do
    [ -f "$d/meta.json" ] || continue
    n=$(basename "$d"); prop=$(python3 -c "import json;print(json.load(open('$d/meta.json'))['property'])")
    pkg=$(python3 -c "import json;print(json.load(open('$d/meta.json'))['package'].rstrip('/'))")
    run=$(python3 -c "import json;print(json.load(open('$d/meta.json'))['test'])")
    needs=$(python3 -c "import json;print(json.load(open('$d/meta.json'))['needs'])")
    id="$prop-r${ROUND:-4}${n##*-}"
    /verif/tools/confirm_seed.sh "$d" "$id" "$prop" "$pkg" "$run" "$needs" 2>&1 | grep "^$id" 
  done
done
