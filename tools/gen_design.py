#!/usr/bin/env python3
"""Assembles /verif/DESIGN.md from design/part1.md, design/part2.md, the evidence of the last run,
findings/*/meta.json + known_findings.json and seeded/*/meta.json."""
import glob
import json
import os
import re

HERE = os.path.dirname(os.path.dirname(os.path.abspath(__file__)))


def esc(s):
    return (s or "").replace("|", "\\|").replace("\n", " ")


def props():
    out = {}
    for line in open(os.path.join(HERE, "properties.jsonl")):
        line = line.strip()
        if line:
            d = json.loads(line)
            out[d["id"]] = d
    return out


WHY_NOT_FIXED = {
    "F7": "a correct repair orders the merge (deletes first, by path) in several places and changes what a request that deletes a node and updates beneath it means",
    "F8": "the repair needs the cascade to be computed at validation time and captured, in v2 and v3; it changes what is stored in every proposal",
    "F18": "part d only: making the two status wrappers report a swallowed conflict touches some thirty call sites of the v3 controller",
    "F24": "a correct repair needs a wake-up design for serializable waits (who re-queues a transaction that waits for *all* earlier ones)",
    "F27": "the applied cursor does not say whether the proposal it passed was applied or refused, so the 'already applied' shortcut cannot be repaired locally; a repair records the outcome with the cursor (a change of the configuration record) or re-orders the two writes, which re-opens the liveness hole C07.2c closes",
    "F35": "the value maps live in primitives of their own and there is no transaction across primitives: writing the record first re-opens the crash window that C01.8/C07.2 close (a committed cursor ahead of its values), writing the values first is this defect, and a per-path index guard cannot tell a stale writer from a rollback (both carry older indexes); a repair puts the values under the record's version (one primitive, or a version stamp on every value checked on read)",
    "F39": "the cause is in the pinned onos-lib-go (handleClaim uses Add without Del, and the server installs its interceptor before anything the application passes); the repair belongs there. Inside onos-config it needs new server wiring — a grpc.InTapHandle that clears groups/name/email/preferred_username from the incoming metadata when authorization is on, which is what C14.5 looks for — and cannot be demonstrated through the manager in a unit test",
    "F25": "the v2 half was repaired in round 2 of this work (ad644df: ancestor search by IsDescendantPath, the store synchronises its value maps, the applied values go through applyChangeToConfig) after nine independent agents had run into it; the v3 controller and store (not wired into the manager) keep the old shape and stay listed",
    "F62": "the repair is one backing client (or subscription object) per northbound stream and target, with Poll addressed to that object: a change of the southbound Client interface, its generated mock and the northbound subscription context (the reviewers' trial repair is kept in findings/_observations/review2_C19/REVIEW/c19_repair.diff.txt)",
}


def section3(P):
    out = ["## 3. Per property: what is decided, what is declined, the obligations and their coverage\n",
           "Generated from `evidence/Cxx.json` of the last quick run. *sites* = distinct constructs the obligation "
           "matched; *evals* = (site, path) pairs or table cells decided. An obligation with fewer sites than its "
           "hand-confirmed floor is undecided and fails the check.\n"]
    tot_obl = tot_ev = 0
    for pid in sorted(P):
        f = os.path.join(HERE, "evidence", pid + ".json")
        if not os.path.exists(f):
            continue
        ev = json.load(open(f))
        cov = ev["coverage"]
        out.append("### %s — %s\n" % (pid, P[pid]["title"]))
        out.append("**Decided.** " + cov.get("explanation", "") + "\n")
        if cov.get("declined"):
            out.append("**Declined.** " + "; ".join(cov["declined"]) + ".\n")
        extra = [a for a in ev.get("assumptions", []) if not a.startswith("the loaded packages")]
        if extra:
            out.append("**Assumptions.** " + "; ".join(extra) + ".\n")
        out.append("Functions walked: %s; paths enumerated: %s; obligations: %d (%d discharged); evaluations: %d.\n" % (
            cov.get("functions_walked", "–"), cov.get("paths_enumerated", "–"), cov["obligations"], cov["discharged"], cov["evaluations"]))
        tot_obl += cov["obligations"]
        tot_ev += cov["evaluations"]
        out.append("| obligation | rule | clause | sites | evals | holds |")
        out.append("|---|---|---|---|---|---|")
        for o in cov["obligation_results"]:
            clause = o.get("clause") or ""
            if len(clause) > 330:
                clause = clause[:327] + "…"
            holds = "yes" if o["discharged"] else "**known finding**" if o.get("violations", 0) >= 0 and not o["discharged"] else "no"
            out.append("| %s | %s | %s | %d | %d | %s |" % (o["id"], esc(o.get("rule")), esc(clause), o["sites"], o["evaluations"], holds))
        out.append("")
        if cov.get("known_findings"):
            out.append("Known findings reported by this check: " + ", ".join(sorted({k["id"] + " [" + k["obligation"] + "]" for k in cov["known_findings"]})) + " (§4).\n")
        if cov.get("witness"):
            w = cov["witness"]
            out.append("Witness mutants (last thorough run): %d derived, %d do not type-check, %d detected (%d only as a lost anchor), %d not noticed by any obligation of this property (listed in the evidence).\n" % (
                w["mutants"], w.get("mutants_not_typechecking", 0), w["mutants_detected"], w.get("detected_only_as_undecided", 0), w.get("mutants_not_detected", 0)))
    return "\n".join(out), tot_obl, tot_ev


def section4():
    kf = json.load(open(os.path.join(HERE, "known_findings.json")))["findings"]
    status = {}
    for f in kf:
        base = re.match(r"F\d+", f["id"]).group(0)
        status.setdefault(base, []).append(f)
    out = ["## 4. Genuine defects found on the pinned tree\n",
           "Each has a demonstration test under `findings/Fxx/` that fails against the real code before the repair "
           "(`tools/run_repro.sh Fxx`, scratch copy) and passes after it. *Fixed* = one minimal unguarded `fix:` commit in "
           "`/repo`, existing suite unedited and passing; *known* = recorded in `known_findings.json` because the repair "
           "is not small (reason given), the check prints KNOWN-FINDING for exactly the listed construct keys.\n",
           "| id | properties | what fails | needs | disposition | reported by |",
           "|---|---|---|---|---|---|"]
    rows = []
    for p in glob.glob(os.path.join(HERE, "findings", "*", "meta.json")):
        d = json.load(open(p))
        fid = d["id"]
        bases = re.findall(r"F\d+", fid)
        ents = [e for b in bases for e in status.get(b, [])]
        fixed = sorted({e["commit"] for e in ents if e["status"] == "fixed"})
        known = [e for e in ents if e["status"] == "known"]
        disp = []
        if fixed:
            disp.append("fixed: " + ", ".join("`%s`" % c for c in fixed))
        if known:
            why = WHY_NOT_FIXED.get(bases[0], d.get("disposition", ""))
            disp.append("known (%d construct keys): %s" % (len(known), why))
        obls = sorted({e["property"] + ":" + e["obligation"] for e in ents})
        rows.append((int(bases[0][1:]), "| %s | %s | %s | %s | %s | %s |" % (fid, ", ".join(d.get("properties", [])), esc(d.get("what")), esc(d.get("needs")), esc("; ".join(disp)), ", ".join(obls))))
    for _, r in sorted(rows):
        out.append(r)
    nfix = len({e["commit"] for e in kf if e["status"] == "fixed"})
    out.append("")
    out.append("Fix commits in `/repo`: %d (`git -C /repo log --grep '^fix:'`). Known-finding construct keys: %d.\n" % (nfix, len([e for e in kf if e["status"] == "known"])))
    return "\n".join(out)


def section5():
    out = ["## 5. Seeded changes: which check catches which change\n",
           "Each change was produced by a fresh sub-agent that saw only the property text and a scratch worktree, and was kept "
           "only after `tools/confirm_seed.sh` confirmed, in a scratch copy of `/repo` HEAD: the patch applies, the tree builds, "
           "the existing suite passes with it, its demonstration test fails with it and passes without it. `tools/eval_all_seeds.sh` "
           "applies each to `/repo`, runs every check (`occheck scan`) and reverts. *missed before* records what the first "
           "version of the check did not see and what was added.\n",
           "| seed | breaks | what it needs to manifest | detected by | missed before → strengthened |",
           "|---|---|---|---|---|"]
    for p in sorted(glob.glob(os.path.join(HERE, "seeded", "*", "meta.json"))):
        d = json.load(open(p))
        det = ", ".join(x.replace(" falsified ", ":").replace(" undecided ", ":?") for x in d.get("detected_by", []))
        out.append("| %s | %s | %s | %s | %s |" % (d["id"], d["breaks_property"], esc(d.get("needs_to_manifest")), esc(det), esc(d.get("missed_before", ""))))
    out.append("")
    return "\n".join(out)


def main():
    P = props()
    s3, nobl, nev = section3(P)
    kf = json.load(open(os.path.join(HERE, "known_findings.json")))["findings"]
    part1 = open(os.path.join(HERE, "design", "part1.md")).read()
    part1 = (part1.replace("{{NOBL}}", str(nobl)).replace("{{NEV}}", "≈%d 000" % round(nev / 1000))
             .replace("{{NKNOWN}}", str(len([e for e in kf if e["status"] == "known"])))
             .replace("{{NFIX}}", str(len({e["commit"] for e in kf if e["status"] == "fixed"})))
             .replace("{{NSEED}}", str(len(glob.glob(os.path.join(HERE, "seeded", "*", "meta.json")))))
             .replace("{{NMISSED}}", str(len([1 for p in glob.glob(os.path.join(HERE, "seeded", "*", "meta.json")) if json.load(open(p)).get("missed_before")]))))
    part2 = open(os.path.join(HERE, "design", "part2.md")).read()
    doc = "\n".join([part1, "---------------------------------------------------------------------------------------------\n", s3,
                     "---------------------------------------------------------------------------------------------\n", section4(),
                     "---------------------------------------------------------------------------------------------\n", section5(), part2])
    open(os.path.join(HERE, "DESIGN.md"), "w").write(doc)
    print("DESIGN.md: %d lines, %d obligations, %d evaluations" % (doc.count("\n"), nobl, nev))


if __name__ == "__main__":
    main()
