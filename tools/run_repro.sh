#!/bin/bash
# usage: tools/run_repro.sh <finding-id> [repo-dir]
# Copies the repository (without .git) to a scratch directory, drops the finding's demonstration
# test into the package named in meta.json, runs it, and removes the scratch copy.
# Exit 0 = the demonstration PASSES (defect absent); exit 1 = it FAILS (defect present).
set -u
F="$1"; REPO="${2:-/repo}"
HERE="$(cd "$(dirname "$0")/.." && pwd)"
D="$HERE/findings/$F"
[ -f "$D/meta.json" ] || { echo "no such finding $F"; exit 2; }
PKG=$(python3 -c "import json,sys;print(json.load(open('$D/meta.json'))['package'])")
RUN=$(python3 -c "import json,sys;print(json.load(open('$D/meta.json'))['test'])")
S=$(mktemp -d /tmp/repro.XXXXXX)
trap 'rm -rf "$S"' EXIT
rsync -a --exclude .git "$REPO"/ "$S"/
cp "$D"/*_test.go "$S/$PKG/"
export GOFLAGS=-mod=mod GOPROXY=off GOSUMDB=off GOTOOLCHAIN=local; unset GOWORK
cd "$S" && go test -vet=off -count=1 -timeout 120s -run "$RUN" "./$PKG/" 2>&1 | tail -${REPRO_TAIL:-40}
exit ${PIPESTATUS[0]}
