package main

import (
	"encoding/json"
	"fmt"
	"os"
	"path/filepath"
	"runtime"
	"sort"
	"strings"
	"sync"
	"time"

	"occheck/internal/engine"
	"occheck/internal/props"
)

type mutantResult struct {
	M        *engine.Mutant
	Status   string // detected | missed | invalid
	By       []string
	Undecide bool
}

// evaluate runs the property's obligations on a program and returns the violations.
func evaluate(pr *props.Prop, p *engine.Prog, share *engine.Analysis, except string) (*engine.Analysis, []*engine.Violation) {
	rep := engine.NewReport(pr.ID, "quick", verifDir())
	a := engine.NewAnalysis(p)
	if share != nil {
		a.ShareCache(share, except)
	}
	c := &engine.Ctx{A: a, P: p, R: rep}
	func() {
		defer func() {
			if r := recover(); r != nil {
				rep.Violate(&engine.Violation{Obligation: pr.ID + ".panic", Key: "panic", Undecided: true, Msg: fmt.Sprint(r)})
			}
		}()
		pr.Run(c, "quick")
	}()
	return a, rep.Violations
}

// runWitness derives single-point mutants from the functions the property is anchored in and
// evaluates the property's quick obligations on each: the mutated file is re-parsed and its
// package re-type-checked in memory (no copy of the repository, nothing executed). It reports
// which mutants raise a violation that the unchanged tree does not. Nothing a mutant triggers is
// printed as a VIOLATION line or changes the exit code.
func runWitness(prop string, limit int) int {
	pr, err := props.Get(prop)
	if err != nil {
		fmt.Fprintln(os.Stderr, err)
		return 2
	}
	start := time.Now()
	p, err := engine.Load(engine.LoadOpts{Dir: repoDir(), AllDeps: pr.NeedSSA})
	if err != nil {
		fmt.Println("witness: load failed:", err)
		return 0
	}
	var muts []*engine.Mutant
	for _, t := range pr.Witness {
		ms, err := p.Mutants(t.Pkg, t.Funcs)
		if err != nil {
			fmt.Println("witness:", err)
			continue
		}
		muts = append(muts, ms...)
	}
	if limit > 0 && len(muts) > limit {
		muts = muts[:limit]
	}
	baseA, baseV := evaluate(pr, p, nil, "")
	baseSet := map[string]bool{}
	for _, v := range baseV {
		baseSet[v.Obligation+"|"+v.Key] = true
	}
	results := make([]mutantResult, len(muts))
	jobs := runtime.NumCPU() / 2
	if jobs > 8 {
		jobs = 8
	}
	if jobs < 1 {
		jobs = 1
	}
	if pr.NeedSSA {
		jobs = 1
	}
	sem := make(chan struct{}, jobs)
	var wg sync.WaitGroup
	for i, m := range muts {
		wg.Add(1)
		sem <- struct{}{}
		go func(i int, m *engine.Mutant) {
			defer wg.Done()
			defer func() { <-sem }()
			results[i].M = m
			content, err := m.Apply()
			if err != nil {
				results[i].Status = "invalid"
				return
			}
			q, err := p.WithFile(m.File, content)
			if err != nil {
				results[i].Status = "invalid"
				return
			}
			rel := strings.TrimPrefix(filepath.Dir(m.File), strings.TrimSuffix(repoDir(), "/")+"/")
			_, vs := evaluate(pr, q, baseA, rel)
			und := true
			for _, v := range vs {
				if !baseSet[v.Obligation+"|"+v.Key] {
					results[i].By = append(results[i].By, v.Obligation)
					if !v.Undecided {
						und = false
					}
				}
			}
			if len(results[i].By) > 0 {
				results[i].Status = "detected"
				results[i].Undecide = und
				results[i].By = engine.SortedUnique(results[i].By)
			} else {
				results[i].Status = "missed"
			}
		}(i, m)
	}
	wg.Wait()
	det, inv, missed, undOnly := 0, 0, 0, 0
	byObl := map[string]int{}
	var missedList, detectedList []map[string]string
	for _, r := range results {
		switch r.Status {
		case "detected":
			det++
			if r.Undecide {
				undOnly++
			}
			for _, o := range r.By {
				byObl[o]++
			}
			if len(detectedList) < 400 {
				detectedList = append(detectedList, map[string]string{"pos": r.M.Pos, "func": r.M.Func, "op": r.M.Op, "old": clip(r.M.Old), "by": strings.Join(r.By, ",")})
			}
		case "invalid":
			inv++
		default:
			missed++
			missedList = append(missedList, map[string]string{"pos": r.M.Pos, "func": r.M.Func, "op": r.M.Op, "old": clip(r.M.Old)})
		}
	}
	fmt.Printf("witness %s: %d mutants, %d do not type-check, %d detected (%d only as 'undecided'), %d not detected (%.0fs)\n",
		prop, len(muts), inv, det, undOnly, missed, time.Since(start).Seconds())
	var obls []string
	for o := range byObl {
		obls = append(obls, o)
	}
	sort.Strings(obls)
	for _, o := range obls {
		fmt.Printf("  %-22s detects %d mutants\n", o, byObl[o])
	}
	if os.Getenv("OCC_SHOW_MISSED") != "" {
		for _, m := range missedList {
			fmt.Printf("  MISSED %s %s [%s] %s\n", m["pos"], m["func"], m["op"], m["old"])
		}
	}
	// merge into the evidence file written by the quick part of this run
	evFile := filepath.Join(verifDir(), "evidence", prop+".json")
	if b, err := os.ReadFile(evFile); err == nil {
		var ev map[string]interface{}
		if json.Unmarshal(b, &ev) == nil {
			cov, _ := ev["coverage"].(map[string]interface{})
			if cov != nil {
				cov["witness"] = map[string]interface{}{
					"explanation":                "single-point mutants derived from the anchored functions (negated/dropped guards, relational and boolean operator changes, dropped assignments/calls/fields/options, swapped enum constants, swallowed errors), each analysed through a go/packages overlay; 'detected' = the property's check reports a violation that the unchanged tree does not. Mutants that are not detected are either behaviour-preserving for this property or outside what its obligations cover; they are listed for review and are not violations.",
					"mutants":                    len(muts),
					"mutants_not_typechecking":   inv,
					"mutants_detected":           det,
					"detected_only_as_undecided": undOnly,
					"mutants_not_detected":       missed,
					"detected_by_obligation":     byObl,
					"not_detected":               missedList,
					"detected_sample":            detectedList,
				}
				ev["tier"] = "thorough"
				ev["wall_s"] = time.Since(start).Seconds() + asFloat(ev["wall_s"])
				if nb, err := json.MarshalIndent(ev, "", " "); err == nil {
					_ = os.WriteFile(evFile, nb, 0o644)
				}
			}
		}
	}
	return 0
}

func asFloat(v interface{}) float64 {
	f, _ := v.(float64)
	return f
}

func clip(s string) string {
	s = strings.Join(strings.Fields(s), " ")
	if len(s) > 90 {
		return s[:90] + "…"
	}
	return s
}
