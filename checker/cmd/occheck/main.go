package main

import (
	"flag"
	"fmt"
	"os"
	"path/filepath"
	"sort"
	"strings"

	"occheck/internal/engine"
	"occheck/internal/props"
)

func repoDir() string {
	if d := os.Getenv("OCCHECK_REPO"); d != "" {
		return d
	}
	return "/repo"
}

func verifDir() string {
	if d := os.Getenv("OCCHECK_VERIF"); d != "" {
		return d
	}
	exe, err := os.Executable()
	if err == nil {
		if d := filepath.Dir(filepath.Dir(exe)); fileExists(filepath.Join(d, "MANIFEST.json")) || fileExists(filepath.Join(d, "properties.jsonl")) {
			return d
		}
	}
	wd, _ := os.Getwd()
	return wd
}

func fileExists(p string) bool { _, err := os.Stat(p); return err == nil }

func main() {
	if len(os.Args) < 2 {
		fmt.Fprintln(os.Stderr, "usage: occheck run|paths|sites|list|explain ...")
		os.Exit(2)
	}
	switch os.Args[1] {
	case "run":
		os.Exit(cmdRun(os.Args[2:]))
	case "paths":
		cmdPaths(os.Args[2:])
	case "sites":
		cmdSites(os.Args[2:])
	case "list":
		for _, id := range props.IDs() {
			p, _ := props.Get(id)
			fmt.Printf("%s  %s\n", id, p.Title)
		}
	case "funcs":
		// the inventory of function names the obligation tables were written against (engine/known_funcs.txt)
		p, err := engine.Load(engine.LoadOpts{Dir: repoDir(), AllDeps: false})
		if err != nil {
			fmt.Fprintln(os.Stderr, err)
			os.Exit(2)
		}
		var names []string
		for _, f := range p.Funcs {
			names = append(names, f.Name()+"\t"+engine.SigString(f.Obj))
		}
		sort.Strings(names)
		for _, n := range names {
			fmt.Println(n)
		}
	case "scan":
		os.Exit(cmdScan(os.Args[2:]))
	case "witness":
		fs := flag.NewFlagSet("witness", flag.ExitOnError)
		prop := fs.String("property", "", "property id")
		limit := fs.Int("limit", 0, "max mutants (0 = all)")
		_ = fs.Parse(os.Args[2:])
		os.Exit(runWitness(*prop, *limit))
	case "explain":
		os.Exit(cmdExplain(os.Args[2:]))
	default:
		fmt.Fprintln(os.Stderr, "unknown command", os.Args[1])
		os.Exit(2)
	}
}

func cmdRun(args []string) int {
	fs := flag.NewFlagSet("run", flag.ExitOnError)
	prop := fs.String("property", "", "property id")
	tier := fs.String("tier", "quick", "quick|thorough")
	dry := fs.Bool("dry", false, "print violations as JSON, write nothing")
	overlay := fs.String("overlay", "", "file=replacement[,file=replacement]: analyse with these files replaced")
	_ = fs.Parse(args)
	if t := os.Getenv("VERIF_TIER"); (t == "quick" || t == "thorough") && !*dry {
		*tier = t
	}
	var ov map[string][]byte
	if *overlay != "" {
		ov = map[string][]byte{}
		for _, kv := range strings.Split(*overlay, ",") {
			f, r, ok := strings.Cut(kv, "=")
			if !ok {
				continue
			}
			b, err := os.ReadFile(r)
			if err != nil {
				fmt.Fprintln(os.Stderr, err)
				return 2
			}
			ov[f] = b
		}
	}
	code := runProperty(*prop, *tier, ov, *dry)
	if code == 0 && *tier == "thorough" && !*dry {
		code = runWitness(*prop, 0)
	}
	return code
}

// runProperty runs one property against the repository (with an optional overlay) and returns the
// exit code.
func runProperty(id, tier string, overlay map[string][]byte, dry bool) int {
	pr, err := props.Get(id)
	if err != nil {
		fmt.Fprintln(os.Stderr, err)
		return 2
	}
	rep := engine.NewReport(id, tier, verifDir())
	rep.Explanation = pr.Explanation
	rep.Declined = pr.Declined
	rep.Assumptions = pr.Assumptions
	p, err := engine.Load(engine.LoadOpts{Dir: repoDir(), AllDeps: pr.NeedSSA, Overlay: overlay})
	if err != nil && dry {
		return rep.FinishDry(err)
	}
	if err != nil {
		// no verdict is possible on a tree that does not load: this is a failure of the check
		fmt.Println("ERROR:", err)
		rep.Violate(&engine.Violation{Obligation: id + ".load", Rule: "load", Key: "load", Undecided: true, Msg: err.Error()})
		return rep.Finish()
	}
	a := engine.NewAnalysis(p)
	rep.A = a
	for _, pk := range p.Pkgs {
		rep.Packages = append(rep.Packages, strings.TrimPrefix(pk.PkgPath, engine.ModulePath+"/"))
	}
	c := &engine.Ctx{A: a, P: p, R: rep}
	func() {
		defer func() {
			if r := recover(); r != nil {
				rep.Violate(&engine.Violation{Obligation: id + ".panic", Rule: "internal", Key: "panic", Undecided: true, Msg: fmt.Sprint("checker panic: ", r)})
			}
		}()
		pr.Run(c, tier)
	}()
	if dry {
		return rep.FinishDry(nil)
	}
	return rep.Finish()
}

func cmdExplain(args []string) int {
	if len(args) < 1 {
		fmt.Fprintln(os.Stderr, "usage: occheck explain <violation.json>")
		return 2
	}
	b, err := os.ReadFile(args[0])
	if err != nil {
		fmt.Fprintln(os.Stderr, err)
		return 2
	}
	fmt.Printf("recorded violation:\n%s\n\nre-evaluating the property on the current tree:\n", b)
	var prop string
	for _, l := range strings.Split(string(b), "\n") {
		if strings.Contains(l, `"property"`) {
			f := strings.Split(l, `"`)
			if len(f) >= 4 {
				prop = f[3]
			}
		}
	}
	if prop == "" {
		return 2
	}
	return runProperty(prop, "quick", nil, false)
}

func load(rel string) (*engine.Prog, *engine.Analysis, []*engine.Path) {
	p, err := engine.Load(engine.LoadOpts{Dir: repoDir(), Patterns: []string{"./" + rel}})
	if err != nil {
		fmt.Fprintln(os.Stderr, err)
		os.Exit(2)
	}
	a := engine.NewAnalysis(p)
	opt := engine.PathOpts{NoInline: os.Getenv("OCC_NOINLINE") != ""}
	if r := os.Getenv("OCC_ROOTS"); r != "" {
		opt.Roots = strings.Split(r, ",")
	}
	paths, err := a.PathsOpt(rel, opt)
	if err != nil {
		fmt.Fprintln(os.Stderr, err)
		os.Exit(2)
	}
	return p, a, paths
}

// paths <pkg-rel> [func-substring] [text]: debug dump of enumerated paths
func cmdPaths(args []string) {
	if len(args) < 1 {
		fmt.Fprintln(os.Stderr, "usage: occheck paths <pkg> [func] [text]")
		os.Exit(2)
	}
	_, a, paths := load(args[0])
	n := 0
	for _, pa := range paths {
		if len(args) > 1 && !strings.Contains(pa.Root.Name(), args[1]) {
			continue
		}
		d := a.DumpPath(pa)
		if len(args) > 2 && !strings.Contains(d, args[2]) {
			continue
		}
		n++
		fmt.Print(d)
	}
	fmt.Fprintf(os.Stderr, "%d paths total, %d shown; unsupported: %v\n", len(paths), n, a.Unsupported)
}

// sites <pkg-rel>: inventory of distinct field writes and opaque calls with their definitions
func cmdSites(args []string) {
	if len(args) < 1 {
		fmt.Fprintln(os.Stderr, "usage: occheck sites <pkg>")
		os.Exit(2)
	}
	p, a, paths := load(args[0])
	seen := map[string]bool{}
	var out []string
	for _, pa := range paths {
		for i := range pa.Events {
			e := &pa.Events[i]
			var line string
			switch e.Kind {
			case engine.EvWrite:
				if e.Local != nil || e.Field == "" {
					continue
				}
				line = fmt.Sprintf("%-40s W %s %s %s", p.Pos(e.Pos), e.Field, e.Op, p.Render(e.RHS, nil))
			case engine.EvCall:
				if e.Def == "" {
					continue
				}
				line = fmt.Sprintf("%-40s C %s = %s", p.Pos(e.Pos), e.Canon, e.Def)
			default:
				continue
			}
			if !seen[line] {
				seen[line] = true
				out = append(out, line)
			}
		}
	}
	sort.Strings(out)
	for _, l := range out {
		fmt.Println(l)
	}
	fmt.Fprintf(os.Stderr, "%d paths; unsupported: %v\n", len(paths), a.Unsupported)
}

// scan: run every registered property on the tree (OCCHECK_REPO) in one process, writing nothing,
// and print the violations that known_findings.json does not list.
func cmdScan(args []string) int {
	only := map[string]bool{}
	for _, a := range args {
		only[a] = true
	}
	p, err := engine.Load(engine.LoadOpts{Dir: repoDir(), AllDeps: false})
	if err != nil {
		fmt.Println("LOAD ERROR:", err)
		return 2
	}
	known, _ := engine.LoadKnown(verifDir())
	total := 0
	for _, id := range props.IDs() {
		if len(only) > 0 && !only[id] {
			continue
		}
		pr, _ := props.Get(id)
		if pr.NeedSSA {
			continue
		}
		_, vs := evaluate(pr, p, nil, "")
		n := 0
		for _, v := range vs {
			listed := false
			for _, k := range known {
				if k.Status == "known" && k.Property == id && k.Obligation == v.Obligation && k.Key == v.Key {
					listed = true
				}
			}
			if listed {
				continue
			}
			n++
			kind := "falsified"
			if v.Undecided {
				kind = "undecided"
			}
			msg := v.Msg
			if len(msg) > 220 {
				msg = msg[:220] + "…"
			}
			fmt.Printf("%s %s %s %s\n    %s\n", id, kind, v.Obligation, v.Pos, msg)
		}
		total += n
	}
	fmt.Printf("scan: %d unlisted violations\n", total)
	if total > 0 {
		return 1
	}
	return 0
}
