package props

import (
	"regexp"
	"strings"

	"occheck/internal/engine"
)

func init() {
	register(&Prop{
		ID:    "C05",
		Title: "Nothing becomes configuration without passing the target's model",
		Explanation: "Leaf-for-leaf equality of the validated document with what becomes readable is a value property and is declined. Decided: (1) VALIDATED is written only after ModelPlugin.Validate was called on the plugin looked up by the proposal's own type/version and returned nil; a missing plugin or a Validate error records FAILED/INVALID; " +
			"(2) the document given to the plugin is BuildTree of a slice filled from every entry of a candidate map that was initialised, unconditionally, from every entry of Configuration.Values and then written only at the keys of the proposal's change source (the change's values, or the rolled-back proposal's captured values); the commit step merges that same change source; " +
			"(3) the candidate is built on the predecessor's committed result (cursor guard, shared with C02); (4) the registry honours the verdict: nil is returned only when CloseAndRecv succeeded and reported Valid, every Send/CloseAndRecv error is returned; (5) the chunk cursor covers the document: each slice starts at the cursor, the cursor's next value is the slice's upper bound, the loop runs while cursor < len, and the slice is what is sent; (6) the Set handler refuses an unknown plugin before the transaction is created (C13).",
		Declined: []string{"that the validated document equals, leaf for leaf, what becomes readable (depends on BuildTree, pruning and the merge-order finding of C03)", "the plugin's own verdict"},
		Run:      runC05,
		Witness:  []WitnessTarget{{pkgProposalCtl, []string{"reconcileValidate", "reconcileCommit", "applyChangeToConfig"}}, {pkgRegistry, []string{"ModelPluginInfo.Validate"}}},
	})
}

// oneofSet is the invariant of stored proposals the tables take for granted: the Details oneof of
// a proposal created by the transaction controller is always set (C01.7c shows both creating
// literals set it).
const oneofSet = "(type(@P.Details) == *config/v2.Proposal_Change || type(@P.Details) == *config/v2.Proposal_Rollback) && (err(@RBP) != nil || type(@RBP.Details) == *config/v2.Proposal_Change || type(@RBP.Details) == *config/v2.Proposal_Rollback)"

func runC05(c *engine.Ctx, tier string) {
	c.Al = proposalAliases(c.P)
	validated := engine.Sel{Field: "config/v2.ProposalValidatePhase.State", RHS: "config/v2.ProposalValidatePhase_VALIDATED"}
	c.Guard(engine.Guard{ID: "C05.1a", Pkg: pkgProposalCtl, Min: 1, Sel: validated,
		Require: "ok(@PLUGIN) && #ok(" + pluginValidate + ")",
		Why:     "a proposal is VALIDATED only after the model plugin of its own type and version accepted the candidate"})
	c.Guard(engine.Guard{ID: "C05.1b", Pkg: pkgProposalCtl, Min: 1, Sel: engine.Sel{Call: pluginValidate, Filter: func(p *engine.Path, i int) bool {
		return p.Events[i].Recv != c.Al.Resolve("PLUGIN")
	}}, None: true, Why: "Validate is called on the plugin looked up by the proposal's TargetType/TargetVersion"})
	c.Outcome(engine.Outcome{ID: "C05.1c", Pkg: pkgProposalCtl, Root: "Reconciler.Reconcile", Min: 1,
		When:    "err(@P) == nil && @P.Status.Phases.Apply == nil && @P.Status.Phases.Abort == nil && @P.Status.Phases.Commit == nil && @P.Status.Phases.Validate != nil && !ok(@PLUGIN)",
		Must:    []engine.Sel{{Field: "config/v2.ProposalValidatePhase.State", RHS: "config/v2.ProposalValidatePhase_FAILED"}, {Field: "config/v2.Failure.Type", RHS: "config/v2.Failure_INVALID", OnlyLit: true}},
		MustNot: []engine.Sel{validated, {Call: pluginValidate}},
		Why:     "no plugin for the target's type/version: the proposal fails as INVALID"})
	c.Outcome(engine.Outcome{ID: "C05.1d", Pkg: pkgProposalCtl, Root: "Reconciler.Reconcile", Min: 1,
		When:    "#failed(" + pluginValidate + ")",
		Must:    []engine.Sel{{Field: "config/v2.ProposalValidatePhase.State", RHS: "config/v2.ProposalValidatePhase_FAILED"}, {Field: "config/v2.Failure.Type", RHS: "config/v2.Failure_INVALID", OnlyLit: true}},
		MustNot: []engine.Sel{validated, {Field: "config/v2.ProposalStatus.RollbackValues"}},
		Why:     "a rejected candidate fails the proposal as INVALID and captures nothing"})
	c.Guard(engine.Guard{ID: "C05.3", Pkg: pkgProposalCtl, Min: 1, Sel: engine.Sel{Call: pluginValidate},
		Require: "@P.Status.Phases.Validate.State == config/v2.ProposalValidatePhase_VALIDATING && !(@PREV != 0 && @CFG.Status.Committed.Index != @PREV)",
		Why:     "the candidate is built on the predecessor's committed result: validation waits until the committed cursor is at the predecessor"})
	candidateDocument(c)
	commitSource(c)
	registryVerdict(c)
	chunkCursor(c)
	pluginVerdict(c)
	// every proposal of a transaction is validated before any of them is committed
	allProposalsGates(c, "C05.7", "b")
	c.Al = proposalAliases(c.P)
	// what was validated and what is stored agree after a rollback too
	captureLoopAs(c, "C05.8")
	// the validated values become readable before the committed cursor says so: a retry of the commit step
	// skips the merge once the cursor moved (C07.2), so the other order loses the validated change
	storeWriteOrder(c, "C05.9", "")
}

// candidateDocument: C05.2 — provenance of the bytes given to the plugin.
func candidateDocument(c *engine.Ctx) {
	o := c.Custom("C05.2a", "K-dataflow(candidate)", "Validate(BuildTree(slice)) with slice filled from every entry of M; M filled unconditionally from every entry of CFG.Values; afterwards M is written only at keys of the proposal's change source",
		"the plugin sees the complete configuration that results from the merge, not a subset and not another proposal's values")
	defer o.Done(1)
	paths, err := c.A.Paths(pkgProposalCtl)
	if err != nil {
		o.Undecided(pkgProposalCtl, err.Error())
		return
	}
	cfgVals := c.Al.Expand("@CFG.Values")
	chg := c.Al.Expand("@CHG.Change.Values")
	rbv := c.Al.Expand("@RBP.Status.RollbackValues")
	seen := map[string]bool{}
	for _, s := range engine.FindSites(paths, c.Match(engine.Sel{Call: pluginValidate})) {
		e := s.Ev()
		o.Site(c.P.Pos(e.Pos) + " " + c.Render(c.A.DescribeEvent(e)))
		for _, ref := range s.Refs {
			o.Eval(1)
			p := ref.Path
			ev := &p.Events[ref.Idx]
			bad := ""
			if len(ev.Args) != 1 || !strings.HasPrefix(ev.Args[0], "utils/v2/tree.BuildTree(?") || !strings.HasSuffix(ev.Args[0], ",true)") {
				bad = "the plugin is not given BuildTree(slice, true): " + c.Render(strings.Join(ev.Args, ","))
			}
			mapBase := ""
			for i := 0; i < ref.Idx && bad == ""; i++ {
				le := &p.Events[i]
				if le.Kind != engine.EvLoopEnter {
					continue
				}
				exit := -1
				var body []*engine.Event
				for j := i + 1; j < ref.Idx; j++ {
					if ej := &p.Events[j]; ej.Kind == engine.EvLoopExit && ej.Node == le.Node {
						exit = j
						break
					} else if strings.HasPrefix(ej.Loops, le.LoopID) {
						body = append(body, ej)
					}
				}
				if exit <= i+1 {
					continue
				}
				switch {
				case le.Range == cfgVals:
					// initialisation of the candidate map
					ok := false
					for _, b := range body {
						if b.Kind == engine.EvCond && b.Loops == le.LoopID {
							bad = "the candidate map is not initialised from every entry of Configuration.Values (conditional copy)"
						}
						if b.Kind == engine.EvWrite && b.Local == nil && strings.HasSuffix(b.LHS, "[key("+cfgVals+")]") && b.RHS == "elem("+cfgVals+")" {
							ok = true
							mapBase = strings.TrimSuffix(b.LHS, "[key("+cfgVals+")]")
						}
					}
					if !ok && bad == "" {
						bad = "the loop over Configuration.Values does not copy key/value into the candidate map"
					}
					seen["init"] = true
				case le.Range == chg || le.Range == rbv:
					ok := false
					for _, b := range body {
						if b.Kind == engine.EvWrite && b.Local == nil && strings.HasSuffix(b.LHS, "[key("+le.Range+")]") && b.RHS == "elem("+le.Range+")" {
							ok = true
							if mapBase != "" && !strings.HasPrefix(b.LHS, mapBase) {
								bad = "the change source is merged into another map than the one initialised from Configuration.Values"
							}
						}
					}
					if !ok && bad == "" {
						bad = "an entry of the change source " + c.Render(le.Range) + " is not written into the candidate map under its own key"
					}
					seen["merge:"+le.Range] = true
				case strings.HasPrefix(le.Range, "make(map[string]*config/v2.PathValue)@") && !(le.Fn != nil && strings.HasSuffix(le.Fn.Name(), ".applyChangeToConfig")):
					// (a loop over the candidate map inside an inlined helper — the tombstone search of
					// applyChangeToConfig — is not the loop that fills the slice)
					// filling the slice given to BuildTree
					ok := false
					for _, b := range body {
						if b.Kind == engine.EvCond && b.Loops == le.LoopID {
							bad = "an entry of the candidate map can be left out of the validated document"
						}
						// (a second range over the same map on one path names its element elem'2(…))
						if b.Kind == engine.EvWrite && b.Local != nil && strings.HasPrefix(b.RHS, "append(") && (strings.HasSuffix(b.RHS, ",elem("+le.Range+"))") || elemOcc.MatchString(b.RHS) && strings.HasSuffix(b.RHS, "("+le.Range+"))")) {
							ok = true
						}
					}
					if !ok && bad == "" {
						bad = "the slice given to BuildTree is not filled from the candidate map"
					}
					if mapBase != "" && !strings.HasPrefix(le.Range, mapBase) && bad == "" {
						bad = "the validated document is built from another map than the candidate"
					}
					seen["slice"] = true
				}
			}
			if bad != "" {
				o.Fail(&engine.Violation{Key: engine.SiteKey(p, ref.Idx, "candidate document"), Pos: c.P.Pos(e.Pos), Func: engine.FuncChain(p, ref.Idx), Msg: bad, Path: c.PathTrace(p, ref.Idx)})
				return
			}
		}
	}
	for _, k := range []string{"init", "slice", "merge:" + chg, "merge:" + rbv} {
		if !seen[k] {
			o.Undecided("candidate|"+c.Render(k), "anchor not found: no path shows the "+c.Render(k)+" loop of the candidate construction")
		}
	}
}

// commitSource: the collection merged at commit derives from the source that was validated.
func commitSource(c *engine.Ctx) { commitSourceAs(c, "C05.2b") }

func commitSourceAs(c *engine.Ctx, id string) {
	o := c.Custom(id, "K-dataflow(domain agreement)", "the commit step merges AddDeleteChildren(own, S, CFG.Values) with S the change's values (change) or P.Status.RollbackValues (rollback); the VALIDATED path of a rollback stores the validated RollbackValues into P.Status",
		"what is merged is what was validated")
	defer o.Done(2)
	paths, err := c.A.Paths(pkgProposalCtl)
	if err != nil {
		o.Undecided(pkgProposalCtl, err.Error())
		return
	}
	own := c.Al.Expand("@OWN")
	chg := c.Al.Expand("@CHG.Change.Values")
	rbs := c.Al.Expand("@P.Status.RollbackValues")
	isChange, _ := engine.ParseClause("type(@P.Details) == *config/v2.Proposal_Change", c.Al, c.P)
	isRollback, _ := engine.ParseClause("type(@P.Details) == *config/v2.Proposal_Rollback", c.Al, c.P)
	for _, s := range engine.FindSites(paths, c.Match(engine.Sel{Field: fCfgValues + "[]"})) {
		e := s.Ev()
		for _, ref := range s.Refs {
			p := ref.Path
			if !strings.HasPrefix(p.Events[ref.Idx].RHS, "elem") {
				continue
			}
			conds := engine.CondsBefore(p, ref.Idx)
			var le *engine.Event
			for i := ref.Idx - 1; i >= 0; i-- {
				if x := &p.Events[i]; x.Kind == engine.EvLoopEnter && strings.HasPrefix(p.Events[ref.Idx].Loops, x.LoopID) && strings.HasPrefix(x.Range, "controller/utils.AddDeleteChildren(") {
					le = x
					break
				}
			}
			if le == nil {
				continue // the write inside the parent walk of applyChangeToConfig etc. is covered by its enclosing loop
			}
			o.Eval(1)
			want := ""
			switch {
			case engine.Entails(conds, isChange, c.P.Domain):
				want = "controller/utils.AddDeleteChildren(" + own + "," + chg + ","
			case engine.Entails(conds, isRollback, c.P.Domain):
				want = "controller/utils.AddDeleteChildren(" + own + "," + rbs + ","
			default:
				continue
			}
			if !strings.HasPrefix(le.Range, want) {
				o.Fail(&engine.Violation{Key: engine.SiteKey(p, ref.Idx, "merge source"), Pos: c.P.Pos(e.Pos), Func: engine.FuncChain(p, ref.Idx),
					Msg: "the commit step merges " + c.Render(le.Range) + ", which does not derive from the validated change source", Path: c.PathTrace(p, ref.Idx)})
				return
			}
			o.Site("")
		}
	}
	// rollback: validated values are the ones stored for the commit
	c.Guard(engine.Guard{ID: "C05.2c", Pkg: pkgProposalCtl, Min: 1,
		Sel:     engine.Sel{Field: "config/v2.ProposalStatus.RollbackValues", Filter: func(p *engine.Path, i int) bool { return !strings.HasPrefix(p.Events[i].RHS, "make(") }},
		Require: "type(@P.Details) == *config/v2.Proposal_Rollback && err(@RBP) == nil && type(@RBP.Details) == *config/v2.Proposal_Change",
		Assume:  oneofSet,
		Why:     "for a rollback, the values stored for the commit step are the rolled-back change's captured values that were just validated"})
	c.Guard(engine.Guard{ID: "C05.2d", Pkg: pkgProposalCtl, None: true, Rule: "K-own(rhs)", Assume: oneofSet,
		Sel: engine.Sel{Field: "config/v2.ProposalStatus.RollbackValues", Filter: func(p *engine.Path, i int) bool {
			r := p.Events[i].RHS
			return !strings.HasPrefix(r, "make(map[string]*config/v2.PathValue)@") && r != c.Al.Expand("@RBP.Status.RollbackValues")
		}},
		Why: "RollbackValues is either the freshly captured map (change) or the rolled-back proposal's captured values (rollback)"})
}

func registryVerdict(c *engine.Ctx) {
	o := c.Custom("C05.4", "K-enum(verdict)", "ModelPluginInfo.Validate returns nil only when CloseAndRecv succeeded and resp.Valid; every stream error is returned",
		"a rejected or unfinished validation must never read as acceptance")
	defer o.Done(1)
	paths, err := c.A.PathsOpt(pkgRegistry, engine.PathOpts{Roots: []string{".ModelPluginInfo.Validate"}, NoInline: true})
	if err != nil {
		o.Undecided(pkgRegistry, err.Error())
		return
	}
	for _, p := range paths {
		last := &p.Events[len(p.Events)-1]
		if last.Kind != engine.EvReturn || len(last.Results) != 1 {
			continue
		}
		o.Site("")
		o.Eval(1)
		conds := engine.CondsBefore(p, len(p.Events)-1)
		var recv string
		anyFail := false
		for i := range p.Events {
			e := &p.Events[i]
			if e.Kind == engine.EvCall && strings.HasSuffix(e.CalleeName, ".CloseAndRecv") {
				recv = e.Canon
			}
		}
		okRecv, valid := false, false
		for _, l := range conds {
			if l.RNil && l.Mask == 5 && strings.HasPrefix(l.L, "err(") {
				anyFail = true
			}
			if recv != "" && l.L == "err("+recv+")" && l.RNil && l.Mask == 2 {
				okRecv = true
			}
			if recv != "" && l.L == recv+".Valid" && l.R == "true" && l.Mask == 2 {
				valid = true
			}
		}
		if last.Results[0] == "nil" && (!okRecv || !valid) {
			o.Fail(&engine.Violation{Key: "ModelPluginInfo.Validate|nil without verdict", Pos: c.P.Pos(last.Pos), Func: p.Root.Name(),
				Msg: "Validate can return nil without a successful CloseAndRecv that reported Valid", Found: c.RenderConds(conds)})
			return
		}
		if last.Results[0] == "nil" && anyFail {
			o.Fail(&engine.Violation{Key: "ModelPluginInfo.Validate|error swallowed", Pos: c.P.Pos(last.Pos), Func: p.Root.Name(),
				Msg: "Validate returns nil on a path on which a stream call failed", Found: c.RenderConds(conds)})
			return
		}
	}
}

func chunkCursor(c *engine.Ctx) { chunkCursorAs(c, "C05.5") }

func chunkCursorAs(c *engine.Ctx, id string) {
	o := c.Custom(id, "cursor", "in the send loop: slice low bound = cursor, cursor' = slice high bound (len(data) for the open-ended tail), a bounded chunk is cut only under high bound <= len(data), loop condition cursor < len(data), and the slice is what is sent",
		"the plugin receives every byte of the document exactly once, whatever its size relative to the chunk size")
	defer o.Done(2)
	paths, err := c.A.PathsOpt(pkgRegistry, engine.PathOpts{Roots: []string{".ModelPluginInfo.Validate"}, NoInline: true})
	if err != nil {
		o.Undecided(pkgRegistry, err.Error())
		return
	}
	for _, p := range paths {
		for i := range p.Events {
			le := &p.Events[i]
			if le.Kind != engine.EvLoopEnter || le.Range != "" {
				continue
			}
			var sent, slice, next, cursor string
			var intWrites [][2]string
			exit := -1
			for j := i + 1; j < len(p.Events); j++ {
				ej := &p.Events[j]
				if ej.Kind == engine.EvLoopExit && ej.Node == le.Node {
					exit = j
					break
				}
				if ej.Loops != le.LoopID {
					continue
				}
				if ej.Kind == engine.EvWrite && ej.Local != nil && strings.HasPrefix(ej.RHS, "$jsonData[") {
					slice = ej.RHS
				}
				if ej.Kind == engine.EvWrite && ej.Local != nil && isIntType(ej.Local.Type().String()) {
					intWrites = append(intWrites, [2]string{ej.Local.Name(), ej.RHS})
				}
				if ej.Kind == engine.EvCall && strings.HasSuffix(ej.CalleeName, ".Send") && len(ej.Args) == 1 {
					sent = ej.Args[0]
				}
			}
			if k := strings.Index(sent, "Json:$jsonData["); k >= 0 {
				// the slice as it is sent (possibly cut in place inside the request literal)
				rest := sent[k+len("Json:"):]
				depth := 0
				for q := 0; q < len(rest); q++ {
					if rest[q] == '[' || rest[q] == '(' {
						depth++
					} else if rest[q] == ']' || rest[q] == ')' {
						depth--
						if depth == 0 {
							slice = rest[:q+1]
							break
						}
					}
				}
			}
			if exit < 0 || exit == i+1 {
				continue
			}
			if slice == "" {
				o.Site(c.P.Pos(le.Pos) + " send loop")
				o.Eval(1)
				o.Fail(&engine.Violation{Key: "ModelPluginInfo.Validate|chunk cursor", Pos: c.P.Pos(le.Pos), Func: p.Root.Name(), Msg: "an iteration of the send loop does not send a slice data[lo:hi] of the document (sent: " + sent + ")"})
				return
			}
			// the loop condition, assumed just before the loop entry
			for j := i - 1; j >= 0 && j >= i-3; j-- {
				if ej := &p.Events[j]; ej.Kind == engine.EvCond && ej.Lit.R == "len($jsonData)" && ej.Lit.Mask == 1 {
					cursor = ej.Lit.L
				}
			}
			// the cursor's next value: the last write to the variable the loop condition tests
			cname := strings.TrimPrefix(cursor, "?")
			if k := strings.Index(cname, "@"); k >= 0 {
				cname = cname[:k]
			}
			for _, w := range intWrites {
				if w[0] == cname {
					next = w[1]
				}
			}
			o.Site(c.P.Pos(le.Pos) + " slice " + slice + " then cursor := " + next)
			o.Eval(1)
			lo, hi, ok := splitSlice(slice)
			bad := ""
			switch {
			case cursor == "":
				bad = "the send loop is not guarded by cursor < len(data)"
			case !ok || lo != cursor:
				bad = "the chunk does not start at the cursor (" + slice + " with cursor " + cursor + ")"
			case hi == "" && next != "len($jsonData)":
				bad = "after the open-ended tail chunk the cursor becomes " + next + ", not len(data)"
			case hi != "" && next != hi:
				bad = "after the chunk " + slice + " the cursor becomes " + next + ", not the chunk's upper bound"
			case !strings.Contains(sent, "Json:"+slice):
				bad = "the chunk that is sent (" + sent + ") is not the slice that was cut"
			}
			if bad == "" && hi != "" {
				// a bounded chunk must lie inside the document: hi <= len(data) on this path
				within := false
				for j := i + 1; j < exit; j++ {
					if ej := &p.Events[j]; ej.Kind == engine.EvCond && ej.Lit.L == hi && ej.Lit.R == "len($jsonData)" && ej.Lit.Mask&4 == 0 && ej.Lit.Mask != 0 {
						within = true
					}
				}
				if !within {
					bad = "the bounded chunk " + slice + " is cut on a path that does not establish " + hi + " <= len(data): the last chunk of a document that is not a multiple of the chunk size is sliced out of range"
				}
			}
			if bad != "" {
				o.Fail(&engine.Violation{Key: "ModelPluginInfo.Validate|chunk cursor", Pos: c.P.Pos(le.Pos), Func: p.Root.Name(), Msg: bad})
				return
			}
		}
	}
}

func isIntType(s string) bool {
	return s == "int" || s == "int64" || s == "uint" || s == "uint64" || s == "int32"
}

// splitSlice parses "$jsonData[lo:hi]".
func splitSlice(s string) (lo, hi string, ok bool) {
	if !strings.HasPrefix(s, "$jsonData[") || !strings.HasSuffix(s, "]") {
		return "", "", false
	}
	in := s[len("$jsonData[") : len(s)-1]
	depth := 0
	for i := 0; i < len(in); i++ {
		switch in[i] {
		case '(', '[':
			depth++
		case ')', ']':
			depth--
		case ':':
			if depth == 0 {
				return in[:i], in[i+1:], true
			}
		}
	}
	return "", "", false
}

// pluginVerdict: C05.6. The registry's Validate answers nil only for a document the plugin accepted.
func pluginVerdict(c *engine.Ctx) {
	o := c.Custom("C05.6", "K-outcome(verdict)", "ModelPluginInfo.Validate returns nil only on paths on which the stream was opened without error, every Send's error was tested nil, CloseAndRecv's error was tested nil and the response's Valid flag was tested true",
		"the proposal controller treats nil as 'the plugin accepted the candidate': a swallowed stream error or an unread verdict lets an unvalidated or rejected document become configuration")
	defer o.Done(1)
	paths, err := c.A.PathsOpt(pkgRegistry, engine.PathOpts{Roots: []string{".ModelPluginInfo.Validate"}, NoInline: true})
	if err != nil {
		o.Undecided(pkgRegistry, err.Error())
		return
	}
	reported := map[string]bool{}
	for _, p := range paths {
		last := &p.Events[len(p.Events)-1]
		if last.Kind != engine.EvReturn || len(last.Results) != 1 || last.Results[0] != "nil" {
			continue
		}
		o.Site(c.P.Pos(last.Pos) + " return nil")
		o.Eval(1)
		conds := engine.CondsBefore(p, len(p.Events)-1)
		// conditions inside the (closed) send loop count too: collect them over the whole path
		var all []engine.Lit
		for i := range p.Events {
			if p.Events[i].Kind == engine.EvCond {
				all = append(all, p.Events[i].Lit)
			}
		}
		_ = conds
		okErr := func(canon string) bool {
			for _, l := range all {
				if l.L == "err("+canon+")" && l.RNil && l.Mask == 2 {
					return true
				}
			}
			return false
		}
		var recv string
		opened, closed := false, false
		bad := ""
		for i := range p.Events {
			e := &p.Events[i]
			if e.Kind != engine.EvCall {
				continue
			}
			switch {
			case strings.HasSuffix(e.CalleeName, ".ValidateConfigChunked"):
				opened = true
				if !okErr(e.Canon) {
					bad = "the error of opening the validation stream is not tested"
				}
			case strings.HasSuffix(e.CalleeName, ".Send"):
				if !okErr(e.Canon) {
					bad = "the error of a chunk Send is not tested nil before the document is reported valid"
				}
			case strings.HasSuffix(e.CalleeName, ".CloseAndRecv"):
				closed = true
				recv = e.Canon
				if !okErr(e.Canon) {
					bad = "the error of CloseAndRecv is not tested nil"
				}
			}
		}
		valid := false
		for _, l := range all {
			if recv != "" && l.L == recv+".Valid" && l.R == "true" && l.Mask == 2 {
				valid = true
			}
		}
		switch {
		case bad != "":
		case !opened || !closed:
			bad = "nil is returned on a path that does not open the stream and receive the plugin's response"
		case !valid:
			bad = "nil is returned on a path that does not test the response's Valid flag"
		}
		if bad != "" && !reported[bad] {
			reported[bad] = true
			o.Fail(&engine.Violation{Key: "ModelPluginInfo.Validate|" + bad, Pos: c.P.Pos(last.Pos), Func: p.Root.Name(), Msg: bad})
		}
	}
}

var elemOcc = regexp.MustCompile(`,elem'[0-9]+\(`)
