package props

import (
	"fmt"
	"go/ast"
	"go/token"
	"go/types"
	"os"
	"path/filepath"
	"regexp"
	"strings"

	"occheck/internal/engine"
)

var storePkgs = []string{pkgStoreTxV2, pkgStorePropV2, pkgStoreCfgV2, pkgStoreTxV3, pkgStoreCfgV3}

func init() {
	register(&Prop{
		ID:    "C15",
		Title: "Stores never lose an update; watchers never miss the latest state",
		Explanation: "Linearizability and eventual delivery need the semantics of the Atomix primitives and are declined. Decided for the five stores (v2 transaction/proposal/configuration, v3 transaction/configuration): (1) every update/remove of a primitive entry is conditional on the version read — IfVersion(primitive.Version(x.Version)) of the record being written, or IfVersion(entry.Version) of the entry just read under the same key; entries are created with Insert/Append only; " +
			"(2) Version, log Index and Revision of the records are assigned only in their store package and only from the primitive's entry (Revision: = 1 on create, ++ on update); (3) in every Watch the listener is registered (watcher map insert under the lock, or the primitive's Events stream opened) before any snapshot read that feeds the replay; " +
			"(4) no path of a watch goroutine closes the subscriber's channel twice (deferred closes included) or sends on it after closing it; (5) behind a shared dispatcher every send on the subscriber's channel is a select case next to ctx.Done(), so that a departed subscriber cannot block the dispatcher and with it every other watcher; (6) every lock is released on all paths and nothing is sent on a channel while the store mutex is held." +
			" Also: nested end of stream does not return (C15.17); close on every exit of a watch goroutine that closes on some (C15.18)." +
			" Also: C15.19 the dispatcher never skips a watcher.",
		Declined: []string{"linearizability of the primitives", "that every event is eventually shown (needs Atomix semantics)"},
		Run:      runC15,
		Witness:  []WitnessTarget{{pkgStoreTxV2, nil}, {pkgStorePropV2, nil}, {pkgStoreCfgV2, nil}, {pkgStoreTxV3, nil}, {pkgStoreCfgV3, nil}},
	})
}

func runC15(c *engine.Ctx, tier string) {
	listVisitsEveryCollection(c)
	dispatcherNeverDrops(c)
	for _, rel := range storePkgs {
		closeOnEveryExit(c, "C15.18/"+strings.TrimPrefix(rel, "pkg/store/"), rel)
	}
	loopVarAddress(c)
	identityComponents(c)
	conditionalUpdates(c)
	recordFieldOwnership(c)
	for _, rel := range storePkgs {
		short := strings.TrimPrefix(rel, "pkg/store/")
		watchOrder(c, "C15.3/"+short, rel)
		channelTypestate(c, "C15.4/"+short, rel)
		sharedDispatcher(c, "C15.5/"+short, rel)
		lockDiscipline(c, "C15.6/"+short, rel)
		if rel != pkgStorePropV2 {
			registryCleanup(c, "C15.7/"+short, rel, 3)
		}
		versionStamping(c, "C15.8/"+short, rel, rel == pkgStoreTxV2, 4)
		eventMapping(c, "C15.9/"+short, rel)
		if rel != pkgStorePropV2 {
			drainOnExit(c, "C15.11/"+short, rel, 2)
		}
		dispatcherLives(c, "C15.13/"+short, rel, 1)
		if rel == pkgStoreCfgV2 || rel == pkgStoreCfgV3 {
			refusedLeavesNoTrace(c, "C15.16/"+short, rel)
		}
		if rel != pkgStorePropV2 {
			publishedChannelClosed(c, "C15.14/"+short, rel, 1)
			dispatcherContext(c, "C15.15/"+short, rel, 1)
		}
	}
}

// dispatcherLives: the loop that reads the primitive's live event stream and hands the events to the
// watchers is left only when the stream ends. It is the one source of live events of the store on this
// node: a dispatcher that returns on a per-event error leaves every current and future watcher (the Set
// and rollback handlers among them) without events for ever.
func dispatcherLives(c *engine.Ctx, id, rel string, min int) {
	o := c.Custom(id, "K-exit(dispatcher)", "a path that calls EventStream.Next() on the primitive's event stream and then leaves the function/goroutine (rather than looping back) has tested that call's error == io.EOF",
		"every watcher of the store, present and future, is fed by this loop; an error on one event is logged and skipped")
	defer o.Done(min)
	paths, err := storePaths(c, rel)
	if err != nil {
		o.Undecided(rel, err.Error())
		return
	}
	reported := map[string]bool{}
	for _, p := range paths {
		if len(p.Events) == 0 {
			continue
		}
		var next *engine.Event
		for i := range p.Events {
			if e := &p.Events[i]; e.Kind == engine.EvCall && strings.HasSuffix(e.CalleeName, "stream.EventStream.Next") {
				next = e
			}
		}
		if next == nil {
			continue
		}
		o.Site(p.Root.Name())
		o.Eval(1)
		last := &p.Events[len(p.Events)-1]
		if last.Kind != engine.EvReturn {
			continue // loops back
		}
		eof := false
		for i := range p.Events {
			if e := &p.Events[i]; e.Kind == engine.EvCond && e.Lit.L == "err("+next.Canon+")" && e.Lit.R == "io.EOF" && e.Lit.Mask == 2 {
				eof = true
			}
		}
		if !eof {
			key := p.Root.Name() + "|dispatcher leaves on an error other than the end of the stream"
			if i := strings.Index(key, "$lit@"); i >= 0 {
				key = key[:i] + "$lit" + key[strings.Index(key, "|"):]
			}
			if !reported[key] {
				reported[key] = true
				o.Fail(&engine.Violation{Key: key, Pos: c.P.Pos(last.Pos), Func: p.Root.Name(),
					Msg: "the event dispatcher returns on a path where EventStream.Next() did not report io.EOF: after one undecodable event no watcher of this store receives anything again", Path: c.PathTrace(p, len(p.Events)-1)})
			}
		}
	}
}

func inStorePkg(rel string) bool {
	for _, p := range storePkgs {
		if p == rel {
			return true
		}
	}
	return false
}

// conditionalUpdates: C15.1.
func conditionalUpdates(c *engine.Ctx) { conditionalUpdatesAs(c, "C15.1", "", 12) }

// conditionalUpdatesAs restricts the rule to the store package onlyPkg (all store packages when empty).
func conditionalUpdatesAs(c *engine.Ctx, id, onlyPkg string, min int) {
	o := c.Custom(id, "K-args(IfVersion)", "every Update/Remove on an Atomix primitive or map transaction carries IfVersion of the version read for the very record/entry written; creation uses Insert/Append",
		"two writers that both read the same version of a record cannot both succeed")
	defer o.Done(min)
	for _, cs := range c.P.CallSites() {
		if !inStorePkg(cs.Pkg) || (onlyPkg != "" && cs.Pkg != onlyPkg) {
			continue
		}
		isPrim := strings.HasPrefix(cs.Callee, "indexedmap.IndexedMap.") || strings.HasPrefix(cs.Callee, "map.Map.") || strings.HasPrefix(cs.Callee, "map.Transaction.")
		if !isPrim {
			continue
		}
		m := cs.Callee[strings.LastIndex(cs.Callee, ".")+1:]
		switch m {
		case "Put", "Set", "Clear":
			o.Site(cs.Pos + " " + cs.Callee)
			o.Eval(1)
			if cs.Func == "store/v3/transaction.transactionStore.getTransactions" && m == "Put" {
				// registry of targets: the key is a function of the value (id-type-version), so concurrent
				// puts write the same value; AlreadyExists is tolerated right after
				continue
			}
			o.Fail(&engine.Violation{Key: cs.Func + "|unconditional " + cs.Callee, Pos: cs.Pos, Func: cs.Func, Msg: "an unconditional " + m + " on a primitive overwrites whatever another writer stored"})
			continue
		case "Update", "Remove":
		default:
			continue
		}
		o.Site(cs.Pos + " " + cs.Callee + " in " + cs.Func)
		o.Eval(1)
		var ifv *ast.CallExpr
		for _, a := range cs.Call.Args {
			if call, ok := ast.Unparen(a).(*ast.CallExpr); ok {
				name := types.ExprString(call.Fun)
				if strings.HasSuffix(name, ".IfVersion") || name == "IfVersion" {
					ifv = call
				}
			}
		}
		key := cs.Func + "|" + cs.Callee
		if ifv == nil || len(ifv.Args) != 1 {
			o.Fail(&engine.Violation{Key: key + " without IfVersion", Pos: cs.Pos, Func: cs.Func, Msg: cs.Callee + " is not conditional on the version read: a concurrent writer's update is silently overwritten"})
			continue
		}
		got := types.ExprString(ifv.Args[0])
		if strings.HasPrefix(cs.Callee, "map.Transaction.") {
			// IfVersion(entry.Version) with entry := <prim>.Get(ctx, key) for the same key
			keyArg := types.ExprString(cs.Call.Args[0])
			okEntry := false
			if sel, ok := ifv.Args[0].(*ast.SelectorExpr); ok && sel.Sel.Name == "Version" {
				if id, ok := sel.X.(*ast.Ident); ok {
					ast.Inspect(cs.Decl.Body, func(n ast.Node) bool {
						as, ok := n.(*ast.AssignStmt)
						if !ok || len(as.Lhs) < 1 || len(as.Rhs) != 1 {
							return true
						}
						if lid, ok := as.Lhs[0].(*ast.Ident); ok && cs.Info.Defs[lid] == cs.Info.Uses[id] {
							if call, ok := as.Rhs[0].(*ast.CallExpr); ok && strings.HasSuffix(types.ExprString(call.Fun), ".Get") && len(call.Args) == 2 && types.ExprString(call.Args[1]) == keyArg {
								okEntry = true
							}
						}
						return true
					})
				}
			}
			if !okEntry {
				// … or the entry comes out of a snapshot map of the primitive that is filled `m[e.Key] = e` from
				// the primitive's entry stream and is read under this very key: `for key, entry := range m` or
				// `entry, ok := m[key]`
				if sel, ok := ifv.Args[0].(*ast.SelectorExpr); ok && sel.Sel.Name == "Version" {
					if id, ok := sel.X.(*ast.Ident); ok {
						okEntry = entryOfSnapshotMap(cs.Info, cs.Decl.Body, cs.Info.Uses[id], keyArg)
					}
				}
			}
			if !okEntry {
				o.Fail(&engine.Violation{Key: key + " IfVersion source", Pos: cs.Pos, Func: cs.Func, Msg: "IfVersion(" + got + ") is not the version of the entry read under the same key " + keyArg})
			}
			continue
		}
		// record update: IfVersion(primitive.Version(<value>.Version))
		if len(cs.Call.Args) < 3 {
			o.Fail(&engine.Violation{Key: key + " shape", Pos: cs.Pos, Func: cs.Func, Msg: "unexpected arguments"})
			continue
		}
		val := types.ExprString(cs.Call.Args[2])
		if want := "primitive.Version(" + val + ".Version)"; got != want {
			o.Fail(&engine.Violation{Key: key + " IfVersion source", Pos: cs.Pos, Func: cs.Func, Msg: "IfVersion(" + got + ") where IfVersion(" + want + ") — the version of the record being written — is required"})
		}
	}
}

// recordFieldOwnership: C15.2.
func recordFieldOwnership(c *engine.Ctx) {
	o := c.Custom("C15.2", "K-own(rhs)", "Version / Index / Revision of Transaction, Proposal, Configuration (v2, v3) are assigned only in their store package, from entry.Version / entry.Index (Revision: = 1 or ++)",
		"record versions and log indexes come from the primitive only, so they only grow and an index is never reused")
	defer o.Done(5)
	owner := map[string][]string{
		"config/v2.Transaction": {pkgStoreTxV2}, "config/v2.Proposal": {pkgStorePropV2}, "config/v2.Configuration": {pkgStoreCfgV2},
		"config/v3.Transaction": {pkgStoreTxV3}, "config/v3.Configuration": {pkgStoreCfgV3}, "config/v3.TransactionID": {pkgStoreTxV3},
	}
	for _, w := range c.P.FieldWrites() {
		dot := strings.LastIndex(w.Field, ".")
		typ, f := w.Field[:dot], w.Field[dot+1:]
		owners, ok := owner[typ]
		if !ok || (f != "Version" && f != "Revision" && !(f == "Index" && typ != "config/v2.Configuration" && typ != "config/v3.Configuration")) {
			continue
		}
		if strings.HasPrefix(w.Pkg, "internal/") || w.Op == "lit" && w.Pkg != owners[0] && f == "Index" && typ == "config/v3.TransactionID" {
			continue
		}
		o.Site(w.Pos + " " + w.Field + " " + w.Op + " " + w.RHS)
		o.Eval(1)
		key := w.Func + "|write " + w.Field
		if w.Pkg != owners[0] {
			o.Fail(&engine.Violation{Key: key, Pos: w.Pos, Func: w.Func, Msg: w.Field + " is assigned outside its store (" + w.Pkg + "): versions and indexes must come from the primitive"})
			continue
		}
		okRHS := false
		switch f {
		case "Version":
			okRHS = strings.HasPrefix(w.RHS, "uint64(") && strings.HasSuffix(w.RHS, ".Version)")
		case "Index":
			okRHS = strings.HasSuffix(w.RHS, ".Index)") && strings.Contains(w.RHS, "ntry.") || strings.HasSuffix(w.RHS, "ntry.Index")
		case "Revision":
			okRHS = w.RHS == "1" || w.Op == "++"
		}
		if !okRHS {
			o.Fail(&engine.Violation{Key: key + " := " + w.RHS, Pos: w.Pos, Func: w.Func, Msg: w.Field + " is assigned " + w.Op + " " + w.RHS + " instead of the primitive entry's value"})
		}
	}
}

func storePaths(c *engine.Ctx, rel string) ([]*engine.Path, error) {
	return c.A.PathsOpt(rel, engine.PathOpts{NoInline: true})
}

func isSnapshotCall(name string) bool {
	return (strings.HasPrefix(name, "indexedmap.IndexedMap.") || strings.HasPrefix(name, "map.Map.")) &&
		(strings.HasSuffix(name, ".Get") || strings.HasSuffix(name, ".List") || strings.HasSuffix(name, ".GetIndex"))
}

// watchOrder: C15.3 — listener before snapshot.
func watchOrder(c *engine.Ctx, id, rel string) {
	o := c.Custom(id, "K-order(listener before snapshot)", "in Watch, a snapshot read of the primitive (Get/List/GetIndex), directly or in the goroutine Watch starts, is reachable only after the listener registration (insert into the watcher maps, or opening the primitive's Events stream)",
		"an update that lands between the snapshot and the registration would never be shown to the watcher")
	defer o.Done(1)
	paths, err := storePaths(c, rel)
	if err != nil {
		o.Undecided(rel, err.Error())
		return
	}
	for _, p := range paths {
		if p.Lit != nil || !strings.HasSuffix(p.Root.Name(), "Store.Watch") {
			continue
		}
		registered := false
		storedMaps := map[string]bool{} // maps that were put into a receiver field on this path
		for i := range p.Events {
			e := &p.Events[i]
			switch {
			case e.Kind == engine.EvWrite && e.Local == nil && strings.HasPrefix(e.LHS, "$recv.") && strings.HasPrefix(e.RHS, "make(map["):
				storedMaps[e.RHS] = true
			case e.Kind == engine.EvWrite && e.Local == nil && strings.HasPrefix(e.RHS, "make(chan") && strings.Contains(e.LHS, "["):
				base := e.LHS[:strings.LastIndex(e.LHS, "[")]
				if strings.HasPrefix(base, "$recv.") || storedMaps[base] {
					registered = true
				}
			case e.Kind == engine.EvCall && strings.HasSuffix(e.CalleeName, ".Events") && (strings.HasPrefix(e.CalleeName, "map.Map.") || strings.HasPrefix(e.CalleeName, "indexedmap.IndexedMap.")):
				registered = true
			case e.Kind == engine.EvCall && isSnapshotCall(e.CalleeName):
				o.Eval(1)
				if !registered {
					o.Fail(&engine.Violation{Key: p.Root.Name() + "|snapshot before registration", Pos: c.P.Pos(e.Pos), Func: p.Root.Name(), Msg: "Watch reads a snapshot (" + e.CalleeName + ") before the listener is registered"})
					return
				}
			case e.Kind == engine.EvGo:
				// does the goroutine read a snapshot?
				if gs, ok := e.Node.(*ast.GoStmt); ok {
					if fl, ok := gs.Call.Fun.(*ast.FuncLit); ok {
						reads := false
						ast.Inspect(fl.Body, func(n ast.Node) bool {
							if call, ok := n.(*ast.CallExpr); ok {
								if sel, ok := call.Fun.(*ast.SelectorExpr); ok && (sel.Sel.Name == "Get" || sel.Sel.Name == "List" || sel.Sel.Name == "GetIndex") {
									if fn, ok := p.Root.Pkg.TypesInfo.Uses[sel.Sel].(*types.Func); ok && isSnapshotCall(engine.ShortFuncName(fn)) {
										reads = true
									}
								}
							}
							return true
						})
						if reads {
							o.Eval(1)
							o.Site(c.P.Pos(e.Pos) + " snapshot goroutine of " + p.Root.Name())
							if !registered {
								o.Fail(&engine.Violation{Key: p.Root.Name() + "|snapshot goroutine before registration", Pos: c.P.Pos(e.Pos), Func: p.Root.Name(), Msg: "the goroutine that replays the snapshot is started before the listener is registered"})
								return
							}
						}
					}
				}
			}
		}
		if registered {
			o.Site("")
		}
	}
}

// channelTypestate: C15.4.
func channelTypestate(c *engine.Ctx, id, rel string) {
	o := c.Custom(id, "K-chan(typestate)", "on no path of a store goroutine is a channel closed twice (deferred closes included) or sent on after being closed",
		"a second close panics the process; a send on a closed channel too — cancelling a watch must never disturb the store")
	defer o.Done(1)
	paths, err := storePaths(c, rel)
	if err != nil {
		o.Undecided(rel, err.Error())
		return
	}
	reported := map[string]bool{}
	for _, p := range paths {
		closed := map[string]int{}
		touched := false
		for i := range p.Events {
			e := &p.Events[i]
			switch {
			case e.Kind == engine.EvCall && e.CalleeName == "close" && len(e.Args) == 1:
				touched = true
				closed[e.Args[0]]++
				if closed[e.Args[0]] > 1 {
					key := p.Root.Name() + "|double close of " + e.Args[0]
					if !reported[key] {
						reported[key] = true
						how := "explicitly twice"
						if e.Deferred {
							how = "explicitly and again by the deferred close"
						}
						o.Fail(&engine.Violation{Key: key, Pos: c.P.Pos(e.Pos), Func: p.Root.Name(), Msg: "channel " + e.Args[0] + " is closed " + how + " on one path: close of closed channel panics", Path: c.PathTrace(p, i)})
					}
				}
			case e.Kind == engine.EvSend:
				touched = true
				if closed[e.Chan] > 0 {
					key := p.Root.Name() + "|send after close on " + e.Chan
					if !reported[key] {
						reported[key] = true
						o.Fail(&engine.Violation{Key: key, Pos: c.P.Pos(e.Pos), Func: p.Root.Name(), Msg: "send on " + e.Chan + " after it was closed on the same path"})
					}
				}
			}
		}
		if touched {
			o.Site("")
			o.Eval(1)
		}
	}
}

// refusedLeavesNoTrace: a write method whose version-guarded (or insert-only) write of the record can be
// refused must not have written anything else before it. The configuration stores keep their value maps
// in primitives of their own; written first, they carry a refused writer's values.
func refusedLeavesNoTrace(c *engine.Ctx, id, rel string, only ...string) {
	o := c.Custom(id, "K-order(first effect)", "in Create/Update/UpdateStatus of the configuration store no write to another primitive (the store() of a value map) precedes the conditional write of the record (Insert, or Update with IfVersion)",
		"two writers that read the same version cannot both take effect: the loser's Update returns an error, and must also leave what the winner wrote")
	min := 3
	if len(only) > 0 {
		min = len(only)
	}
	defer func() { o.Done(min) }()
	paths, err := storePaths(c, rel)
	if err != nil {
		o.Undecided(rel, err.Error())
		return
	}
	reported := map[string]bool{}
	seen := map[string]bool{}
	for _, p := range paths {
		if p.Lit != nil {
			continue
		}
		name := p.Root.Name()
		m := name[strings.LastIndex(name, ".")+1:]
		if !strings.Contains(name, "configurationStore.") || (m != "Create" && m != "Update" && m != "UpdateStatus") {
			continue
		}
		if len(only) > 0 && !hasArg(only, m) {
			continue
		}
		valuesAt, recordAt := -1, -1
		for i := range p.Events {
			e := &p.Events[i]
			if e.Kind != engine.EvCall {
				continue
			}
			if strings.HasSuffix(e.CalleeName, "configurationStore.store") && valuesAt < 0 {
				valuesAt = i
			}
			if (e.CalleeName == "map.Map.Update" || e.CalleeName == "map.Map.Insert") && recordAt < 0 {
				recordAt = i
			}
		}
		if recordAt < 0 {
			continue
		}
		if !seen[name] {
			seen[name] = true
			o.Site(name)
		}
		o.Eval(1)
		if valuesAt >= 0 && valuesAt < recordAt {
			key := name + "|value map written before the conditional write of the record"
			if !reported[key] {
				reported[key] = true
				o.Fail(&engine.Violation{Key: key, Pos: c.P.Pos(p.Events[valuesAt].Pos), Func: name,
					Msg: "the value map is written (store()) before the conditional write of the record at " + c.P.Pos(p.Events[recordAt].Pos) + ": when that write is refused the values of the refused writer stay in the store"})
			}
		}
	}
}

// dispatcherContext: the event stream that feeds the store's shared dispatcher lives as long as the
// store, not as long as the request that happened to open it: it is opened with context.Background().
// Opened with a caller's context, the dispatcher ends when that caller's request ends and every other
// watcher of the store stops receiving events, although writes still succeed.
func dispatcherContext(c *engine.Ctx, id, rel string, min int) {
	o := c.Custom(id, "K-args(dispatcher context)", "in a store with a shared watcher registry every call of <primitive>.Events(ctx, …) passes context.Background() — not a parameter, not a derived context",
		"cancelling a watch, or the end of the request that first touched a log, must not disturb the store or the other watchers")
	defer o.Done(min)
	pkg := c.P.Pkg(rel)
	if pkg == nil {
		o.Undecided(rel, "package not found")
		return
	}
	info := pkg.TypesInfo
	for _, fi := range c.P.FuncsOf(pkg) {
		if fi.Decl == nil || fi.Decl.Body == nil {
			continue
		}
		ast.Inspect(fi.Decl.Body, func(n ast.Node) bool {
			call, ok := n.(*ast.CallExpr)
			if !ok || len(call.Args) < 1 {
				return true
			}
			sel, ok := call.Fun.(*ast.SelectorExpr)
			if !ok || sel.Sel.Name != "Events" {
				return true
			}
			if t := info.TypeOf(sel.X); t == nil || !strings.Contains(t.String(), "github.com/atomix/go-sdk/pkg/primitive/") {
				return true
			}
			o.Site(c.P.Pos(call.Pos()) + " " + types.ExprString(call) + " in " + fi.Name())
			o.Eval(1)
			okBg := false
			if a, ok := ast.Unparen(call.Args[0]).(*ast.CallExpr); ok && len(a.Args) == 0 {
				if s2, ok := a.Fun.(*ast.SelectorExpr); ok && s2.Sel.Name == "Background" {
					if idn, ok := s2.X.(*ast.Ident); ok {
						if pn, ok := info.Uses[idn].(*types.PkgName); ok && (pn.Imported().Path() == "context" || pn.Imported().Path() == "golang.org/x/net/context") {
							okBg = true
						}
					}
				}
			}
			if !okBg {
				o.Fail(&engine.Violation{Key: fi.Name() + "|dispatcher stream opened with " + types.ExprString(call.Args[0]), Pos: c.P.Pos(call.Pos()), Func: fi.Name(),
					Msg: "the event stream of the shared dispatcher is opened with " + types.ExprString(call.Args[0]) + ": when that context ends the dispatcher ends, and no watcher of the store sees later updates"})
			}
			return true
		})
	}
}

// publishedChannelClosed: a channel that a function publishes into a map of channels (the watcher
// registry the dispatcher sends from) is sent on by another goroutine; closing it from the publishing
// side races with that send. The dispatcher copies the list under the lock and sends outside it, so
// "unregister first, then close" does not help: send on closed channel panics the process.
func publishedChannelClosed(c *engine.Ctx, id, rel string, min int) {
	o := c.Custom(id, "K-chan(ownership)", "a channel variable that is stored as an element of a map of channels (m[k] = ch) is never the argument of close() in the same function or its function literals",
		"the registry's reader (the store's dispatcher) sends on it from another goroutine, possibly from a list copied before the entry was removed")
	defer o.Done(min)
	pkg := c.P.Pkg(rel)
	if pkg == nil {
		o.Undecided(rel, "package not found")
		return
	}
	info := pkg.TypesInfo
	for _, fi := range c.P.FuncsOf(pkg) {
		if fi.Decl == nil || fi.Decl.Body == nil {
			continue
		}
		published := map[types.Object]token.Pos{}
		ast.Inspect(fi.Decl.Body, func(n ast.Node) bool {
			as, ok := n.(*ast.AssignStmt)
			if !ok || len(as.Lhs) != len(as.Rhs) {
				return true
			}
			for i, l := range as.Lhs {
				ix, ok := l.(*ast.IndexExpr)
				if !ok {
					continue
				}
				m, ok := info.TypeOf(ix.X).Underlying().(*types.Map)
				if !ok {
					continue
				}
				if _, isCh := m.Elem().Underlying().(*types.Chan); !isCh {
					continue
				}
				if idn, ok := ast.Unparen(as.Rhs[i]).(*ast.Ident); ok {
					if obj := info.Uses[idn]; obj != nil {
						published[obj] = as.Pos()
					}
				}
			}
			return true
		})
		if len(published) == 0 {
			continue
		}
		o.Site(fi.Name())
		ast.Inspect(fi.Decl.Body, func(n ast.Node) bool {
			call, ok := n.(*ast.CallExpr)
			if !ok || !isBuiltin(info, call, "close") || len(call.Args) != 1 {
				return true
			}
			o.Eval(1)
			if idn, ok := ast.Unparen(call.Args[0]).(*ast.Ident); ok {
				if pos, ok := published[info.Uses[idn]]; ok {
					o.Fail(&engine.Violation{Key: fi.Name() + "|close of published channel " + idn.Name, Pos: c.P.Pos(call.Pos()), Func: fi.Name(),
						Msg: "close(" + idn.Name + ") although " + idn.Name + " was put into a registry of channels at " + c.P.Pos(pos) + ": the dispatcher may still send on it (it sends from a copied list, outside the lock) and a send on a closed channel panics the process"})
				}
			}
			return true
		})
	}
}

// sharedDispatcher: C15.5.
func sharedDispatcher(c *engine.Ctx, id, rel string) {
	o := c.Custom(id, "K-chan(shared dispatcher)", "in a store whose event loop feeds per-watch channels kept in a receiver-field map, every send on the subscriber's channel is a select case next to <-ctx.Done()",
		"a subscriber that stopped reading before its context is cancelled blocks the forwarding goroutine, then the dispatcher, then every other watcher (in production: the controllers)")
	pkg := c.P.Pkg(rel)
	if pkg == nil {
		o.Undecided(rel, "package not found")
		o.Done(0)
		return
	}
	// does the store keep a map of channels in a receiver field?
	shared := false
	sc := pkg.Types.Scope()
	for _, n := range sc.Names() {
		tn, ok := sc.Lookup(n).(*types.TypeName)
		if !ok {
			continue
		}
		st, ok := tn.Type().Underlying().(*types.Struct)
		if !ok {
			continue
		}
		for i := 0; i < st.NumFields(); i++ {
			if m, ok := st.Field(i).Type().Underlying().(*types.Map); ok {
				if _, isCh := m.Elem().Underlying().(*types.Chan); isCh {
					shared = true
				}
			}
		}
	}
	if !shared {
		o.Site(rel + ": no shared dispatcher (each watch has its own primitive event stream) — exempt")
		o.Eval(1)
		o.Done(1)
		return
	}
	defer o.Done(1)
	paths, err := storePaths(c, rel)
	if err != nil {
		o.Undecided(rel, err.Error())
		return
	}
	seen := map[string]bool{}
	for _, p := range paths {
		if p.Lit == nil || !strings.HasSuffix(p.Root.Name(), "Store.Watch") {
			continue
		}
		for i := range p.Events {
			e := &p.Events[i]
			if e.Kind != engine.EvSend || e.Chan != "^ch" {
				continue
			}
			pos := c.P.Pos(e.Pos)
			if seen[pos] {
				continue
			}
			seen[pos] = true
			o.Site(pos + " send on the subscriber's channel")
			o.Eval(1)
			guarded := false
			if e.InSelect != nil {
				for _, cl := range e.InSelect.Body.List {
					cc := cl.(*ast.CommClause)
					var x ast.Expr
					switch s := cc.Comm.(type) {
					case *ast.ExprStmt:
						x = s.X
					case *ast.AssignStmt:
						if len(s.Rhs) == 1 {
							x = s.Rhs[0]
						}
					}
					if u, ok := x.(*ast.UnaryExpr); ok {
						if call, ok := u.X.(*ast.CallExpr); ok && strings.HasSuffix(types.ExprString(call.Fun), ".Done") {
							guarded = true
						}
					}
				}
			}
			if !guarded {
				o.Fail(&engine.Violation{Key: p.Root.Name() + "|bare send on subscriber channel#" + sendOrdinal(seen), Pos: pos, Func: p.Root.Name() + "$lit",
					Msg: "bare send on the subscriber's channel behind the shared dispatcher: if the subscriber has stopped reading, this goroutine blocks for ever and so does the dispatcher"})
			}
		}
	}
}

func sendOrdinal(seen map[string]bool) string {
	return string(rune('0' + len(seen)))
}

// lockDiscipline: C15.6.
func lockDiscipline(c *engine.Ctx, id, rel string) {
	o := c.Custom(id, "lock-pairing", "every Lock/RLock of a store mutex is released on every path (defer included) and no channel send happens while it is held",
		"a lock left held stops the store; a send under the lock lets one slow watcher stop it")
	defer o.Done(1)
	paths, err := storePaths(c, rel)
	if err != nil {
		o.Undecided(rel, err.Error())
		return
	}
	reported := map[string]bool{}
	for _, p := range paths {
		held := map[string]int{}
		used := false
		for i := range p.Events {
			e := &p.Events[i]
			if e.Kind == engine.EvCall && strings.HasPrefix(e.CalleeName, "sync.") {
				m := e.CalleeName[strings.LastIndex(e.CalleeName, ".")+1:]
				switch m {
				case "Lock", "RLock":
					held[e.Recv]++
					used = true
				case "Unlock", "RUnlock":
					held[e.Recv]--
				}
			}
			if e.Kind == engine.EvSend {
				for mu, n := range held {
					if n > 0 {
						key := p.Root.Name() + "|send under " + mu
						if !reported[key] {
							reported[key] = true
							o.Fail(&engine.Violation{Key: key, Pos: c.P.Pos(e.Pos), Func: p.Root.Name(), Msg: "channel send while " + mu + " is held"})
						}
					}
				}
			}
			if e.Kind == engine.EvReturn {
				for mu, n := range held {
					if n > 0 {
						key := p.Root.Name() + "|lock leaked " + mu
						if !reported[key] {
							reported[key] = true
							o.Fail(&engine.Violation{Key: key, Pos: c.P.Pos(e.Pos), Func: p.Root.Name(), Msg: mu + " is still held when the function returns on this path", Path: c.PathTrace(p, i)})
						}
					}
				}
			}
		}
		if used {
			o.Site("")
			o.Eval(1)
		}
	}
	if o.Res.Sites == 0 {
		o.Site(rel + ": no mutex in this store — nothing to pair")
		o.Eval(1)
	}
}

// registryCleanup: C15.7 — a departing watcher removes its own registration only.
func registryCleanup(c *engine.Ctx, id, rel string, min int) {
	o := c.Custom(id, "K-own(registry cleanup)", "in the watcher registries of the store (receiver fields), a delete is keyed by the departing watcher's own id (a uuid), or removes a per-record group only under len(group) == 0",
		"a request handler waiting on a record must keep receiving its events when another watcher of the same record leaves")
	defer o.Done(min)
	paths, err := storePaths(c, rel)
	if err != nil {
		o.Undecided(rel, err.Error())
		return
	}
	reported := map[string]bool{}
	seen := map[string]bool{}
	for _, p := range paths {
		// (a clean-up that became a helper of Watch is still Watch's clean-up)
		if !strings.Contains(p.Root.Name(), "Store.Watch") && !strings.Contains(c.P.KeyOwner(p.Root), "Store.Watch") {
			continue
		}
		for i := range p.Events {
			e := &p.Events[i]
			if e.Kind != engine.EvCall || e.CalleeName != "delete" || len(e.Args) != 2 || len(e.ArgExprs) != 2 {
				continue
			}
			m, k := e.Args[0], e.Args[1]
			if !strings.HasPrefix(m, "^s.") && !strings.HasPrefix(m, "$recv.") {
				continue
			}
			pos := c.P.Pos(e.Pos)
			if !seen[pos] {
				seen[pos] = true
				o.Site(pos + " delete(" + m + ", " + k + ")")
			}
			o.Eval(1)
			info := p.Root.Pkg.TypesInfo
			if t := info.TypeOf(e.ArgExprs[1]); t != nil && strings.HasSuffix(t.String(), "uuid.UUID") {
				continue // the watcher's own registration
			}
			group := "len(" + m + "[" + k + "])"
			empty := false
			for _, l := range engine.CondsBefore(p, i) {
				if l.L == group && l.RConst != nil && l.RConst.String() == "0" && l.Mask == 2 {
					empty = true
				}
			}
			if !empty && !reported[pos] {
				reported[pos] = true
				o.Fail(&engine.Violation{Key: p.Root.Name()[:strings.Index(p.Root.Name()+"$", "$")] + "|group " + m + " removed while it may hold other watchers", Pos: pos, Func: p.Root.Name(),
					Msg:   "delete(" + m + ", " + k + ") removes the whole group of watchers of one record on a path that does not establish " + group + " == 0: the other watchers of that record are unregistered with it",
					Found: engine.LitsString(engine.CondsBefore(p, i))})
			}
		}
	}
}

var sentRecordRe = regexp.MustCompile(`(Transaction|Proposal|Configuration):\*?([^,{}]*\.Value)[,}]`)

// versionStamping: C15.8 — every record the store hands out carries the version (and log index) of
// the primitive entry it was read from or written to.
func versionStamping(c *engine.Ctx, id, rel string, indexed bool, min int) {
	o := c.Custom(id, "K-must(version stamping)", "a record returned by a store method, collected into a returned list, put into a watch event, or handed back by Create/Update/UpdateStatus on success has had X.Version = uint64(entry.Version) written on that path"+map[bool]string{true: " (and X.Index from entry.Index)", false: ""}[indexed]+", with entry the primitive entry the record belongs to",
		"the controllers' conditional updates (C15.1) use the version the record carries: a record without it can never be written again, one with a stale version overwrites a concurrent write")
	defer o.Done(min)
	paths, err := storePaths(c, rel)
	if err != nil {
		o.Undecided(rel, err.Error())
		return
	}
	reported := map[string]bool{}
	seen := map[string]bool{}
	for _, p := range paths {
		name := p.Root.Name()
		if !strings.Contains(name, "Store.") {
			continue
		}
		method := name[strings.LastIndex(name, ".")+1:]
		check := func(i int, r, what string) {
			e := &p.Events[i]
			pos := c.P.Pos(e.Pos)
			if !seen[pos+what] {
				seen[pos+what] = true
				o.Site(pos + " " + what + " in " + name)
			}
			o.Eval(1)
			r = stripHash(strings.TrimPrefix(r, "*"))
			for _, field := range []string{"Version", "Index"} {
				if field == "Index" && !indexed {
					continue
				}
				ok := false
				for j := 0; j < i; j++ {
					w := &p.Events[j]
					if w.Kind != engine.EvWrite || stripHash(w.LHS) != r+"."+field {
						continue
					}
					if strings.HasSuffix(r, ".Value") {
						ok = strings.Contains(w.RHS, "("+strings.TrimSuffix(r, ".Value")+"."+field+")")
					} else {
						ok = strings.Contains(w.RHS, "."+field+")")
					}
				}
				if !ok && !reported[pos+field] {
					reported[pos+field] = true
					o.Fail(&engine.Violation{Key: name[:strings.Index(name+"$", "$")] + "|" + what + " without " + field + " from the entry", Pos: pos, Func: name,
						Msg: "the record " + c.Render(r) + " is handed out (" + what + ") on a path that did not set its " + field + " from the primitive entry"})
				}
			}
		}
		for i := range p.Events {
			e := &p.Events[i]
			switch e.Kind {
			case engine.EvWrite:
				if strings.HasSuffix(e.Field, "Event.Transaction") || strings.HasSuffix(e.Field, "Event.Proposal") || strings.HasSuffix(e.Field, "Event.Configuration") {
					r := strings.TrimPrefix(e.RHS, "*")
					if strings.HasSuffix(stripHash(r), ".Value") {
						check(i, r, "event")
					}
				}
			case engine.EvSend:
				// an event literal built in place inside the send
				if m := sentRecordRe.FindStringSubmatch(e.RHS); m != nil {
					check(i, m[2], "sent event")
				}
			case engine.EvCall:
				if e.CalleeName == "append" && len(e.Args) == 2 && strings.HasSuffix(stripHash(strings.TrimPrefix(e.Args[1], "*")), ".Value") && p.Lit == nil && method == "List" {
					check(i, e.Args[1], "list element")
				}
			case engine.EvReturn:
				if p.Lit != nil || i != len(p.Events)-1 {
					continue
				}
				n := len(e.Results)
				if n == 0 || e.Results[n-1] != "nil" {
					continue
				}
				switch {
				case n == 2 && strings.HasSuffix(stripHash(e.Results[0]), ".Value"):
					check(i, e.Results[0], "returned record")
				case n == 1 && (method == "Create" || method == "Update" || method == "UpdateStatus"):
					// the record is the (only) pointer parameter of record type
					for _, f := range p.Root.Decl.Type.Params.List {
						for _, nm := range f.Names {
							if t := p.Root.Pkg.TypesInfo.TypeOf(nm); t != nil && strings.HasPrefix(t.String(), "*") && strings.Contains(t.String(), "onos-api") {
								check(i, "$"+namedOf(t), "written record")
							}
						}
					}
				}
			}
		}
	}
}

// eventMapping: C15.9 — watch options take effect; primitive events keep their kind.
func eventMapping(c *engine.Ctx, id, rel string) {
	o := c.Custom(id, "K-table(event kinds, options)", "every WatchOption.apply assigns a field of the options; an event built under type(e) == Inserted/Updated/Removed carries Type CREATED/UPDATED/DELETED respectively",
		"a handler that asks for replay or for one record's events gets exactly that; a watcher that maps CREATED and UPDATED differently is not misled")
	defer o.Done(2)
	pkg := c.P.Pkg(rel)
	if pkg == nil {
		o.Undecided(rel, "package not loaded")
		return
	}
	for _, fi := range c.P.FuncsOf(pkg) {
		if fi.Decl.Name.Name != "apply" || fi.Decl.Recv == nil || fi.Decl.Type.Params.NumFields() != 1 {
			continue
		}
		pname := ""
		if ns := fi.Decl.Type.Params.List[0].Names; len(ns) == 1 {
			pname = ns[0].Name
		}
		assigns := false
		ast.Inspect(fi.Decl.Body, func(n ast.Node) bool {
			if call, ok := n.(*ast.CallExpr); ok {
				// functional options: the options are handed to the option's function
				for _, a := range call.Args {
					if id, ok := a.(*ast.Ident); ok && id.Name == pname {
						assigns = true
					}
				}
			}
			if as, ok := n.(*ast.AssignStmt); ok {
				for _, l := range as.Lhs {
					if sel, ok := l.(*ast.SelectorExpr); ok {
						if id, ok := sel.X.(*ast.Ident); ok && id.Name == pname {
							assigns = true
						}
					}
				}
			}
			return true
		})
		o.Site(c.P.Pos(fi.Decl.Pos()) + " " + fi.Name())
		o.Eval(1)
		if !assigns {
			o.Fail(&engine.Violation{Key: fi.Name() + "|option has no effect", Pos: c.P.Pos(fi.Decl.Pos()), Func: fi.Name(),
				Msg: "the option's apply assigns no field of the options: asking for it changes nothing (a handler that relies on replay waits for ever)"})
		}
	}
	for _, f := range pkg.Syntax {
		ast.Inspect(f, func(n ast.Node) bool {
			fl, ok := n.(*ast.FuncLit)
			if !ok || fl.Type.Params.NumFields() != 1 || len(fl.Type.Params.List[0].Names) != 1 || !strings.HasSuffix(types.ExprString(fl.Type.Params.List[0].Type), "watchOptions") {
				return true
			}
			pname := fl.Type.Params.List[0].Names[0].Name
			assigns := false
			ast.Inspect(fl.Body, func(m ast.Node) bool {
				if as, ok := m.(*ast.AssignStmt); ok {
					for _, l := range as.Lhs {
						if sel, ok := l.(*ast.SelectorExpr); ok {
							if id, ok := sel.X.(*ast.Ident); ok && id.Name == pname {
								assigns = true
							}
						}
					}
				}
				return true
			})
			o.Site(c.P.Pos(fl.Pos()) + " option literal")
			o.Eval(1)
			if !assigns {
				o.Fail(&engine.Violation{Key: rel + "|option literal has no effect", Pos: c.P.Pos(fl.Pos()), Func: rel,
					Msg: "the option's function assigns no field of the options: asking for it changes nothing"})
			}
			return true
		})
	}
	paths, err := storePaths(c, rel)
	if err != nil {
		o.Undecided(rel, err.Error())
		return
	}
	want := map[string]string{"Inserted": "_CREATED", "Updated": "_UPDATED", "Removed": "_DELETED"}
	reported := map[string]bool{}
	for _, p := range paths {
		if p.Lit == nil || !strings.Contains(p.Root.Name(), "Store.") {
			continue
		}
		for i := range p.Events {
			e := &p.Events[i]
			if e.Kind != engine.EvWrite || !strings.HasSuffix(e.Field, "Event.Type") {
				continue
			}
			kind := ""
			for _, l := range engine.CondsBefore(p, i) {
				if strings.HasPrefix(l.L, "type(") && l.Mask == 2 {
					for k := range want {
						if strings.Contains(l.R, "."+k+"[") {
							kind = k
						}
					}
				}
			}
			if kind == "" {
				continue
			}
			pos := c.P.Pos(e.Pos)
			o.Site(pos + " " + kind + " → " + e.RHS)
			o.Eval(1)
			if !strings.HasSuffix(e.RHS, want[kind]) && !reported[pos] {
				reported[pos] = true
				o.Fail(&engine.Violation{Key: p.Root.Name()[:strings.Index(p.Root.Name()+"$", "$")] + "|" + kind + " mapped to " + e.RHS, Pos: pos, Func: p.Root.Name(),
					Msg: "a primitive " + kind + " event is published as " + e.RHS + ", not " + want[kind]})
			}
		}
	}
}

// loopVarAddress: C15.10 — under the module's Go version (go.mod < 1.22: one variable per loop) the
// address of a range/for variable must not outlive its iteration.
func loopVarAddress(c *engine.Ctx) {
	o := c.Custom("C15.10", "alias(loop variable)", "with go.mod declaring a Go version below 1.22, the address of a range/for variable v (&v, or &v.f / &v[i] through value fields and arrays) is not taken inside the loop other than in a return statement (a per-iteration copy `v := v` makes it a different variable)",
		"a primitive transaction that keeps the pointer until Commit, a slice of pointers, a goroutine: all see the last iteration's value")
	defer o.Done(0)
	gomod, err := os.ReadFile(filepath.Join(c.P.RepoDir, "go.mod"))
	if err != nil {
		o.Undecided("go.mod", err.Error())
		return
	}
	m := regexp.MustCompile(`(?m)^go (\d+)\.(\d+)`).FindSubmatch(gomod)
	if m == nil {
		o.Undecided("go.mod", "no go directive")
		return
	}
	var major, minor int
	fmt.Sscan(string(m[1]), &major)
	fmt.Sscan(string(m[2]), &minor)
	goVer := string(m[1]) + "." + string(m[2])
	o.Site("go.mod: go " + goVer)
	if major > 1 || minor >= 22 {
		return // per-iteration loop variables
	}
	for _, pkg := range c.P.Pkgs {
		rel := strings.TrimPrefix(pkg.PkgPath, engine.ModulePath+"/")
		if !strings.HasPrefix(rel, "pkg/") {
			continue
		}
		info := pkg.TypesInfo
		for _, fi := range c.P.FuncsOf(pkg) {
			ast.Inspect(fi.Decl.Body, func(n ast.Node) bool {
				var body *ast.BlockStmt
				vars := map[types.Object]bool{}
				switch x := n.(type) {
				case *ast.RangeStmt:
					if x.Tok != token.DEFINE {
						return true
					}
					body = x.Body
					for _, e := range []ast.Expr{x.Key, x.Value} {
						if id, ok := e.(*ast.Ident); ok && id.Name != "_" {
							vars[info.Defs[id]] = true
						}
					}
				case *ast.ForStmt:
					body = x.Body
					if as, ok := x.Init.(*ast.AssignStmt); ok && as.Tok == token.DEFINE {
						for _, l := range as.Lhs {
							if id, ok := l.(*ast.Ident); ok {
								vars[info.Defs[id]] = true
							}
						}
					}
				default:
					return true
				}
				if len(vars) == 0 || body == nil {
					return true
				}
				// &v where v is one of the loop's variables (not shadowed by v := v, which defines a new object)
				var stack []ast.Node
				ast.Inspect(body, func(m ast.Node) bool {
					if m == nil {
						stack = stack[:len(stack)-1]
						return true
					}
					stack = append(stack, m)
					if _, isRet := m.(*ast.ReturnStmt); isRet {
						stack = stack[:len(stack)-1]
						return false // returning &v leaves the loop: no later iteration overwrites it
					}
					u, ok := m.(*ast.UnaryExpr)
					if !ok || u.Op != token.AND {
						return true
					}
					// &v, and &v.f / &v[i] through value fields and arrays: storage of the loop variable itself
					x := ast.Unparen(u.X)
					for {
						switch y := x.(type) {
						case *ast.SelectorExpr:
							if sel := info.Selections[y]; sel != nil && sel.Kind() == types.FieldVal && !sel.Indirect() {
								if _, isPtr := info.TypeOf(y.X).Underlying().(*types.Pointer); !isPtr {
									x = ast.Unparen(y.X)
									continue
								}
							}
						case *ast.IndexExpr:
							if _, isArr := info.TypeOf(y.X).Underlying().(*types.Array); isArr {
								x = ast.Unparen(y.X)
								continue
							}
						}
						break
					}
					id, ok := x.(*ast.Ident)
					if !ok || !vars[info.Uses[id]] {
						return true
					}
					if x != ast.Unparen(u.X) {
						// the address of a part of the variable: reported where it is kept (assigned, put into a
						// literal, appended, sent); as a plain call argument it is normally used at once
						kept := false
						for i := len(stack) - 2; i >= 0 && !kept; i-- {
							switch par := stack[i].(type) {
							case *ast.ParenExpr:
								continue
							case *ast.AssignStmt, *ast.KeyValueExpr, *ast.CompositeLit, *ast.SendStmt:
								kept = true
							case *ast.CallExpr:
								kept = isBuiltin(info, par, "append")
							}
							break
						}
						if !kept {
							return true
						}
						// kept in a variable of this very iteration that is only used to select fields: a name for
						// a part of the loop variable, gone with the iteration
						if engine.AddrOnlySelected(info, body, u) {
							return true
						}
					}
					o.Eval(1)
					o.Fail(&engine.Violation{Key: fi.Name() + "|&" + id.Name + " of a loop variable escapes its iteration", Pos: c.P.Pos(u.Pos()), Func: fi.Name(),
						Msg: "&" + id.Name + " is the address of a loop variable; the module is built with go " + goVer + " loop semantics (one variable for the whole loop), so whatever keeps this pointer sees the last iteration's value"})
					return true
				})
				return true
			})
		}
	}
}

// drainOnExit: C15.11 — a watch goroutine that leaves keeps its per-watch channel drained.
func drainOnExit(c *engine.Ctx, id, rel string, min int) {
	o := c.Custom(id, "K-must(drain on exit)", "every return of the goroutine Watch starts — the one that owns the per-watch channel the dispatcher sends to — is preceded on its path by `go func() { for range eventCh {} }()`, or that drain is started unconditionally by the goroutine's deferred clean-up",
		"the dispatcher copies the watcher list under the lock and sends outside it: a send to a channel whose reader has left blocks the store's only dispatcher for ever, for every watcher")
	defer o.Done(min)
	paths, err := storePaths(c, rel)
	if err != nil {
		o.Undecided(rel, err.Error())
		return
	}
	reported := map[string]bool{}
	seen := map[string]bool{}
	for _, p := range paths {
		if p.Lit == nil || !strings.Contains(p.Root.Name(), "Store.Watch") {
			continue
		}
		// the owning goroutine: its literal contains a receive from the per-watch channel
		owns := ""
		ast.Inspect(p.Lit.Body, func(n ast.Node) bool {
			if fl, ok := n.(*ast.FuncLit); ok && fl != p.Lit {
				return false
			}
			if u, ok := n.(*ast.UnaryExpr); ok && u.Op == token.ARROW {
				if id, ok := u.X.(*ast.Ident); ok && strings.HasSuffix(strings.ToLower(id.Name), "ch") && id.Name != "ch" {
					owns = id.Name
				}
			}
			return true
		})
		if owns == "" {
			continue
		}
		// a drain started by the goroutine's deferred clean-up covers every exit
		deferredDrain := false
		isDrain := func(gs *ast.GoStmt) bool {
			fl, ok := gs.Call.Fun.(*ast.FuncLit)
			if !ok || len(fl.Body.List) != 1 {
				return false
			}
			rs, ok := fl.Body.List[0].(*ast.RangeStmt)
			if !ok {
				return false
			}
			id, ok := rs.X.(*ast.Ident)
			return ok && id.Name == owns && len(rs.Body.List) == 0
		}
		for _, st := range p.Lit.Body.List {
			ds, ok := st.(*ast.DeferStmt)
			if !ok {
				continue
			}
			if fl, ok := ds.Call.Fun.(*ast.FuncLit); ok {
				for _, inner := range fl.Body.List { // unconditionally, at the top level of the clean-up
					if gs, ok := inner.(*ast.GoStmt); ok && isDrain(gs) {
						deferredDrain = true
					}
				}
				continue
			}
			// the clean-up as a named helper the tables have never seen: `defer s.removeWatcher(id, …, eventCh)`
			var fid *ast.Ident
			switch f := ast.Unparen(ds.Call.Fun).(type) {
			case *ast.Ident:
				fid = f
			case *ast.SelectorExpr:
				fid = f.Sel
			}
			if fid == nil {
				continue
			}
			fn, _ := p.Root.Pkg.TypesInfo.Uses[fid].(*types.Func)
			h := c.P.Funcs[fn]
			if h == nil || !engine.IsNewHelper(h) {
				continue
			}
			param, i := "", 0
			for _, f := range h.Decl.Type.Params.List {
				for _, n := range f.Names {
					if i < len(ds.Call.Args) {
						if id, ok := ast.Unparen(ds.Call.Args[i]).(*ast.Ident); ok && id.Name == owns {
							param = n.Name
						}
					}
					i++
				}
			}
			if param == "" {
				continue
			}
			saved := owns
			owns = param
			for _, inner := range h.Decl.Body.List {
				if gs, ok := inner.(*ast.GoStmt); ok && isDrain(gs) {
					deferredDrain = true
				}
			}
			owns = saved
		}
		last := &p.Events[len(p.Events)-1]
		if last.Kind != engine.EvReturn {
			continue
		}
		pos := c.P.Pos(last.Pos)
		// the position of the return statement itself distinguishes the exits
		// returns are reported at the end of the literal (deferred clean-up): name the exit by the last
		// thing the goroutine did before it
		var retPos string
		for i := len(p.Events) - 2; i >= 0; i-- {
			e := &p.Events[i]
			if e.Deferred || e.Kind == engine.EvReturn || e.Kind == engine.EvLoopExit || e.Kind == engine.EvLoopEnter || e.Kind == engine.EvGo {
				continue
			}
			if e.Kind == engine.EvCall && (strings.HasSuffix(e.CalleeName, "Unlock") || strings.HasSuffix(e.CalleeName, "Lock") || e.CalleeName == "delete" || e.CalleeName == "len") {
				continue
			}
			retPos = c.P.Pos(e.Pos)
			break
		}
		if retPos == "" {
			retPos = pos
		}
		if !seen[retPos] {
			seen[retPos] = true
			o.Site(retPos + " exit of the watch goroutine (" + owns + ")")
		}
		o.Eval(1)
		drained := deferredDrain
		for i := range p.Events {
			e := &p.Events[i]
			if e.Kind != engine.EvGo {
				continue
			}
			gs, ok := e.Node.(*ast.GoStmt)
			if !ok {
				continue
			}
			fl, ok := gs.Call.Fun.(*ast.FuncLit)
			if !ok || len(fl.Body.List) != 1 {
				continue
			}
			if rs, ok := fl.Body.List[0].(*ast.RangeStmt); ok {
				if id, ok := rs.X.(*ast.Ident); ok && id.Name == owns && len(rs.Body.List) == 0 {
					drained = true
				}
			}
		}
		if !drained && !reported[retPos] {
			reported[retPos] = true
			o.Fail(&engine.Violation{Key: p.Root.Name()[:strings.Index(p.Root.Name()+"$", "$")] + "|watch goroutine leaves without draining " + owns, Pos: retPos, Func: p.Root.Name(),
				Msg: "the watch goroutine returns here without starting a drain of " + owns + ": an event the dispatcher is about to send to it blocks the dispatcher for ever"})
		}
	}
}

// identityComponents: C15.12 — every name or key derived from a target uses its whole identity.
func identityComponents(c *engine.Ctx) {
	o := c.Custom("C15.12", "agreement(identity components)", "in the store packages, a fmt.Sprintf that formats x.ID of a config Target also formats x.Type and x.Version of the same x",
		"the log of a target, its entry in the shared registry and the local cache must agree on what 'the same target' is: a key without the version makes two versions of a device overwrite each other in the registry while their logs stay apart")
	defer o.Done(2)
	for _, rel := range storePkgs {
		pkg := c.P.Pkg(rel)
		if pkg == nil {
			continue
		}
		info := pkg.TypesInfo
		for _, fi := range c.P.FuncsOf(pkg) {
			ast.Inspect(fi.Decl.Body, func(n ast.Node) bool {
				call, ok := n.(*ast.CallExpr)
				if !ok || types.ExprString(call.Fun) != "fmt.Sprintf" {
					return true
				}
				comps := map[string]map[string]bool{} // base expression -> fields formatted
				for _, a := range call.Args[1:] {
					sel, ok := ast.Unparen(a).(*ast.SelectorExpr)
					if !ok {
						continue
					}
					t := info.TypeOf(sel.X)
					if t == nil || !strings.HasSuffix(strings.TrimPrefix(t.String(), "*"), ".Target") {
						continue
					}
					base := types.ExprString(sel.X)
					if comps[base] == nil {
						comps[base] = map[string]bool{}
					}
					comps[base][sel.Sel.Name] = true
				}
				for base, f := range comps {
					if !f["ID"] {
						continue
					}
					o.Site(c.P.Pos(call.Pos()) + " " + types.ExprString(call))
					o.Eval(1)
					if !f["Type"] || !f["Version"] {
						o.Fail(&engine.Violation{Key: fi.Name() + "|name of " + base + " without its whole identity", Pos: c.P.Pos(call.Pos()), Func: fi.Name(),
							Msg: types.ExprString(call) + " formats " + base + ".ID without " + base + ".Type and " + base + ".Version: two targets that differ only in what is left out share this name"})
					}
				}
				return true
			})
		}
	}
}

// listVisitsEveryCollection: C15.17 (finding F64). A store method that reads several collections in nested
// loops (one log per target) must not leave the function when an INNER stream is exhausted: the end of one
// collection is `break`, not `return`.
func listVisitsEveryCollection(c *engine.Ctx) {
	o := c.Custom("C15.17", "K-shape(nested end of stream)", "in the store packages, inside a loop nested in another loop, the branch taken on `err == io.EOF` does not return from the function",
		"every record written is shown: a List that returns at the end of the first target's log never shows the transactions of the other targets")
	defer o.Done(1)
	for _, rel := range storePkgs {
		pkg := c.P.Pkg(rel)
		if pkg == nil {
			continue
		}
		info := pkg.TypesInfo
		for _, fi := range c.P.FuncsOf(pkg) {
			var stack []ast.Node
			ast.Inspect(fi.Decl.Body, func(n ast.Node) bool {
				if n == nil {
					stack = stack[:len(stack)-1]
					return true
				}
				stack = append(stack, n)
				if _, isLit := n.(*ast.FuncLit); isLit {
					stack = stack[:len(stack)-1]
					return false // a goroutine of its own: its loops are not nested in the caller's
				}
				ifs, ok := n.(*ast.IfStmt)
				if !ok {
					return true
				}
				be, ok := ast.Unparen(ifs.Cond).(*ast.BinaryExpr)
				if !ok || be.Op != token.EQL {
					return true
				}
				isEOF := func(e ast.Expr) bool {
					sel, ok := ast.Unparen(e).(*ast.SelectorExpr)
					if !ok {
						return false
					}
					v, _ := info.Uses[sel.Sel].(*types.Var)
					return v != nil && v.Pkg() != nil && v.Pkg().Path() == "io" && v.Name() == "EOF"
				}
				if !isEOF(be.X) && !isEOF(be.Y) {
					return true
				}
				depth := 0
				for _, a := range stack[:len(stack)-1] {
					switch a.(type) {
					case *ast.ForStmt, *ast.RangeStmt:
						depth++
					}
				}
				if depth < 2 {
					return true
				}
				o.Site(c.P.Pos(ifs.Pos()) + " end of an inner stream in " + fi.Name())
				o.Eval(1)
				for _, st := range ifs.Body.List {
					if r, ok := st.(*ast.ReturnStmt); ok {
						o.Fail(&engine.Violation{Key: fi.Name() + "|return at the end of an inner stream", Pos: c.P.Pos(r.Pos()), Func: fi.Name(),
							Msg: "the function returns when an inner stream (one of several collections read in the enclosing loop) is exhausted: the remaining collections are never read"})
					}
				}
				return true
			})
		}
	}
}

// entryOfSnapshotMap: entry is the element of a local map m read under the key written keyArg (range key/value
// pair, or m[keyArg]), and every write into m has the form m[x.Key] = x with x an entry taken from a stream's Next.
func entryOfSnapshotMap(info *types.Info, body *ast.BlockStmt, entry types.Object, keyArg string) bool {
	if entry == nil {
		return false
	}
	var m types.Object
	ast.Inspect(body, func(n ast.Node) bool {
		switch x := n.(type) {
		case *ast.RangeStmt:
			k, kok := x.Key.(*ast.Ident)
			v, vok := x.Value.(*ast.Ident)
			if kok && vok && info.Defs[v] == entry && k.Name == keyArg {
				if id, ok := ast.Unparen(x.X).(*ast.Ident); ok {
					m = info.Uses[id]
				}
			}
		case *ast.AssignStmt:
			if len(x.Lhs) >= 1 && len(x.Rhs) == 1 {
				if lid, ok := x.Lhs[0].(*ast.Ident); ok && info.Defs[lid] == entry {
					if ix, ok := ast.Unparen(x.Rhs[0]).(*ast.IndexExpr); ok && types.ExprString(ix.Index) == keyArg {
						if id, ok := ast.Unparen(ix.X).(*ast.Ident); ok {
							m = info.Uses[id]
						}
					}
				}
			}
		}
		return true
	})
	if m == nil {
		return false
	}
	if _, isMap := m.Type().Underlying().(*types.Map); !isMap {
		return false
	}
	fills, other := 0, 0
	ast.Inspect(body, func(n ast.Node) bool {
		as, ok := n.(*ast.AssignStmt)
		if !ok {
			return true
		}
		for i, l := range as.Lhs {
			ix, ok := ast.Unparen(l).(*ast.IndexExpr)
			if !ok {
				continue
			}
			if id, ok := ast.Unparen(ix.X).(*ast.Ident); !ok || info.Uses[id] != m {
				continue
			}
			good := false
			if len(as.Rhs) == len(as.Lhs) {
				if v, ok := ast.Unparen(as.Rhs[i]).(*ast.Ident); ok {
					if ks, ok := ast.Unparen(ix.Index).(*ast.SelectorExpr); ok && ks.Sel.Name == "Key" {
						if kid, ok := ks.X.(*ast.Ident); ok && info.Uses[kid] == info.Uses[v] && fromStreamNext(info, body, info.Uses[v]) {
							good = true
						}
					}
				}
			}
			if good {
				fills++
			} else {
				other++
			}
		}
		return true
	})
	return fills > 0 && other == 0
}

func fromStreamNext(info *types.Info, body *ast.BlockStmt, v types.Object) bool {
	found := false
	ast.Inspect(body, func(n ast.Node) bool {
		as, ok := n.(*ast.AssignStmt)
		if !ok || len(as.Rhs) != 1 || len(as.Lhs) < 1 {
			return true
		}
		if lid, ok := as.Lhs[0].(*ast.Ident); ok && info.Defs[lid] == v {
			if call, ok := as.Rhs[0].(*ast.CallExpr); ok && strings.HasSuffix(types.ExprString(call.Fun), ".Next") {
				found = true
			}
		}
		return true
	})
	return found
}

// closeOnEveryExit: C15.18 (finding F69). A watch goroutine that closes the subscriber's channel on some of
// its exits closes it on all of them: an exit without close leaves the subscriber waiting for ever on a
// watch that no longer exists (contradiction rule: the other exits say what the protocol is).
func closeOnEveryExit(c *engine.Ctx, id, rel string) {
	o := c.Custom(id, "K-must(close on exit)", "in a goroutine started by Store.Watch: if some exit path closes the subscriber's channel (a free variable or parameter of channel type named by the close), every exit path does",
		"a watcher is shown the latest state or told that the watch ended; cancelling never leaves a subscriber hanging")
	defer o.Done(0)
	paths, err := storePaths(c, rel)
	if err != nil {
		o.Undecided(rel, err.Error())
		return
	}
	type exitInfo struct {
		closed bool
		pos    token.Pos
		p      *engine.Path
	}
	byLit := map[*ast.FuncLit][]exitInfo{}
	chanOf := map[*ast.FuncLit]string{}
	for _, p := range paths {
		if p.Lit == nil || !strings.Contains(p.Root.Name(), "Store.Watch") {
			continue
		}
		last := &p.Events[len(p.Events)-1]
		if last.Kind != engine.EvReturn {
			continue
		}
		ch := ""
		for i := range p.Events {
			if e := &p.Events[i]; e.Kind == engine.EvCall && e.CalleeName == "close" && len(e.Args) == 1 && strings.HasPrefix(e.Args[0], "^") {
				ch = e.Args[0]
			}
		}
		if ch != "" {
			chanOf[p.Lit] = ch
		}
		byLit[p.Lit] = append(byLit[p.Lit], exitInfo{closed: ch != "", pos: last.Pos, p: p})
	}
	for lit, exits := range byLit {
		ch := chanOf[lit]
		if ch == "" {
			continue // a goroutine that never closes anything: another protocol (drain, dispatcher)
		}
		o.Site(c.P.Pos(lit.Pos()) + " goroutine closing " + ch)
		reported := map[string]bool{}
		for _, x := range exits {
			o.Eval(1)
			if !x.closed {
				// the position of the exit: the last return statement met on the path inside the literal
				pos := c.P.Pos(x.pos)
				for i := len(x.p.Events) - 1; i >= 0; i-- {
					if e := &x.p.Events[i]; e.Kind == engine.EvCond || e.Kind == engine.EvCall {
						pos = c.P.Pos(e.Pos)
						break
					}
				}
				if !reported[pos] {
					reported[pos] = true
					o.Fail(&engine.Violation{Key: x.p.Root.Name() + "|exit without close of " + ch, Pos: pos, Func: x.p.Root.Name(),
						Msg: "this exit of the watch goroutine does not close " + ch + " although its other exits do: the subscriber waits for ever on a watch that has ended", Found: c.RenderConds(engine.CondsBefore(x.p, len(x.p.Events)-1))})
				}
			}
		}
	}
}

// dispatcherNeverDrops: C15.19 (seed C15-r51). The dispatcher of a store hands every event to every registered
// watcher: a send to a watcher's channel inside a `select` that can give up (a timer, a default) drops the event for
// that watcher, and nothing sends it again — a slow watcher never sees the latest state.
func dispatcherNeverDrops(c *engine.Ctx) {
	o := c.Custom("C15.19", "K-shape(dispatch send)", "in the store packages, a send inside a loop over a watcher registry (a map of channels held in a receiver field, or a copy of it) is not an arm of a select that has a default arm or a timer arm (time.After / Timer.C)",
		"a watcher is eventually shown the latest state of every record: the dispatcher may block, it may not skip")
	defer o.Done(3)
	for _, rel := range storePkgs {
		pkg := c.P.Pkg(rel)
		if pkg == nil {
			continue
		}
		info := pkg.TypesInfo
		for _, fi := range c.P.FuncsOf(pkg) {
			var stack []ast.Node
			ast.Inspect(fi.Decl.Body, func(n ast.Node) bool {
				if n == nil {
					stack = stack[:len(stack)-1]
					return true
				}
				stack = append(stack, n)
				send, ok := n.(*ast.SendStmt)
				if !ok {
					return true
				}
				// the channel is the element of a ranged map/slice of channels
				id, ok := ast.Unparen(send.Chan).(*ast.Ident)
				if !ok {
					return true
				}
				obj := info.Uses[id]
				inRegistryLoop := false
				var sel *ast.SelectStmt
				for i := len(stack) - 2; i >= 0; i-- {
					switch a := stack[i].(type) {
					case *ast.SelectStmt:
						if sel == nil {
							sel = a
						}
					case *ast.RangeStmt:
						if v, ok := a.Value.(*ast.Ident); ok && info.Defs[v] == obj {
							if t := info.TypeOf(a.X); t != nil {
								switch u := t.Underlying().(type) {
								case *types.Map:
									_, inRegistryLoop = u.Elem().Underlying().(*types.Chan)
								case *types.Slice:
									_, inRegistryLoop = u.Elem().Underlying().(*types.Chan)
								}
							}
						}
					}
				}
				if !inRegistryLoop {
					return true
				}
				o.Site(c.P.Pos(send.Pos()) + " dispatch send in " + fi.Name())
				o.Eval(1)
				if sel == nil {
					return true
				}
				for _, cl := range sel.Body.List {
					cc := cl.(*ast.CommClause)
					bad := ""
					if cc.Comm == nil {
						bad = "a default arm"
					} else {
						ast.Inspect(cc.Comm, func(m ast.Node) bool {
							if call, ok := m.(*ast.CallExpr); ok {
								if f := types.ExprString(call.Fun); f == "time.After" || f == "time.Tick" {
									bad = "a " + f + " arm"
								}
							}
							if se, ok := m.(*ast.SelectorExpr); ok && se.Sel.Name == "C" {
								if t := info.TypeOf(se.X); t != nil && strings.Contains(t.String(), "time.Timer") {
									bad = "a timer arm"
								}
							}
							return true
						})
					}
					if bad != "" {
						o.Fail(&engine.Violation{Key: fi.Name() + "|dispatch send can be skipped", Pos: c.P.Pos(send.Pos()), Func: fi.Name(),
							Msg: "the dispatcher's send to a watcher's channel is an arm of a select with " + bad + ": the event is dropped for that watcher and never sent again"})
					}
				}
				return true
			})
		}
	}
}
