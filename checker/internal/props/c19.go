package props

import (
	"fmt"
	"go/types"
	"regexp"
	"sort"
	"strings"

	"occheck/internal/engine"
)

func init() {
	register(&Prop{
		ID:    "C19",
		Title: "Subscriptions reach exactly the targets they name",
		Explanation: "Decided: (1) routing — the per-target request map is written at the prefix target (with the original request, unmodified) when the prefix names one, and otherwise at each subscription's own path target, where the very entry that is iterated is appended to the request stored under that key; a split request gets a fresh subscription slice (never a slice of the original's backing array); no field of a subscription entry is written anywhere in the package; " +
			"(2) copy completeness — the SubscriptionList literal of a split request sets every exported field of the type from the same field of the original (Prefix through copyPrefix, which keeps Origin and Elem and sets the target); the outer request keeps Extension; (3) refusals — a second subscribe, a poll before subscribing, a message of neither kind and a request naming no target return an error and send nothing; " +
			"(4) a poll is forwarded, in the handler's own goroutine, to the loop's own key for every key of the per-target map; every split request is sent to its own key; the relay passes the received message unchanged to stream.Send." +
			" Also: one backing client per subscription or a refusal (C19.6, known finding F62); no entry dropped (C19.7); relays serialised (C19.8); refusals carry their class (C19.9); half-close keeps relaying (C19.10); per-target lists fresh (C19.11); the shared subscribed flag is only set (C19.12).",
		Declined: []string{"behaviour of the gNMI client library (queries, reconnects)", "the deprecated gnmi.Path.Element field of the prefix is not copied"},
		Run:      runC19,
		Witness:  []WitnessTarget{{pkgNbGnmi, []string{"splitSubscribeRequest", "copyPrefix", "processSubscribeRequest", "sendSubscriptionRequest", "sendPollRequest"}}},
	})
}

var getterTail = regexp.MustCompile(`^gnmi\.[A-Za-z_]+\.Get([A-Za-z]+)\(\)`)

// normGetters rewrites nil-safe getter calls as field selections so that x.GetPrefix().GetTarget()
// and x.Prefix.Target compare equal: {R}gnmi.T.GetX() becomes R.X (R may itself contain braces).
func normGetters(s string) string {
	for iter := 0; iter < 20; iter++ {
		changed := false
		for i := 0; i < len(s); i++ {
			if s[i] != '}' {
				continue
			}
			m := getterTail.FindStringSubmatch(s[i+1:])
			if m == nil {
				continue
			}
			// matching '{'
			depth := 0
			open := -1
			for j := i; j >= 0; j-- {
				if s[j] == '}' {
					depth++
				} else if s[j] == '{' {
					depth--
					if depth == 0 {
						open = j
						break
					}
				}
			}
			if open < 0 {
				continue
			}
			s = s[:open] + s[open+1:i] + "." + m[1] + s[i+1+len(m[0]):]
			changed = true
			break
		}
		if !changed {
			break
		}
	}
	return s
}

func runC19(c *engine.Ctx, tier string) {
	routing(c)
	copyComplete(c)
	subscribeRefusals(c)
	pollAndRelay(c)
	monitorStarted(c)
	subscriptionOwnsItsBackingClient(c)
	noEntryDropped(c)
	relaySerialised(c)
	refusalsCarryTheirClass(c)
	halfCloseKeepsRelaying(c)
	perTargetListsAreFresh(c)
	subscribedFlagOnlySet(c)
}

func subPaths(c *engine.Ctx, root string) ([]*engine.Path, error) {
	return c.A.PathsOpt(pkgNbGnmi, engine.PathOpts{Roots: []string{root}, NoInline: true})
}

func routing(c *engine.Ctx) {
	o := c.Custom("C19.1", "K-dataflow(routing)", "treqs[prefix target] := original request under 'prefix target ≠ \"\"'; else treqs[sub.Path.Target] := fresh request under 'path target ≠ \"\"', and the iterated sub itself is appended to the request stored under that key; fresh Subscription slice; no write to a gnmi.Subscription field",
		"every subscription entry is forwarded unmodified to the target named by the prefix or by its own path, and to no other")
	defer o.Done(3)
	paths, err := subPaths(c, "v2.splitSubscribeRequest")
	if err != nil {
		o.Undecided("splitSubscribeRequest", err.Error())
		return
	}
	subs := "$SubscribeRequest.Subscribe"
	elem := "elem(" + subs + ".Subscription)"
	var nPrefix, nPath, nAppend int
	for _, p := range paths {
		for i := range p.Events {
			e := &p.Events[i]
			if e.Kind != engine.EvWrite {
				continue
			}
			lhs, rhs := normGetters(e.LHS), normGetters(e.RHS)
			conds := engine.CondsBefore(p, i)
			has := func(l, r string, mask int) bool {
				for _, x := range conds {
					if normGetters(x.L) == l && x.R == r && x.Mask == mask {
						return true
					}
				}
				return false
			}
			switch {
			case e.Field == "northbound/gnmi/v2.subContext.treqs[]":
				key := lhs[strings.Index(lhs, ".treqs[")+len(".treqs[") : len(lhs)-1]
				o.Eval(1)
				switch {
				case key == subs+".Prefix.Target":
					nPrefix++
					if rhs != "$SubscribeRequest" || !has(subs+".Prefix.Target", `""`, 5) {
						o.Fail(&engine.Violation{Key: "splitSubscribeRequest|prefix routing", Pos: c.P.Pos(e.Pos), Func: p.Root.Name(), Msg: "under the prefix target the stored request is " + rhs + " (must be the original request, under 'prefix target ≠ \"\"')"})
						return
					}
				case key == elem+".Path.Target":
					nPath++
					// a fresh request replaces nothing: only when the map has no request for that target yet
					fresh := false
					for _, x := range conds {
						if nl := normGetters(x.L); strings.HasPrefix(nl, "has($subContext.treqs") && strings.Contains(nl, "["+elem+".Path.Target]") && x.R == "true" && x.Mask == 5 {
							fresh = true
						}
					}
					if !fresh {
						o.Fail(&engine.Violation{Key: "splitSubscribeRequest|request of a target replaced", Pos: c.P.Pos(e.Pos), Func: p.Root.Name(), Msg: "a fresh request is stored under a path target on a path that does not establish that the map has none for it yet: the entries collected for that target so far are lost"})
						return
					}
					if !strings.HasPrefix(rhs, "&gnmi.SubscribeRequest{") || !has(elem+".Path.Target", `""`, 5) || !has(subs+".Prefix.Target", `""`, 2) {
						o.Fail(&engine.Violation{Key: "splitSubscribeRequest|path routing", Pos: c.P.Pos(e.Pos), Func: p.Root.Name(), Msg: "a split request is stored under a path target without 'prefix target empty ∧ path target ≠ \"\"', or is not a fresh request"})
						return
					}
				default:
					o.Fail(&engine.Violation{Key: "splitSubscribeRequest|routing key", Pos: c.P.Pos(e.Pos), Func: p.Root.Name(), Msg: "the per-target map is written at " + key + ", which is neither the prefix target nor the iterated subscription's own path target"})
					return
				}
			case e.Field == "gnmi.SubscriptionList.Subscription" && e.Op == "lit":
				o.Eval(1)
				if !strings.HasPrefix(rhs, "make([]*gnmi.Subscription") {
					o.Fail(&engine.Violation{Key: "splitSubscribeRequest|subscription slice not fresh", Pos: c.P.Pos(e.Pos), Func: p.Root.Name(), Msg: "the split request's Subscription is " + rhs + ", not a fresh slice: appends can write into the original request's backing array and hand one target another target's entry"})
					return
				}
			case e.Field == "gnmi.SubscriptionList.Subscription" && e.Op != "lit":
				nAppend++
				o.Eval(1)
				// tr.Subscribe.Subscription = append(tr.Subscribe.Subscription, sub) with tr the request of this iteration's key
				base := strings.TrimSuffix(lhs, ".Subscribe.Subscription")
				hasReq := false
				for _, x := range conds {
					if nl := normGetters(x.L); strings.HasPrefix(nl, "has($subContext.treqs") && strings.Contains(nl, "["+elem+".Path.Target]") && x.R == "true" && x.Mask == 2 {
						hasReq = true
					}
				}
				if hasReq && strings.HasPrefix(base, "&gnmi.SubscribeRequest{") {
					o.Fail(&engine.Violation{Key: "splitSubscribeRequest|existing request not reused", Pos: c.P.Pos(e.Pos), Func: p.Root.Name(), Msg: "the map already has a request for the entry's target, but the entry is appended to a fresh one"})
					return
				}
				okBase := strings.HasPrefix(base, "&gnmi.SubscribeRequest{") || base == "$subContext.treqs["+elem+".Path.Target]" || strings.HasPrefix(base, "$subContext.treqs["+elem+".Path.Target]")
				if rhs != "append("+lhs+","+elem+")" && !(strings.HasPrefix(rhs, "append(") && strings.HasSuffix(rhs, ","+elem+")") && strings.Contains(rhs, ".Subscribe.Subscription")) || !okBase {
					o.Fail(&engine.Violation{Key: "splitSubscribeRequest|append", Pos: c.P.Pos(e.Pos), Func: p.Root.Name(), Msg: "the iterated subscription entry itself is not appended to the request of its own path target: " + lhs + " := " + rhs})
					return
				}
			}
		}
	}
	if nPrefix > 0 {
		o.Site("prefix-target routing")
	}
	if nPath > 0 {
		o.Site("path-target routing")
	}
	if nAppend > 0 {
		o.Site("own entry appended")
	}
	// no field of a subscription entry is written in the package
	for _, w := range c.P.FieldWrites() {
		if w.Pkg == pkgNbGnmi && strings.HasPrefix(w.Field, "gnmi.Subscription.") && w.Op != "lit" {
			o.Eval(1)
			o.Fail(&engine.Violation{Key: w.Func + "|write " + w.Field, Pos: w.Pos, Func: w.Func, Msg: "a subscription entry is modified (" + w.Field + "): entries must be forwarded unmodified"})
		}
	}
}

func exportedFields(c *engine.Ctx, label string) []string {
	for _, tp := range c.P.AllPkgs {
		if tp.Name() != "gnmi" || !strings.HasSuffix(tp.Path(), "openconfig/gnmi/proto/gnmi") {
			continue
		}
		if tn, ok := tp.Scope().Lookup(label).(*types.TypeName); ok {
			if st, ok := tn.Type().Underlying().(*types.Struct); ok {
				var out []string
				for i := 0; i < st.NumFields(); i++ {
					if st.Field(i).Exported() {
						out = append(out, st.Field(i).Name())
					}
				}
				sort.Strings(out)
				return out
			}
		}
	}
	return nil
}

func copyComplete(c *engine.Ctx) {
	o := c.Custom("C19.2", "K-tables(copy completeness)", "the SubscriptionList literal of a split request sets every exported field from the same field of the original (Prefix via copyPrefix, Subscription fresh); copyPrefix keeps Origin and Elem and sets Target; the outer request keeps Extension",
		"list-level options (mode, encoding, qos, updates_only, …) reach every target unchanged")
	defer o.Done(2)
	paths, err := subPaths(c, "v2.splitSubscribeRequest")
	if err != nil {
		o.Undecided("splitSubscribeRequest", err.Error())
		return
	}
	fields := exportedFields(c, "SubscriptionList")
	if len(fields) < 6 {
		o.Undecided("gnmi.SubscriptionList", "struct fields not found")
		return
	}
	subs := "$SubscribeRequest.Subscribe"
	seen := map[string]string{}
	ext := ""
	for _, p := range paths {
		for i := range p.Events {
			e := &p.Events[i]
			if e.Kind == engine.EvWrite && e.Op == "lit" && strings.HasPrefix(e.Field, "gnmi.SubscriptionList.") {
				seen[strings.TrimPrefix(e.Field, "gnmi.SubscriptionList.")] = normGetters(e.RHS)
			}
			if e.Kind == engine.EvWrite && e.Op == "lit" && e.Field == "gnmi.SubscribeRequest.Extension" {
				ext = normGetters(e.RHS)
			}
		}
	}
	o.Site("SubscriptionList literal: " + strings.Join(engine.SortedKeys(seen), ","))
	for _, f := range fields {
		o.Eval(1)
		got, ok := seen[f]
		want := subs + "." + f
		switch f {
		case "Prefix":
			ok = ok && strings.HasPrefix(got, "northbound/gnmi/v2.copyPrefix("+subs+".Prefix,")
		case "Subscription":
			ok = ok && strings.HasPrefix(got, "make(")
		default:
			ok = ok && got == want
		}
		if !ok {
			o.Fail(&engine.Violation{Key: "splitSubscribeRequest|option " + f + " not copied", Pos: pkgNbGnmi + "/subscribe.go", Func: "splitSubscribeRequest", Msg: "the split request's " + f + " is '" + got + "', not the original's: the option does not reach the targets"})
		}
	}
	o.Eval(1)
	if ext != "$SubscribeRequest.Extension" {
		o.Fail(&engine.Violation{Key: "splitSubscribeRequest|Extension not copied", Pos: pkgNbGnmi + "/subscribe.go", Func: "splitSubscribeRequest", Msg: "the split request does not keep the original's extensions"})
	}
	cp, err := subPaths(c, "v2.copyPrefix")
	if err != nil || len(cp) == 0 {
		o.Undecided("copyPrefix", "anchor not found")
		return
	}
	got := map[string]string{}
	for _, p := range cp {
		for i := range p.Events {
			if e := &p.Events[i]; e.Kind == engine.EvWrite && e.Op == "lit" && strings.HasPrefix(e.Field, "gnmi.Path.") {
				got[strings.TrimPrefix(e.Field, "gnmi.Path.")] = normGetters(e.RHS)
			}
		}
	}
	o.Site("copyPrefix literal: " + strings.Join(engine.SortedKeys(got), ","))
	for f, want := range map[string]string{"Origin": "$Path.Origin", "Elem": "$Path.Elem", "Target": "$target"} {
		o.Eval(1)
		if got[f] != want {
			o.Fail(&engine.Violation{Key: "copyPrefix|" + f, Pos: pkgNbGnmi + "/subscribe.go", Func: "copyPrefix", Msg: "the copied prefix has " + f + " = '" + got[f] + "', expected " + want})
		}
	}
}

func subscribeRefusals(c *engine.Ctx) {
	saved := c.Al
	defer func() { c.Al = saved }()
	c.Al = engine.NewAliases(c.P, "REQ", "$SubscribeRequest")
	pp, err := subPaths(c, "Server.processSubscribeRequest")
	if err != nil {
		o := c.Custom("C19.3", "K-enum(outcome)", "refusals", "")
		o.Undecided("processSubscribeRequest", err.Error())
		o.Done(0)
		return
	}
	sends := []engine.Sel{{Call: "northbound/gnmi/v2.Server.sendSubscriptionRequest"}, {Call: "northbound/gnmi/v2.Server.sendPollRequest"}, {Call: "northbound/gnmi/v2.splitSubscribeRequest"}, {Field: "northbound/gnmi/v2.subContext.req"}}
	for _, x := range []struct{ id, when string }{
		{"C19.3a", "{@REQ}gnmi.SubscribeRequest.GetSubscribe() != nil && $subContext.req != nil"},
		{"C19.3b", "{@REQ}gnmi.SubscribeRequest.GetSubscribe() == nil && {@REQ}gnmi.SubscribeRequest.GetPoll() != nil && $subContext.req == nil"},
		{"C19.3c", "{@REQ}gnmi.SubscribeRequest.GetSubscribe() == nil && {@REQ}gnmi.SubscribeRequest.GetPoll() == nil"},
	} {
		c.Outcome(engine.Outcome{ID: x.id, Pkg: pkgNbGnmi, PathsOverride: pp, When: x.when, Min: 1, MustNot: sends, Returns: "err!=nil",
			Why: "a second subscription on the stream, a poll before subscribing, or a message of neither kind is refused and nothing is forwarded"})
	}
	// the refusal of a second subscription (C19.3a) rests on the first one being remembered
	c.Guard(engine.Guard{ID: "C19.3f", Pkg: pkgNbGnmi, PathsOverride: pp, Min: 1,
		Sel:     engine.Sel{Call: "northbound/gnmi/v2.splitSubscribeRequest"},
		Require: "#wrote(northbound/gnmi/v2.subContext.req=@REQ) && $subContext.req == nil",
		Why:     "the accepted subscription is stored in the stream's context before it is split: otherwise a second subscription on the same stream is accepted too"})
	c.Outcome(engine.Outcome{ID: "C19.3d", Pkg: pkgNbGnmi, PathsOverride: pp, When: "#failed(northbound/gnmi/v2.splitSubscribeRequest)", Min: 1,
		MustNot: []engine.Sel{{Call: "northbound/gnmi/v2.Server.sendSubscriptionRequest"}}, Returns: "err!=nil", Why: "a request that cannot be split is refused"})
	sp, err := subPaths(c, "v2.splitSubscribeRequest")
	if err == nil {
		o := c.Custom("C19.3e", "K-enum(outcome)", "splitSubscribeRequest returns an error whenever no target was named (len(treqs) == 0 after the loop)", "a request naming no target is refused")
		n := 0
		for _, p := range sp {
			last := len(p.Events) - 1
			none := false
			for _, l := range engine.CondsBefore(p, last) {
				if strings.HasPrefix(l.L, "len($subContext.treqs") && l.R == "0" && l.Mask == 2 {
					none = true
				}
			}
			if !none {
				continue
			}
			n++
			o.Eval(1)
			if r := p.Events[last].Results; len(r) != 1 || r[0] == "nil" {
				o.Fail(&engine.Violation{Key: "splitSubscribeRequest|no target accepted", Pos: c.P.Pos(p.Events[last].Pos), Func: p.Root.Name(), Msg: "a request naming no target is not refused"})
				break
			}
		}
		if n > 0 {
			o.Site("no-target refusal")
		}
		o.Done(1)
	}
}

func pollAndRelay(c *engine.Ctx) {
	o := c.Custom("C19.4", "K-dataflow(poll/relay)", "poll: sendPollRequest(key) is called directly in the loop over sctx.treqs for the loop's own key; subscribe: sendSubscriptionRequest(key, elem) for every key; relay: stream.Send(the received message)",
		"a poll reaches every target subscribed on the stream; updates are relayed as received")
	defer o.Done(3)
	pp, err := subPaths(c, "Server.processSubscribeRequest")
	if err != nil {
		o.Undecided("processSubscribeRequest", err.Error())
		return
	}
	var poll, sub int
	for _, p := range pp {
		for i := range p.Events {
			e := &p.Events[i]
			if e.Kind == engine.EvGo && strings.Contains(engine.FuncChain(p, i), "processSubscribeRequest") {
				o.Eval(1)
				o.Fail(&engine.Violation{Key: "processSubscribeRequest|goroutine in forwarding loop", Pos: c.P.Pos(e.Pos), Func: p.Root.Name(), Msg: "forwarding is moved to a goroutine: the loop variable is shared across iterations (go 1.19 semantics), so every goroutine may see the last target only"})
				return
			}
			if e.Kind != engine.EvCall {
				continue
			}
			var le *engine.Event
			for j := i - 1; j >= 0; j-- {
				if x := &p.Events[j]; x.Kind == engine.EvLoopEnter && x.LoopID == e.Loops {
					le = x
					break
				}
			}
			switch e.CalleeName {
			case "northbound/gnmi/v2.Server.sendPollRequest":
				poll++
				o.Eval(1)
				if le == nil || stripHash(le.Range) != "$subContext.treqs" || len(e.Args) != 1 || e.Args[0] != "key("+le.Range+")" {
					o.Fail(&engine.Violation{Key: "processSubscribeRequest|poll forwarding", Pos: c.P.Pos(e.Pos), Func: p.Root.Name(), Msg: "the poll is not forwarded to the loop's own key for every key of the per-target map"})
					return
				}
			case "northbound/gnmi/v2.Server.sendSubscriptionRequest":
				sub++
				o.Eval(1)
				if le == nil || stripHash(le.Range) != "$subContext.treqs" || len(e.Args) != 3 || e.Args[1] != "key("+le.Range+")" || e.Args[2] != "elem("+le.Range+")" || e.Args[0] != "$subContext" {
					o.Fail(&engine.Violation{Key: "processSubscribeRequest|subscription forwarding", Pos: c.P.Pos(e.Pos), Func: p.Root.Name(), Msg: "a split request is not sent to its own key"})
					return
				}
			}
		}
	}
	if poll > 0 {
		o.Site("poll forwarded to every key")
	}
	if sub > 0 {
		o.Site("split requests sent to their own keys")
	}
	// relay literal
	rp, err := subPaths(c, "Server.sendSubscriptionRequest")
	if err != nil {
		o.Undecided("sendSubscriptionRequest", err.Error())
		return
	}
	relay := 0
	for _, p := range rp {
		if p.Lit == nil {
			// the request given to the client library is the one passed in, for the target passed in
			for i := range p.Events {
				e := &p.Events[i]
				if e.Kind == engine.EvCall && e.CalleeName == "client.NewQuery" {
					o.Eval(1)
					if len(e.Args) != 1 || e.Args[0] != "$SubscribeRequest" {
						o.Fail(&engine.Violation{Key: "sendSubscriptionRequest|query source", Pos: c.P.Pos(e.Pos), Func: p.Root.Name(), Msg: "the query is not built from the request passed in"})
						return
					}
				}
				if e.Kind == engine.EvCall && e.CalleeName == "southbound/gnmi.ConnManager.GetByTarget" {
					o.Eval(1)
					if len(e.Args) != 1 || e.Args[0] != "topo.ID($target)" {
						o.Fail(&engine.Violation{Key: "sendSubscriptionRequest|target", Pos: c.P.Pos(e.Pos), Func: p.Root.Name(), Msg: "the client is not looked up by the target passed in"})
						return
					}
				}
			}
			continue
		}
		for i := range p.Events {
			e := &p.Events[i]
			if e.Kind == engine.EvCall && strings.HasSuffix(e.CalleeName, "GNMI_SubscribeServer.Send") {
				relay++
				o.Eval(1)
				if len(e.Args) != 1 || e.Args[0] != "$msg.(*gnmi.SubscribeResponse)" {
					o.Fail(&engine.Violation{Key: "sendSubscriptionRequest|relay", Pos: c.P.Pos(e.Pos), Func: p.Root.Name() + "$lit", Msg: "the relay does not pass the received message unchanged to the subscriber (" + strings.Join(e.Args, ",") + ")"})
					return
				}
			}
		}
	}
	if relay > 0 {
		o.Site("relay passes the received response unchanged")
	}
}

// monitorStarted: C19.5. Every subscription on a southbound client gets its own response monitor.
func monitorStarted(c *engine.Ctx) {
	o := c.Custom("C19.5", "K-must(monitor)", "southbound client.Subscribe: every path on which the backing client's Subscribe did not fail starts `go c.run(ctx)` itself (not through a Once, a flag or a closure), after asking the backing client to subscribe; a path on which it failed starts none",
		"the monitor goroutine is the only reader of the backing client's responses: the connection manager shares one client per target, so a monitor started once ends with the first subscription and later streams to that target receive nothing")
	defer o.Done(1)
	ps, err := c.A.PathsOpt("pkg/southbound/gnmi", engine.PathOpts{Roots: []string{"southbound/gnmi.client.Subscribe"}, Exact: true, NoInline: true})
	if err != nil || len(ps) == 0 {
		o.Undecided("pkg/southbound/gnmi", fmt.Sprintf("no paths for client.Subscribe: %v", err))
		return
	}
	for _, p := range ps {
		if p.Lit != nil {
			continue
		}
		o.Eval(1)
		sub, mon := -1, -1
		for i := range p.Events {
			e := &p.Events[i]
			if e.Kind == engine.EvCall && strings.HasSuffix(e.CalleeName, "Client.Subscribe") && e.CalleeName != "southbound/gnmi.client.Subscribe" {
				sub = i
			}
			if e.Kind == engine.EvGo && e.CalleeName == "southbound/gnmi.client.run" {
				mon = i
			}
		}
		last := &p.Events[len(p.Events)-1]
		o.Site(c.P.Pos(last.Pos) + " path of client.Subscribe")
		// a path on which the backing subscribe failed has no stream to monitor (and must not start a
		// reader on it, C12.11): the requirement is about the paths on which a stream was opened
		failed := false
		if sub >= 0 {
			for _, l := range engine.CondsBefore(p, len(p.Events)-1) {
				if l.L == "err("+p.Events[sub].Canon+")" && l.RNil && l.Mask == 5 {
					failed = true
				}
			}
		}
		if failed {
			if mon >= 0 {
				o.Fail(&engine.Violation{Key: "southbound/gnmi.client.Subscribe|monitor started without a stream", Pos: c.P.Pos(p.Events[mon].Pos), Func: p.Root.Name(),
					Msg: "the response monitor is started on a path where the backing subscribe failed: there is no stream, its first Recv dereferences nil"})
				return
			}
			continue
		}
		switch {
		case sub < 0:
			o.Fail(&engine.Violation{Key: "southbound/gnmi.client.Subscribe|backing subscribe missing", Pos: c.P.Pos(last.Pos), Func: p.Root.Name(), Msg: "a path of Subscribe does not ask the backing client to subscribe"})
			return
		case mon < 0:
			o.Fail(&engine.Violation{Key: "southbound/gnmi.client.Subscribe|monitor not started on every path", Pos: c.P.Pos(last.Pos), Func: p.Root.Name(),
				Msg: "a path of Subscribe does not start `go c.run(ctx)` itself: a later subscription on the shared client gets no response monitor"})
			return
		}
	}
}

// subscriptionOwnsItsBackingClient: C19.6 (finding F62). The backing openconfig client holds ONE subscription
// stream, ONE response handler and is read by the monitor goroutine; the connection manager hands one southbound
// client per target to every northbound stream. A subscription therefore needs a backing client of its own
// (created inside client.Subscribe), or client.Subscribe has to refuse while a subscription is open.
func subscriptionOwnsItsBackingClient(c *engine.Ctx) {
	o := c.Custom("C19.6", "K-fresh(backing client)", "southbound client.Subscribe: the backing client asked to subscribe is created in this call, or the call is reached only under a test of a receiver flag that says no subscription is open",
		"updates from each target are relayed to the subscriber as received: the per-target southbound client is shared by all northbound streams, a second subscription on its single backing client replaces the first one's handler and stream and two monitors read one stream")
	defer o.Done(1)
	ps, err := c.A.PathsOpt("pkg/southbound/gnmi", engine.PathOpts{Roots: []string{"southbound/gnmi.client.Subscribe"}, Exact: true, NoInline: true})
	if err != nil || len(ps) == 0 {
		o.Undecided("pkg/southbound/gnmi", fmt.Sprintf("no paths for client.Subscribe: %v", err))
		return
	}
	found := false
	for _, p := range ps {
		if p.Lit != nil {
			continue
		}
		for i := range p.Events {
			e := &p.Events[i]
			if e.Kind != engine.EvCall || !strings.HasSuffix(e.CalleeName, "Client.Subscribe") || e.CalleeName == "southbound/gnmi.client.Subscribe" {
				continue
			}
			found = true
			o.Eval(1)
			o.Site(c.P.Pos(e.Pos) + " backing subscribe on " + e.Recv)
			if !strings.HasPrefix(e.Recv, "$recv") {
				continue // not the receiver's long-lived state: created in this call
			}
			guarded := false
			for _, l := range engine.CondsBefore(p, i) {
				if strings.Contains(l.L, "$recv") && (strings.Contains(l.L, "atomic.Bool") || strings.Contains(l.L, "CompareAndSwap") || strings.Contains(l.L, "Load")) {
					guarded = true
				}
			}
			if !guarded {
				o.Fail(&engine.Violation{Key: "southbound/gnmi.client.Subscribe|backing client shared between subscriptions", Pos: c.P.Pos(e.Pos), Func: p.Root.Name(),
					Msg: "the subscription is opened on " + e.Recv + ", the one backing client of the per-target southbound client, without refusing when a subscription is already open: a second northbound stream to the same target replaces the first one's handler and stream, and both monitors read the same stream"})
				return
			}
		}
	}
	if !found {
		o.Undecided("southbound/gnmi.client.Subscribe", "anchor not found: no call of a backing Client.Subscribe")
	}
}

// noEntryDropped: C19.7 (finding F65). Every entry of the subscription list is appended to the request of some
// target, or the request is refused: no iteration of the split loop falls through having done neither.
func noEntryDropped(c *engine.Ctx) {
	o := c.Custom("C19.7", "K-must(per entry)", "splitSubscribeRequest: every iteration of the loop over the subscription entries appends the entry to a per-target request or returns an error",
		"every subscription entry is forwarded to the target it names; an entry that names no target is refused, not dropped from an accepted request")
	defer o.Done(1)
	ps, err := c.A.PathsOpt(pkgNbGnmi, engine.PathOpts{Roots: []string{".splitSubscribeRequest"}, NoInline: true})
	if err != nil {
		o.Undecided("splitSubscribeRequest", err.Error())
		return
	}
	for _, p := range ps {
		for i := range p.Events {
			le := &p.Events[i]
			if le.Kind != engine.EvLoopEnter || !strings.Contains(le.Range, "Subscription") {
				continue
			}
			appended, left, iterated, exit := false, false, false, -1
			for j := i + 1; j < len(p.Events); j++ {
				e := &p.Events[j]
				if e.Kind == engine.EvLoopExit && e.Node == le.Node {
					exit = j
					break
				}
				iterated = true
				if e.Kind == engine.EvWrite && e.Field == "gnmi.SubscriptionList.Subscription" && strings.HasPrefix(e.RHS, "append(") && strings.Contains(e.RHS, "elem("+le.Range+")") {
					appended = true
				}
				if e.Kind == engine.EvReturn {
					left = len(e.Results) == 1 && e.Results[0] != "nil"
				}
			}
			if !iterated || (exit < 0 && !left && !appended && p.Events[len(p.Events)-1].Kind != engine.EvReturn) {
				continue
			}
			o.Site(c.P.Pos(le.Pos) + " iteration of the split loop")
			o.Eval(1)
			if !appended && !left {
				o.Fail(&engine.Violation{Key: "splitSubscribeRequest|entry neither forwarded nor refused", Pos: c.P.Pos(le.Pos), Func: p.Root.Name(),
					Msg: "an iteration of the loop over the subscription entries neither appends the entry to a target's request nor refuses the request: the entry is silently dropped", Found: c.RenderConds(engine.CondsBefore(p, len(p.Events)-1))})
				return
			}
		}
	}
}

// relaySerialised: C19.8 (finding F66). The response handlers of the per-target monitors write to the one
// northbound stream: every such Send happens while a mutex of the stream's context is held.
func relaySerialised(c *engine.Ctx) {
	o := c.Custom("C19.8", "K-lock(stream send)", "in the function literals of the Subscribe handlers, GNMI_SubscribeServer.Send on the subscriber's stream is preceded on its path by Lock of a sync.Mutex of the same stream context (released by a deferred or later Unlock)",
		"updates from each target are relayed as received: one monitor goroutine per target calls Send on the same server stream, which gRPC does not allow concurrently")
	defer o.Done(1)
	ps, err := c.A.PathsOpt(pkgNbGnmi, engine.PathOpts{Roots: []string{".Server.sendSubscriptionRequest"}, NoInline: true})
	if err != nil {
		o.Undecided("sendSubscriptionRequest", err.Error())
		return
	}
	for _, p := range ps {
		if p.Lit == nil {
			continue
		}
		for i := range p.Events {
			e := &p.Events[i]
			if e.Kind != engine.EvCall || !strings.HasSuffix(e.CalleeName, "GNMI_SubscribeServer.Send") {
				continue
			}
			o.Site(c.P.Pos(e.Pos) + " Send on " + e.Recv)
			o.Eval(1)
			base := e.Recv
			if k := strings.LastIndex(base, "."); k > 0 {
				base = base[:k] // the context that holds the stream
			}
			held := false
			for j := 0; j < i; j++ {
				x := &p.Events[j]
				if x.Kind == engine.EvCall && !x.Deferred && strings.HasPrefix(x.Recv, base+".") {
					if strings.HasSuffix(x.CalleeName, "Mutex.Lock") {
						held = true
					}
					if strings.HasSuffix(x.CalleeName, "Mutex.Unlock") {
						held = false
					}
				}
			}
			if !held {
				o.Fail(&engine.Violation{Key: "Server.sendSubscriptionRequest|unserialised Send on the subscriber's stream", Pos: c.P.Pos(e.Pos), Func: p.Root.Name(),
					Msg: "a response handler sends on " + e.Recv + " without holding a mutex of " + base + ": the monitors of several targets call Send on one stream concurrently"})
				return
			}
		}
	}
}

// refusalsCarryTheirClass: C19.9 (finding F67). What Server.Subscribe returns is nil, the stream's own receive
// error, or a typed error converted with errors.Status(err).Err() — as Get, Set and Capabilities do.
func refusalsCarryTheirClass(c *engine.Ctx) {
	o := c.Custom("C19.9", "K-domain(handler result)", "Server.Subscribe returns nil, the error of stream.Recv itself, or errors.Status(e).Err()",
		"a refused request is refused with its class: a typed error returned as is reaches the client as gRPC Unknown")
	defer o.Done(1)
	ps, err := c.A.PathsOpt(pkgNbGnmi, engine.PathOpts{Roots: []string{"northbound/gnmi/v2.Server.Subscribe"}, Exact: true})
	if err != nil || len(ps) == 0 {
		o.Undecided("Server.Subscribe", fmt.Sprintf("no paths: %v", err))
		return
	}
	reported := map[string]bool{}
	for _, p := range ps {
		if p.Lit != nil {
			continue
		}
		last := &p.Events[len(p.Events)-1]
		if last.Kind != engine.EvReturn || len(last.Results) != 1 || last.Results[0] == "nil" {
			continue
		}
		r := last.Results[0]
		o.Eval(1)
		if strings.HasPrefix(r, "err({errors.Status(") && strings.HasSuffix(r, "}status.Status.Err())") {
			o.Site("converted refusal")
			continue
		}
		own := false
		for i := range p.Events {
			e := &p.Events[i]
			if e.Kind == engine.EvCall && strings.HasSuffix(e.CalleeName, "GNMI_SubscribeServer.Recv") && r == "err("+e.Canon+")" {
				own = true
			}
		}
		if own {
			o.Site("the stream's own receive error")
			continue
		}
		if !reported[r] {
			reported[r] = true
			o.Fail(&engine.Violation{Key: "Server.Subscribe|typed error returned unconverted", Pos: c.P.Pos(last.Pos), Func: p.Root.Name(),
				Msg: "Subscribe returns " + c.Render(r) + " without errors.Status(…).Err(): the client sees gRPC Unknown instead of the refusal's class"})
		}
	}
}

// halfCloseKeepsRelaying: C19.10 (finding F68). io.EOF from stream.Recv means the subscriber closed its SENDING
// direction only: the handler must not end the RPC (which cancels every forwarded subscription) before the
// subscriber's context is done, and must not answer with that EOF.
func halfCloseKeepsRelaying(c *engine.Ctx) {
	o := c.Custom("C19.10", "K-must(half close)", "Server.Subscribe: on the path where stream.Recv returned io.EOF the handler waits for the stream context to be done and returns nil",
		"updates from each target are relayed to the subscriber: returning at the half-close cancels the subscriptions that were just forwarded")
	defer o.Done(1)
	ps, err := c.A.PathsOpt(pkgNbGnmi, engine.PathOpts{Roots: []string{"northbound/gnmi/v2.Server.Subscribe"}, Exact: true})
	if err != nil || len(ps) == 0 {
		o.Undecided("Server.Subscribe", fmt.Sprintf("no paths: %v", err))
		return
	}
	for _, p := range ps {
		if p.Lit != nil {
			continue
		}
		eof := -1
		for i := range p.Events {
			if e := &p.Events[i]; e.Kind == engine.EvCond && strings.HasSuffix(e.Lit.R, "io.EOF") && e.Lit.Mask == 2 && strings.HasPrefix(e.Lit.L, "err(") {
				eof = i
			}
		}
		if eof < 0 {
			continue
		}
		last := &p.Events[len(p.Events)-1]
		if last.Kind != engine.EvReturn {
			continue
		}
		o.Site(c.P.Pos(p.Events[eof].Pos) + " half-close path")
		o.Eval(1)
		waited := false
		for i := eof; i < len(p.Events); i++ {
			if e := &p.Events[i]; e.Kind == engine.EvRecv && strings.Contains(e.Chan, "Context()") && strings.Contains(e.Chan, "Done()") {
				waited = true
			}
		}
		if !waited || len(last.Results) != 1 || last.Results[0] != "nil" {
			o.Fail(&engine.Violation{Key: "Server.Subscribe|half-close ends the subscription", Pos: c.P.Pos(last.Pos), Func: p.Root.Name(),
				Msg: fmt.Sprintf("after io.EOF from Recv (the subscriber closed its sending direction) the handler returns %v without waiting for the stream context: the RPC ends and the forwarded subscriptions are cancelled", last.Results)})
			return
		}
	}
}

// perTargetListsAreFresh: C19.11 (seed C19-r41). The entry list of each per-target request is allocated for that
// target: a slice created once before the loop and put into every target's SubscriptionList shares one backing
// array, and the first entry appended for a later target overwrites slot 0 of every earlier target's list.
func perTargetListsAreFresh(c *engine.Ctx) {
	o := c.Custom("C19.11", "alias(per-target list)", "splitSubscribeRequest: the Subscription list put into a per-target SubscriptionList inside the loop over the entries is allocated inside that loop (or is nil)",
		"every subscription entry is forwarded unmodified to the target it names and to no other")
	defer o.Done(1)
	ps, err := c.A.PathsOpt(pkgNbGnmi, engine.PathOpts{Roots: []string{".splitSubscribeRequest"}, NoInline: true})
	if err != nil {
		o.Undecided("splitSubscribeRequest", err.Error())
		return
	}
	for _, p := range ps {
		loopAt := -1
		for i := range p.Events {
			e := &p.Events[i]
			if e.Kind == engine.EvLoopEnter && strings.Contains(e.Range, "Subscription") && loopAt < 0 {
				loopAt = i
			}
			if loopAt < 0 || e.Kind != engine.EvWrite || e.Field != "gnmi.SubscriptionList.Subscription" || e.Op != "lit" {
				continue
			}
			o.Site(c.P.Pos(e.Pos) + " per-target entry list " + e.RHS)
			o.Eval(1)
			if e.RHS == "nil" {
				continue
			}
			fresh := false
			for j := loopAt; j < i; j++ {
				if x := &p.Events[j]; x.Kind == engine.EvCall && (x.CalleeName == "make" || x.CalleeName == "new") && x.Canon == e.RHS {
					fresh = true
				}
			}
			if !fresh {
				o.Fail(&engine.Violation{Key: "splitSubscribeRequest|per-target entry list shared", Pos: c.P.Pos(e.Pos), Func: p.Root.Name(),
					Msg: "the entry list of a per-target request is " + c.Render(e.RHS) + ", which was not allocated inside the loop: the lists of all targets share one backing array and an entry appended for one target lands in another target's request"})
				return
			}
		}
	}
}

// subscribedFlagOnlySet: C19.12 (seed C19-r42). The `subscribed` flag belongs to the per-target client that
// all northbound streams share (F62): it says that some subscription stream was opened on the backing client.
// It is set by Subscribe after the stream was opened and by nothing else; a monitor that clears it when ITS
// stream ends makes the polls of every other subscriber of that target fail.
func subscribedFlagOnlySet(c *engine.Ctx) {
	o := c.Custom("C19.12", "K-own(flag)", "southbound client.subscribed is written only by client.Subscribe, with Store(true)",
		"a poll is forwarded to every target subscribed on that stream: the flag is shared by the subscribers of a target")
	defer o.Done(1)
	ps, err := c.A.PathsOpt("pkg/southbound/gnmi", engine.PathOpts{NoInline: true})
	if err != nil {
		o.Undecided("pkg/southbound/gnmi", err.Error())
		return
	}
	reported := map[string]bool{}
	for _, p := range ps {
		for i := range p.Events {
			e := &p.Events[i]
			if e.Kind != engine.EvCall && e.Kind != engine.EvDefer {
				continue
			}
			if !strings.HasPrefix(e.CalleeName, "atomic.Bool.") || !strings.HasSuffix(e.Recv, ".subscribed") {
				continue
			}
			m := strings.TrimPrefix(e.CalleeName, "atomic.Bool.")
			if m == "Load" {
				continue
			}
			pos := c.P.Pos(e.Pos)
			if reported[pos] {
				continue
			}
			o.Site(pos + " " + e.CalleeName + "(" + strings.Join(e.Args, ",") + ") in " + p.Root.Name())
			o.Eval(1)
			ok := m == "Store" && len(e.Args) == 1 && e.Args[0] == "true" && p.Root.Name() == "southbound/gnmi.client.Subscribe" && !e.Deferred && e.Kind == engine.EvCall
			if !ok {
				reported[pos] = true
				o.Fail(&engine.Violation{Key: p.Root.Name() + "|subscribed flag written other than Store(true) in Subscribe", Pos: pos, Func: p.Root.Name(),
					Msg: "the subscribed flag of the per-target client is written by " + m + "(" + strings.Join(e.Args, ",") + ") in " + p.Root.Name() + ": the client is shared by every subscriber of the target, clearing it for one ends the polls of all"})
			}
		}
	}
}
