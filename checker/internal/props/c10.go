package props

import (
	"fmt"
	"go/token"
	"strings"

	"occheck/internal/engine"
)

func configAliases(p *engine.Prog) *engine.Aliases {
	return engine.NewAliases(p,
		"CFG", "call:store/v2/configuration.Store.Get($ID.Value.(config/v2.ConfigurationID))",
		"TGT", "call:store/topo.Store.Get(topo.ID(@CFG.TargetID))",
		"REL", "call:store/topo.Store.Get(topo.ID(@CFG.Status.Mastership.Master))",
		"CONN", "call:southbound/gnmi.ConnManager.Get(southbound/gnmi.ConnID(@REL.ID))",
		"RELS", "call:store/topo.Store.List(&topo.Filters{RelationFilter:&topo.RelationFilter{RelationKind:topo.CONTROLS,Scope:topo.RelationFilterScope_RELATIONS_ONLY,TargetId:string(@CFG.TargetID)}})",
	)
}

func connAliases(p *engine.Prog) *engine.Aliases {
	return engine.NewAliases(p,
		"CONN", "call:southbound/gnmi.ConnManager.Get($ID.Value.(southbound/gnmi.ConnID))",
		"CONNID", "$ID.Value.(southbound/gnmi.ConnID)",
	)
}

const (
	fTerm   = "config/v2.MastershipInfo.Term"
	fMaster = "config/v2.MastershipInfo.Master"
	fState  = "config/v2.ConfigurationStatus.State"
)

func lhsSuffix(suffix string) func(p *engine.Path, i int) bool {
	return func(p *engine.Path, i int) bool { return strings.HasSuffix(p.Events[i].LHS, suffix) }
}

func init() {
	register(&Prop{
		ID:    "C10",
		Title: "Only the current master writes, in its term, after re-synchronising",
		Explanation: "Decided: (1) Configuration.Status.Mastership.Term is written by ++ only, only in the v2 mastership controller, only on paths where the recorded master is not among the live CONTROLS relations of the target and at least one such relation exists; a non-empty master is assigned only on a path that also incremented the term, and is taken from the filtered relation set; the master is cleared only when no relation is left; " +
			"(2) election candidates come from a topo List filtered by kind CONTROLS and this node as source, restricted to the configuration's target; (3) the connection controller creates the CONTROLS relation only for an existing connection and deletes it only for a missing one, with this node as source and the connection's target and id; " +
			"(4) every southbound Set of the v2 controllers is sent over the connection of the relation named by Status.Mastership.Master, under 'master non-empty', 'relation source is this node' and 'connection exists', and its request carries a MasterArbitration extension whose election id is Status.Mastership.Term; " +
			"(5) nothing new is applied while SYNCHRONIZING or while the applied term is behind (shared with C04).",
		Declined: []string{"that at most one node believes itself master at an instant (a distributed property)", "the device's own arbitration"},
		Run:      runC10,
		Witness: []WitnessTarget{{pkgMastershipCtl, []string{"Reconciler."}}, {pkgConnectionCtl, []string{"Reconciler."}}, {pkgConfigCtl, []string{"Reconciler."}}, {pkgProposalCtl, []string{"reconcileApply"}},
			{"pkg/southbound/gnmi", []string{"connManager.Connect", "connManager.addConn", "connManager.removeConn", "newConn"}}},
	})
}

func runC10(c *engine.Ctx, tier string) {
	c.Al = configAliases(c.P)
	// (1) ownership of the term and the master
	c.Own(engine.Own{ID: "C10.1-own-term", Field: fTerm, Pkgs: []string{pkgMastershipCtl, pkgConfigCtl, pkgMsCtlV3, pkgCfgCtlV3, pkgTxCtlV3}, SkipLit: true, Min: 2,
		Why: "the mastership term is owned by the mastership controller (election) and mirrored into Applied.Mastership by the configuration controller; nobody else may touch it"})
	c.Own(engine.Own{ID: "C10.1-own-master", Field: fMaster, Pkgs: []string{pkgMastershipCtl, pkgConfigCtl, pkgMsCtlV3, pkgCfgCtlV3, pkgTxCtlV3}, SkipLit: true, Min: 3,
		Why: "the master is owned by the mastership controller and mirrored by the configuration controller"})
	for _, f := range []string{"config/v2.ConfigurationStatus.Mastership", "config/v2.AppliedConfigurationStatus.Mastership", "config/v2.ConfigurationStatus.Applied", "config/v2.Configuration.Status"} {
		c.Own(engine.Own{ID: "C10.1-own-struct/" + f[strings.LastIndex(f, "/")+1:], Field: f, Pkgs: []string{pkgStoreCfgV2}, SkipLit: true, Min: 0,
			Why: "the structs that contain the mastership term are never assigned wholesale by a controller: that would reset the term (it must never decrease)"})
	}
	c.Guard(engine.Guard{ID: "C10.1a", Pkg: pkgMastershipCtl, None: true, Rule: "K-own(op)",
		Sel: engine.Sel{Field: fTerm, Lit: true, Filter: func(p *engine.Path, i int) bool { return p.Events[i].Op != "++" }},
		Why: "the term only ever grows by one: any other write could repeat or lower a term"})
	electionRule(c, "C10.1b")
	// an election or resignation that was decided is persisted, and a failed write is retried
	c.Outcome(engine.Outcome{ID: "C10.1e", Pkg: pkgMastershipCtl, Root: "Reconciler.Reconcile", Min: 2,
		When: "#wrote(" + fMaster + ")",
		Must: []engine.Sel{{Call: stCfgUpdStat}},
		Why:  "a master that is chosen (or a resignation) only counts once it is in the configuration record: the proposal and configuration controllers read it from there"})
	c.Outcome(engine.Outcome{ID: "C10.1f", Pkg: pkgMastershipCtl, Root: "Reconciler.Reconcile", Min: 1,
		When:    "#wrote(" + fMaster + ") && #errIsNot(" + stCfgUpdStat + "|errors.IsNotFound) && #errIsNot(" + stCfgUpdStat + "|errors.IsConflict)",
		Returns: "err!=nil",
		Why:     "a store failure while persisting the election makes the pass fail so that it is retried"})
	// configuration controller mirrors term/master only from the live values
	c.Guard(engine.Guard{ID: "C10.1c", Pkg: pkgConfigCtl, None: true, Rule: "K-own(rhs)",
		Sel: engine.Sel{Field: fTerm, NotRHS: "@CFG.Status.Mastership.Term", Lit: true},
		Why: "the configuration controller only copies the current term into Applied.Mastership"})
	c.Guard(engine.Guard{ID: "C10.1d", Pkg: pkgConfigCtl, None: true, Rule: "K-own(lhs)",
		Sel: engine.Sel{Field: fTerm, Lit: true, Filter: func(p *engine.Path, i int) bool {
			return p.Events[i].LHS != c.Al.Expand("@CFG.Status.Applied.Mastership.Term")
		}},
		Why: "the configuration controller writes only the applied copy of the term"})

	// (3) connection controller
	c.Al = connAliases(c.P)
	c.Guard(engine.Guard{ID: "C10.3a", Pkg: pkgConnectionCtl, Min: 1, Sel: engine.Sel{Call: "store/topo.Store.Create"},
		Require: "ok(@CONN) && #errIs(store/topo.Store.Get|errors.IsNotFound)",
		Why:     "the CONTROLS relation is created only for a connection that exists (and only when the relation is missing)"})
	c.Guard(engine.Guard{ID: "C10.3b", Pkg: pkgConnectionCtl, Min: 1, Sel: engine.Sel{Call: "store/topo.Store.Delete"},
		Require: "!ok(@CONN) && #ok(store/topo.Store.Get)",
		Why:     "the CONTROLS relation is deleted only when the connection is gone"})
	for _, x := range []struct{ id, field, rhs string }{
		{"C10.3c", "topo.Relation.KindID", "topo.CONTROLS"},
		{"C10.3d", "topo.Relation.SrcEntityID", "controller/utils.GetOnosConfigID()"},
		{"C10.3e", "topo.Relation.TgtEntityID", "{@CONN}southbound/gnmi.Conn.TargetID()"},
		{"C10.3f", "topo.Object.ID", "topo.ID({@CONN}southbound/gnmi.Conn.ID())"},
		{"C10.3g", "topo.Object.Type", "topo.Object_RELATION"},
	} {
		c.Guard(engine.Guard{ID: x.id, Pkg: pkgConnectionCtl, None: true, Rule: "K-own(rhs)",
			Sel: engine.Sel{Field: x.field, NotRHS: x.rhs, OnlyLit: true},
			Why: "the relation created for a connection names CONTROLS, this node as source, the connection's target, and carries the connection id (the mastership controller elects by these)"})
		c.Guard(engine.Guard{ID: x.id + "-present", Pkg: pkgConnectionCtl, Min: 1, Rule: "K-own(rhs)",
			Sel: engine.Sel{Field: x.field, RHS: x.rhs, OnlyLit: true}, Require: "true", Why: "the relation literal sets the field"})
	}

	// (4) every southbound Set goes through the master's connection with the term as election id
	c.Al = proposalAliases(c.P)
	masterGuards := "@CFG.Status.Mastership.Master != \"\" && controller/utils.GetOnosConfigID() == {@REL}topo.Object.GetRelation().SrcEntityID && err(@REL) == nil && ok(@CONN)"
	c.Guard(engine.Guard{ID: "C10.4a", Pkg: pkgProposalCtl, Min: 1, Sel: engine.Sel{Call: sbSet}, Require: masterGuards,
		Why: "a change is sent only by the node that is the source of the elected master relation, over that relation's connection"})
	arbitration(c, "C10.4b", pkgProposalCtl, 1)
	c.Al = configAliases(c.P)
	c.Guard(engine.Guard{ID: "C10.4c", Pkg: pkgConfigCtl, Min: 1, Sel: engine.Sel{Call: sbSet}, Require: masterGuards + " && @CFG.Status.State == config/v2.ConfigurationStatus_SYNCHRONIZING",
		Why: "the re-push is sent only by the elected master's node over its connection, while SYNCHRONIZING"})
	arbitration(c, "C10.4d", pkgConfigCtl, 1)
	c.MayCall(engine.MayCall{ID: "C10.4e", Callees: []string{sbSet, "southbound/gnmi.Client.SetWithString"}, Min: 4,
		Pkgs: []string{pkgProposalCtl, pkgConfigCtl, pkgTxCtlV3, pkgCfgCtlV3, pkgSbGnmi},
		Why:  "a Set issued from anywhere else would bypass the master guards and the arbitration extension"})
	// (5) shared with C04
	c.Al = proposalAliases(c.P)
	c.Guard(engine.Guard{ID: "C10.5", Pkg: pkgProposalCtl, Min: 1, Sel: engine.Sel{Call: sbSet},
		Require: "!(@CFG.Status.State == config/v2.ConfigurationStatus_SYNCHRONIZING) && (@CFG.Status.State == config/v2.ConfigurationStatus_PERSISTED || !(@CFG.Status.Applied.Mastership.Term < @CFG.Status.Mastership.Term))",
		Why:     "no new change is sent in a term before the previously applied configuration was re-sent in that term (a target marked Persistent keeps its configuration itself and is never re-sent anything: the clause does not apply to it, see F53)"})
	connLifecycle(c, "C10.6")
	// "its mastership term never decreases": master and term live in the configuration record, which the
	// proposal and configuration controllers also write; a writer that read an older master/term must lose
	conditionalUpdatesAs(c, "C10.8", pkgStoreCfgV2, 3)
	// the target controller: a target in topo is connected to, a target that left is disconnected from, failures are retried
	saved := c.Al
	c.Al = engine.NewAliases(c.P, "TGTE", "call:store/topo.Store.Get($ID.Value.(topo.ID))")
	connect, disconnect := "southbound/gnmi.ConnManager.Connect", "southbound/gnmi.ConnManager.Disconnect"
	c.Outcome(engine.Outcome{ID: "C10.7a", Pkg: pkgTargetCtl, Root: "Reconciler.Reconcile", Min: 1, When: "err(@TGTE) == nil",
		Must: []engine.Sel{{Call: connect}}, MustNot: []engine.Sel{{Call: disconnect}}, Why: "a target that exists in topo is connected to"})
	c.Outcome(engine.Outcome{ID: "C10.7b", Pkg: pkgTargetCtl, Root: "Reconciler.Reconcile", Min: 1, When: "#errIs(store/topo.Store.Get|errors.IsNotFound)",
		Must: []engine.Sel{{Call: disconnect}}, MustNot: []engine.Sel{{Call: connect}}, Why: "a target that left topo is disconnected from: its connection, relation and mastership go with it"})
	c.Outcome(engine.Outcome{ID: "C10.7c", Pkg: pkgTargetCtl, Root: "Reconciler.Reconcile", Min: 1, When: "#errIsNot(" + connect + "|errors.IsAlreadyExists)",
		Returns: "err!=nil", Why: "a failed connection attempt makes the pass fail so that it is retried: otherwise an unreachable device is never connected to again"})
	c.Outcome(engine.Outcome{ID: "C10.7d", Pkg: pkgTargetCtl, Root: "Reconciler.Reconcile", Min: 1, When: "#errIsNot(store/topo.Store.Get|errors.IsNotFound)",
		Returns: "err!=nil", MustNot: []engine.Sel{{Call: connect}, {Call: disconnect}}, Why: "a topo failure is not taken for 'the target left'"})
	c.Al = saved
}

// arbitration: the request passed to Client.Set had a MasterArbitration extension appended whose
// election id is the configuration's mastership term, and the receiver is the master connection.
func arbitration(c *engine.Ctx, id, pkg string, min int) {
	o := c.Custom(id, "K-dataflow(request)", "Client.Set receiver is CONN (connection of the master relation) and its request got Extension := append(.., MasterArbitration{ElectionId.Low: uint64(CFG.Status.Mastership.Term)})",
		"the device rejects writes of a superseded master only if every write carries the current term as election id")
	paths, err := c.A.Paths(pkg)
	if err != nil {
		o.Undecided(pkg, err.Error())
		o.Done(0)
		return
	}
	conn := c.Al.Resolve("CONN")
	term := "ElectionId:&gnmi_ext.Uint128{Low:uint64(" + c.Al.Expand("@CFG.Status.Mastership.Term") + ")}"
	for _, s := range engine.FindSites(paths, c.Match(engine.Sel{Call: sbSet})) {
		e := s.Ev()
		o.Site(c.P.Pos(e.Pos) + " " + c.Render(c.A.DescribeEvent(e)))
		for _, ref := range s.Refs {
			o.Eval(1)
			p := ref.Path
			ev := &p.Events[ref.Idx]
			bad := ""
			if ev.Recv != conn {
				bad = "the Set is not sent over the master relation's connection (receiver " + c.Render(ev.Recv) + ")"
			}
			if len(ev.Args) != 1 {
				bad = "unexpected Set arguments"
			} else {
				found := false
				for j := 0; j < ref.Idx; j++ {
					w := &p.Events[j]
					if w.Kind == engine.EvWrite && w.Field == "gnmi.SetRequest.Extension" && w.LHS == ev.Args[0]+".Extension" &&
						strings.HasPrefix(w.RHS, "append("+ev.Args[0]+".Extension,") && strings.Contains(w.RHS, "gnmi_ext.Extension_MasterArbitration{MasterArbitration:&gnmi_ext.MasterArbitration{"+term) {
						found = true
					}
				}
				if !found && bad == "" {
					bad = "the request passed to Set does not carry a MasterArbitration extension with the mastership term as election id"
				}
			}
			if bad != "" {
				o.Fail(&engine.Violation{Key: engine.SiteKey(p, ref.Idx, "call "+sbSet+" arbitration"), Pos: c.P.Pos(e.Pos), Func: engine.FuncChain(p, ref.Idx), Msg: bad, Path: c.PathTrace(p, ref.Idx)})
				break
			}
		}
	}
	o.Done(min)
}

// electionRule: a new term begins exactly when mastership is assigned again (shared by C10 and C04).
func electionRule(c *engine.Ctx, id string) {
	election := func(p *engine.Path, i int) (notLive, some, none bool) {
		cfg := c.Al.Resolve("CFG")
		for _, l := range engine.CondsBefore(p, i) {
			if strings.HasPrefix(l.L, "has(") && strings.Contains(l.L, "[topo.ID("+cfg+".Status.Mastership.Master)]") && l.R == "true" && l.Mask == 5 {
				notLive = true
			}
			if strings.HasPrefix(l.L, "len(make(map[topo.ID]topo.Object)") && l.R == "0" {
				if l.Mask == 5 || l.Mask == 4 {
					some = true
				}
				if l.Mask == 2 {
					none = true
				}
			}
		}
		return
	}
	o := c.Custom(id, "K-guard(custom)", "Term++ ⇒ recorded master not among the target's live relations ∧ at least one relation exists; Master := non-empty ⇒ same path did Term++; Master := \"\" ⇒ no relation left",
		"a new term begins exactly when mastership is assigned again after the controlling connection was lost")
	paths, err := c.A.Paths(pkgMastershipCtl)
	if err != nil {
		o.Undecided(pkgMastershipCtl, err.Error())
	} else {
		for _, s := range engine.FindSites(paths, c.Match(engine.Sel{Field: fTerm})) {
			o.Site(c.P.Pos(s.Ev().Pos) + " " + c.Render(c.A.DescribeEvent(s.Ev())))
			for _, ref := range s.Refs {
				o.Eval(1)
				nl, some, _ := election(ref.Path, ref.Idx)
				if !nl || !some {
					o.Fail(&engine.Violation{Key: engine.SiteKey(ref.Path, ref.Idx, "write "+fTerm), Pos: c.P.Pos(s.Ev().Pos), Func: engine.FuncChain(ref.Path, ref.Idx),
						Msg: "the term is incremented on a path that does not establish 'recorded master is not a live relation of the target' and 'a live relation exists'", Found: c.RenderConds(engine.CondsBefore(ref.Path, ref.Idx))})
					break
				}
			}
		}
		for _, s := range engine.FindSites(paths, c.Match(engine.Sel{Field: fMaster})) {
			e := s.Ev()
			o.Site(c.P.Pos(e.Pos) + " " + c.Render(c.A.DescribeEvent(e)))
			for _, ref := range s.Refs {
				o.Eval(1)
				p := ref.Path
				if e.RHS == `""` {
					nl, _, none := election(p, ref.Idx)
					if !nl || !none {
						o.Fail(&engine.Violation{Key: engine.SiteKey(p, ref.Idx, "write "+fMaster+" := \"\""), Pos: c.P.Pos(e.Pos), Func: engine.FuncChain(p, ref.Idx),
							Msg: "the master is cleared although the path does not establish that no live relation is left", Found: c.RenderConds(engine.CondsBefore(p, ref.Idx))})
						break
					}
					continue
				}
				inc := false
				for j := 0; j < ref.Idx; j++ {
					w := &p.Events[j]
					if w.Kind == engine.EvWrite && w.Field == fTerm && w.Op == "++" && w.LHS == c.Al.Expand("@CFG.Status.Mastership.Term") {
						inc = true
					}
				}
				// the elected relation is an element of the slice filled from the filtered relation set
				fromSet := strings.HasPrefix(e.RHS, "string(?relations@") && strings.HasSuffix(e.RHS, ".ID)")
				if !inc || !fromSet {
					o.Fail(&engine.Violation{Key: engine.SiteKey(p, ref.Idx, "write "+fMaster+" := relation"), Pos: c.P.Pos(e.Pos), Func: engine.FuncChain(p, ref.Idx),
						Msg: "a master is assigned without incrementing the term on the same path, or not from the filtered relation set (RHS " + c.Render(e.RHS) + ")"})
					break
				}
			}
		}
		// the candidate slice is filled only from the filtered map, the map only under the target test
		for _, s := range engine.FindSites(paths, func(p *engine.Path, i int) bool {
			e := &p.Events[i]
			return e.Kind == engine.EvWrite && e.Local == nil && e.Field == "" && strings.HasPrefix(e.LHS, "make(map[topo.ID]topo.Object)")
		}) {
			o.Site(c.P.Pos(s.Ev().Pos) + " " + c.Render(c.A.DescribeEvent(s.Ev())))
			want, _ := engine.ParseClause("topo.ID(@CFG.TargetID) == {elem(@RELS)}topo.Object.GetRelation().TgtEntityID", c.Al, c.P)
			for _, ref := range s.Refs {
				o.Eval(1)
				if !engine.Entails(engine.CondsBefore(ref.Path, ref.Idx), want, c.P.Domain) || s.Ev().RHS != c.Al.Expand("elem(@RELS)") {
					o.Fail(&engine.Violation{Key: engine.SiteKey(ref.Path, ref.Idx, "fill candidate set"), Pos: c.P.Pos(s.Ev().Pos), Func: engine.FuncChain(ref.Path, ref.Idx),
						Msg: "a relation enters the candidate set without the test that it targets this configuration's target, or the set is not filled from the topo list of the CONTROLS relations of the target (whichever instance they leave: a list restricted to the reconciling instance makes every instance depose the others' masters)", Found: c.RenderConds(engine.CondsBefore(ref.Path, ref.Idx))})
					break
				}
			}
		}
	}
	o.Done(4)
}

// connLifecycle: C10.6. A connection exists in the manager exactly while its channel is Ready, every
// connection has an identity of its own, and every change of the set is announced.
func connLifecycle(c *engine.Ctx, id string) {
	o := c.Custom(id, "K-facts(connection lifecycle)", "newConn takes its id from newConnID(), which is built from uuid.New(); in the state loop of Connect: Ready ∧ no connection ⇒ newConn + addConn, a state other than Ready/Idle ∧ a connection ⇒ removeConn(its id) and nothing else removes or adds; addConn stores the connection under its own id and announces it; removeConn deletes it and announces it iff it was there",
		"a re-established connection must be a new CONTROLS relation (a new term, C10.1b), a lost one must disappear (mastership is re-assigned), and the connection controller learns both from the announcements")
	defer o.Done(6)
	ps, err := c.A.PathsOpt("pkg/southbound/gnmi", engine.PathOpts{Roots: []string{"connManager.Connect", "connManager.addConn", "connManager.removeConn", "gnmi.newConn", "gnmi.newConnID"}, NoInline: true})
	if err != nil || len(ps) == 0 {
		o.Undecided("pkg/southbound/gnmi", fmt.Sprintf("no paths: %v", err))
		return
	}
	reported := map[string]bool{}
	fail := func(fn string, pos token.Pos, msg string) {
		if !reported[msg] {
			reported[msg] = true
			o.Fail(&engine.Violation{Key: fn + "|" + msg, Pos: c.P.Pos(pos), Func: fn, Msg: msg})
		}
	}
	seen := map[string]bool{}
	for _, p := range ps {
		name := p.Root.Name()
		last := &p.Events[len(p.Events)-1]
		o.Eval(1)
		switch {
		case strings.HasSuffix(name, "gnmi.newConnID"):
			if last.Kind == engine.EvReturn && len(last.Results) == 1 {
				seen["newConnID"] = true
				o.Site(c.P.Pos(last.Pos) + " newConnID")
				if !strings.Contains(last.Results[0], "uuid.New()") {
					fail(name, last.Pos, "the connection id is not built from a fresh uuid: "+last.Results[0])
				}
			}
		case strings.HasSuffix(name, "gnmi.newConn"):
			for i := range p.Events {
				if e := &p.Events[i]; e.Kind == engine.EvWrite && e.Field == "southbound/gnmi.conn.id" {
					seen["newConn"] = true
					o.Site(c.P.Pos(e.Pos) + " conn.id")
					if e.RHS != "southbound/gnmi.newConnID()" {
						fail(name, e.Pos, "a new connection takes its id from "+e.RHS+", not from newConnID(): a re-established connection would reuse the old relation")
					}
				}
			}
			cl, tg := false, false
			for i := range p.Events {
				e := &p.Events[i]
				if e.Kind == engine.EvWrite && e.Field == "southbound/gnmi.conn.client" && e.RHS == "$client" {
					cl = true
				}
				if e.Kind == engine.EvWrite && e.Field == "southbound/gnmi.conn.targetID" && e.RHS == "$targetID" {
					tg = true
				}
			}
			if !cl || !tg {
				fail(name, last.Pos, "a new connection is built without its client or its target id (the relation's target, C10.3e)")
			}
		case strings.HasSuffix(name, "connManager.addConn"):
			stored, sent := -1, -1
			for i := range p.Events {
				e := &p.Events[i]
				if e.Kind == engine.EvWrite && e.Field == "southbound/gnmi.connManager.conns[]" && e.RHS == "$conn" && strings.Contains(e.LHS, "{$conn}southbound/gnmi.Conn.ID()") {
					stored = i
				}
				if e.Kind == engine.EvSend && e.Chan == "$recv.eventCh" && e.RHS == "$conn" {
					sent = i
				}
			}
			seen["addConn"] = true
			o.Site(c.P.Pos(last.Pos) + " addConn")
			if stored < 0 || sent < stored {
				fail(name, last.Pos, "addConn does not store the connection under its own id and then announce it")
			}
		case strings.HasSuffix(name, "connManager.removeConn"):
			present := false
			for i := range p.Events {
				if l := p.Events[i]; l.Kind == engine.EvCond && l.Lit.String() == "has($recv.conns[$connID])" {
					present = true
				}
			}
			deleted, sent := false, false
			for i := range p.Events {
				e := &p.Events[i]
				if e.Kind == engine.EvCall && e.CalleeName == "delete" && len(e.Args) == 2 && e.Args[0] == "$recv.conns" && e.Args[1] == "$connID" {
					deleted = true
				}
				if e.Kind == engine.EvSend && e.Chan == "$recv.eventCh" {
					sent = true
				}
			}
			seen["removeConn"] = true
			o.Site(c.P.Pos(last.Pos) + " removeConn")
			if present != deleted || present != sent {
				fail(name, last.Pos, "removeConn deletes and announces the connection exactly when it was registered")
			}
		case p.Lit != nil && strings.HasSuffix(name, "connManager.Connect"):
			// in-loop decisions of one iteration
			in := false
			ready, idle, notReady, notIdle, connNil, connSet := false, false, false, false, false, false
			added, removed := false, false
			var removedArg string
			for i := range p.Events {
				e := &p.Events[i]
				switch e.Kind {
				case engine.EvLoopEnter:
					in = true
				case engine.EvLoopExit:
					in = false
				case engine.EvCond:
					if !in {
						continue
					}
					s := e.Lit.String()
					switch {
					case strings.HasSuffix(s, "GetState() == connectivity.Ready"):
						ready = true
					case strings.HasSuffix(s, "GetState() != connectivity.Ready"):
						notReady = true
					case strings.HasSuffix(s, "GetState() == connectivity.Idle"):
						idle = true
					case strings.HasSuffix(s, "GetState() != connectivity.Idle"):
						notIdle = true
					case strings.HasPrefix(s, "?conn") && strings.HasSuffix(s, "== nil"):
						connNil = true
					case strings.HasPrefix(s, "?conn") && strings.HasSuffix(s, "!= nil"):
						connSet = true
					}
				case engine.EvCall:
					if !in {
						continue
					}
					if strings.HasSuffix(e.CalleeName, "connManager.addConn") && len(e.Args) == 1 && strings.HasPrefix(e.Args[0], "southbound/gnmi.newConn(") {
						added = true
					}
					if strings.HasSuffix(e.CalleeName, "connManager.removeConn") && len(e.Args) == 1 {
						removed = true
						removedArg = e.Args[0]
					}
				}
			}
			if !(ready || notReady) {
				continue
			}
			seen["loop"] = true
			o.Site(c.P.Pos(last.Pos) + " state loop iteration")
			// before the loop: a channel that is Ready at once gets its connection at once
			preReady, preAdded := false, false
			cleared := false
			for i := range p.Events {
				e := &p.Events[i]
				if e.Kind == engine.EvLoopEnter {
					break
				}
				if e.Kind == engine.EvCond && strings.HasSuffix(e.Lit.String(), "GetState() == connectivity.Ready") {
					preReady = true
				}
				if e.Kind == engine.EvCall && strings.HasSuffix(e.CalleeName, "connManager.addConn") && len(e.Args) == 1 && strings.HasPrefix(e.Args[0], "southbound/gnmi.newConn(") {
					preAdded = true
				}
			}
			for i := range p.Events {
				if e := &p.Events[i]; e.Kind == engine.EvWrite && e.Local != nil && e.Local.Name() == "conn" && e.RHS == "nil" {
					cleared = true
				}
			}
			switch {
			case preReady != preAdded:
				fail(name, last.Pos, "a channel that is Ready when the goroutine starts gets a connection created and added before the state loop, and only then")
			case ready && !connNil && !connSet:
				fail(name, last.Pos, "a Ready iteration does not look at whether a connection is already registered")
			case notReady && notIdle && !connNil && !connSet:
				fail(name, last.Pos, "an iteration in a state other than Ready/Idle does not look at whether a connection is registered")
			case removed && !cleared:
				fail(name, last.Pos, "after removing the connection the goroutine still holds it: the next Ready state would not create a new one")
			case ready && connNil && !added:
				fail(name, last.Pos, "the channel became Ready with no connection registered, and none is created and added")
			case added && !(ready && connNil):
				fail(name, last.Pos, "a connection is added in the state loop without 'Ready ∧ no connection yet'")
			case notReady && notIdle && connSet && !removed:
				fail(name, last.Pos, "the channel left Ready (and is not Idle) while a connection is registered, and it is not removed: mastership stays with a dead connection")
			case removed && !(notReady && notIdle && connSet):
				fail(name, last.Pos, "a connection is removed in the state loop without 'state other than Ready/Idle ∧ a connection registered'")
			case removed && !strings.Contains(removedArg, "?conn") && !strings.Contains(removedArg, "Conn.ID()"):
				fail(name, last.Pos, "removeConn is given "+removedArg+", not the registered connection's id")
			case idle && (added || removed):
				fail(name, last.Pos, "an Idle channel adds or removes a connection")
			}
		}
	}
	for _, k := range []string{"newConnID", "newConn", "addConn", "removeConn", "loop"} {
		if !seen[k] {
			o.Undecided(k, "anchor not found")
		}
	}
}
