package props

import (
	"fmt"
	"go/ast"
	"go/constant"
	"go/token"
	"go/types"
	"sort"
	"strconv"
	"strings"

	"occheck/internal/engine"
)

func init() {
	register(&Prop{
		ID:    "C13",
		Title: "A refused Set changes nothing; targets and paths resolve as documented",
		Explanation: "Decided: (1) the only store mutator reachable from Server.Set (statically resolved calls) is transaction.Store.Create; (2) every failing check — getTargetInfo, doDelete, doUpdateOrReplace, getTargetVersionOverrides, getTransactionStrategy, newTransaction, the group evaluation — makes Set return an error without reaching Create; the 'no operations' and size-limit tests dominate Create; " +
			"(3) no discarded error: in the functions reachable from the RPC handlers no call binds its error result to _ while using another of its results; (4) addressing: the target of an operation is the prefix target when non-empty, else the operation path's own target; the stored path is the operation's path, or prefix path followed by the operation's path; each operation is recorded in the maps of the target returned for it." +
			" Also: Get resolves targets prefix first (C13.16); a delete is recorded on the parent only for an exactly matched key leaf (C13.17)." +
			" Also: C13.18 failed calls are honoured, C13.19 one path for key check and model lookup.",
		Declined: []string{"correctness of FindPathFromModel / CheckKeyValue over all models", "what the plugin returns for JSON values"},
		Run:      runC13,
		Witness:  []WitnessTarget{{pkgNbGnmi, []string{"Server.Set", "getTargetInfo", "doUpdateOrReplace", "doDelete", "computeChange", "newTransaction"}}},
	})
}

var rpcRoots = []string{
	"northbound/gnmi/v2.Server.Set", "northbound/gnmi/v2.Server.Get", "northbound/gnmi/v2.Server.Subscribe", "northbound/gnmi/v2.Server.Capabilities",
}

func isStoreMutator(name string) bool {
	if !strings.HasPrefix(name, "store/") {
		return false
	}
	for _, m := range []string{".Store.Create", ".Store.Update", ".Store.UpdateStatus", ".Store.Delete"} {
		if strings.HasSuffix(name, m) {
			return true
		}
	}
	return false
}

func runC13(c *engine.Ctx, tier string) {
	// (1) effects
	o := c.Custom("C13.1", "K-effects(reach)", "store mutators reachable from Server.Set = {store/v2/transaction.Store.Create}",
		"a Set can only ever log a transaction; it never touches proposals or configurations directly")
	funcs, sites := c.P.Reach("northbound/gnmi/v2.Server.Set")
	o.Eval(len(sites))
	muts := map[string]string{}
	for _, cs := range sites {
		if isStoreMutator(cs.Callee) {
			muts[cs.Callee] = cs.Pos
		}
	}
	o.Site("Server.Set reaches " + strings.Join(engine.SortedKeys(funcs), ", "))
	for m, pos := range muts {
		if m != "store/v2/transaction.Store.Create" {
			o.Fail(&engine.Violation{Key: "Server.Set|reaches " + m, Pos: pos, Msg: "Server.Set reaches the store mutator " + m})
		}
	}
	if _, ok := muts["store/v2/transaction.Store.Create"]; !ok {
		o.Undecided("Server.Set|Create", "anchor not found: Server.Set no longer reaches transaction.Store.Create")
	}
	o.Done(1)

	// (2) failing checks
	c.Al = engine.NewAliases(c.P, "REQ", "$SetRequest")
	sp, err := setPaths(c)
	create := engine.Sel{Call: "store/v2/transaction.Store.Create"}
	if err != nil {
		oo := c.Custom("C13.2", "K-order", "checks before Create", "")
		oo.Undecided("Server.Set", err.Error())
		oo.Done(0)
	} else {
		_ = sp
		for _, chk := range []struct {
			id, callee string
			min        int
		}{
			{"C13.2a", "northbound/gnmi/v2.Server.getTargetInfo", 3},
			{"C13.2b", "northbound/gnmi/v2.Server.doDelete", 1},
			{"C13.2c", "northbound/gnmi/v2.Server.doUpdateOrReplace", 2},
			{"C13.2d", "northbound/gnmi/v2.getTargetVersionOverrides", 1},
			{"C13.2e", "northbound/gnmi/v2.getTransactionStrategy", 1},
			{"C13.2f", "northbound/gnmi/v2.newTransaction", 1},
			{"C13.2g", "utils.TemporaryEvaluate", 1},
		} {
			outcomeOn(c, engine.Outcome{ID: chk.id, Pkg: pkgNbGnmi, Min: chk.min,
				When: "#everFailed(" + chk.callee + ")", MustNot: []engine.Sel{create, {Call: "store/v2/transaction.Store.Watch"}}, Returns: "err!=nil",
				Why: "a request refused by " + chk.callee + " is answered with an error and logs nothing"}, sp)
		}
		c.Guard(engine.Guard{ID: "C13.2h", Pkg: pkgNbGnmi, Min: 1, Sel: create, PathsOverride: sp,
			Require: "!(((len({@REQ}gnmi.SetRequest.GetUpdate()) + len({@REQ}gnmi.SetRequest.GetReplace())) + len({@REQ}gnmi.SetRequest.GetDelete())) < 1)",
			Why:     "a Set without operations is refused before anything is logged"})
		sizeLimit(c, sp)
	}
	// (3) discarded errors
	discardedErrors(c)
	wholeStringValidity(c)
	// (4) addressing
	addressing(c, sp, err)
	getTargetPrecedence(c)
	errorsHonoured(c)
	keyCheckOnEffectivePath(c)
	deleteLandsOnNamedPath(c)
	targetResolution(c)
	operationChecks(c)
	transactionBuilt(c)
	strategyRange(c)
	// "a path that is not a writable model path": which model paths a delete path lies above is a relation at
	// path element boundaries, like every other 'lies beneath' of the code base (this site was once exempted
	// from the rule as "loose model lookup"; the exemption hid finding F47)
	pathRelationMin(c, "C13.14", []string{pkgUtilsPath}, 1)
	ownKeyCompared(c)
	limitWiring(c)
	// "a path that is not a writable model path": the model check is made on the rendered path string, so a
	// '/' inside one element's name must not render as an element boundary
	escapeAgreementAs(c, "C13.9")
}

// limitWiring: C13.10. The limit Set enforces (C13.4) is the configured one.
func limitWiring(c *engine.Ctx) {
	o := c.Custom("C13.10", "K-dataflow(limit wiring)", "Service.Register builds the Server it registers with gnmiSetSizeLimit = the value of strconv.Atoi applied to the GNMI_SET_SIZE_LIMIT environment variable on the path where the conversion succeeded",
		"the guard of C13.4 reads Server.gnmiSetSizeLimit: a server registered with the zero value never refuses an over-sized Set")
	defer o.Done(1)
	ps, err := c.A.PathsOpt(pkgNbGnmi, engine.PathOpts{Roots: []string{".Service.Register"}, NoInline: true})
	if err != nil || len(ps) == 0 {
		o.Undecided("Service.Register", fmt.Sprintf("no paths: %v", err))
		return
	}
	okPath := false
	for _, p := range ps {
		var atoi *engine.Event
		for i := range p.Events {
			if e := &p.Events[i]; e.Kind == engine.EvCall && e.CalleeName == "strconv.Atoi" && len(e.Args) == 1 && strings.Contains(e.Args[0], `"GNMI_SET_SIZE_LIMIT"`) {
				atoi = e
			}
		}
		for i := range p.Events {
			e := &p.Events[i]
			if e.Kind != engine.EvCall || e.CalleeName != "gnmi.RegisterGNMIServer" || len(e.Args) != 2 {
				continue
			}
			o.Site(c.P.Pos(e.Pos))
			o.Eval(1)
			converted := false
			if atoi != nil {
				for _, l := range engine.CondsBefore(p, i) {
					if l.L == "err("+atoi.Canon+")" && l.RNil && l.Mask == 2 {
						converted = true
					}
				}
			}
			if !converted {
				continue
			}
			okPath = true
			if !strings.Contains(e.Args[1], "gnmiSetSizeLimit:"+atoi.Canon+",") && !strings.Contains(e.Args[1], "gnmiSetSizeLimit:"+atoi.Canon+"}") {
				o.Fail(&engine.Violation{Key: "Service.Register|limit not wired", Pos: c.P.Pos(e.Pos), Func: p.Root.Name(),
					Msg: "the registered Server does not carry the converted GNMI_SET_SIZE_LIMIT in gnmiSetSizeLimit on the path where the conversion succeeded: " + c.Render(e.Args[1])})
				return
			}
		}
	}
	if !okPath {
		o.Fail(&engine.Violation{Key: "Service.Register|limit not read", Pos: pkgNbGnmi, Func: "Service.Register",
			Msg: "no path registers the Server after a successful strconv.Atoi of GNMI_SET_SIZE_LIMIT"})
	}
}

// targetResolution: C13.7. What getTargetInfo does for one operation, path by path.
func targetResolution(c *engine.Ctx) {
	o := c.Custom("C13.7", "K-facts(target resolution)", "in getTargetInfo, with T = the prefix target if non-empty else the operation's own target (both cases occur): targets[T] present => that entry is returned and nothing is written; absent => the Configurable of topo.ID(T) is fetched, type/version come from overrides[T] when present and non-nil, otherwise from the Configurable, the plugin is looked up by exactly that type/version, overrides[T] is then set to the resolved plugin's own name and version (what Get files the configuration under), a failed fetch or a missing plugin returns an error and registers nothing, success registers under targets[T] the very record that is returned, with targetID T, that plugin, type/version from the plugin's info and allocated updates/removes",
		"unknown target or model is refused before anything is logged, and all operations of one target accumulate in one record")
	defer o.Done(6)
	ps, err := c.A.PathsOpt(pkgNbGnmi, engine.PathOpts{Roots: []string{".Server.getTargetInfo"}})
	if err != nil || len(ps) == 0 {
		o.Undecided("getTargetInfo", fmt.Sprintf("no paths: %v", err))
		return
	}
	reported := map[string]bool{}
	fail := func(p *engine.Path, i int, msg string) {
		if reported[msg] {
			return
		}
		reported[msg] = true
		o.Fail(&engine.Violation{Key: "getTargetInfo|" + msg, Pos: c.P.Pos(p.Events[i].Pos), Func: p.Root.Name(), Msg: msg, Path: c.PathTrace(p, i)})
	}
	classes := map[string]int{}
	for _, p := range ps {
		last := len(p.Events) - 1
		ret := &p.Events[last]
		if ret.Kind != engine.EvReturn || len(ret.Results) != 2 {
			continue
		}
		o.Eval(1)
		conds := engine.CondsBefore(p, last)
		has := func(l string) int { // +1 assumed true, -1 assumed false, 0 not assumed
			for _, x := range conds {
				if x.L == l && x.R == "true" {
					if x.Mask == 2 {
						return 1
					}
					return -1
				}
			}
			return 0
		}
		T := ""
		for _, x := range conds {
			if x.L == "len($id)" && x.R == "0" {
				if x.Mask == 4 {
					T = "$id"
				} else if x.Mask&4 == 0 {
					T = "config/v2.TargetID($idPrefix)"
				}
			}
		}
		if T == "" {
			fail(p, last, "a path of getTargetInfo does not decide between the prefix target and the operation's own target (len(prefix target) > 0 is not consulted)")
			continue
		}
		classes[T]++
		o.Site("")
		var targetsWrite, ovWrite, getCfg, getPlugin *engine.Event
		fields := map[string]string{}
		for i := range p.Events[:last] {
			e := &p.Events[i]
			switch {
			case e.Kind == engine.EvWrite && strings.HasPrefix(e.LHS, "$targets["):
				if targetsWrite != nil || e.LHS != "$targets["+T+"]" {
					fail(p, i, "the target record is registered under "+c.Render(e.LHS)+" where $targets["+T+"] (once) is required")
				}
				targetsWrite = e
			case e.Kind == engine.EvWrite && strings.HasPrefix(e.LHS, "$TargetVersionOverrides.Overrides[") && strings.HasSuffix(e.LHS, "]"):
				ovWrite = e
			case e.Kind == engine.EvWrite && strings.HasPrefix(e.Field, "northbound/gnmi/v2.targetInfo."):
				fields[strings.TrimPrefix(e.Field, "northbound/gnmi/v2.targetInfo.")] = e.RHS
			case e.Kind == engine.EvCall && e.CalleeName == "northbound/gnmi/v2.Server.getTargetConfigurable":
				getCfg = e
			case e.Kind == engine.EvCall && e.CalleeName == "pluginregistry.PluginRegistry.GetPlugin":
				getPlugin = e
			}
		}
		okRet := ret.Results[1] == "nil"
		switch has("has($targets[" + T + "])") {
		case 1:
			if ret.Results[0] != "$targets["+T+"]" || !okRet || targetsWrite != nil || getCfg != nil {
				fail(p, last, "a target already seen in this request is not simply returned: its record (and the operations collected in it) would be replaced")
			}
			continue
		case 0:
			fail(p, last, "a path of getTargetInfo does not look the resolved target up in the request's target table")
			continue
		}
		if getCfg == nil || len(getCfg.Args) != 1 || getCfg.Args[0] != "topo.ID("+T+")" {
			fail(p, last, "the Configurable aspect is not fetched for the resolved target topo.ID("+T+")")
			continue
		}
		if !okRet {
			if targetsWrite != nil {
				fail(p, last, "a refused target is registered in the request's target table")
			}
			continue
		}
		// success: everything below must have happened
		if getPlugin == nil || len(getPlugin.Args) != 2 || has("ok("+getPlugin.Canon+")") != 1 {
			fail(p, last, "a target is accepted without a model plugin having been found for it")
			continue
		}
		ov := "$TargetVersionOverrides.Overrides[string(" + T + ")]"
		fromOv := has("has("+ov+")") == 1
		for _, x := range conds {
			if x.L == ov && x.RNil && x.Mask == 2 {
				fromOv = false
			}
		}
		if fromOv {
			if getPlugin.Args[0] != ov+".TargetType" || getPlugin.Args[1] != ov+".TargetVersion" {
				fail(p, last, "with a type/version override for the target, the plugin is looked up by "+c.Render(strings.Join(getPlugin.Args, ", ")))
			}
		} else {
			if !strings.HasPrefix(getPlugin.Args[0], "config/v2.TargetType(") || !strings.HasSuffix(getPlugin.Args[0], "topo.Configurable).Type)") ||
				!strings.HasPrefix(getPlugin.Args[1], "config/v2.TargetVersion(") || !strings.HasSuffix(getPlugin.Args[1], "topo.Configurable).Version)") {
				fail(p, last, "without an override the plugin is looked up by "+c.Render(strings.Join(getPlugin.Args, ", "))+", not by the Configurable aspect's type and version")
			}
		}
		// what travels downstream (and names the configuration) is the resolved plugin's own name and version:
		// the registry finds a plugin whatever the letter case, Get files the configuration under the plugin's name
		plugName := "config/v2.TargetType({" + getPlugin.Canon + "}pluginregistry.ModelPlugin.GetInfo().Info.Name)"
		plugVer := "config/v2.TargetVersion({" + getPlugin.Canon + "}pluginregistry.ModelPlugin.GetInfo().Info.Version)"
		if ovWrite == nil || ovWrite.LHS != ov || !strings.Contains(ovWrite.RHS, "TargetType:"+plugName) || !strings.Contains(ovWrite.RHS, "TargetVersion:"+plugVer) {
			fail(p, last, "the request's overrides do not carry, under the resolved target, the type and version as the resolved plugin spells them: Set would file the change under another configuration than the one Get reads")
		}
		if targetsWrite == nil || !strings.HasPrefix(targetsWrite.RHS, "&northbound/gnmi/v2.targetInfo{") || ret.Results[0] != targetsWrite.RHS {
			fail(p, last, "the record returned for the operation is not the one registered under the resolved target")
			continue
		}
		plug := getPlugin.Canon
		want := map[string]func(string) bool{
			"targetID": func(v string) bool { return v == T },
			"plugin":   func(v string) bool { return v == plug },
			"targetType": func(v string) bool {
				return v == "config/v2.TargetType({"+plug+"}pluginregistry.ModelPlugin.GetInfo().Info.Name)"
			},
			"targetVersion": func(v string) bool {
				return v == "config/v2.TargetVersion({"+plug+"}pluginregistry.ModelPlugin.GetInfo().Info.Version)"
			},
			"persistent": func(v string) bool { return strings.HasSuffix(v, "topo.Configurable).Persistent") },
			"updates":    func(v string) bool { return strings.HasPrefix(v, "make(") },
			"removes":    func(v string) bool { return strings.HasPrefix(v, "make(") },
		}
		for _, f := range []string{"targetID", "plugin", "targetType", "targetVersion", "persistent", "updates", "removes"} {
			if v, ok := fields[f]; !ok || !want[f](v) {
				fail(p, last, "the target record's field "+f+" is "+c.Render(v)+" (missing when empty)")
			}
		}
	}
	if len(classes) == 2 {
		o.Site("getTargetInfo: both target classes (prefix target / own target) resolved")
	} else {
		o.Fail(&engine.Violation{Key: "getTargetInfo|precedence classes", Pos: pkgNbGnmi, Func: "getTargetInfo",
			Msg: fmt.Sprintf("only %d of the two cases {prefix target non-empty, prefix target empty} occur: the prefix target no longer overrides the operation's own target (or the other way round)", len(classes))})
	}
}

// outcomeOn evaluates an Outcome obligation on an explicit path set.
func outcomeOn(c *engine.Ctx, g engine.Outcome, paths []*engine.Path) {
	g.PathsOverride = paths
	c.Outcome(g)
}

func sizeLimit(c *engine.Ctx, sp []*engine.Path) {
	o := c.Custom("C13.4", "K-guard(custom)", "Create ⇐ ¬(limit > 0 ∧ len(targets) ≠ 1); a target whose updates+removes exceed the limit makes Set return an error without Create",
		"GNMI_SET_SIZE_LIMIT bounds what a single Set may log")
	defer o.Done(1)
	for _, s := range engine.FindSites(sp, c.Match(engine.Sel{Call: "store/v2/transaction.Store.Create"})) {
		o.Site(c.P.Pos(s.Ev().Pos) + " Create")
		for _, ref := range s.Refs {
			o.Eval(1)
			conds := engine.CondsBefore(ref.Path, ref.Idx)
			limited, one, unlimited := false, false, false
			for _, l := range conds {
				if l.L == "$recv.gnmiSetSizeLimit" && l.R == "0" {
					if l.Mask == 4 {
						limited = true
					} else if l.Mask == 3 || l.Mask == 2 || l.Mask == 1 {
						unlimited = true
					}
				}
				if strings.HasPrefix(l.L, "len(make(map[config/v2.TargetID]*northbound/gnmi/v2.targetInfo)@") && l.R == "1" && l.Mask == 2 {
					one = true
				}
			}
			if !(unlimited || (limited && one)) {
				o.Fail(&engine.Violation{Key: "Server.Set|target-count limit", Pos: c.P.Pos(s.Ev().Pos), Func: ref.Path.Root.Name(),
					Msg: "Create is reachable with a size limit configured and a number of targets other than 1", Found: c.RenderConds(conds)})
				return
			}
		}
	}
	// per-target count
	n := 0
	for _, p := range sp {
		last := len(p.Events) - 1
		over := false
		for _, l := range engine.CondsBefore(p, last) {
			if l.R == "$recv.gnmiSetSizeLimit" && strings.Contains(l.L, ".updates)") && strings.Contains(l.L, ".removes)") && l.Mask == 4 {
				over = true
			}
			if l.L == "$recv.gnmiSetSizeLimit" && strings.Contains(l.R, ".updates)") && strings.Contains(l.R, ".removes)") && l.Mask == 1 {
				over = true
			}
		}
		if !over {
			continue
		}
		n++
		o.Eval(1)
		r := p.Events[last].Results
		created := false
		for i := range p.Events {
			if p.Events[i].Kind == engine.EvCall && p.Events[i].CalleeName == "store/v2/transaction.Store.Create" {
				created = true
			}
		}
		if created || len(r) != 2 || r[1] == "nil" {
			o.Fail(&engine.Violation{Key: "Server.Set|per-target limit", Pos: c.P.Pos(p.Events[last].Pos), Func: p.Root.Name(), Msg: "a target exceeding the size limit does not make Set fail before Create"})
			return
		}
	}
	if n == 0 {
		o.Undecided("Server.Set|per-target limit", "anchor not found: no path tests len(updates)+len(removes) against the limit")
	}
}

// discardedErrors: error result bound to _ while another result of the call is used.
func discardedErrors(c *engine.Ctx) {
	o := c.Custom("C13.3", "errdiscipline", "in functions reachable from the gNMI handlers no call binds its error result to _ while another result of the same call is used",
		"a check whose error is dropped lets an invalid operation through as a nil value (a Set deleting '/' is logged with a nil change value and crashes the transaction controller)")
	defer o.Done(5)
	reach := map[string]bool{}
	for _, r := range rpcRoots {
		fs, _ := c.P.Reach(r)
		for f := range fs {
			reach[f] = true
		}
	}
	var names []string
	for f := range reach {
		names = append(names, f)
	}
	sort.Strings(names)
	for _, fi := range c.P.Funcs {
		if !reach[fi.Name()] {
			continue
		}
		o.Site("")
		info := fi.Pkg.TypesInfo
		ast.Inspect(fi.Decl.Body, func(n ast.Node) bool {
			as, ok := n.(*ast.AssignStmt)
			if !ok || len(as.Rhs) != 1 || len(as.Lhs) < 2 {
				return true
			}
			call, ok := as.Rhs[0].(*ast.CallExpr)
			if !ok {
				return true
			}
			tup, ok := info.TypeOf(call).(*types.Tuple)
			if !ok || tup.Len() != len(as.Lhs) {
				return true
			}
			o.Eval(1)
			for i := 0; i < tup.Len(); i++ {
				if !isErr(tup.At(i).Type()) {
					continue
				}
				id, ok := as.Lhs[i].(*ast.Ident)
				if !ok || id.Name != "_" {
					continue
				}
				used := false
				for j, l := range as.Lhs {
					if lid, ok := l.(*ast.Ident); j != i && (!ok || lid.Name != "_") {
						used = true
					}
				}
				if used {
					o.Fail(&engine.Violation{Key: fi.Name() + "|error of " + types.ExprString(call.Fun) + " discarded", Pos: c.P.Pos(as.Pos()), Func: fi.Name(),
						Msg: "the error of " + types.ExprString(call.Fun) + " is discarded (_) while its value is used: on failure the value is nil/zero and flows on"})
				}
			}
			return true
		})
	}
}

func isErr(t types.Type) bool {
	n, ok := t.(*types.Named)
	return ok && n.Obj().Pkg() == nil && n.Obj().Name() == "error"
}

// addressing: C13.5.
func addressing(c *engine.Ctx, sp []*engine.Path, err error) {
	o := c.Custom("C13.5", "K-dataflow(addressing)", "getTargetInfo(…, operation's own path target, prefix target); inside: target = prefix target if non-empty else path target; stored path = StrPath(op path) or prefixPath+path (prefix first); the operation is recorded in the target returned for it",
		"the prefix target overrides per-path targets, the effective path is the prefix followed by the path, and each operation lands on exactly the target and path so named")
	defer o.Done(4)
	if err != nil {
		o.Undecided("Server.Set", err.Error())
		return
	}
	prefixT := "config/v2.TargetID({{$SetRequest}gnmi.SetRequest.GetPrefix()}gnmi.Path.GetTarget())"
	// call sites in Set
	for _, s := range engine.FindSites(sp, c.Match(engine.Sel{Call: "northbound/gnmi/v2.Server.getTargetInfo"})) {
		e := s.Ev()
		o.Site(c.P.Pos(e.Pos) + " getTargetInfo(" + strings.Join(e.Args, ", ") + ")")
		o.Eval(1)
		if len(e.Args) != 4 {
			o.Fail(&engine.Violation{Key: "Server.Set|getTargetInfo args", Pos: c.P.Pos(e.Pos), Msg: "unexpected arguments"})
			continue
		}
		own := strings.HasPrefix(e.Args[2], "{elem(") && strings.HasSuffix(e.Args[2], "gnmi.Path.GetTarget()") && strings.Contains(e.Args[2], "{$SetRequest}gnmi.SetRequest.Get")
		if !own || e.Args[3] != prefixT {
			o.Fail(&engine.Violation{Key: "Server.Set|getTargetInfo args#" + c.P.Pos(e.Pos)[strings.LastIndex(c.P.Pos(e.Pos), "/")+1:], Pos: c.P.Pos(e.Pos), Func: "Server.Set",
				Msg: "getTargetInfo is not called with (the operation's own path target, the request's prefix target): " + e.Args[2] + ", " + e.Args[3]})
		}
	}
	// the do* calls operate on the target returned for this very operation and on its own path
	for _, s := range engine.FindSites(sp, c.Match(engine.Sel{CallAny: []string{"northbound/gnmi/v2.Server.doDelete", "northbound/gnmi/v2.Server.doUpdateOrReplace"}})) {
		for _, ref := range s.Refs {
			p := ref.Path
			e := &p.Events[ref.Idx]
			o.Eval(1)
			var gti *engine.Event
			for j := ref.Idx - 1; j >= 0; j-- {
				if x := &p.Events[j]; x.Kind == engine.EvCall && x.CalleeName == "northbound/gnmi/v2.Server.getTargetInfo" && x.Loops == e.Loops {
					gti = x
					break
				}
			}
			if gti == nil || len(e.Args) != 3 || e.Args[2] != gti.Canon || e.Args[0] != "{$SetRequest}gnmi.SetRequest.GetPrefix()" || !strings.HasPrefix(gti.Args[2], "{"+e.Args[1]) {
				o.Fail(&engine.Violation{Key: "Server.Set|operation recorded on its own target", Pos: c.P.Pos(e.Pos), Func: "Server.Set",
					Msg: "the operation is not processed with (request prefix, the operation itself, the target returned by getTargetInfo for it)"})
				return
			}
		}
	}
	// inside getTargetInfo
	gp, err := c.A.PathsOpt(pkgNbGnmi, engine.PathOpts{Roots: []string{".Server.getTargetInfo"}, NoInline: true})
	if err != nil {
		o.Undecided("getTargetInfo", err.Error())
		return
	}
	nT := 0
	for _, p := range gp {
		for i := range p.Events {
			e := &p.Events[i]
			if e.Kind != engine.EvWrite || e.Field != "northbound/gnmi/v2.targetInfo.targetID" {
				continue
			}
			nT++
			o.Eval(1)
			prefixWins := false
			for _, l := range engine.CondsBefore(p, i) {
				if l.L == "len($id)" && l.R == "0" && l.Mask == 4 {
					prefixWins = true
				}
			}
			want := "config/v2.TargetID($idPrefix)"
			if prefixWins {
				want = "$id"
			}
			if e.RHS != want {
				o.Fail(&engine.Violation{Key: "getTargetInfo|target precedence", Pos: c.P.Pos(e.Pos), Func: p.Root.Name(),
					Msg: "the resolved target is " + e.RHS + " where " + want + " is required (prefix target when non-empty, else the path's own target)"})
				return
			}
		}
	}
	if nT > 0 {
		o.Site("getTargetInfo: targetID resolved on all paths")
	} else {
		o.Undecided("getTargetInfo", "anchor not found: no write of targetInfo.targetID")
	}
	// stored paths
	jsonBase := false
	for _, root := range []string{".Server.doUpdateOrReplace", ".Server.doDelete"} {
		dp, err := c.A.PathsOpt(pkgNbGnmi, engine.PathOpts{Roots: []string{root}, NoInline: true})
		if err != nil {
			o.Undecided(root, err.Error())
			continue
		}
		n := 0
		classes := map[bool]bool{}
		for _, p := range dp {
			for i := range p.Events {
				e := &p.Events[i]
				var stored string
				if e.Kind == engine.EvCall && strings.HasSuffix(e.CalleeName, "pluginregistry.ModelPlugin.GetPathValues") && len(e.Args) == 2 {
					// a JSON document is resolved relative to the same effective path
					o.Eval(1)
					opPath, prefix := "utils.StrPath($Update.Path)", "utils.StrPath($Path)"
					noPrefix, noOwn := false, false
					for _, l := range engine.CondsBefore(p, i) {
						if l.L == prefix && l.R == `"/"` && l.Mask == 2 {
							noPrefix = true
						}
						if l.L == opPath && l.R == `"/"` && l.Mask == 2 {
							noOwn = true
						}
					}
					want := `fmt.Sprintf("%s%s",` + prefix + "," + opPath + ")"
					if noPrefix {
						want = opPath
					} else if noOwn {
						want = prefix
					}
					if e.Args[0] != want && !(noOwn && e.Args[0] == prefix) {
						o.Fail(&engine.Violation{Key: root + "|json base path", Pos: c.P.Pos(e.Pos), Func: p.Root.Name(),
							Msg: "the JSON document is resolved relative to " + c.Render(e.Args[0]) + " where " + c.Render(want) + " is required (the prefix followed by the update's own path; the prefix alone only when the own path is empty)"})
						return
					}
					jsonBase = true
					continue
				}
				switch {
				case e.Kind == engine.EvWrite && e.Field == "northbound/gnmi/v2.targetInfo.updates[]" && !strings.Contains(e.LHS, "elem("):
					stored = e.LHS[strings.Index(e.LHS, ".updates[")+len(".updates[") : len(e.LHS)-1]
				case e.Kind == engine.EvWrite && e.Field == "northbound/gnmi/v2.targetInfo.removes" && strings.HasPrefix(e.RHS, "append("):
					stored = strings.TrimSuffix(e.RHS[strings.LastIndex(e.RHS[:len(e.RHS)-1], ".removes,")+len(".removes,"):], ")")
				default:
					continue
				}
				n++
				o.Eval(1)
				if !strings.HasPrefix(e.LHS, "$targetInfo.") {
					o.Fail(&engine.Violation{Key: root + "|recorded elsewhere", Pos: c.P.Pos(e.Pos), Func: p.Root.Name(), Msg: "the operation is recorded in " + e.LHS + ", not in the target passed in"})
					return
				}
				opPath := "utils.StrPath($Update.Path)"
				if root == ".Server.doDelete" {
					opPath = "utils.StrPath($Path'2)"
				}
				prefix := "utils.StrPath($Path)"
				noPrefix, noOwn := false, false
				for _, l := range engine.CondsBefore(p, i) {
					if l.L == prefix && l.R == `"/"` && l.Mask == 2 {
						noPrefix = true
					}
					if l.L == opPath && l.R == `"/"` && l.Mask == 2 {
						noOwn = true
					}
				}
				classes[noPrefix] = true
				want := `fmt.Sprintf("%s%s",` + prefix + "," + opPath + ")"
				if noPrefix {
					want = opPath
				} else if noOwn {
					want = prefix // an empty operation path: the prefix itself names the node (no trailing '/')
				}
				okStored := stored == want
				if root == ".Server.doDelete" && strings.HasPrefix(stored, want+"[:strings.LastIndex("+want+",") {
					okStored = true // the key leaf of a list entry is taken off: the entry itself is deleted
				}
				if !okStored {
					o.Fail(&engine.Violation{Key: root + "|stored path", Pos: c.P.Pos(e.Pos), Func: p.Root.Name(),
						Msg: "the stored path is " + stored + " where " + want + " is required (the operation's path, or prefix path followed by the operation's path)"})
					return
				}
			}
		}
		ownSeen := false
		for _, p := range dp {
			for i := range p.Events {
				if e := &p.Events[i]; e.Kind == engine.EvCond && (e.Lit.L == "utils.StrPath($Update.Path)" || e.Lit.L == "utils.StrPath($Path'2)") && e.Lit.R == `"/"` {
					ownSeen = true
				}
			}
		}
		if n > 0 && !ownSeen {
			o.Fail(&engine.Violation{Key: root + "|empty operation path", Pos: pkgNbGnmi, Func: root,
				Msg: "the empty operation path is not distinguished when the stored path is built: with a non-root prefix the effective path becomes prefix + \"/\" and a valid request is refused"})
		}
		if n > 0 && len(classes) < 2 {
			o.Fail(&engine.Violation{Key: root + "|prefix classes", Pos: pkgNbGnmi, Func: root,
				Msg: "only one of the cases {request prefix empty, request prefix non-empty} is distinguished when the stored path is built"})
		}
		if root == ".Server.doUpdateOrReplace" && !jsonBase {
			o.Undecided(root, "anchor not found: no call of ModelPlugin.GetPathValues")
		}
		if n > 0 {
			o.Site(root + ": stored path checked on every recording path")
		} else {
			o.Undecided(root, "anchor not found: no write of target.updates / target.removes")
		}
	}
}

// wholeStringValidity: C13.6. The path validity helper decides on the whole string.
func wholeStringValidity(c *engine.Ctx) {
	o := c.Custom("C13.6", "helper shape(IsPathValid)", "utils/path.IsPathValid returns nil only on paths that establish that the WHOLE path matches the expression: path == re.FindString(path), or re.MatchString(path) with an expression anchored at both ends",
		"the helper is the only check on the text of delete paths and list keys: an unanchored match accepts any string that merely contains a valid path")
	defer o.Done(1)
	ps, err := c.A.PathsOpt(pkgUtilsPath, engine.PathOpts{Roots: []string{"utils/path.IsPathValid"}, Exact: true, NoInline: true})
	if err != nil || len(ps) == 0 {
		o.Undecided(pkgUtilsPath, fmt.Sprintf("no paths for IsPathValid: %v", err))
		return
	}
	pkg := c.P.Pkg(pkgUtilsPath)
	// pattern of a regexp expression: regexp.MustCompile(<const>) directly, or a package variable so initialised
	patternOf := func(recv string) (string, bool) {
		recv = strings.TrimSuffix(strings.TrimPrefix(recv, "{"), "}")
		arg := ""
		if strings.HasPrefix(recv, "regexp.MustCompile(") && strings.HasSuffix(recv, ")") {
			arg = recv[len("regexp.MustCompile(") : len(recv)-1]
		} else if pkg != nil {
			name := recv[strings.LastIndex(recv, ".")+1:]
			for _, f := range pkg.Syntax {
				for _, d := range f.Decls {
					gd, ok := d.(*ast.GenDecl)
					if !ok || gd.Tok != token.VAR {
						continue
					}
					for _, sp := range gd.Specs {
						vs := sp.(*ast.ValueSpec)
						for i, n := range vs.Names {
							if n.Name == name && i < len(vs.Values) {
								if call, ok := vs.Values[i].(*ast.CallExpr); ok && len(call.Args) == 1 && types.ExprString(call.Fun) == "regexp.MustCompile" {
									if tv, ok := pkg.TypesInfo.Types[call.Args[0]]; ok && tv.Value != nil {
										return constant.StringVal(tv.Value), true
									}
								}
							}
						}
					}
				}
			}
			return "", false
		}
		if strings.HasPrefix(arg, "\"") || strings.HasPrefix(arg, "`") {
			if s, err := strconv.Unquote(arg); err == nil {
				return s, true
			}
		}
		if cst := c.P.LookupConst(arg); cst != nil {
			return constant.StringVal(cst.Val()), true
		}
		// unexported constant of the package
		if pkg != nil {
			if obj, ok := pkg.Types.Scope().Lookup(arg[strings.LastIndex(arg, ".")+1:]).(*types.Const); ok {
				return constant.StringVal(obj.Val()), true
			}
		}
		return "", false
	}
	for _, p := range ps {
		last := &p.Events[len(p.Events)-1]
		if last.Kind != engine.EvReturn || len(last.Results) != 1 || last.Results[0] != "nil" {
			continue
		}
		o.Site(c.P.Pos(last.Pos) + " return nil")
		o.Eval(1)
		whole := false
		for _, l := range engine.CondsBefore(p, len(p.Events)-1) {
			a, b := l.L, l.R
			if b == "$path" {
				a, b = b, a
			}
			if a == "$path" && l.Mask == 2 && strings.HasSuffix(b, "regexp.Regexp.FindString($path)") {
				whole = true
			}
			if l.R == "true" && l.Mask == 2 && strings.HasSuffix(l.L, "regexp.Regexp.MatchString($path)") {
				if pat, ok := patternOf(l.L[:strings.Index(l.L, "}")+1]); ok && strings.HasPrefix(pat, "^") && strings.HasSuffix(pat, "$") && !strings.HasSuffix(pat, `\$`) {
					whole = true
				}
			}
		}
		if !whole {
			o.Fail(&engine.Violation{Key: "utils/path.IsPathValid|accepts without a whole-string match", Pos: c.P.Pos(last.Pos), Func: p.Root.Name(),
				Msg:   "nil is returned on a path that does not establish that the whole path matches (neither path == FindString(path) nor MatchString on an expression anchored with ^…$)",
				Found: engine.LitsString(engine.CondsBefore(p, len(p.Events)-1))})
		}
	}
}

// operationChecks: C13.8. Inside the per-operation helpers and the functions that build the
// transaction, a failed check ends the function with that error and records nothing, and an operation
// is recorded only after the checks of its kind went through.
func operationChecks(c *engine.Ctx) {
	ps, err := c.A.PathsOpt(pkgNbGnmi, engine.PathOpts{Roots: []string{".Server.doUpdateOrReplace", ".Server.doDelete", "v2.computeChange", "v2.computeChanges", "v2.newTransaction"}, NoInline: true})
	if err != nil || len(ps) == 0 {
		o := c.Custom("C13.8", "load", "paths of the operation helpers", "")
		o.Undecided(pkgNbGnmi, fmt.Sprintf("no paths: %v", err))
		o.Done(0)
		return
	}
	upd := engine.Sel{Field: "northbound/gnmi/v2.targetInfo.updates[]"}
	rem := engine.Sel{Field: "northbound/gnmi/v2.targetInfo.removes"}
	const (
		find   = "utils/path.FindPathFromModel"
		conv   = "utils/v2/values.GnmiTypedValueToNativeType"
		keychk = "utils/path.CheckKeyValue"
		jsonpv = "pluginregistry.ModelPlugin.GetPathValues"
		newcv  = "utils/v2/values.NewChangeValue"
	)
	for i, x := range []struct {
		root, callee string
		min          int
	}{
		{"doUpdateOrReplace", find, 1}, {"doUpdateOrReplace", conv, 1}, {"doUpdateOrReplace", keychk, 1}, {"doUpdateOrReplace", jsonpv, 1},
		{"doDelete", find, 1},
		{"computeChange", newcv, 2}, {"computeChanges", "northbound/gnmi/v2.computeChange", 1}, {"newTransaction", "northbound/gnmi/v2.computeChanges", 1},
	} {
		c.Outcome(engine.Outcome{ID: fmt.Sprintf("C13.8%c", 'a'+i), Pkg: pkgNbGnmi, Root: x.root, Min: x.min, PathsOverride: ps,
			When: "#everFailed(" + x.callee + ")", MustNot: []engine.Sel{upd, rem}, Returns: "err!=nil",
			Why: "a refusal by " + x.callee + " inside " + x.root + " is the refusal of the Set: it is returned, and the operation is not recorded"})
	}
	jv := "{{$Update}gnmi.Update.GetVal()}gnmi.TypedValue.GetJsonVal()"
	c.Guard(engine.Guard{ID: "C13.8i", Pkg: pkgNbGnmi, Min: 2, Sel: upd, PathsOverride: ps,
		Require: "(" + jv + " != nil && #ok(" + jsonpv + ") && #ok(" + find + ") && #ok(" + keychk + ")) || (" + jv + " == nil && #ok(" + find + ") && #ok(" + conv + ") && #ok(" + keychk + "))",
		Why:     "an update is recorded only after the model accepted it: a scalar through the writable-path, type and list-key checks, and every path a JSON document decomposes to (the plugin decomposes, the checking is Set's) through the writable-path and list-key checks as well"})
	c.Guard(engine.Guard{ID: "C13.8j", Pkg: pkgNbGnmi, Min: 1, Sel: rem, PathsOverride: ps,
		Require: "#ok(" + find + ")",
		Why:     "a delete is recorded only for a path the model knows as writable"})
	keyValuesChecked(c, "C13.12", ps)
}

// keyValuesChecked: the text of an operation's path is what is logged, stored, parsed again by the apply
// step and reported back. Every list key value of it is held against the key-value pattern before the
// operation is recorded — for deletes as for updates, for every key and not just the first.
func keyValuesChecked(c *engine.Ctx, id string, ps []*engine.Path) {
	const chk = "northbound/gnmi/v2.checkPathIndexValues"
	c.Guard(engine.Guard{ID: id + "a", Pkg: pkgNbGnmi, Min: 1, PathsOverride: ps,
		Sel:     engine.Sel{Field: "northbound/gnmi/v2.targetInfo.removes"},
		Require: "#ok(" + chk + ")",
		Why:     "a delete path whose key values the path parser would refuse (an empty value renders as [k=]) must be refused, not committed: the stored text can never be read back and the target's proposals block behind it"})
	c.Guard(engine.Guard{ID: id + "b", Pkg: pkgNbGnmi, Min: 2, PathsOverride: ps,
		Sel:     engine.Sel{Field: "northbound/gnmi/v2.targetInfo.updates[]"},
		Require: "#ok(" + chk + ")",
		Why:     "the same for the path of a scalar update and for every path a JSON document decomposes to"})
	o := c.Custom(id+"c", "helper shape(checkPathIndexValues)", "checkPathIndexValues ranges over every index value ExtractIndexNames finds in the path and returns the error of CheckPathIndexIsValid for the first that fails; nil only after all passed",
		"every key value, not only the first")
	defer o.Done(1)
	hp, err := c.A.PathsOpt(pkgNbGnmi, engine.PathOpts{Roots: []string{"v2.checkPathIndexValues"}, NoInline: true})
	if err != nil || len(hp) == 0 {
		o.Undecided(chk, fmt.Sprintf("no paths: %v", err))
		return
	}
	iterRange := "utils/path.ExtractIndexNames($path).1"
	for _, p := range hp {
		last := &p.Events[len(p.Events)-1]
		if last.Kind != engine.EvReturn || len(last.Results) != 1 {
			continue
		}
		o.Eval(1)
		o.Site("")
		var loop, call *engine.Event
		failed := false
		for i := range p.Events {
			e := &p.Events[i]
			switch {
			case e.Kind == engine.EvLoopEnter:
				loop = e
			case e.Kind == engine.EvCall && e.CalleeName == "utils/path.CheckPathIndexIsValid":
				call = e
			case e.Kind == engine.EvCond && call != nil && e.Lit.L == "err("+call.Canon+")" && e.Lit.RNil && e.Lit.Mask == 5:
				failed = true
			}
		}
		switch {
		case loop == nil || loop.Range != iterRange:
			o.Fail(&engine.Violation{Key: chk + "|range", Pos: c.P.Pos(last.Pos), Func: p.Root.Name(), Msg: "the helper does not range over the index values of the path (ExtractIndexNames(path), second result)"})
			return
		case call != nil && (len(call.Args) != 1 || call.Args[0] != "elem("+iterRange+")"):
			o.Fail(&engine.Violation{Key: chk + "|argument", Pos: c.P.Pos(call.Pos), Func: p.Root.Name(), Msg: "CheckPathIndexIsValid is not applied to the iterated index value: " + c.Render(strings.Join(call.Args, ","))})
			return
		case failed && last.Results[0] == "nil":
			o.Fail(&engine.Violation{Key: chk + "|failure dropped", Pos: c.P.Pos(last.Pos), Func: p.Root.Name(), Msg: "an index value that fails the check does not make the helper return an error"})
			return
		}
	}
}

// transactionBuilt: C13.11. What is logged is what was collected, target by target and path by path.
func transactionBuilt(c *engine.Ctx) {
	o := c.Custom("C13.11", "K-dataflow(collected operations → transaction)", "computeChange: every update (path, value) becomes values[path] = NewChangeValue(path, value, false), every remove values[path] = NewChangeValue(path, empty, true), and the PathValues returned carries that map; computeChanges: changes[target id] = computeChange(that target) and that map is returned; newTransaction: Change.Values = computeChanges(targets), TargetVersionOverrides, TransactionStrategy and Username are the arguments, and the literal is what is returned",
		"each operation lands on exactly the target and path so named — the transaction record is the only thing the controllers see of the request")
	defer o.Done(3)
	ps, err := c.A.PathsOpt(pkgNbGnmi, engine.PathOpts{Roots: []string{"v2.computeChange", "v2.computeChanges", "v2.newTransaction"}, NoInline: true})
	if err != nil || len(ps) == 0 {
		o.Undecided(pkgNbGnmi, fmt.Sprintf("no paths: %v", err))
		return
	}
	reported := map[string]bool{}
	fail := func(p *engine.Path, msg string) {
		if !reported[msg] {
			reported[msg] = true
			last := len(p.Events) - 1
			o.Fail(&engine.Violation{Key: p.Root.Name() + "|" + msg, Pos: c.P.Pos(p.Events[last].Pos), Func: p.Root.Name(), Msg: msg, Path: c.PathTrace(p, last)})
		}
	}
	base := func(s string) string { // strip version
		if i := strings.Index(s, "#"); i >= 0 {
			return s[:i]
		}
		return s
	}
	seen := map[string]bool{}
	for _, p := range ps {
		last := &p.Events[len(p.Events)-1]
		if last.Kind != engine.EvReturn || len(last.Results) != 2 || last.Results[1] != "nil" {
			continue
		}
		o.Eval(1)
		name := p.Root.Name()[strings.LastIndex(p.Root.Name(), ".")+1:]
		seen[name] = true
		iter := map[string]bool{}
		writes := map[string]string{}
		fields := map[string]string{}
		for i := range p.Events {
			e := &p.Events[i]
			switch {
			case e.Kind == engine.EvLoopEnter && e.Range != "":
				// iterated unless the very next event closes the loop
				if i+1 < len(p.Events) && p.Events[i+1].Kind != engine.EvLoopExit {
					iter[e.Range] = true
				}
			case e.Kind == engine.EvWrite && e.Field == "" || e.Kind == engine.EvWrite && !strings.Contains(e.Field, "."):
				writes[base(e.LHS)] = e.RHS
			case e.Kind == engine.EvWrite:
				fields[e.Field] = e.RHS
			}
		}
		switch name {
		case "computeChange":
			// deletes are collected before updates, so that an update of a path the request also deletes remains
			ri, ui := -1, -1
			for i := range p.Events {
				if e := &p.Events[i]; e.Kind == engine.EvLoopEnter {
					if e.Range == "$targetInfo.removes" && ri < 0 {
						ri = i
					}
					if e.Range == "$targetInfo.updates" && ui < 0 {
						ui = i
					}
				}
			}
			if ri < 0 || ui < 0 || ri > ui {
				fail(p, "the updates are collected before the deletes: a delete overwrites an update of the same path (gNMI processes deletes first, the update is what remains)")
			}
			m := ""
			if v, ok := fields["config/v2.PathValues.Values"]; ok {
				m = base(v)
			}
			if !strings.HasPrefix(m, "make(map[string]*config/v2.PathValue)") || !strings.HasPrefix(last.Results[0], "&config/v2.PathValues{Values:"+m) {
				fail(p, "the change returned for a target does not carry the map the operations were collected in")
				continue
			}
			if iter["$targetInfo.updates"] {
				if got := writes[m+"[key($targetInfo.updates)]"]; got != "utils/v2/values.NewChangeValue(key($targetInfo.updates),*elem($targetInfo.updates),false)" {
					fail(p, "an update is not logged as values[path] = NewChangeValue(path, value, false): "+c.Render(got))
				}
			}
			if iter["$targetInfo.removes"] {
				if got := writes[m+"[elem($targetInfo.removes)]"]; got != "utils/v2/values.NewChangeValue(elem($targetInfo.removes),*config/v2.NewTypedValueEmpty(),true)" {
					fail(p, "a delete is not logged as values[path] = NewChangeValue(path, empty, true): "+c.Render(got))
				}
			}
		case "computeChanges":
			m := base(last.Results[0])
			if !strings.HasPrefix(m, "make(map[config/v2.TargetID]*config/v2.PathValues)") {
				fail(p, "computeChanges does not return the map it fills")
				continue
			}
			if iter["$targets"] {
				if got := writes[m+"[key($targets)]"]; got != "northbound/gnmi/v2.computeChange(elem($targets))" {
					fail(p, "a target's change is not logged under that target's id: "+c.Render(got))
				}
			}
		case "newTransaction":
			for f, want := range map[string]string{
				"config/v2.ChangeTransaction.Values":           "northbound/gnmi/v2.computeChanges($targets)",
				"config/v2.Transaction.TargetVersionOverrides": "$TargetVersionOverrides",
				"config/v2.Transaction.TransactionStrategy":    "$TransactionStrategy",
				"config/v2.Transaction.Username":               "$username",
			} {
				if fields[f] != want {
					fail(p, "the transaction's "+f[strings.LastIndex(f, ".")+1:]+" is "+c.Render(fields[f])+" where "+c.Render(want)+" is required")
				}
			}
			if !strings.HasPrefix(last.Results[0], "&config/v2.Transaction{") {
				fail(p, "newTransaction does not return the record it built")
			}
		}
	}
	for _, n := range []string{"computeChange", "computeChanges", "newTransaction"} {
		if seen[n] {
			o.Site(n)
		}
	}
}

// strategyRange: C13.13. Enumerations travel as plain integers; the handlers decide with == on named
// values, so a value outside the enumeration falls through every arm (Set's wait loop never answers).
func strategyRange(c *engine.Ctx) {
	o := c.Custom("C13.13", "range(enumeration of an extension)", "getTransactionStrategy returns a strategy taken from the request only on paths that found both Synchronicity and Isolation in the generated <Enum>_name tables",
		"a malformed extension is refused before anything is logged; a synchronicity the wait loop does not know would be logged, carried out and never answered")
	defer o.Done(1)
	ps, err := c.A.PathsOpt(pkgNbGnmi, engine.PathOpts{Roots: []string{"v2.getTransactionStrategy"}, NoInline: true})
	if err != nil || len(ps) == 0 {
		o.Undecided("getTransactionStrategy", fmt.Sprintf("no paths: %v", err))
		return
	}
	for _, p := range ps {
		last := &p.Events[len(p.Events)-1]
		if last.Kind != engine.EvReturn || len(last.Results) != 2 || last.Results[1] != "nil" || !strings.HasPrefix(last.Results[0], "*") {
			continue
		}
		o.Site(c.P.Pos(last.Pos))
		o.Eval(1)
		src := strings.TrimPrefix(last.Results[0], "*")
		for _, f := range []string{"Synchronicity", "Isolation"} {
			want := "has(config/v2.TransactionStrategy_" + f + "_name[int32(" + src + "." + f + ")])"
			ok := false
			for _, l := range engine.CondsBefore(p, len(p.Events)-1) {
				if l.L == want && l.R == "true" && l.Mask == 2 {
					ok = true
				}
			}
			if !ok {
				o.Fail(&engine.Violation{Key: "getTransactionStrategy|" + f + " not range-checked", Pos: c.P.Pos(last.Pos), Func: p.Root.Name(),
					Msg: "the strategy of the request is returned without its " + f + " having been found in TransactionStrategy_" + f + "_name: a value outside the enumeration is accepted"})
				return
			}
		}
	}
}

// ownKeyCompared: C13.15. "a list-key leaf whose value contradicts its key": its key is the key of its own
// list entry — the path element directly above the leaf — not any index of that name further up.
func ownKeyCompared(c *engine.Ctx) {
	o := c.Custom("C13.15", "helper shape(CheckKeyValue)", "utils/path.CheckKeyValue returns nil for a key leaf (IsAKey) only on a path that compared AttrName with an index name taken from ExtractIndexNames of the element directly above the leaf (SplitPath(path)[len-2]), never from the indexes of the whole path",
		"in nested lists keyed by the same name an outer key must not vouch for an inner key leaf")
	defer o.Done(1)
	ps, err := c.A.PathsOpt(pkgUtilsPath, engine.PathOpts{Roots: []string{"utils/path.CheckKeyValue"}, Exact: true, NoInline: true})
	if err != nil || len(ps) == 0 {
		o.Undecided("CheckKeyValue", fmt.Sprintf("no paths: %v", err))
		return
	}
	const own = "utils/path.ExtractIndexNames(utils.SplitPath($path)[(len(utils.SplitPath($path)) - 2)])"
	for _, p := range ps {
		last := &p.Events[len(p.Events)-1]
		if last.Kind != engine.EvReturn || len(last.Results) != 1 || last.Results[0] != "nil" {
			continue
		}
		isKey, whole, ownEq := false, "", false
		for i := range p.Events {
			e := &p.Events[i]
			if e.Kind != engine.EvCond {
				continue
			}
			if e.Lit.L == "$ReadWritePath.IsAKey" && e.Lit.R == "true" && e.Lit.Mask == 2 {
				isKey = true
			}
			if e.Lit.L == "$ReadWritePath.AttrName" && e.Lit.Mask == 2 && strings.HasPrefix(e.Lit.R, "elem(") {
				if e.Lit.R == "elem("+own+")" {
					ownEq = true
				} else {
					whole = e.Lit.R
				}
			}
		}
		if !isKey {
			continue // not a key leaf (or the flag was not consulted on this path: nothing is vouched for)
		}
		o.Site("")
		o.Eval(1)
		if !ownEq {
			o.Fail(&engine.Violation{Key: "utils/path.CheckKeyValue|key leaf accepted without its own key", Pos: c.P.Pos(last.Pos), Func: p.Root.Name(),
				Msg: "a key leaf is accepted on a path that did not compare it with a key of the element directly above it (compared with: " + c.Render(whole) + "): an outer list's key of the same name vouches for it"})
			return
		}
	}
}

// getTargetPrecedence: C13.16 — Get resolves the target of a path as Set and Subscribe do (finding F61): wherever
// the own target of a request path is *used* (handed to a call, used as a key, stored), the path condition says
// that the prefix names no target. Tests of the own target (== "", == "*") are not uses.
func getTargetPrecedence(c *engine.Ctx) {
	o := c.Custom("C13.16", "K-sibling(target precedence)", "in Server.processRequest and Server.processStateOrOperationalRequest the own target of a request path is used only on paths on which the prefix target is empty (or there is no prefix)",
		"the prefix target overrides per-path targets: a Get names the same target as the Set with the same addressing")
	defer o.Done(2)
	own := func(s string) bool {
		i := strings.Index(s, "elem({$GetRequest}gnmi.GetRequest.GetPath())")
		if i < 0 {
			return false
		}
		rest := s[i+len("elem({$GetRequest}gnmi.GetRequest.GetPath())"):]
		return strings.HasPrefix(rest, ".Target") || strings.HasPrefix(rest, "}gnmi.Path.GetTarget()")
	}
	prefixTarget := func(s string) bool {
		return strings.Contains(s, "gnmi.GetRequest.GetPrefix()") && (strings.Contains(s, ".Target") || strings.Contains(s, "gnmi.Path.GetTarget()"))
	}
	for _, root := range []string{".Server.processRequest", ".Server.processStateOrOperationalRequest"} {
		gp, err := c.A.PathsOpt(pkgNbGnmi, engine.PathOpts{Roots: []string{root}, NoInline: true})
		if err != nil {
			o.Undecided(root, err.Error())
			continue
		}
		uses := 0
		reported := map[string]bool{}
		for _, p := range gp {
			for i := range p.Events {
				e := &p.Events[i]
				used := false
				switch e.Kind {
				case engine.EvCall:
					if e.CalleeName == "config/v2.TargetID" || strings.HasSuffix(e.CalleeName, "gnmi.Path.GetTarget") {
						continue // the conversion / getter itself
					}
					for _, a := range e.Args {
						used = used || own(a)
					}
				case engine.EvWrite:
					used = own(e.LHS) || own(e.RHS)
				}
				if !used {
					continue
				}
				uses++
				o.Eval(1)
				ok := false
				for _, l := range engine.CondsBefore(p, i) {
					if prefixTarget(l.L) && l.R == `""` && l.Mask == 2 {
						ok = true
					}
					if strings.HasSuffix(l.L, "gnmi.GetRequest.GetPrefix()") && l.RNil && l.Mask == 2 {
						ok = true
					}
				}
				if !ok && !reported[c.P.Pos(e.Pos)] {
					reported[c.P.Pos(e.Pos)] = true
					o.Fail(&engine.Violation{Key: strings.TrimPrefix(root, ".") + "|own target used without consulting the prefix target", Pos: c.P.Pos(e.Pos), Func: p.Root.Name(),
						Msg: "the own target of a request path is used on a path that does not establish that the prefix target is empty: Get lets the path's target win where Set and Subscribe let the prefix win"})
				}
			}
		}
		if uses > 0 {
			o.Site(strings.TrimPrefix(root, ".") + ": own path target used under 'prefix target empty' only")
		} else {
			o.Undecided(root, "anchor not found: the own target of a request path is not used in "+root)
		}
	}
}

// deleteLandsOnNamedPath: C13.17 (seed C13-r41). doDelete records the path the request names. The one licensed
// widening — a key leaf addressed directly is recorded as its list entry — needs the model lookup to have matched
// the path EXACTLY: for a container the lookup answers with "something beneath the path", and when that is a key
// leaf an unguarded cut records the parent of the named node.
func deleteLandsOnNamedPath(c *engine.Ctx) { deleteLandsOnNamedPathAs(c, "C13.17") }

func deleteLandsOnNamedPathAs(c *engine.Ctx, id string) {
	o := c.Custom(id, "K-guard(custom)", "doDelete: a recorded delete path that is a cut of the named path (path[:LastIndex(path, \"/\")]) ⇐ FindPathFromModel matched exactly ∧ the matched model path is a key ∧ the path does not end in ']'; every other recorded path is the named path itself",
		"each operation lands on exactly the target and path so named")
	defer o.Done(2)
	ps, err := c.A.PathsOpt(pkgNbGnmi, engine.PathOpts{Roots: []string{".Server.doDelete"}, NoInline: true})
	if err != nil {
		o.Undecided("doDelete", err.Error())
		return
	}
	cut, whole := 0, 0
	for _, p := range ps {
		for i := range p.Events {
			e := &p.Events[i]
			if e.Kind != engine.EvWrite || e.Field != "northbound/gnmi/v2.targetInfo.removes" || !strings.HasPrefix(e.RHS, "append(") {
				continue
			}
			o.Eval(1)
			if !strings.Contains(e.RHS, "[:strings.LastIndex(") {
				whole++
				continue
			}
			cut++
			exact, isKey, noBracket := false, false, false
			for _, l := range engine.CondsBefore(p, i) {
				if l.R != "true" {
					continue
				}
				switch {
				case strings.HasPrefix(l.L, "utils/path.FindPathFromModel(") && strings.HasSuffix(l.L, ")") && l.Mask == 2:
					exact = true
				case strings.HasPrefix(l.L, "utils/path.FindPathFromModel(") && strings.HasSuffix(l.L, ".IsAKey") && l.Mask == 2:
					isKey = true
				case strings.HasPrefix(l.L, "strings.HasSuffix(") && strings.HasSuffix(l.L, `,"]")`) && l.Mask == 5:
					noBracket = true
				}
			}
			if !exact || !isKey || !noBracket {
				o.Fail(&engine.Violation{Key: "Server.doDelete|recorded path cut without an exact key-leaf match", Pos: c.P.Pos(e.Pos), Func: p.Root.Name(),
					Msg:   fmt.Sprintf("the delete is recorded on the parent of the named path on a path that does not establish all of: exact model match (%v), matched path is a key (%v), path does not end in ']' (%v)", exact, isKey, noBracket),
					Found: c.RenderConds(engine.CondsBefore(p, i))})
				return
			}
		}
	}
	if cut > 0 {
		o.Site("doDelete: key-leaf delete recorded as its list entry, under the exact-match guard")
	}
	if whole > 0 {
		o.Site("doDelete: every other delete recorded on the named path")
	}
}

// errorsHonoured: C13.18 (seed C13-r52). In the functions Server.Set reaches, a branch taken because a call
// failed (`if err != nil { … }` on an error the function obtained from a call) leaves the function or the loop
// iteration: a refusal that is only logged lets the request go on with the zero value the failed call left behind
// (an entity without the Configurable aspect becomes a target).
func errorsHonoured(c *engine.Ctx) {
	o := c.Custom("C13.18", "K-err(honoured)", "in the module functions statically reachable from Server.Set, the body of `if err != nil` (err of type error) contains a return, a branch statement or a panic, or assigns err",
		"a Set that is refused before being logged creates no transaction: every failing check ends the request")
	defer o.Done(10)
	funcs, _ := c.P.Reach("northbound/gnmi/v2.Server.Set")
	for _, fi := range c.P.Funcs {
		if !funcs[fi.Name()] || !strings.HasPrefix(fi.Name(), "northbound/") {
			continue
		}
		info := fi.Pkg.TypesInfo
		ast.Inspect(fi.Decl.Body, func(n ast.Node) bool {
			ifs, ok := n.(*ast.IfStmt)
			if !ok {
				return true
			}
			be, ok := ast.Unparen(ifs.Cond).(*ast.BinaryExpr)
			if !ok || be.Op != token.NEQ {
				return true
			}
			id, ok := ast.Unparen(be.X).(*ast.Ident)
			if !ok || types.ExprString(be.Y) != "nil" {
				return true
			}
			if t := info.TypeOf(id); t == nil || !isErr(t) {
				return true
			}
			o.Site("")
			o.Eval(1)
			leaves := false
			ast.Inspect(ifs.Body, func(m ast.Node) bool {
				switch x := m.(type) {
				case *ast.ReturnStmt, *ast.BranchStmt:
					leaves = true
				case *ast.CallExpr:
					if f, ok := x.Fun.(*ast.Ident); ok && f.Name == "panic" {
						leaves = true
					}
				case *ast.AssignStmt:
					for _, l := range x.Lhs {
						if lid, ok := l.(*ast.Ident); ok && info.Uses[lid] == info.Uses[id] && info.Uses[id] != nil {
							leaves = true // the error is replaced (classified, wrapped) and handled further down
						}
					}
				}
				return !leaves
			})
			if !leaves {
				o.Fail(&engine.Violation{Key: fi.Name() + "|failed call only noted", Pos: c.P.Pos(ifs.Pos()), Func: fi.Name(),
					Msg: "the branch for a failed call (`" + types.ExprString(ifs.Cond) + "`) neither returns nor leaves the iteration: the request goes on with what the failed call left behind"})
			}
			return true
		})
	}
}

// keyCheckOnEffectivePath: C13.19 (seed C13-r51). The key-leaf check, the model lookup and the stored path of an
// update all speak about ONE path: the effective one (prefix followed by the operation's own path). A check made
// on the relative path sees no list key when the prefix carries the entry, and accepts a key leaf that contradicts it.
func keyCheckOnEffectivePath(c *engine.Ctx) {
	o := c.Custom("C13.19", "K-dataflow(same path)", "doUpdateOrReplace: the path given to pathutils.CheckKeyValue is the path given to pathutils.FindPathFromModel on the same path of the function",
		"a list-key leaf whose value contradicts its key is refused, wherever the request puts the key (prefix or path)")
	defer o.Done(1)
	ps, err := c.A.PathsOpt(pkgNbGnmi, engine.PathOpts{Roots: []string{".Server.doUpdateOrReplace"}, NoInline: true})
	if err != nil {
		o.Undecided("doUpdateOrReplace", err.Error())
		return
	}
	reported := false
	for _, p := range ps {
		find, check := "", ""
		var pos token.Pos
		for i := range p.Events {
			e := &p.Events[i]
			if e.Kind != engine.EvCall || len(e.Args) == 0 {
				continue
			}
			switch e.CalleeName {
			case "utils/path.FindPathFromModel":
				find = e.Args[0]
			case "utils/path.CheckKeyValue":
				check, pos = e.Args[0], e.Pos
			}
		}
		if check == "" {
			continue
		}
		o.Site(c.P.Pos(pos) + " CheckKeyValue")
		o.Eval(1)
		if find != "" && check != find && !reported {
			reported = true
			o.Fail(&engine.Violation{Key: "Server.doUpdateOrReplace|key check on another path than the model lookup", Pos: c.P.Pos(pos), Func: p.Root.Name(),
				Msg: "CheckKeyValue is given " + c.Render(check) + " while the model lookup (and the stored path) use " + c.Render(find) + ": a key carried by the prefix is not held against the key leaf"})
		}
	}
}
