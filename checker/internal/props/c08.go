package props

import (
	"fmt"
	"sort"
	"strings"

	"occheck/internal/engine"
)

func init() {
	register(&Prop{
		ID:    "C08",
		Title: "Every Set and rollback request is answered, and the answer is truthful",
		Explanation: "Decided: (1) the wait loops of Server.Set and Server.RollbackTransaction, evaluated over Synchronicity × Status.State (and Failure nil? × Failure.Type): success exit for (ASYNC, COMMITTED), (ASYNC, APPLIED) and (SYNC, APPLIED), error exit for (·, FAILED) with the class table(Failure.Type) (Unknown when absent), keep waiting otherwise — in particular the handler never keeps waiting for a transaction that has already passed the awaited stage; " +
			"(2) transactions.Create dominates Watch, whose options are WithReplay() and WithTransactionID of the created record; the response's TransactionInfo{ID, Index} and the result list are built from that record, with op DELETE iff the value is a tombstone; (3) the Failure.Type → error table is total over the enum in both handlers; (4) the store registers the watcher before replaying (C15).",
		Declined: []string{"that events are actually delivered, and when (timing)", "the content of paths in the result list beyond their source"},
		Run:      runC08,
		Witness:  []WitnessTarget{{pkgNbGnmi, []string{"Server.Set"}}, {pkgNbAdmin, []string{"RollbackTransaction"}}},
	})
}

var failureToCtor = map[string]string{
	"UNKNOWN": "NewUnknown", "CANCELED": "NewCanceled", "NOT_FOUND": "NewNotFound", "ALREADY_EXISTS": "NewAlreadyExists", "UNAUTHORIZED": "NewUnauthorized",
	"FORBIDDEN": "NewForbidden", "CONFLICT": "NewConflict", "INVALID": "NewInvalid", "UNAVAILABLE": "NewUnavailable", "NOT_SUPPORTED": "NewNotSupported",
	"TIMEOUT": "NewTimeout", "INTERNAL": "NewInternal",
}

func setPaths(c *engine.Ctx) ([]*engine.Path, error) {
	return c.A.PathsOpt(pkgNbGnmi, engine.PathOpts{Roots: []string{".Server.Set"}, NoInline: true, MaxPaths: 60000})
}

func rollbackPaths(c *engine.Ctx) ([]*engine.Path, error) {
	return c.A.PathsOpt(pkgNbAdmin, engine.PathOpts{Roots: []string{".Server.RollbackTransaction"}, NoInline: true})
}

func runC08(c *engine.Ctx, tier string) {
	sp, err1 := setPaths(c)
	rp, err2 := rollbackPaths(c)
	waitTable(c, "C08.1a", "Server.Set", sp, err1)
	waitTable(c, "C08.1b", "Server.RollbackTransaction", rp, err2)
	extensionSearch(c)
	createWatchRespond(c, "C08.2a", "Server.Set", sp, err1, true)
	createWatchRespond(c, "C08.2b", "Server.RollbackTransaction", rp, err2, false)
	// the handler learns the outcome only through the transaction store's watch: the watcher must be
	// registered before the replay read, and must stay registered while other watchers of the record leave
	watchOrder(c, "C08.4a", pkgStoreTxV2)
	registryCleanup(c, "C08.4b", pkgStoreTxV2, 3)
	// and the events themselves keep coming: the store's dispatcher survives a bad event
	dispatcherLives(c, "C08.4c", pkgStoreTxV2, 1)
	// a handler that could not subscribe, or could not build its answer, says so instead of waiting or answering half
	for _, h := range []struct {
		id, pkg string
		paths   []*engine.Path
		err     error
		callees []string
	}{
		{"C08.5a", pkgNbGnmi, sp, err1, []string{"store/v2/transaction.Store.Watch", "northbound/gnmi/v2.newUpdateResult", "proto.Marshal"}},
		{"C08.5b", pkgNbAdmin, rp, err2, []string{"store/v2/transaction.Store.Watch"}},
	} {
		if h.err != nil {
			continue
		}
		for i, callee := range h.callees {
			c.Outcome(engine.Outcome{ID: fmt.Sprintf("%s%d", h.id, i+1), Pkg: h.pkg, Min: 1, PathsOverride: h.paths,
				When: "#everFailed(" + callee + ")", Returns: "err!=nil",
				Why: "a failure of " + callee + " ends the request with an error: no waiting on a channel nobody feeds, no success with a missing result"})
		}
	}
	if err1 == nil {
		c.Guard(engine.Guard{ID: "C08.5a4", Pkg: pkgNbGnmi, Min: 1, PathsOverride: sp,
			Sel: engine.Sel{Call: "append", Filter: func(p *engine.Path, i int) bool {
				a := p.Events[i].Args
				return len(a) == 2 && strings.Contains(a[1], ".newUpdateResult(")
			}},
			Require: "#ok(northbound/gnmi/v2.newUpdateResult)",
			Why:     "an update result enters the response only when it could be built"})
	}
	responseFacts(c, sp, err1)
	rollbackRecord(c, "C08.7", rp, err2)
}

// responseFacts: C08.6. The success response of Set lists what the logged transaction changed and
// carries the extension by which the change can be found again.
func responseFacts(c *engine.Ctx, paths []*engine.Path, err error) {
	o := c.Custom("C08.6", "K-dataflow(response)", "Server.Set, success return: SetResponse.Response is the slice to which every newUpdateResult(path, target, op) of the created transaction's change was appended, and SetResponse.Extension holds a registered extension with Id TransactionInfoExtensionID and Msg = Marshal(TransactionInfo{ID, Index of the created transaction})",
		"a successful Set response lists exactly the target/path pairs the request changed and carries the identifier and log index under which the change can be rolled back")
	defer o.Done(1)
	if err != nil {
		o.Undecided("Server.Set", err.Error())
		return
	}
	varName := func(s string) string { // ?name@Lnn'k → name ; make(...)@k → ""
		if !strings.HasPrefix(s, "?") {
			return ""
		}
		s = s[1:]
		if i := strings.Index(s, "@"); i >= 0 {
			s = s[:i]
		}
		return s
	}
	reported := map[string]bool{}
	fail := func(p *engine.Path, msg string) {
		if !reported[msg] {
			reported[msg] = true
			last := len(p.Events) - 1
			o.Fail(&engine.Violation{Key: "Server.Set|" + msg, Pos: c.P.Pos(p.Events[last].Pos), Func: p.Root.Name(), Msg: msg})
		}
	}
	for _, p := range paths {
		last := &p.Events[len(p.Events)-1]
		if last.Kind != engine.EvReturn || len(last.Results) != 2 || last.Results[1] != "nil" || last.Results[0] == "nil" {
			continue
		}
		o.Eval(1)
		var tx, resp, ext, appendTo string
		appended, iterated := false, false
		for i := range p.Events {
			e := &p.Events[i]
			switch {
			case e.Kind == engine.EvCall && e.CalleeName == "store/v2/transaction.Store.Create" && len(e.Args) == 1:
				tx = e.Args[0]
			case e.Kind == engine.EvWrite && e.Field == "gnmi.SetResponse.Response":
				resp = e.RHS
			case e.Kind == engine.EvWrite && e.Field == "gnmi.SetResponse.Extension":
				ext = e.RHS
			case e.Kind == engine.EvCall && strings.HasSuffix(e.CalleeName, ".newUpdateResult"):
				iterated = true
			case e.Kind == engine.EvCall && e.CalleeName == "append" && len(e.Args) == 2 && strings.Contains(e.Args[1], ".newUpdateResult("):
				appended = true
				appendTo = e.Args[0]
			}
		}
		if tx == "" {
			fail(p, "a success response is returned on a path that created no transaction")
			continue
		}
		o.Site("")
		if iterated && !appended {
			fail(p, "an update result is computed and not appended to the result list")
		}
		for i := range p.Events {
			e := &p.Events[i]
			if e.Kind == engine.EvCall && e.CalleeName == "append" && len(e.Args) == 2 && varName(e.Args[0]) != "" && varName(e.Args[0]) == varName(resp) && !strings.Contains(e.Args[1], ".newUpdateResult(") {
				fail(p, "the result list receives "+c.Render(e.Args[1])+", which is not the update result of a changed path")
			}
		}
		if appended {
			a, r := varName(appendTo), varName(resp)
			if a == "" && strings.HasPrefix(appendTo, "make(") {
				a = "make"
			}
			if r == "" || (a != "make" && a != r) {
				fail(p, "the response's result list ("+c.Render(resp)+") is not the list the update results were appended to ("+c.Render(appendTo)+")")
			}
		}
		if resp == "" {
			fail(p, "the success response carries no result list")
		}
		want := "Id:config/v2.TransactionInfoExtensionID,Msg:proto.Marshal(&config/v2.TransactionInfo{ID:" + tx + ".ID,Index:" + tx + ".Index}"
		if !strings.Contains(ext, want) {
			fail(p, "the success response does not carry the transaction-info extension (registered id TransactionInfoExtensionID, Msg = Marshal(TransactionInfo{ID, Index} of the created transaction))")
		}
	}
}

// rollbackRecord: what RollbackTransaction logs is a rollback of the index the caller named.
func rollbackRecord(c *engine.Ctx, id string, paths []*engine.Path, err error) {
	o := c.Custom(id, "K-dataflow(rollback record)", "Server.RollbackTransaction: the record given to transactions.Create has Details = Transaction_Rollback{Rollback{RollbackIndex: the request's Index}} and a SYNCHRONOUS strategy, and nothing else is created",
		"the rollback request is answered about, and the controllers act on, exactly the index the caller asked to roll back")
	defer o.Done(1)
	if err != nil {
		o.Undecided("Server.RollbackTransaction", err.Error())
		return
	}
	for _, st := range engine.FindSites(paths, c.Match(engine.Sel{Call: "store/v2/transaction.Store.Create"})) {
		e := st.Ev()
		o.Site(c.P.Pos(e.Pos))
		o.Eval(1)
		arg := ""
		if len(e.Args) == 1 {
			arg = e.Args[0]
		}
		if !strings.Contains(arg, "Details:&config/v2.Transaction_Rollback{Rollback:&config/v2.RollbackTransaction{RollbackIndex:$RollbackRequest.Index}}") {
			o.Fail(&engine.Violation{Key: "RollbackTransaction|rollback index", Pos: c.P.Pos(e.Pos), Func: "Server.RollbackTransaction",
				Msg: "the logged record is not a rollback of the request's Index: " + c.Render(arg)})
		}
		if !strings.Contains(arg, "Synchronicity:config/v2.TransactionStrategy_SYNCHRONOUS") {
			o.Fail(&engine.Violation{Key: "RollbackTransaction|synchronicity", Pos: c.P.Pos(e.Pos), Func: "Server.RollbackTransaction",
				Msg: "the rollback is not logged as SYNCHRONOUS: the handler would answer at COMMITTED, before the device was restored"})
		}
	}
}

// waitTable evaluates the wait loop of a handler over Synchronicity × State.
func waitTable(c *engine.Ctx, id, name string, paths []*engine.Path, err error) {
	o := c.Custom(id, "K-enum(wait loop)", name+": for every (Synchronicity, Status.State): success exit for (ASYNC,COMMITTED), (ASYNC,APPLIED), (SYNC,APPLIED); error exit with class table(Failure.Type) for (·,FAILED); keep waiting otherwise",
		"the handler answers as soon as the transaction reached the awaited stage or any later one, and never reports success for a failed transaction")
	defer o.Done(1)
	if err != nil {
		o.Undecided(name, err.Error())
		return
	}
	syncC := c.P.LookupConst("config/v2.TransactionStrategy_ASYNCHRONOUS")
	stateC := c.P.LookupConst("config/v2.TransactionStatus_PENDING")
	failC := c.P.LookupConst("config/v2.Failure_UNKNOWN")
	if syncC == nil || stateC == nil || failC == nil {
		o.Undecided(name, "enum constants not found")
		return
	}
	syncs, states, fails := c.P.DomainNames(syncC.Type()), c.P.DomainNames(stateC.Type()), c.P.DomainNames(failC.Type())
	type cell struct{ sync, state string }
	type seen struct{ success, errExit, wait bool }
	table := map[cell]*seen{}
	reported := map[string]bool{}
	nBodies := 0
	failClass := map[string]string{} // failure type -> constructor observed
	for _, p := range paths {
		for i := range p.Events {
			le := &p.Events[i]
			if le.Kind != engine.EvLoopEnter || !strings.HasPrefix(le.Range, "make(chan config/v2.TransactionEvent)") {
				continue
			}
			ev := "recv(" + le.Range + ")"
			var conds []engine.Lit
			end := -1
			for j := i + 1; j < len(p.Events); j++ {
				ej := &p.Events[j]
				if ej.Kind == engine.EvLoopExit && ej.Node == le.Node {
					end = j
					break
				}
				if ej.Kind == engine.EvCond && ej.Loops == le.LoopID {
					conds = append(conds, ej.Lit)
				}
			}
			if end == i+1 {
				continue // zero iterations: channel closed
			}
			nBodies++
			last := &p.Events[len(p.Events)-1]
			outcome := "wait"
			if end < 0 {
				if last.Kind != engine.EvReturn || len(last.Results) != 2 {
					continue
				}
				if last.Results[1] == "nil" && last.Results[0] != "nil" {
					outcome = "success"
				} else if last.Results[0] == "nil" && last.Results[1] != "nil" {
					outcome = "error"
				} else {
					outcome = "other"
				}
			}
			syncL := ev + ".Transaction.TransactionStrategy.Synchronicity"
			stateL := ev + ".Transaction.Status.State"
			for sn, sv := range syncs {
				for tn, tv := range states {
					o.Eval(1)
					extra := []engine.Lit{
						{L: syncL, R: sn, Mask: 2, RConst: sv, LType: syncC.Type()},
						{L: stateL, R: tn, Mask: 2, RConst: tv, LType: stateC.Type()},
					}
					if engine.Unsat(append(append([]engine.Lit(nil), conds...), extra...), c.P.Domain) {
						continue
					}
					k := cell{strings.TrimPrefix(sn, "config/v2.TransactionStrategy_"), strings.TrimPrefix(tn, "config/v2.TransactionStatus_")}
					if table[k] == nil {
						table[k] = &seen{}
					}
					want := "wait"
					switch {
					case k.state == "FAILED":
						want = "error"
					case k.sync == "ASYNCHRONOUS" && (k.state == "COMMITTED" || k.state == "APPLIED"):
						want = "success"
					case k.sync == "SYNCHRONOUS" && k.state == "APPLIED":
						want = "success"
					}
					// internal errors while building the success response are error exits of a success cell
					internal := want == "success" && outcome == "error"
					switch outcome {
					case "success":
						table[k].success = true
					case "error":
						table[k].errExit = true
					case "wait":
						table[k].wait = true
					}
					if outcome != want && !internal {
						key := fmt.Sprintf("%s|wait loop (%s,%s) %s", name, k.sync, k.state, outcome)
						if !reported[key] {
							reported[key] = true
							msg := fmt.Sprintf("for (Synchronicity=%s, State=%s) the wait loop has outcome '%s' where '%s' is required", k.sync, k.state, outcome, want)
							if outcome == "wait" && want == "success" {
								msg += ": the handler keeps waiting for a transaction that has already passed the stage it waits for (with replay, a handler that subscribes late waits until the client gives up)"
							}
							o.Fail(&engine.Violation{Key: fmt.Sprintf("%s|wait loop (%s,%s)", name, k.sync, k.state), Pos: c.P.Pos(le.Pos), Func: p.Root.Name(), Msg: msg, Found: c.RenderConds(conds)})
						}
					}
				}
			}
			// failure class table
			failedLit := engine.FLit{Lit: engine.Lit{L: stateL, R: "config/v2.TransactionStatus_FAILED", Mask: 2, RConst: states["config/v2.TransactionStatus_FAILED"], LType: stateC.Type()}}
			if outcome == "error" && engine.Entails(conds, failedLit, c.P.Domain) {
				ret := last.Results[1]
				ftypeL := ev + ".Transaction.Status.Failure.Type"
				isNilFailure := false
				for _, l := range conds {
					if l.L == ev+".Transaction.Status.Failure" && l.RNil && l.Mask == 2 {
						isNilFailure = true
					}
				}
				ctor := ""
				if k := strings.Index(ret, "errors.New"); k >= 0 {
					ctor = ret[k+len("errors."):]
					if e := strings.Index(ctor, "("); e >= 0 {
						ctor = ctor[:e]
					}
				}
				if ctor == "" {
					key := name + "|failed without error value"
					if !reported[key] {
						reported[key] = true
						o.Fail(&engine.Violation{Key: key, Pos: c.P.Pos(last.Pos), Func: p.Root.Name(),
							Msg: "a FAILED transaction is answered with " + c.Render(ret) + ", which carries no error constructed on this path: errors.Status(nil).Err() is nil, the caller would see success without a response"})
					}
					continue
				}
				if isNilFailure {
					if ctor != "NewUnknown" {
						o.Fail(&engine.Violation{Key: name + "|failure absent", Pos: c.P.Pos(last.Pos), Func: p.Root.Name(), Msg: "a FAILED transaction without failure record is reported through " + ctor + ", not NewUnknown"})
					}
					continue
				}
				for fn, fv := range fails {
					lit := engine.Lit{L: ftypeL, R: fn, Mask: 2, RConst: fv, LType: failC.Type()}
					if engine.Unsat(append(append([]engine.Lit(nil), conds...), lit), c.P.Domain) {
						continue
					}
					short := strings.TrimPrefix(fn, "config/v2.Failure_")
					failClass[short] = ctor
					if want := failureToCtor[short]; want != ctor {
						key := name + "|failure class " + short
						if !reported[key] {
							reported[key] = true
							o.Fail(&engine.Violation{Key: key, Pos: c.P.Pos(last.Pos), Func: p.Root.Name(),
								Msg: "failure type " + short + " is reported to the caller through errors." + ctor + " where errors." + want + " is required"})
						}
					}
				}
			}
		}
	}
	if nBodies == 0 {
		o.Undecided(name+"|wait loop", "anchor not found: no loop over the transaction event channel")
		return
	}
	// totality: every failure type was seen on some error path
	var missing []string
	for fn := range fails {
		short := strings.TrimPrefix(fn, "config/v2.Failure_")
		if _, ok := failClass[short]; !ok {
			missing = append(missing, short)
		}
	}
	sort.Strings(missing)
	if len(missing) > 0 {
		o.Fail(&engine.Violation{Key: name + "|failure table total", Pos: name, Msg: "no error exit for failure types " + strings.Join(missing, ",")})
	}
	var cells []string
	for k, v := range table {
		cells = append(cells, fmt.Sprintf("(%s,%s)→success:%v error:%v wait:%v", k.sync, k.state, v.success, v.errExit, v.wait))
	}
	sort.Strings(cells)
	o.Site(name + " wait loop: " + strings.Join(cells, "; "))
}

// createWatchRespond: Create dominates Watch; Watch carries WithReplay and WithTransactionID of the
// created record; the response is built from that record.
func createWatchRespond(c *engine.Ctx, id, name string, paths []*engine.Path, err error, isSet bool) {
	o := c.Custom(id, "K-order/dataflow", name+": transactions.Create(tx) succeeds before Watch(…, WithReplay(), WithTransactionID(tx.ID)); the response carries tx.ID and tx.Index of that same tx",
		"the handler waits for, and reports, exactly the transaction it logged; replay closes the gap between Create and Watch")
	defer o.Done(1)
	if err != nil {
		o.Undecided(name, err.Error())
		return
	}
	for _, s := range engine.FindSites(paths, func(p *engine.Path, i int) bool {
		e := &p.Events[i]
		return e.Kind == engine.EvCall && e.CalleeName == "store/v2/transaction.Store.Watch"
	}) {
		e := s.Ev()
		o.Site(c.P.Pos(e.Pos) + " Watch")
		for _, ref := range s.Refs {
			o.Eval(1)
			p := ref.Path
			w := &p.Events[ref.Idx]
			var tx string
			okCreate := false
			for j := 0; j < ref.Idx; j++ {
				ce := &p.Events[j]
				if ce.Kind == engine.EvCall && ce.CalleeName == "store/v2/transaction.Store.Create" && len(ce.Args) == 1 {
					tx = ce.Args[0]
					for _, l := range engine.CondsBefore(p, ref.Idx) {
						if l.L == "err("+ce.Canon+")" && l.RNil && l.Mask == 2 {
							okCreate = true
						}
					}
				}
			}
			bad := ""
			switch {
			case tx == "" || !okCreate:
				bad = "Watch is reachable without a successful transactions.Create before it"
			case !hasArg(w.Args, "store/v2/transaction.WithReplay()"):
				bad = "Watch is called without WithReplay(): a transaction that finished between Create and Watch is never reported"
			case !hasArg(w.Args, "store/v2/transaction.WithTransactionID("+tx+".ID)"):
				bad = "Watch is not restricted to the id of the transaction that was created"
			}
			if bad != "" {
				o.Fail(&engine.Violation{Key: name + "|create-watch", Pos: c.P.Pos(e.Pos), Func: p.Root.Name(), Msg: bad})
				return
			}
			// success responses on this path are built from tx
			last := &p.Events[len(p.Events)-1]
			if last.Kind == engine.EvReturn && len(last.Results) == 2 && last.Results[1] == "nil" && last.Results[0] != "nil" {
				okID, okIdx, okOp := false, false, true
				for j := ref.Idx; j < len(p.Events); j++ {
					we := &p.Events[j]
					if we.Kind == engine.EvWrite && we.Op == "lit" {
						if (we.Field == "config/v2.TransactionInfo.ID" || we.Field == "admin.RollbackResponse.ID") && we.RHS == tx+".ID" {
							okID = true
						}
						if (we.Field == "config/v2.TransactionInfo.Index" || we.Field == "admin.RollbackResponse.Index") && we.RHS == tx+".Index" {
							okIdx = true
						}
					}
					if isSet && we.Kind == engine.EvCall && strings.HasSuffix(we.CalleeName, ".newUpdateResult") && len(we.Args) == 3 {
						var deleted, live bool
						for _, l := range engine.CondsBefore(p, j) {
							if strings.HasSuffix(l.L, ".Deleted") && l.R == "true" {
								deleted = l.Mask == 2
								live = l.Mask == 5
							}
						}
						if (deleted && we.Args[2] != "gnmi.UpdateResult_DELETE") || (live && we.Args[2] != "gnmi.UpdateResult_UPDATE") || (!deleted && !live) {
							okOp = false
						}
						if !strings.Contains(we.Args[0], "{"+tx+"}config/v2.Transaction.GetChange().Values") {
							okOp = false
						}
					}
				}
				if !okID || !okIdx {
					o.Fail(&engine.Violation{Key: name + "|response record", Pos: c.P.Pos(last.Pos), Func: p.Root.Name(), Msg: "the success response does not carry ID and Index of the transaction that was created"})
					return
				}
				if !okOp {
					o.Fail(&engine.Violation{Key: name + "|result list", Pos: c.P.Pos(last.Pos), Func: p.Root.Name(), Msg: "the result list is not built from the created transaction's change with DELETE iff the value is a tombstone"})
					return
				}
			}
		}
	}
}

func hasArg(args []string, want string) bool {
	for _, a := range args {
		if a == want {
			return true
		}
	}
	return false
}

// extensionSearch: the transaction strategy (what the caller asked to wait for) is looked up among
// all extensions of the request.
func extensionSearch(c *engine.Ctx) {
	o := c.Custom("C08.3", "K-enum(search loop)", "extractExtension examines every extension: it leaves the loop only by returning under 'registered extension ∧ Id == wanted id'; no break",
		"the stage the caller asked to wait for (and the type/version overrides) must be found wherever the extension stands in the request")
	defer o.Done(1)
	paths, err := c.A.PathsOpt(pkgNbGnmi, engine.PathOpts{Roots: []string{"v2.extractExtension"}, NoInline: true})
	if err != nil {
		o.Undecided("extractExtension", err.Error())
		return
	}
	n := 0
	for _, p := range paths {
		inLoop := ""
		for i := range p.Events {
			e := &p.Events[i]
			switch e.Kind {
			case engine.EvLoopEnter:
				if e.Range == "$ext" {
					inLoop = e.LoopID
				}
			case engine.EvLoopExit:
				inLoop = ""
			case engine.EvBranch:
				if inLoop != "" && e.Tok.String() == "break" {
					o.Eval(1)
					o.Fail(&engine.Violation{Key: "extractExtension|break in search loop", Pos: c.P.Pos(e.Pos), Func: p.Root.Name(),
						Msg: "the search over the request's extensions stops early (break): an extension that follows is never found", Found: c.RenderConds(engine.CondsBefore(p, i))})
					return
				}
			case engine.EvReturn:
				if inLoop == "" {
					continue
				}
				n++
				o.Eval(1)
				isReg, idEq := false, false
				for _, l := range engine.CondsBefore(p, i) {
					if strings.HasPrefix(l.L, "ok(elem($ext).Ext.(*gnmi_ext.Extension_RegisteredExt))") && l.R == "true" && l.Mask == 2 {
						isReg = true
					}
					if (strings.HasSuffix(l.L, ".RegisteredExt.Id") && l.R == "$extID" || l.L == "$extID" && strings.HasSuffix(l.R, ".RegisteredExt.Id")) && l.Mask == 2 {
						idEq = true
					}
				}
				if !isReg || !idEq {
					o.Fail(&engine.Violation{Key: "extractExtension|return without match", Pos: c.P.Pos(e.Pos), Func: p.Root.Name(),
						Msg: "the search returns from inside the loop on a path that does not establish 'registered extension with the wanted id'", Found: c.RenderConds(engine.CondsBefore(p, i))})
					return
				}
			}
		}
	}
	if n > 0 {
		o.Site("extractExtension: every in-loop return is under the match condition")
	}
}
