package props

import (
	"fmt"
	"strings"

	"occheck/internal/engine"
)

const (
	stPropCreate   = "store/v2/proposal.Store.Create"
	stPropUpdStat  = "store/v2/proposal.Store.UpdateStatus"
	stCfgUpdate    = "store/v2/configuration.Store.Update"
	stCfgUpdStat   = "store/v2/configuration.Store.UpdateStatus"
	stCfgCreate    = "store/v2/configuration.Store.Create"
	stTxUpdStat    = "store/v2/transaction.Store.UpdateStatus"
	sbSet          = "southbound/gnmi.Client.Set"
	pluginValidate = "pluginregistry.ModelPlugin.Validate"

	fCommittedIdx = "config/v2.CommittedConfigurationStatus.Index"
	fAppliedIdx   = "config/v2.AppliedConfigurationStatus.Index"
	fProposedIdx  = "config/v2.ProposedConfigurationStatus.Index"
	fCfgIndex     = "config/v2.Configuration.Index"
	fCfgValues    = "config/v2.Configuration.Values"
)

func init() {
	register(&Prop{
		ID:    "C02",
		Title: "Changes reach a target's config and device in transaction-log order",
		Explanation: "Decided (structural necessary conditions, not the run-time order itself): every ordering guard of the v2 protocol dominates the effect it protects on every enumerated path of the v2 proposal and transaction reconcilers — " +
			"transactions create proposals only after the predecessor transaction left INITIALIZING; proposals are chained only while the proposed cursor is behind; validation, merge (Configuration.Store.Update) and the southbound Set are reached only when the committed resp. applied cursor equals the predecessor index; " +
			"cursors are only ever written with the proposal's own index; the Apply phase is opened only after COMMITTED; and no terminal state of a proposal phase is written on a path that provably leaves a cursor on the predecessor. " +
			"Path conditions are computed by enumerating all paths of Reconcile with same-package callees inlined; entailment is decided by a small literal solver (order on one operand pair, integer/constant comparisons, finite enum domains).",
		Declined: []string{
			"that two reconcilers never interleave between a guard and the write it protects (relies on version-checked store writes, C15, and per-target partitioning of the controller library)",
			"the run-time order of merges and device Sets over histories",
		},
		Assumptions: []string{
			"equal canonical expressions denote equal values within one reconcile pass (records are read once per pass; a second read gets a distinct name)",
			"store methods mutate only Version/Revision/timestamps of the record passed in",
		},
		Run:     runC02,
		Witness: []WitnessTarget{{pkgProposalCtl, []string{"Reconciler."}}, {pkgTransactionCtl, []string{"Reconciler."}}},
	})
}

func runC02(c *engine.Ctx, tier string) {
	// ---- transaction controller
	c.Al = transactionAliases(c.P)
	c.Guard(engine.Guard{ID: "C02.1", Pkg: pkgTransactionCtl, Min: 2,
		Sel:     engine.Sel{Call: stPropCreate},
		Require: "(errors.IsNotFound(err(@PREVT)) || !(@PREVT.Status.Phases.Initialize == nil || @PREVT.Status.Phases.Initialize.State == config/v2.TransactionInitializePhase_INITIALIZING)) && @T.Status.Phases.Initialize.State == config/v2.TransactionInitializePhase_INITIALIZING && @T.Status.Proposals == nil",
		Why:     "proposals are created (and therefore chained per target) strictly in transaction-index order: a transaction may create its proposals only when its predecessor (index-1) has left INITIALIZING or does not exist"})
	c.Guard(engine.Guard{ID: "C02.6a", Pkg: pkgTransactionCtl, Min: 1,
		Sel:     engine.Sel{Field: "config/v2.TransactionPhases.Apply"},
		Require: "@T.Status.Phases.Commit.State == config/v2.TransactionCommitPhase_COMMITTED && @T.Status.Phases.Abort == nil",
		Why:     "the transaction enters Apply only after every proposal was merged (Commit phase COMMITTED, see gate C01.1c)"})
	c.Guard(engine.Guard{ID: "C02.6b", Pkg: pkgTransactionCtl, Min: 1,
		Sel:     engine.Sel{Field: "config/v2.ProposalPhases.Apply"},
		Require: "@T.Status.Phases.Apply.State == config/v2.TransactionApplyPhase_APPLYING && @PE.Status.Phases.Apply == nil",
		Why:     "a proposal's Apply phase is opened only by a transaction in APPLYING, i.e. never before its change was merged"})
	for _, ph := range []struct{ id, field, lt string }{
		{"C02.8a", "config/v2.TransactionPhases.Validate", "config/v2.TransactionStatus_VALIDATED"},
		{"C02.8b", "config/v2.TransactionPhases.Commit", "config/v2.TransactionStatus_COMMITTED"},
		{"C02.8c", "config/v2.TransactionPhases.Apply", "config/v2.TransactionStatus_APPLIED"},
	} {
		serializableWait(c, ph.id, ph.field, ph.lt)
	}

	// a phase of the transaction is finished (and the next one opened) only when every proposal finished it:
	// otherwise a later phase of one target overtakes an earlier phase of another target of the same request
	allProposalsGates(c, "C02.10", "bce")
	// ---- proposal controller
	c.Al = proposalAliases(c.P)
	link := "@CFG.Status.Proposed.Index < @OWN"
	c.Guard(engine.Guard{ID: "C02.2a", Pkg: pkgProposalCtl, Min: 1,
		Sel:     engine.Sel{Field: "config/v2.ProposalStatus.NextIndex"},
		Require: link + " && @CFG.Status.Proposed.Index > 0 && err(@PREVP) == nil && @PREVP.Status.NextIndex == 0",
		Why:     "the predecessor's NextIndex is set once, to this proposal, while the proposed cursor still points at the predecessor"})
	c.Guard(engine.Guard{ID: "C02.2a-rhs", Pkg: pkgProposalCtl, None: true, Rule: "K-own",
		Sel: engine.Sel{Field: "config/v2.ProposalStatus.NextIndex", NotRHS: "@OWN", Lit: true},
		Why: "NextIndex is only ever set to the linking proposal's own index"})
	c.Guard(engine.Guard{ID: "C02.2b-rhs", Pkg: pkgProposalCtl, None: true, Rule: "K-own",
		Sel: engine.Sel{Field: "config/v2.ProposalStatus.PrevIndex", NotRHS: "@CFG.Status.Proposed.Index", Lit: true},
		Why: "PrevIndex is only ever taken from the proposed cursor"})
	c.Guard(engine.Guard{ID: "C02.2c-rhs", Pkg: pkgProposalCtl, None: true, Rule: "K-own",
		Sel: engine.Sel{Field: fProposedIdx, NotRHS: "@OWN", Lit: true},
		Why: "the proposed cursor is only ever set to the own index"})
	c.Guard(engine.Guard{ID: "C02.2b", Pkg: pkgProposalCtl, Min: 1,
		Sel:     engine.Sel{Field: "config/v2.ProposalStatus.PrevIndex"},
		Require: link + " && @CFG.Status.Proposed.Index > 0 && err(@PREVP) == nil && @P.Status.PrevIndex == 0",
		Why:     "PrevIndex is taken from the proposed cursor while it still points at the predecessor"})
	c.Guard(engine.Guard{ID: "C02.2c", Pkg: pkgProposalCtl, Min: 1,
		Sel:     engine.Sel{Field: fProposedIdx, RHS: "@OWN"},
		Require: link,
		Why:     "the proposed cursor only moves forward, to the proposal being initialised"})
	c.Guard(engine.Guard{ID: "C02.2d", Pkg: pkgProposalCtl, Min: 1,
		Sel:     engine.Sel{Field: "config/v2.ProposalInitializePhase.State", RHS: "config/v2.ProposalInitializePhase_INITIALIZED"},
		Require: "!(@CFG.Status.Proposed.Index < @OWN) && err(@CFG) == nil",
		Why:     "a proposal is INITIALIZED only once the proposed cursor has reached it (it is linked into the chain)"})
	waitCommitted := "!(@PREV != 0 && @CFG.Status.Committed.Index != @PREV)"
	for _, s := range []struct {
		id  string
		sel engine.Sel
	}{
		{"C02.3a", engine.Sel{Call: pluginValidate}},
		{"C02.3b", engine.Sel{Field: "config/v2.ProposalValidatePhase.State", RHS: "config/v2.ProposalValidatePhase_VALIDATED"}},
		{"C02.3c", engine.Sel{Field: "config/v2.ProposalStatus.RollbackValues"}},
		{"C02.3d", engine.Sel{Field: "config/v2.ProposalStatus.RollbackIndex"}},
	} {
		c.Guard(engine.Guard{ID: s.id, Pkg: pkgProposalCtl, Min: 1, Sel: s.sel,
			Require: "@P.Status.Phases.Validate.State == config/v2.ProposalValidatePhase_VALIDATING && " + waitCommitted,
			Why:     "the candidate configuration is validated, and the prior values captured, only on top of the predecessor's committed result"})
	}
	c.Guard(engine.Guard{ID: "C02.4", Pkg: pkgProposalCtl, Min: 1,
		Sel:     engine.Sel{Call: stCfgUpdate},
		Require: "@P.Status.Phases.Commit.State == config/v2.ProposalCommitPhase_COMMITTING && @CFG.Status.Committed.Index == @PREV && #wrote(" + fCommittedIdx + "=@OWN)",
		Why:     "values are merged (the only call that persists Configuration.Values) only when the committed cursor is exactly at the predecessor, and the same write moves the cursor to this proposal"})
	c.Guard(engine.Guard{ID: "C02.5", Pkg: pkgProposalCtl, Min: 1,
		Sel:     engine.Sel{Call: sbSet},
		Require: "@P.Status.Phases.Apply.State == config/v2.ProposalApplyPhase_APPLYING && !(@CFG.Status.Applied.Index >= @OWN) && !(@PREV != 0 && @CFG.Status.Applied.Index != @PREV)",
		Why:     "a change is sent to the device only in the Apply phase (after merge), not twice, and only when the applied cursor is exactly at the predecessor"})
	// C02.7: cursors only ever move to the writer's own index
	for _, f := range []struct{ id, field string }{{"C02.7a", fCommittedIdx}, {"C02.7b", fAppliedIdx}} {
		cursorOwnIndex(c, f.id, f.field)
	}
	// cursors move only from exactly the predecessor (or, for the first proposal of a target, from nothing)
	c.Guard(engine.Guard{ID: "C02.7c", Pkg: pkgProposalCtl, Min: 3,
		Sel:     engine.Sel{Field: fCommittedIdx, RHS: "@OWN"},
		Require: "@CFG.Status.Committed.Index == @PREV",
		Why:     "the committed cursor is moved to a proposal only from its predecessor: moving it from anywhere else skips or repeats a merge"})
	c.Guard(engine.Guard{ID: "C02.7d", Pkg: pkgProposalCtl, Min: 4,
		Sel:     engine.Sel{Field: fAppliedIdx, RHS: "@OWN"},
		Require: "@CFG.Status.Applied.Index == @PREV || (@PREV == 0 && !(@CFG.Status.Applied.Index >= @OWN))",
		Why:     "the applied cursor is moved to a proposal only from its predecessor: an abort or failure that moves it while an earlier proposal is still applying lets the successor overtake it"})
	// C02.9 negative form: no terminal state while a cursor is provably still at the predecessor
	for _, s := range []struct {
		id, field, rhs, cursor string
	}{
		{"C02.9a", "config/v2.ProposalCommitPhase.State", "config/v2.ProposalCommitPhase_COMMITTED", "Committed"},
		{"C02.9b", "config/v2.ProposalApplyPhase.State", "config/v2.ProposalApplyPhase_APPLIED", "Applied"},
		{"C02.9c", "config/v2.ProposalApplyPhase.State", "config/v2.ProposalApplyPhase_FAILED", "Applied"},
		{"C02.9d", "config/v2.ProposalAbortPhase.State", "config/v2.ProposalAbortPhase_ABORTED", "Committed"},
		{"C02.9e", "config/v2.ProposalAbortPhase.State", "config/v2.ProposalAbortPhase_ABORTED", "Applied"},
	} {
		terminalCursor(c, s.id, s.field, s.rhs, s.cursor)
	}
	// "never sent a change that has not yet been merged": the committed cursor that lets the apply step go
	// is written after the values it stands for
	storeWriteOrder(c, "C02.11", "")
	c.Al = proposalAliases(c.P)
	partitionKey(c, "C02.12")
}

// partitionKey: the proposals of one target are reconciled by one worker, one after the other. The
// library delivers a re-queue to the worker of the partition, so with any other key a proposal can be
// inside reconcileApply on two workers at once and a delayed worker re-sends change N after N+1 went out.
func partitionKey(c *engine.Ctx, id string) {
	o := c.Custom(id, "K-facts(partition key)", "NewController registers a Partitioner; Partitioner.Partition returns PartitionKey(X[:strings.LastIndex(X, \"-\")]) for X the proposal id; store/v2/proposal.NewID builds the id as Sprintf(\"%s-%d\", targetID, index): the key is the target id",
		"the cursor guards (C02.1-C02.9) are read-then-act; they serialise a target's proposals only because one worker handles all of them")
	defer o.Done(3)
	ps, err := c.A.PathsOpt(pkgProposalCtl, engine.PathOpts{Roots: []string{"Partitioner.Partition", "proposal.NewController"}, NoInline: true})
	if err != nil {
		o.Undecided(pkgProposalCtl, err.Error())
		return
	}
	registered, keyed := false, false
	for _, p := range ps {
		last := &p.Events[len(p.Events)-1]
		switch {
		case strings.HasSuffix(p.Root.Name(), "NewController"):
			o.Site("proposal.NewController")
			for i := range p.Events {
				if e := &p.Events[i]; e.Kind == engine.EvCall && strings.HasSuffix(e.CalleeName, "controller.Controller.Partition") && len(e.Args) == 1 && strings.Contains(e.Args[0], "controller/v2/proposal.Partitioner") {
					registered = true
				}
			}
		case strings.HasSuffix(p.Root.Name(), "Partitioner.Partition"):
			o.Site("Partitioner.Partition")
			o.Eval(1)
			if last.Kind != engine.EvReturn || len(last.Results) != 2 {
				continue
			}
			got := last.Results[0]
			ok := false
			for _, x := range []string{"string($ID.Value.(config/v2.ProposalID))", "$ID.Value.(config/v2.ProposalID)"} {
				for _, wrap := range []string{"controller.PartitionKey(%s)", "controller.PartitionKey(string(%s))"} {
					if got == fmt.Sprintf(wrap, x+"[:strings.LastIndex("+x+",\"-\")]") {
						ok = true
					}
				}
			}
			if !ok {
				o.Fail(&engine.Violation{Key: "Partitioner.Partition|key", Pos: c.P.Pos(last.Pos), Func: p.Root.Name(),
					Msg: "the partition key is " + c.Render(got) + ", not the proposal id cut at its last \"-\" (the target id)"})
			} else {
				keyed = true
			}
		}
	}
	if !registered {
		o.Fail(&engine.Violation{Key: "proposal.NewController|partitioner", Pos: pkgProposalCtl, Func: "NewController", Msg: "the proposal controller does not register the Partitioner: proposals of one target are spread over the workers"})
	}
	_ = keyed
	sp, err := c.A.PathsOpt(pkgStorePropV2, engine.PathOpts{Roots: []string{"proposal.NewID"}, NoInline: true})
	if err != nil || len(sp) == 0 {
		o.Undecided(pkgStorePropV2, fmt.Sprintf("no paths for NewID: %v", err))
		return
	}
	for _, p := range sp {
		last := &p.Events[len(p.Events)-1]
		o.Site("proposal.NewID")
		o.Eval(1)
		got := ""
		if last.Kind == engine.EvReturn && len(last.Results) == 1 {
			got = last.Results[0]
		}
		if got != "config/v2.ProposalID(fmt.Sprintf(\"%s-%d\",$targetID,$index))" && got != "config/v2.ProposalID(fmt.Sprintf(\"%v-%d\",$targetID,$index))" {
			o.Fail(&engine.Violation{Key: "proposal.NewID|format", Pos: c.P.Pos(last.Pos), Func: p.Root.Name(),
				Msg: "the proposal id is built as " + c.Render(got) + ": the part before its last \"-\" is no longer the target id the partitioner keys on"})
		}
	}
}

// serializableWait: creation of a transaction phase is preceded, for every proposal whose
// predecessor transaction is SERIALIZABLE and not yet at the given state, by a function exit.
func serializableWait(c *engine.Ctx, id, field, state string) {
	o := c.Custom(id, "K-enum(loop-exit)", "write "+field+" only after a loop over T.Status.Proposals in which SERIALIZABLE predecessors below "+state+" leave the function",
		"serializable isolation: a transaction does not enter a phase before a serializable predecessor on the same target reached it")
	paths, err := c.A.Paths(pkgTransactionCtl)
	if err != nil {
		o.Undecided(pkgTransactionCtl, err.Error())
		o.Done(0)
		return
	}
	clause, _ := engine.ParseClause("!(@PREVTS.Isolation == config/v2.TransactionStrategy_SERIALIZABLE && @PREVTS.Status.State < "+state+")", c.Al, c.P)
	rng := c.Al.Expand("@T.Status.Proposals")
	sites := engine.FindSites(paths, c.Match(engine.Sel{Field: field}))
	for _, s := range sites {
		o.Site(c.P.Pos(s.Ev().Pos) + " " + c.Render(c.A.DescribeEvent(s.Ev())))
		sawLoop := false
		for _, ref := range s.Refs {
			o.Eval(1)
			p := ref.Path
			// the last loop over the proposals closed before the site
			enter := -1
			for i := ref.Idx - 1; i >= 0; i-- {
				e := &p.Events[i]
				if e.Kind == engine.EvLoopEnter && e.Range == rng && e.Stack == p.Events[ref.Idx].Stack {
					enter = i
					break
				}
			}
			if enter < 0 {
				o.Fail(&engine.Violation{Key: engine.SiteKey(p, ref.Idx, "write "+field), Pos: c.P.Pos(s.Ev().Pos), Func: engine.FuncChain(p, ref.Idx),
					Msg: "phase opened without the serializable-predecessor loop over the transaction's proposals", Path: c.PathTrace(p, ref.Idx)})
				break
			}
			sawLoop = true
			// body conditions of the one abstract iteration: whenever the predecessor transaction was
			// read successfully the path must carry the negated wait condition
			le := &p.Events[enter]
			var conds []engine.Lit
			readPrev := false
			for j := enter + 1; j < ref.Idx; j++ {
				e := &p.Events[j]
				if e.Kind == engine.EvLoopExit && e.Loops == le.Loops {
					break
				}
				if e.Kind == engine.EvCond && (e.Loops == le.LoopID || len(e.Loops) > len(le.LoopID) && e.Loops[:len(le.LoopID)] == le.LoopID) {
					conds = append(conds, e.Lit)
				}
				if e.Kind == engine.EvCall && e.Canon == c.Al.Resolve("PREVTS") {
					readPrev = true
				}
			}
			if !readPrev {
				continue // zero iterations, no predecessor, or predecessor already checked
			}
			errNil, _ := engine.ParseClause("err(@PREVTS) == nil", c.Al, c.P)
			if !engine.Entails(conds, errNil, c.P.Domain) {
				continue // predecessor transaction not found: nothing to wait for
			}
			if !engine.Entails(conds, clause, c.P.Domain) {
				o.Fail(&engine.Violation{Key: engine.SiteKey(p, ref.Idx, "write "+field), Pos: c.P.Pos(s.Ev().Pos), Func: engine.FuncChain(p, ref.Idx),
					Msg:      "phase opened although a serializable predecessor transaction has not reached " + state,
					Required: c.Render(engine.FString2(clause)), Found: c.RenderConds(conds), Path: c.PathTrace(p, ref.Idx)})
				break
			}
		}
		_ = sawLoop
	}
	o.Done(1)
}

// cursorOwnIndex: every write of a cursor field in the v2 controllers has the own index as value.
func cursorOwnIndex(c *engine.Ctx, id, field string) {
	o := c.Custom(id, "K-own(rhs)", "every write of "+field+" has the right-hand side P.TransactionIndex",
		"cursors only ever move to the index of the proposal whose step writes them; any other value skips or repeats log entries")
	paths, err := c.A.Paths(pkgProposalCtl)
	if err != nil {
		o.Undecided(pkgProposalCtl, err.Error())
		o.Done(0)
		return
	}
	own := c.Al.Expand("@OWN")
	for _, s := range engine.FindSites(paths, c.Match(engine.Sel{Field: field, Lit: true})) {
		e := s.Ev()
		o.Site(c.P.Pos(e.Pos) + " " + c.Render(c.A.DescribeEvent(e)))
		o.Eval(len(s.Refs))
		if e.RHS != own {
			o.Fail(&engine.Violation{Key: engine.SiteKey(s.Refs[0].Path, s.Refs[0].Idx, "write "+field), Pos: c.P.Pos(e.Pos), Func: engine.FuncChain(s.Refs[0].Path, s.Refs[0].Idx),
				Msg: "cursor written with " + c.Render(e.RHS) + " instead of the proposal's own index"})
		}
	}
	o.Done(2)
}

// terminalCursor is the negative rule C02.9: at the write of a terminal phase state the path
// condition, with the cursor's version current at that point, must not entail cursor == PrevIndex.
func terminalCursor(c *engine.Ctx, id, field, rhs, cursor string) {
	o := c.Custom(id, "K-guard(negative)", "write "+field+" := "+rhs+"  ⇏  CFG.Status."+cursor+".Index (current version) == P.Status.PrevIndex",
		"a finished proposal that leaves a cursor on its predecessor blocks every successor of the target for ever")
	paths, err := c.A.Paths(pkgProposalCtl)
	if err != nil {
		o.Undecided(pkgProposalCtl, err.Error())
		o.Done(0)
		return
	}
	cur := c.Al.Expand("@CFG.Status." + cursor + ".Index")
	prev := c.Al.Expand("@PREV")
	own := c.Al.Expand("@OWN")
	var ky keyerShim
	for _, s := range engine.FindSites(paths, c.Match(engine.Sel{Field: field, RHS: rhs})) {
		e := s.Ev()
		key := ky.key(engine.SiteKey(s.Refs[0].Path, s.Refs[0].Idx, "write "+c.Render(field+" := "+rhs)))
		o.Site(c.P.Pos(e.Pos) + " " + c.Render(c.A.DescribeEvent(e)))
		for _, ref := range s.Refs {
			o.Eval(1)
			p := ref.Path
			// was the cursor written on this path before the site? then it equals the own index (C02.7)
			written := false
			for i := 0; i < ref.Idx; i++ {
				w := &p.Events[i]
				if w.Kind == engine.EvWrite && w.LHS == cur && w.RHS == own {
					written = true
				}
			}
			if written {
				continue
			}
			conds := engine.CondsBefore(p, ref.Idx)
			eq := engine.MakeLit(cur, "==", prev, nil, c.P)
			if engine.Entails(conds, eq, c.P.Domain) {
				o.Fail(&engine.Violation{Key: key, Pos: c.P.Pos(e.Pos), Func: engine.FuncChain(p, ref.Idx),
					Msg:      "terminal state written on a path that proves the " + cursor + " cursor is still on the predecessor and never moves it",
					Required: "NOT " + c.Render(engine.FString2(eq)), Found: c.RenderConds(conds), Path: c.PathTrace(p, ref.Idx)})
				break
			}
		}
	}
	o.Done(1)
}

type keyerShim struct{ seen map[string]int }

func (k *keyerShim) key(base string) string {
	if k.seen == nil {
		k.seen = map[string]int{}
	}
	k.seen[base]++
	if n := k.seen[base]; n > 1 {
		return base + "#" + string(rune('0'+n))
	}
	return base
}
