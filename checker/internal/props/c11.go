package props

import (
	"fmt"
	"go/ast"
	"go/constant"
	"go/token"
	"go/types"
	"os"
	"path/filepath"
	"sort"
	"strings"

	"occheck/internal/engine"
)

func init() {
	register(&Prop{
		ID:    "C11",
		Title: "A device refusing a change fails that change only, and only real refusals",
		Explanation: "Decided: (1) the outcome of the apply-error classification, evaluated for every one of the gRPC codes: Unavailable/Canceled/DeadlineExceeded leave no write and return the error (retried), PermissionDenied leaves no write and returns nil (superseded master), every other code records FAILED with the class table(code), after persisting Applied.Index := own index, without touching Applied.Values; " +
			"(2) error-domain agreement: every classifier call (errors.Is*/TypeOf/Status vs status.Code/Convert/FromError) in the controllers and the northbound is applied to a value whose producers (resolved through the module's non-mock implementations of the interface method) are in the classifier's own domain — a *TypedError has no GRPCStatus(), so status.Code on it is always Unknown; " +
			"(3) the composition device code → recorded failure type → northbound error constructor → gRPC status is the identity on every non-transient code the device can return that the typed-error library represents; (4) a FAILED proposal apply fails the transaction with that proposal's failure and writes no other proposal.",
		Declined: []string{"the device's state after a refusal", "burst lengths / timing of retries (controller library back-off)"},
		Run:      runC11,
		Witness:  []WitnessTarget{{pkgProposalCtl, []string{"reconcileApply"}}, {pkgTransactionCtl, []string{"reconcileApply"}}},
	})
}

var codeToFailure = map[string]string{
	"Unknown": "UNKNOWN", "NotFound": "NOT_FOUND", "AlreadyExists": "ALREADY_EXISTS", "Unauthenticated": "UNAUTHORIZED",
	"FailedPrecondition": "CONFLICT", "InvalidArgument": "INVALID", "Unimplemented": "NOT_SUPPORTED", "Internal": "INTERNAL",
}
var transientCodes = map[string]bool{"Unavailable": true, "Canceled": true, "DeadlineExceeded": true}

func runC11(c *engine.Ctx, tier string) {
	c.Al = proposalAliases(c.P)
	codeOutcomeTable(c)
	errorDomains(c, "C11.2", []string{pkgProposalCtl, pkgTransactionCtl, pkgConfigCtl, pkgMastershipCtl, pkgConnectionCtl, pkgTargetCtl, pkgNbGnmi, pkgNbAdmin})
	classComposition(c)
	// (5) the verdict computed from the device's answer is persisted, or the pass fails and is retried
	for _, cl := range []string{"errors.IsConflict"} {
		c.Outcome(engine.Outcome{ID: "C11.5/" + strings.TrimPrefix(cl, "errors.Is"), Pkg: pkgProposalCtl, Root: "Reconciler.Reconcile", Min: 1,
			When:    "#wrote(config/v2.ProposalApplyPhase.State=config/v2.ProposalApplyPhase_FAILED) && #errIs(" + stPropUpdStat + "|" + cl + ")",
			Returns: "err!=nil",
			Why:     "the applied cursor has already passed the proposal when its FAILED state is written; if that write is lost and the pass reports success, the next pass finds the cursor at the proposal and records APPLIED: a refusal becomes a success"})
	}
	// (6) a refused change leaves no trace in the applied values (they are what is re-pushed after a reconnect)
	c.Guard(engine.Guard{ID: "C11.6", Pkg: pkgProposalCtl, Min: 1,
		Sel:     engine.Sel{Field: "config/v2.AppliedConfigurationStatus.Values[]"},
		Require: "#ok(" + sbSet + ")",
		Why:     "the device is left as it was: values the device refused must not enter the applied configuration, which is sent again in the next mastership term"})
	// (6b) AddDeleteChildren stamps the values it is given in place; the refusal branch persists the applied
	// record (UpdateStatus). Handing it the applied record itself writes the refused deletes into it.
	{
		o := c.Custom("C11.8", "K-args(cascade source)", "every call of controller/utils.AddDeleteChildren in the proposal controller gets the configuration's committed values (CFG.Values) as its third argument, never Status.Applied.Values",
			"the helper marks the descendants of a deleted node in the collection it is given; on the applied record those marks would be persisted by the refusal branch and re-sent to the device in the next term")
		paths, err := c.A.Paths(pkgProposalCtl)
		if err != nil {
			o.Undecided(pkgProposalCtl, err.Error())
		} else {
			want := c.Al.Expand("@CFG.Values")
			for _, st := range engine.FindSites(paths, c.Match(engine.Sel{Call: "controller/utils.AddDeleteChildren"})) {
				e := st.Ev()
				o.Site(c.P.Pos(e.Pos))
				o.Eval(1)
				if len(e.Args) != 3 || stripVer(e.Args[2]) != want {
					o.Fail(&engine.Violation{Key: "proposal controller|cascade source", Pos: c.P.Pos(e.Pos), Func: engine.FuncChain(st.Refs[0].Path, st.Refs[0].Idx),
						Msg: "AddDeleteChildren is given " + c.Render(strings.Join(e.Args, ", ")) + ": its third argument must be the committed values of the configuration, a collection that is not persisted by this pass"})
				}
			}
		}
		o.Done(1)
	}
	// (7) "stays pending and is applied once the device can be reached": a proposal parked on one of the
	// quiet returns of reconcileApply is woken by the configuration event that follows the mastership change,
	// through the watcher that maps the configuration to the proposal at its applied cursor
	watcherMapsAs(c, "C11.9", pkgProposalCtl+".ConfigurationWatcher")
	// (4) transaction controller
	c.Al = transactionAliases(c.P)
	finalStatesEndWaits(c)
	applyFailureOutcome(c)
}

func codesDomain(c *engine.Ctx) (map[string]constant.Value, types.Type) {
	cst := c.P.LookupConst("codes.Unknown")
	if cst == nil {
		return nil, nil
	}
	return c.P.DomainNames(cst.Type()), cst.Type()
}

func codeOutcomeTable(c *engine.Ctx) {
	o := c.Custom("C11.1", "K-enum(code table)", "for every gRPC code K: the paths after a failed southbound Set that are consistent with code==K have the outcome of K's class (transient: no write, error returned; PermissionDenied: no write, nil; other: FAILED with table(K), Applied.Index:=own persisted first, no Applied.Values write)",
		"an unreachable or slow device must not fail the change; a refusal must fail exactly this change, with the device's class, and still let successors proceed")
	defer o.Done(1)
	dom, _ := codesDomain(c)
	if len(dom) < 17 {
		o.Undecided("codes", fmt.Sprintf("gRPC code domain has %d values, 17 expected", len(dom)))
		return
	}
	paths, err := c.A.Paths(pkgProposalCtl)
	if err != nil {
		o.Undecided(pkgProposalCtl, err.Error())
		return
	}
	own := c.Al.Expand("@OWN")
	reported := map[string]bool{}
	for _, p := range paths {
		if p.Lit != nil || !strings.HasSuffix(p.Root.Name(), "Reconciler.Reconcile") {
			continue
		}
		setIdx := -1
		for i := range p.Events {
			if p.Events[i].Kind == engine.EvCall && p.Events[i].CalleeName == sbSet {
				setIdx = i
			}
		}
		if setIdx < 0 {
			continue
		}
		last := len(p.Events) - 1
		conds := engine.CondsBefore(p, last)
		errv := "err(" + p.Events[setIdx].Canon + ")"
		failed := false
		var tag string
		for _, l := range conds {
			if l.L == errv && l.RNil && l.Mask == 5 {
				failed = true
			}
			if l.LType != nil && strings.HasSuffix(l.LType.String(), "grpc/codes.Code") && tag == "" {
				tag = l.L
			}
		}
		if !failed {
			continue
		}
		o.Site("")
		// observed outcome
		var wroteFailed, wroteApplied, wroteAppliedFirst, wroteValues, anyWrite bool
		failType := ""
		for i := setIdx + 1; i < len(p.Events); i++ {
			e := &p.Events[i]
			if e.Kind == engine.EvCall && isMutator(e.CalleeName) {
				anyWrite = true
			}
			if e.Kind != engine.EvWrite || e.Local != nil {
				continue
			}
			if e.Field != "" && e.Op != "lit" {
				anyWrite = true
			}
			switch {
			case e.Field == fAppliedIdx && e.RHS == own:
				wroteApplied = true
				if !wroteFailed {
					wroteAppliedFirst = true
				}
			case e.Field == "config/v2.ProposalApplyPhase.State" && e.RHS == "config/v2.ProposalApplyPhase_FAILED":
				wroteFailed = true
			case e.Field == "config/v2.Failure.Type":
				failType = e.RHS
			case strings.HasPrefix(e.Field, "config/v2.AppliedConfigurationStatus.Values"):
				wroteValues = true
			}
		}
		ret := p.Events[last].Results
		retNil := len(ret) > 0 && ret[len(ret)-1] == "nil"
		retSetErr := len(ret) > 0 && ret[len(ret)-1] == errv
		var names []string
		for n := range dom {
			names = append(names, n)
		}
		sort.Strings(names)
		for _, n := range names {
			if tag != "" {
				lit := engine.Lit{L: tag, R: n, Mask: 2, RConst: dom[n]}
				for _, l := range conds {
					if l.L == tag {
						lit.LType = l.LType
					}
				}
				if engine.Unsat(append(append([]engine.Lit(nil), conds...), lit), c.P.Domain) {
					continue
				}
			}
			o.Eval(1)
			short := strings.TrimPrefix(n, "codes.")
			bad := ""
			switch {
			case short == "OK":
				continue // a failed Set never carries OK
			case transientCodes[short]:
				if anyWrite || wroteFailed || !retSetErr {
					bad = "transient code: the path must write nothing and return the Set error (so that the controller retries)"
				}
			case short == "PermissionDenied":
				if anyWrite || wroteFailed || !retNil {
					bad = "superseded master: the path must write nothing and return nil"
				}
			default:
				want := "config/v2.Failure_" + codeToFailure[short]
				if codeToFailure[short] == "" {
					want = "zero(config/v2.Failure_Type)" // codes without a class of their own are recorded as UNKNOWN (the zero value)
				}
				storeFailed := !retNil && !retSetErr
				switch {
				case storeFailed && !wroteFailed:
					// a store error on the way is returned and retried
				case storeFailed:
				case !wroteFailed || !wroteApplied || !wroteAppliedFirst:
					bad = "refusal: the path must persist Applied.Index := own index and then record Apply FAILED"
				case wroteValues:
					bad = "refusal: Applied.Values must not be written for a change the device refused"
				case failType != want && !(want == "zero(config/v2.Failure_Type)" && failType == "config/v2.Failure_UNKNOWN"):
					bad = "refusal: recorded failure type " + failType + ", expected " + want
				}
			}
			if bad != "" {
				key := "code " + short + "|" + bad
				if !reported[key] {
					reported[key] = true
					o.Fail(&engine.Violation{Key: "reconcileApply|code " + short, Pos: c.P.Pos(p.Events[setIdx].Pos), Func: engine.FuncChain(p, setIdx),
						Msg: "for device code " + short + ": " + bad, Found: c.RenderConds(conds), Path: c.PathTrace(p, last)})
				}
			}
		}
	}
}

func isMutator(name string) bool {
	for _, m := range v2Mutators {
		if m == name && m != sbSet {
			return true
		}
	}
	return false
}

// errorDomains: classifier/producer domain agreement over the given packages.
func errorDomains(c *engine.Ctx, id string, pkgs []string) {
	o := c.Custom(id, "K-domain", "every error classifier is applied to values whose producers are all in the classifier's domain",
		"a classifier of the wrong domain never matches: status.Code(*TypedError) is always Unknown, errors.IsNotFound(grpc error) always false — an unreachable device would be recorded as a refusal")
	defer o.Done(10)
	d := engine.NewErrDomains(c.P)
	for _, cs := range c.P.CallSites() {
		in := false
		for _, p := range pkgs {
			if cs.Pkg == p {
				in = true
			}
		}
		if !in || len(cs.Call.Args) == 0 {
			continue
		}
		callee := calleeFunc(cs)
		want := engine.ClassifierDomain(callee)
		if want == engine.DomNone {
			continue
		}
		arg, ok := ast.Unparen(cs.Call.Args[0]).(*ast.Ident)
		if !ok {
			continue
		}
		obj := cs.Info.Uses[arg]
		if obj == nil {
			continue
		}
		// producers: calls whose error result is assigned to this variable before the classifier, in the same function
		var prods []*types.Func
		var nearest *ast.AssignStmt
		ast.Inspect(cs.Decl.Body, func(n ast.Node) bool {
			as, ok := n.(*ast.AssignStmt)
			if !ok || as.Pos() > cs.Call.Pos() {
				return true
			}
			for _, l := range as.Lhs {
				lid, ok := l.(*ast.Ident)
				if !ok {
					continue
				}
				lo := cs.Info.Defs[lid]
				if lo == nil {
					lo = cs.Info.Uses[lid]
				}
				if lo == obj && (nearest == nil || as.Pos() > nearest.Pos()) {
					nearest = as
				}
			}
			return true
		})
		if nearest == nil || len(nearest.Rhs) != 1 {
			continue
		}
		call, ok := ast.Unparen(nearest.Rhs[0]).(*ast.CallExpr)
		if !ok {
			continue
		}
		if f := calleeFunc(engine.CallSite{Call: call, Info: cs.Info}); f != nil {
			prods = append(prods, f)
		}
		if len(prods) == 0 {
			continue
		}
		got := d.Of(prods[0])
		o.Site(cs.Pos + " " + cs.Callee + "(" + arg.Name + ") with " + arg.Name + " from " + engine.ShortFuncName(prods[0]) + " [" + got.String() + "]")
		o.Eval(1)
		if os.Getenv("OCC_DEBUG_DOMAINS") != "" {
			fmt.Println("domain:", cs.Pos, cs.Callee, "want", want, "got", got, "from", engine.ShortFuncName(prods[0]))
		}
		// only definite cross-domain mismatches count: a raw (third-party) error reaching errors.Status
		// is converted to Internal by design, and "raw" is too weak an inference to arm
		// strict for the southbound client: its methods exist to turn device (gRPC) errors into typed ones
		strict := strings.HasPrefix(engine.ShortFuncName(prods[0]), "southbound/gnmi.Client.")
		if strict && want == engine.DomTyped && got != engine.DomTyped && got != engine.DomNone {
			// in the controllers every classified error comes from a store, topo or southbound interface of
			// this module, whose implementations wrap what they get from Atomix / gRPC: an implementation
			// that forwards a third-party error unwrapped makes every typed classification miss
			impl := ""
			for _, im := range d.Implementations(prods[0]) {
				impl += " " + engine.ShortFuncName(im) + "=" + d.Of(im).String()
			}
			o.Fail(&engine.Violation{Key: cs.Func + "|" + cs.Callee + " on unwrapped error of " + engine.ShortFuncName(prods[0]), Pos: cs.Pos, Func: cs.Func,
				Msg: fmt.Sprintf("%s classifies the error of %s, which is not a typed error on every path (%s; implementations:%s): an unwrapped gRPC/Atomix error is classified as Internal/no class", cs.Callee, engine.ShortFuncName(prods[0]), got, impl)})
			continue
		}
		// definite mismatches: the producer is wholly in the other domain, or a gRPC classifier
		// (status.Code) is applied to a producer with a typed part — a *TypedError has no GRPCStatus
		// method, so every typed error would read as codes.Unknown
		if ((got == engine.DomTyped || got == engine.DomGRPC) && got != want) || (want == engine.DomGRPC && got&engine.DomTyped != 0) {
			impl := ""
			for _, im := range d.Implementations(prods[0]) {
				impl += " " + engine.ShortFuncName(im)
			}
			o.Fail(&engine.Violation{Key: cs.Func + "|" + cs.Callee + " on error of " + engine.ShortFuncName(prods[0]), Pos: cs.Pos, Func: cs.Func,
				Msg: fmt.Sprintf("%s expects a %s error but %s produces %s errors (implementations:%s): the classification can never match", cs.Callee, want, engine.ShortFuncName(prods[0]), got, impl)})
		}
	}
}

func calleeFunc(cs engine.CallSite) *types.Func {
	var id *ast.Ident
	switch f := ast.Unparen(cs.Call.Fun).(type) {
	case *ast.Ident:
		id = f
	case *ast.SelectorExpr:
		id = f.Sel
	}
	if id == nil {
		return nil
	}
	fn, _ := cs.Info.Uses[id].(*types.Func)
	return fn
}

// classComposition: FromGRPC∘(code→Failure)∘(Failure→errors.New*)∘Status is the identity.
func classComposition(c *engine.Ctx) {
	o := c.Custom("C11.3", "K-tables(composition)", "for every device code K outside the transient/superseded classes that the typed-error library represents: Status(New[Failure(Type(FromStatus K))]) has code K; the northbound Failure→error table is total over Failure_Type",
		"the caller must see the device's error class: each of the four tables is written by hand in a different place")
	defer o.Done(2)
	dir, err := c.P.ModuleDir("github.com/onosproject/onos-lib-go")
	if err != nil {
		o.Undecided("onos-lib-go", err.Error())
		return
	}
	lib, err := engine.ParseFuncBodies(filepath.Join(dir, "pkg/errors/errors.go"))
	if err != nil || lib["Status"] == nil || lib["FromStatus"] == nil {
		o.Undecided("onos-lib-go", "cannot read Status/FromStatus from the module cache")
		return
	}
	retCall := func(stmts []ast.Stmt) string {
		for _, s := range stmts {
			if r, ok := s.(*ast.ReturnStmt); ok && len(r.Results) >= 1 {
				if call, ok := r.Results[len(r.Results)-1].(*ast.CallExpr); ok {
					if types.ExprString(call.Fun) == "status.New" && len(call.Args) > 0 {
						return types.ExprString(call.Args[0])
					}
					return types.ExprString(call.Fun)
				}
				return types.ExprString(r.Results[len(r.Results)-1])
			}
		}
		return ""
	}
	typeToCode := engine.SwitchTable(lib["Status"].Body, "Type", retCall)    // Unknown -> codes.Unknown
	codeToNew := engine.SwitchTable(lib["FromStatus"].Body, "Code", retCall) // codes.Unknown -> NewUnknown
	o.Site(fmt.Sprintf("onos-lib-go Status: %d entries, FromStatus: %d entries", len(typeToCode), len(codeToNew)))
	// repo tables
	var codeToFail, failToNew map[string]string
	assignConst := func(stmts []ast.Stmt) string {
		for _, s := range stmts {
			if as, ok := s.(*ast.AssignStmt); ok && len(as.Rhs) == 1 {
				return types.ExprString(as.Rhs[0])
			}
			if r, ok := s.(*ast.ReturnStmt); ok && len(r.Results) == 1 {
				return types.ExprString(r.Results[0]) // the table moved into a helper that returns the class
			}
		}
		return ""
	}
	for _, fi := range c.P.FuncsOf(c.P.Pkg(pkgProposalCtl)) {
		if !strings.HasSuffix(fi.Name(), ".reconcileApply") {
			continue
		}
		for _, h := range c.P.WithHelpers(fi, 3, false) {
			// the inner switch is the one whose cases assign (or return) a Failure_Type
			ast.Inspect(h.Decl.Body, func(n ast.Node) bool {
				if sw, ok := n.(*ast.SwitchStmt); ok && sw.Tag != nil && codeToFail == nil {
					t := engine.SwitchTable(&ast.BlockStmt{List: []ast.Stmt{sw}}, "", assignConst)
					for _, v := range t {
						if strings.Contains(v, "Failure_") {
							codeToFail = t
						}
					}
				}
				return true
			})
		}
	}
	newOrAssigned := func(stmts []ast.Stmt) string {
		for _, s := range stmts {
			var e ast.Expr
			switch x := s.(type) {
			case *ast.AssignStmt:
				if len(x.Rhs) == 1 {
					e = x.Rhs[0]
				}
			case *ast.ReturnStmt:
				if len(x.Results) > 0 {
					e = x.Results[len(x.Results)-1]
				}
			}
			found := ""
			if e != nil {
				ast.Inspect(e, func(n ast.Node) bool {
					if call, ok := n.(*ast.CallExpr); ok && found == "" {
						if f := types.ExprString(call.Fun); strings.HasPrefix(f, "errors.New") {
							found = strings.TrimPrefix(f, "errors.")
						}
					}
					return true
				})
			}
			if found != "" {
				return found
			}
		}
		return ""
	}
	for _, fi := range c.P.FuncsOf(c.P.Pkg(pkgNbGnmi)) {
		if !strings.HasSuffix(fi.Name(), "Server.Set") {
			continue
		}
		for _, h := range c.P.WithHelpers(fi, 3, false) {
			info := h.Pkg.TypesInfo
			ast.Inspect(h.Decl.Body, func(n ast.Node) bool {
				if sw, ok := n.(*ast.SwitchStmt); ok && sw.Tag != nil && failToNew == nil && info.TypeOf(sw.Tag) != nil && strings.HasSuffix(info.TypeOf(sw.Tag).String(), "Failure_Type") {
					failToNew = engine.SwitchTable(&ast.BlockStmt{List: []ast.Stmt{sw}}, "", newOrAssigned)
				}
				return true
			})
		}
	}
	if codeToFail == nil || failToNew == nil {
		o.Undecided("tables", "cannot locate the code→Failure switch in reconcileApply or the Failure→error switch in Server.Set")
		return
	}
	o.Site(fmt.Sprintf("reconcileApply code→Failure: %d entries; Server.Set Failure→error: %d entries", len(codeToFail), len(failToNew)))
	// totality of the northbound table over the enum
	fdom := c.P.DomainNames(c.P.LookupConst("config/v2.Failure_UNKNOWN").Type())
	for n := range fdom {
		o.Eval(1)
		short := "configapi." + strings.TrimPrefix(n, "config/v2.")
		if _, ok := failToNew[short]; !ok {
			if _, def := failToNew["default"]; !def {
				o.Fail(&engine.Violation{Key: "Server.Set|Failure table|" + n, Pos: pkgNbGnmi, Msg: "the northbound Failure→error table has no entry for " + n + " and no default"})
			}
		}
	}
	// composition
	dom, _ := codesDomain(c)
	var names []string
	for n := range dom {
		names = append(names, n)
	}
	sort.Strings(names)
	for _, n := range names {
		short := strings.TrimPrefix(n, "codes.")
		if short == "OK" || transientCodes[short] || short == "PermissionDenied" {
			continue
		}
		if _, ok := codeToNew[n]; !ok {
			continue // the typed-error library folds this code into Unknown: nothing to preserve
		}
		o.Eval(1)
		fail, ok := codeToFail[n]
		if !ok {
			fail = "configapi.Failure_UNKNOWN"
		}
		ctor := failToNew[fail]
		if ctor == "" {
			ctor = failToNew["default"]
		}
		typ := strings.TrimPrefix(ctor, "New")
		back := typeToCode[typ]
		if back != n {
			o.Fail(&engine.Violation{Key: "class composition|" + short, Pos: pkgProposalCtl,
				Msg: fmt.Sprintf("device code %s is recorded as %s, reported through errors.%s, which the caller sees as %s", short, fail, ctor, back)})
		}
	}
}

// finalStatesEndWaits: C11.7. A wait on the predecessor transaction is never taken for a predecessor that failed.
func finalStatesEndWaits(c *engine.Ctx) {
	o := c.Custom("C11.7", "K-enum(wait predicate)", "a reconcile pass of the transaction controller whose last decision is a comparison of the predecessor transaction's Status.State and which then returns without any store write (a wait) is infeasible for State == FAILED",
		"later transactions on the same target still proceed after a refusal: FAILED is the largest value of the enum, so a predicate written as 'not yet at X' must be '<', never '!='")
	defer o.Done(3)
	paths, err := c.A.Paths(pkgTransactionCtl)
	if err != nil {
		o.Undecided(pkgTransactionCtl, err.Error())
		return
	}
	prev := c.Al.Expand("@PREVTS.Status.State")
	failed := c.P.LookupConst("config/v2.TransactionStatus_FAILED")
	if failed == nil {
		o.Undecided("TransactionStatus_FAILED", "constant not found")
		return
	}
	reported := map[string]bool{}
	seen := map[string]bool{}
	for _, p := range paths {
		if p.Lit != nil || !strings.HasSuffix(p.Root.Name(), "Reconciler.Reconcile") {
			continue
		}
		lastCond := -1
		wrote := false
		for i := range p.Events {
			e := &p.Events[i]
			switch e.Kind {
			case engine.EvCond:
				lastCond = i
			case engine.EvCall:
				if isStoreMutator(e.CalleeName) {
					wrote = true
				}
			}
		}
		if lastCond < 0 || wrote {
			continue
		}
		lc := &p.Events[lastCond]
		if lc.Lit.L != prev && lc.Lit.R != prev {
			continue
		}
		last := &p.Events[len(p.Events)-1]
		if last.Kind != engine.EvReturn || len(last.Results) < 2 || last.Results[len(last.Results)-1] != "nil" {
			continue
		}
		pos := c.P.Pos(lc.Pos)
		if !seen[pos] {
			seen[pos] = true
			o.Site(pos + " wait on " + c.Render(lc.Lit.String()))
		}
		o.Eval(1)
		var conds []engine.Lit
		for i := range p.Events {
			if p.Events[i].Kind == engine.EvCond {
				conds = append(conds, p.Events[i].Lit)
			}
		}
		conds = append(conds, engine.Lit{L: prev, R: "config/v2.TransactionStatus_FAILED", RConst: failed.Val(), Mask: 2, LType: failed.Type()})
		if !engine.Unsat(conds, c.P.Domain) && !reported[pos] {
			reported[pos] = true
			o.Fail(&engine.Violation{Key: engine.FuncChainNoPos(p, lastCond) + "|wait taken for a FAILED predecessor", Pos: pos, Func: engine.FuncChain(p, lastCond),
				Msg: "the pass returns without doing anything after testing " + c.Render(lc.Lit.String()) + ", and that test holds for a predecessor in state FAILED: a refused serializable transaction blocks every later transaction on the target"})
		}
	}
}

// applyFailureOutcome: C11.4. One target's refusal fails the transaction — after every other target of the
// transaction has been given its apply phase, with the refusing target's failure, and without touching the
// other proposals.
func applyFailureOutcome(c *engine.Ctx) {
	o := c.Custom("C11.4", "K-outcome(apply failure)", "in the transaction controller, Apply.State := FAILED is written only (a) after the loop over the transaction's proposals has been left — every proposal met in it had its apply phase started, a proposal without one makes the pass start it and return — (b) on a path that saw some proposal's Apply.State == FAILED, (c) together with Status.State := FAILED, Status.Failure and Apply.Failure := that proposal's failure and a transactions.UpdateStatus, and (d) without any proposal write or Abort phase",
		"a device refusing a change fails that change only: the transaction is failed with that target's failure class, the other targets still get their (committed) change applied — a FAILED transaction is not reconciled again, so nothing would start their apply phase later")
	defer o.Done(1)
	paths, err := c.A.Paths(pkgTransactionCtl)
	if err != nil {
		o.Undecided(pkgTransactionCtl, err.Error())
		return
	}
	pe := c.Al.Expand("@PE")
	// the flag that guards the write after the loop: set true only under `case ProposalApplyPhase_FAILED`
	// (a path on which the abstract loop ran zero times carries a havocked flag and no condition)
	flagOK := false
	for _, fi := range c.P.FuncsOf(c.P.Pkg(pkgTransactionCtl)) {
		if !strings.HasSuffix(fi.Name(), "Reconciler.reconcileApply") || fi.Decl == nil {
			continue
		}
		sets, good := 0, 0
		var clauses []*ast.CaseClause
		ast.Inspect(fi.Decl.Body, func(n ast.Node) bool {
			if cc, ok := n.(*ast.CaseClause); ok {
				for _, e := range cc.List {
					if strings.HasSuffix(types.ExprString(e), "ProposalApplyPhase_FAILED") {
						clauses = append(clauses, cc)
					}
				}
			}
			return true
		})
		ast.Inspect(fi.Decl.Body, func(n ast.Node) bool {
			as, ok := n.(*ast.AssignStmt)
			if !ok || len(as.Lhs) != 1 || len(as.Rhs) != 1 {
				return true
			}
			if id, ok := as.Lhs[0].(*ast.Ident); !ok || id.Name != "failed" {
				return true
			}
			if types.ExprString(as.Rhs[0]) == "false" && as.Tok == token.DEFINE {
				return true
			}
			sets++
			for _, cc := range clauses {
				if as.Pos() > cc.Pos() && as.End() <= cc.End() && types.ExprString(as.Rhs[0]) == "true" {
					good++
				}
			}
			return true
		})
		flagOK = sets > 0 && sets == good
	}
	reported := map[string]bool{}
	fail := func(p *engine.Path, i int, key, msg string) {
		if !reported[key] {
			reported[key] = true
			o.Fail(&engine.Violation{Key: "reconcileApply|" + key, Pos: c.P.Pos(p.Events[i].Pos), Func: engine.FuncChain(p, i), Msg: msg})
		}
	}
	for _, p := range paths {
		if !strings.HasSuffix(p.Root.Name(), "Reconciler.Reconcile") {
			continue
		}
		w := -1
		for i := range p.Events {
			if e := &p.Events[i]; e.Kind == engine.EvWrite && e.Field == "config/v2.TransactionApplyPhase.State" && e.RHS == "config/v2.TransactionApplyPhase_FAILED" {
				w = i
			}
		}
		if w < 0 {
			continue
		}
		o.Site(c.P.Pos(p.Events[w].Pos))
		o.Eval(1)
		if p.Events[w].Loops != "" {
			fail(p, w, "failed inside the proposal loop", "the transaction's apply phase is failed inside the loop over its proposals: the proposals behind the refusing one never get their apply phase started (a FAILED transaction is not reconciled again), their committed changes are never sent and their targets wedge")
			continue
		}
		sawFailed, txState, txFailure, phFailure, upd := false, false, "", "", false
		for i := range p.Events {
			e := &p.Events[i]
			switch {
			case e.Kind == engine.EvCond && e.Lit.L == pe+".Status.Phases.Apply.State" && e.Lit.R == "config/v2.ProposalApplyPhase_FAILED" && e.Lit.Mask == 2:
				sawFailed = true
			case e.Kind == engine.EvWrite && e.Field == "config/v2.TransactionStatus.State" && e.RHS == "config/v2.TransactionStatus_FAILED":
				txState = true
			case e.Kind == engine.EvWrite && e.Field == "config/v2.TransactionStatus.Failure":
				txFailure = e.RHS
			case e.Kind == engine.EvWrite && e.Field == "config/v2.TransactionApplyPhase.Failure":
				phFailure = e.RHS
			case e.Kind == engine.EvCall && e.CalleeName == stTxUpdStat && i > w:
				upd = true
			case e.Kind == engine.EvCall && e.CalleeName == stPropUpdStat:
				fail(p, i, "proposal written", "a pass that fails the transaction at apply also writes a proposal")
			case e.Kind == engine.EvWrite && e.Field == "config/v2.TransactionPhases.Abort":
				fail(p, i, "abort after commit", "a transaction failed at apply is sent to Abort: the committed changes of the other targets would be undone")
			}
		}
		fromProposal := func(s string) bool {
			return s == pe+".Status.Phases.Apply.Failure" || strings.HasPrefix(s, "?failure@")
		}
		switch {
		case !sawFailed && !flagOK:
			fail(p, w, "no refusal seen", "the transaction's apply phase is failed on a path that saw no proposal with Apply.State == FAILED")
		case !txState || !upd:
			fail(p, w, "not recorded", "the failure is not recorded in Status.State and persisted with transactions.UpdateStatus")
		case !fromProposal(txFailure) || !fromProposal(phFailure) || txFailure != phFailure:
			fail(p, w, "failure class", "Status.Failure ("+c.Render(txFailure)+") / Apply.Failure ("+c.Render(phFailure)+") are not the refusing proposal's failure")
		}
	}
}
