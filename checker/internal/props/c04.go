package props

import (
	"go/ast"
	"go/types"
	"strings"

	"occheck/internal/engine"
)

func init() {
	register(&Prop{
		ID:    "C04",
		Title: "A connected device converges to the stored configuration",
		Explanation: "Convergence itself is a history property. Decided: (1) the re-push gate — SYNCHRONIZED and the applied term/master are written either when nothing was ever applied (Applied.Index == 0) or after a loop in which every iteration performs the southbound Set and leaves the function on any error, the loop ranging over a collection into which every element of Status.Applied.Values was put unconditionally; " +
			"(2) SYNCHRONIZING is entered exactly when the mastership term is ahead of the applied term (non-persistent targets), and the re-push runs only while SYNCHRONIZING under the master guards; (3) nothing new is applied while SYNCHRONIZING or in a stale applied term; " +
			"(4) sent == recorded: the SetRequest of an apply and the update of Applied.Values derive from the same cascade result, Applied.Values is written only after a successful Set, and not at all on the failure path; (5) every offline branch before the Set (no master, relation or connection missing, not the master node, synchronizing, stale term) returns nil without any write; " +
			"(6) distinct logical stores use distinct Atomix primitives (committed and applied value maps); (7) the request builder puts every input element into exactly one of Delete (iff Deleted) or Update, aborts the whole request on a conversion error, and sets the target prefix." +
			" Also: the record written by the configuration store carries no embedded value map (C04.13).",
		Declined: []string{"that the device's state equals what was sent", "convergence over histories and fault sequences"},
		Run:      runC04,
		Witness: []WitnessTarget{{pkgConfigCtl, []string{"Reconciler."}}, {pkgProposalCtl, []string{"reconcileApply"}}, {pkgValuesV2, []string{"PathValuesToGnmiChange"}},
			{pkgStoreCfgV2, []string{"getTarget", "getCommitted", "getApplied"}}},
	})
}

func runC04(c *engine.Ctx, tier string) {
	recordCarriesNoValueMap(c)
	c.Al = configAliases(c.P)
	notPersistent := "!topo.Configurable{}.Persistent"
	// (2) entering SYNCHRONIZING
	c.Guard(engine.Guard{ID: "C04.2a", Pkg: pkgConfigCtl, Min: 1,
		Sel:     engine.Sel{Field: fState, RHS: "config/v2.ConfigurationStatus_SYNCHRONIZING"},
		Require: notPersistent + " && @CFG.Status.State != config/v2.ConfigurationStatus_SYNCHRONIZING && @CFG.Status.Mastership.Term > @CFG.Status.Applied.Mastership.Term",
		Why:     "a new term (mastership assigned again after the connection was lost) forces a re-push before anything else"})
	c.Outcome(engine.Outcome{ID: "C04.2b", Pkg: pkgConfigCtl, Root: "Reconciler.Reconcile", Min: 1, Consistent: true,
		When: "err(@CFG) == nil && err(@TGT) == nil && " + notPersistent + " && @CFG.Status.State != config/v2.ConfigurationStatus_SYNCHRONIZING && @CFG.Status.Mastership.Term > @CFG.Status.Applied.Mastership.Term",
		Must: []engine.Sel{{Field: fState, RHS: "config/v2.ConfigurationStatus_SYNCHRONIZING"}, {Call: stCfgUpdStat}},
		Why:  "whenever the term is ahead of the applied term the configuration is marked SYNCHRONIZING (this is what blocks applies, C04.3)"})
	// (1) the re-push gate
	c.Guard(engine.Guard{ID: "C04.1a", Pkg: pkgConfigCtl, Min: 2,
		Sel:     engine.Sel{Field: fState, RHS: "config/v2.ConfigurationStatus_SYNCHRONIZED"},
		Require: notPersistent + " && @CFG.Status.State == config/v2.ConfigurationStatus_SYNCHRONIZING && @CFG.Status.Mastership.Master != \"\"",
		Why:     "SYNCHRONIZED is reached only from SYNCHRONIZING with a master"})
	pushGate(c)
	// the re-push, once it went through, is recorded: otherwise the target stays behind its term for ever
	// and every later apply waits (C04.3)
	synced := []engine.Sel{{Field: fState, RHS: "config/v2.ConfigurationStatus_SYNCHRONIZED"}, {Field: fTerm, RHS: "@CFG.Status.Mastership.Term"},
		{Field: fMaster, RHS: "@CFG.Status.Mastership.Master"}, {Call: stCfgUpdStat}}
	base := "err(@CFG) == nil && err(@TGT) == nil && " + notPersistent + " && @CFG.Status.State == config/v2.ConfigurationStatus_SYNCHRONIZING && @CFG.Status.Mastership.Master != \"\""
	c.Outcome(engine.Outcome{ID: "C04.8a", Pkg: pkgConfigCtl, Root: "Reconciler.Reconcile", Min: 1, Consistent: true,
		When: base + " && @CFG.Status.Applied.Index == 0", Must: synced,
		Why: "a target to which nothing was ever applied is synchronized at once, in the new term"})
	c.Outcome(engine.Outcome{ID: "C04.8b", Pkg: pkgConfigCtl, Root: "Reconciler.Reconcile", Min: 1, Consistent: true,
		When: base + " && @CFG.Status.Applied.Index != 0 && err(@REL) == nil && controller/utils.GetOnosConfigID() == {@REL}topo.Object.GetRelation().SrcEntityID && ok(@CONN) && !#failed(" + sbSet + ") && !#failed(utils/v2/values.PathValuesToGnmiChange)",
		Must: synced,
		Why:  "after every applied value was sent without error the configuration is SYNCHRONIZED in the current term and master"})
	c.Guard(engine.Guard{ID: "C04.1c", Pkg: pkgConfigCtl, None: true, Rule: "K-own(rhs)",
		Sel: engine.Sel{Field: fMaster, NotRHS: "@CFG.Status.Mastership.Master", Lit: true},
		Why: "the applied master is a copy of the current master"})
	// the term is the only trigger of the re-push: every assignment of a (new) master must start a new term
	c.Al = configAliases(c.P)
	electionRule(c, "C04.9")
	// (3) nothing new while synchronizing
	c.Al = proposalAliases(c.P)
	c.Guard(engine.Guard{ID: "C04.3", Pkg: pkgProposalCtl, Min: 1, Sel: engine.Sel{Call: sbSet},
		Require: "!(@CFG.Status.State == config/v2.ConfigurationStatus_SYNCHRONIZING) && (@CFG.Status.State == config/v2.ConfigurationStatus_PERSISTED || !(@CFG.Status.Applied.Mastership.Term < @CFG.Status.Mastership.Term))",
		Why:     "the previously applied configuration is pushed again before anything new (a persistent target is never pushed again: there is no term to wait for)"})
	// (3b) … and a persistent target is not made to wait for a re-synchronisation that never comes (F53)
	c.Outcome(engine.Outcome{ID: "C04.3b", Pkg: pkgProposalCtl, Root: "Reconciler.Reconcile", Min: 1, Consistent: true,
		When: "err(@P) == nil && @P.Status.Phases.Apply != nil && @P.Status.Phases.Apply.State == config/v2.ProposalApplyPhase_APPLYING && err(@CFG) == nil && !(@CFG.Status.Applied.Index >= @OWN) && !(@PREV != 0 && @CFG.Status.Applied.Index != @PREV) && " +
			"@CFG.Status.State == config/v2.ConfigurationStatus_PERSISTED && @CFG.Status.Applied.Mastership.Term < @CFG.Status.Mastership.Term && @CFG.Status.Mastership.Master != \"\"",
		Must: []engine.Sel{{Call: "store/topo.Store.Get"}},
		Why:  "the configuration controller never advances the applied term of a persistent target: an apply that waited for it would wait for ever"})
	// (4) sent == recorded
	sentEqualsRecorded(c)
	c.Guard(engine.Guard{ID: "C04.4b", Pkg: pkgProposalCtl, Min: 1,
		Sel:     engine.Sel{Field: "config/v2.AppliedConfigurationStatus.Values[]"},
		Require: "#ok(" + sbSet + ")",
		Why:     "applied values are recorded only for a change the device accepted"})
	c.MayCall(engine.MayCall{ID: "C04.4c", Callees: []string{"store/v2/configuration.Store.UpdateStatus"}, Min: 3,
		Pkgs: []string{pkgProposalCtl, pkgConfigCtl, pkgMastershipCtl},
		Why:  "only the three v2 controllers persist configuration status"})
	c.Own(engine.Own{ID: "C04.4d", Field: "config/v2.AppliedConfigurationStatus.Values[]", Pkgs: []string{pkgProposalCtl, pkgStoreCfgV2}, Min: 1,
		Why: "Applied.Values is written by the apply step (and loaded by the store) only"})
	c.Own(engine.Own{ID: "C04.4e", Field: "config/v2.AppliedConfigurationStatus.Values", Pkgs: []string{pkgProposalCtl, pkgStoreCfgV2}, Min: 1,
		Why: "Applied.Values is (re)created by the apply step and loaded by the store only"})
	// (5) offline branches
	for i, w := range []string{
		"@CFG.Status.State == config/v2.ConfigurationStatus_SYNCHRONIZING",
		"@CFG.Status.State != config/v2.ConfigurationStatus_PERSISTED && @CFG.Status.Applied.Mastership.Term < @CFG.Status.Mastership.Term",
		"@CFG.Status.Mastership.Master == \"\"",
		"#errIs(store/topo.Store.Get|errors.IsNotFound)",
		"err(@REL) == nil && controller/utils.GetOnosConfigID() != {@REL}topo.Object.GetRelation().SrcEntityID",
		"!ok(@CONN)",
	} {
		c.Outcome(engine.Outcome{ID: "C04.5" + string(rune('a'+i)), Pkg: pkgProposalCtl, Root: "Reconciler.Reconcile", Min: 1,
			When:    "err(@P) == nil && @P.Status.Phases.Apply != nil && @P.Status.Phases.Apply.State == config/v2.ProposalApplyPhase_APPLYING && err(@CFG) == nil && !(@CFG.Status.Applied.Index >= @OWN) && !(@PREV != 0 && @CFG.Status.Applied.Index != @PREV) && " + w,
			MustNot: []engine.Sel{{CallAny: v2Mutators}, {Field: "config/v2.ProposalApplyPhase.State"}},
			Returns: "err==nil",
			Why:     "while the target is offline, not mastered by this node or re-synchronising, an apply simply waits: nothing is written and nothing is failed"})
	}
	// (6) distinct primitives
	distinctPrimitives(c, "C04.6a", pkgStoreCfgV2)
	distinctPrimitives(c, "C04.6b", pkgStoreCfgV3)
	// (7) request construction
	requestBuilder(c, "C04.7a", pkgValuesV2)
	requestBuilder(c, "C04.7b", pkgValuesV3)
	// (10) "after the controlling connection is replaced": a replaced connection must be a *new* connection
	// (new id, new CONTROLS relation, new term) or nothing is pushed again
	connLifecycle(c, "C04.10")
	// (11) what the re-push sends is Applied.Values: they are stored before the applied cursor that claims them
	storeWriteOrder(c, "", "C04.11")
	// (12) … and they are what was applied: a status writer that read the configuration before an apply (the
	// mastership and configuration controllers write the status concurrently with the proposal controller)
	// must not put the older applied values back when its own write is refused
	refusedLeavesNoTrace(c, "C04.12", pkgStoreCfgV2, "UpdateStatus")
}

// pushGate: every path that writes SYNCHRONIZED without Applied.Index == 0 has passed the push
// loop; every iteration of the push loop performs the southbound Set and every Set error leaves
// the function; the pushed collection was filled unconditionally from every applied value.
func pushGate(c *engine.Ctx) {
	o := c.Custom("C04.1b", "K-enum(push loop)", "SYNCHRONIZED / Applied.Mastership ⇐ Applied.Index == 0 ∨ (push loop over a collection filled from every element of Status.Applied.Values; each iteration calls Client.Set; a Set error leaves the function)",
		"the device is reported synchronized in the new term only after every previously applied value was sent again without error")
	defer o.Done(1)
	paths, err := c.A.Paths(pkgConfigCtl)
	if err != nil {
		o.Undecided(pkgConfigCtl, err.Error())
		return
	}
	zero, _ := engine.ParseClause("@CFG.Status.Applied.Index == 0", c.Al, c.P)
	applied := c.Al.Expand("@CFG.Status.Applied.Values")
	sites := engine.FindSites(paths, func(p *engine.Path, i int) bool {
		e := &p.Events[i]
		if e.Kind != engine.EvWrite || e.Op == "lit" {
			return false
		}
		return (e.Field == fState && e.RHS == "config/v2.ConfigurationStatus_SYNCHRONIZED") ||
			((e.Field == fTerm || e.Field == fMaster) && strings.Contains(e.LHS, ".Applied.Mastership."))
	})
	sawFill := false
	defer func() {
		if !sawFill {
			o.Undecided("reconcileConfiguration|fill loop", "anchor not found: no path fills the pushed collection from a loop over Status.Applied.Values")
		}
	}()
	for _, s := range sites {
		e := s.Ev()
		o.Site(c.P.Pos(e.Pos) + " " + c.Render(c.A.DescribeEvent(e)))
		for _, ref := range s.Refs {
			o.Eval(1)
			p := ref.Path
			conds := engine.CondsBefore(p, ref.Idx)
			if engine.Entails(conds, zero, c.P.Domain) {
				continue
			}
			bad := ""
			// find the fill loop and the push loop (closed loops before the site)
			fill, push := -1, -1
			for i := 0; i < ref.Idx; i++ {
				le := &p.Events[i]
				if le.Kind != engine.EvLoopEnter {
					continue
				}
				if le.Range == applied {
					fill = i
				} else if fill >= 0 || strings.HasPrefix(le.Range, "make(map[config/v2.Index][]*config/v2.PathValue)") {
					push = i
				}
			}
			if push < 0 {
				bad = "SYNCHRONIZED is written without the push loop and without Applied.Index == 0"
			} else {
				le := &p.Events[push]
				sawSet, okSet, exit := false, false, -1
				var setCanon string
				for j := push + 1; j < ref.Idx; j++ {
					ej := &p.Events[j]
					if ej.Kind == engine.EvLoopExit && ej.Node == le.Node {
						exit = j
						break
					}
					if ej.Kind == engine.EvCall && ej.CalleeName == sbSet && ej.Loops == le.LoopID {
						sawSet = true
						setCanon = ej.Canon
					}
					if ej.Kind == engine.EvCond && sawSet && ej.Lit.L == "err("+setCanon+")" && ej.Lit.RNil && ej.Lit.Mask == 2 {
						okSet = true
					}
					if ej.Kind == engine.EvBranch && ej.Loops == le.LoopID {
						bad = "the push loop contains a break/continue: an applied value can be skipped"
					}
				}
				if exit > push+1 && bad == "" { // at least one (abstract) iteration
					if !sawSet {
						bad = "an iteration of the push loop can complete without calling Client.Set"
					} else if !okSet {
						bad = "an iteration of the push loop can complete although the Set error was not tested nil"
					}
				}
				// the pushed collection: filled, unconditionally, from every applied value
				if bad == "" && !strings.HasPrefix(le.Range, "make(map[config/v2.Index][]*config/v2.PathValue)") {
					bad = "the push loop ranges over " + c.Render(le.Range) + ", not over the collection built from Status.Applied.Values"
				}
				// every value that enters the pushed collection is an applied value
				base := strings.SplitN(le.Range, "#", 2)[0]
				for j := 0; j < push && bad == ""; j++ {
					ej := &p.Events[j]
					if ej.Kind == engine.EvWrite && ej.Local == nil && strings.HasPrefix(ej.LHS, base+"[") && !strings.Contains(ej.RHS, "elem("+applied+")") {
						bad = "the pushed collection receives " + c.Render(ej.RHS) + ", which is not an element of Status.Applied.Values: the re-push would send values that were never (successfully) applied"
					}
				}
				if fill >= 0 {
					sawFill = true
					// the fill loop is entered under Applied.Values != nil, never under == nil
					for _, l := range engine.CondsBefore(p, fill) {
						if l.L == applied && l.RNil && l.Mask == 2 && bad == "" {
							bad = "the loop that collects the applied values runs only when Status.Applied.Values is nil: a non-empty applied configuration is never pushed"
						}
					}
				}
				if fill < 0 && bad == "" {
					// no fill loop on this path: only admissible when there is nothing to push
					isNil := false
					for _, l := range engine.CondsBefore(p, push) {
						if l.L == applied && l.RNil && l.Mask == 2 {
							isNil = true
						}
					}
					if !isNil {
						bad = "the push loop is reached without the loop that collects Status.Applied.Values, on a path that does not establish that they are nil"
					}
				}
				if bad == "" && fill >= 0 {
					fe := &p.Events[fill]
					stored, cond := false, false
					for j := fill + 1; j < push; j++ {
						ej := &p.Events[j]
						if ej.Kind == engine.EvLoopExit && ej.Node == fe.Node {
							if j > fill+1 && !stored {
								bad = "an applied value can be left out of the collection that is pushed"
							}
							break
						}
						if ej.Kind == engine.EvCond && ej.Loops == fe.LoopID {
							cond = true
						}
						if ej.Kind == engine.EvWrite && ej.Loops == fe.LoopID && strings.HasPrefix(ej.LHS, strings.SplitN(le.Range, "#", 2)[0]) &&
							strings.Contains(ej.RHS, "elem("+applied+")") && !cond {
							stored = true
						}
					}
				}
			}
			if bad != "" {
				o.Fail(&engine.Violation{Key: engine.SiteKey(p, ref.Idx, "write "+c.Render(e.Field+" := "+e.RHS)), Pos: c.P.Pos(e.Pos), Func: engine.FuncChain(p, ref.Idx),
					Msg: bad, Found: c.RenderConds(conds), Path: c.PathTrace(p, ref.Idx)})
				break
			}
		}
	}
}

// sentEqualsRecorded: in reconcileApply the loop that fills the slice the SetRequest is built from
// and the loop that writes Applied.Values range over the same canonical collection, which is the
// cascade result AddDeleteChildren(own index, change source, CFG.Values); between that slice and
// the request only PrunePathValues(·, true) and PathValuesToGnmiChange are applied.
func sentEqualsRecorded(c *engine.Ctx) {
	o := c.Custom("C04.4a", "K-dataflow(sent=recorded)", "Client.Set request = PathValuesToGnmiChange(PrunePathValues(slice filled from X, true), target) and Applied.Values[k] := v for k,v in X, with X = AddDeleteChildren(own, change source, CFG.Values)",
		"what is recorded as applied is exactly what was sent")
	defer o.Done(1)
	paths, err := c.A.Paths(pkgProposalCtl)
	if err != nil {
		o.Undecided(pkgProposalCtl, err.Error())
		return
	}
	x1 := c.Al.Expand("controller/utils.AddDeleteChildren(@OWN,@CHG.Change.Values,@CFG.Values)")
	x2 := c.Al.Expand("controller/utils.AddDeleteChildren(@OWN,@P.Status.RollbackValues,@CFG.Values)")
	for _, s := range engine.FindSites(paths, c.Match(engine.Sel{Field: "config/v2.AppliedConfigurationStatus.Values[]"})) {
		e := s.Ev()
		o.Site(c.P.Pos(e.Pos) + " " + c.Render(c.A.DescribeEvent(e)))
		for _, ref := range s.Refs {
			o.Eval(1)
			p := ref.Path
			// enclosing loop of the record write
			var rec *engine.Event
			for i := ref.Idx - 1; i >= 0; i-- {
				if le := &p.Events[i]; le.Kind == engine.EvLoopEnter && le.LoopID == p.Events[ref.Idx].Loops {
					rec = le
					break
				}
			}
			bad := ""
			var setArg string
			for i := 0; i < ref.Idx; i++ {
				if ce := &p.Events[i]; ce.Kind == engine.EvCall && ce.CalleeName == sbSet && len(ce.Args) == 1 {
					setArg = ce.Args[0]
				}
			}
			switch {
			case rec == nil:
				bad = "Applied.Values is not written inside a loop over the cascade result"
			case rec.Range != x1 && rec.Range != x2 && !strings.HasPrefix(rec.Range, "controller/utils.AddDeleteChildren("+c.Al.Expand("@OWN")+",zero("):
				bad = "Applied.Values is filled from " + c.Render(rec.Range) + ", not from the cascade result of the proposal's change source"
			case !(strings.HasSuffix(p.Events[ref.Idx].LHS, "[key"+loopSuffix(p.Events[ref.Idx].RHS)+"("+rec.Range+")]") && strings.HasPrefix(p.Events[ref.Idx].RHS, "elem")):
				bad = "Applied.Values is not written as values[key] = elem of the cascade result (" + c.Render(p.Events[ref.Idx].LHS) + " := " + c.Render(p.Events[ref.Idx].RHS) + ")"
			case !strings.HasPrefix(setArg, "utils/v2/values.PathValuesToGnmiChange(utils/v2/tree.PrunePathValues(?"):
				bad = "the SetRequest is not PathValuesToGnmiChange(PrunePathValues(slice, true), target): " + c.Render(setArg)
			}
			if bad == "" {
				// the slice passed to PrunePathValues is the one filled in a loop over the same collection
				filled := false
				for i := 0; i < ref.Idx; i++ {
					le := &p.Events[i]
					if le.Kind == engine.EvLoopEnter && le.Range == rec.Range && le.Node != rec.Node {
						filled = true
					}
				}
				if !filled {
					bad = "the slice the SetRequest is built from is not filled from the collection that is recorded"
				}
			}
			if bad != "" {
				o.Fail(&engine.Violation{Key: engine.SiteKey(p, ref.Idx, "record applied values"), Pos: c.P.Pos(e.Pos), Func: engine.FuncChain(p, ref.Idx), Msg: bad, Path: c.PathTrace(p, ref.Idx)})
				break
			}
		}
	}
	// every element of the cascade result is appended unconditionally to the slice
	for _, p := range paths {
		for i := range p.Events {
			le := &p.Events[i]
			if le.Kind != engine.EvLoopEnter || (le.Range != x1 && le.Range != x2) {
				continue
			}
			if _, isRange := le.Node.(*ast.RangeStmt); !isRange {
				continue
			}
			appended, cond, isFill := false, false, false
			for j := i + 1; j < len(p.Events); j++ {
				ej := &p.Events[j]
				if ej.Kind == engine.EvLoopExit && ej.Node == le.Node {
					if isFill && j > i+1 && (!appended || cond) {
						o.Fail(&engine.Violation{Key: engine.SiteKey(p, i, "fill request slice"), Pos: c.P.Pos(le.Pos), Func: engine.FuncChain(p, i),
							Msg: "an element of the cascade result can be left out of the SetRequest"})
						return
					}
					break
				}
				if ej.Loops != le.LoopID {
					continue
				}
				if ej.Kind == engine.EvCond || ej.Kind == engine.EvBranch {
					cond = true
				}
				if ej.Kind == engine.EvWrite && ej.Local != nil && strings.HasPrefix(ej.RHS, "append(") {
					isFill = true
					if strings.HasSuffix(ej.RHS, ",elem("+le.Range+"))") && !cond {
						appended = true
					}
				}
			}
		}
	}
}

func loopSuffix(rhs string) string {
	// elem'2(X) -> '2
	if strings.HasPrefix(rhs, "elem") {
		if i := strings.Index(rhs, "("); i > 4 {
			return rhs[4:i]
		}
	}
	return ""
}

// distinctPrimitives: in a store package, when several receiver-field caches of Atomix primitives
// are filled by one builder function, the primitive name must depend on something that tells the
// caches apart.
func distinctPrimitives(c *engine.Ctx, id, rel string) {
	o := c.Custom(id, "naming(primitives)", "a function that builds an Atomix primitive for a cache passed as parameter derives the primitive's name from a parameter that differs between its callers",
		"Configuration.Values and Status.Applied.Values must live in different primitives: otherwise every committed value reads back as applied, and the re-push sends changes that were never applied or whose apply failed")
	defer o.Done(1)
	pkg := c.P.Pkg(rel)
	if pkg == nil {
		o.Undecided(rel, "package not found")
		return
	}
	info := pkg.TypesInfo
	for _, fi := range c.P.FuncsOf(pkg) {
		// builder calls: X.NewBuilder[...](client, name)
		ast.Inspect(fi.Decl.Body, func(n ast.Node) bool {
			call, ok := n.(*ast.CallExpr)
			if !ok || len(call.Args) != 2 {
				return true
			}
			fun := ast.Unparen(call.Fun)
			if ix, ok := fun.(*ast.IndexListExpr); ok {
				fun = ix.X
			} else if ix, ok := fun.(*ast.IndexExpr); ok {
				fun = ix.X
			}
			sel, ok := fun.(*ast.SelectorExpr)
			if !ok || sel.Sel.Name != "NewBuilder" {
				return true
			}
			// which parameters of the enclosing function does the name depend on?
			nameParams := map[types.Object]bool{}
			ast.Inspect(call.Args[1], func(m ast.Node) bool {
				if id, ok := m.(*ast.Ident); ok {
					if v, ok := info.Uses[id].(*types.Var); ok && isParamOf(fi, v, info) {
						nameParams[v] = true
					}
				}
				return true
			})
			// is the result cached in a map that is itself a parameter? then the function serves several caches
			var cacheParam types.Object
			ast.Inspect(fi.Decl.Body, func(m ast.Node) bool {
				as, ok := m.(*ast.AssignStmt)
				if !ok {
					return true
				}
				for _, l := range as.Lhs {
					if ix, ok := l.(*ast.IndexExpr); ok {
						if id, ok := ix.X.(*ast.Ident); ok {
							if v, ok := info.Uses[id].(*types.Var); ok && isParamOf(fi, v, info) {
								if _, isMap := v.Type().Underlying().(*types.Map); isMap {
									cacheParam = v
								}
							}
						}
					}
				}
				return true
			})
			if cacheParam == nil {
				return true // one cache per builder: nothing to tell apart
			}
			o.Site(c.P.Pos(call.Pos()) + " " + fi.Name() + " builds " + types.ExprString(call.Args[1]) + " for the cache passed as " + cacheParam.Name())
			// callers: do they pass different caches? then some name parameter must differ too
			type callArgs struct{ cache, rest string }
			var calls []callArgs
			for _, cs := range c.P.CallSites() {
				if cs.Pkg != rel || cs.Callee != fi.Name() {
					continue
				}
				sig := fi.Obj.Type().(*types.Signature)
				var cache string
				var rest []string
				for i := 0; i < sig.Params().Len() && i < len(cs.Call.Args); i++ {
					if sig.Params().At(i) == cacheParam {
						cache = types.ExprString(cs.Call.Args[i])
					} else if nameParams[sig.Params().At(i)] {
						// a name parameter: does its argument tell the caller apart (constant or distinct expr)?
						if tv, ok := cs.Info.Types[cs.Call.Args[i]]; ok && tv.Value != nil {
							rest = append(rest, tv.Value.ExactString())
						} else {
							rest = append(rest, "var:"+types.ExprString(cs.Call.Args[i]))
						}
					}
				}
				calls = append(calls, callArgs{cache, strings.Join(rest, ",")})
			}
			o.Eval(len(calls))
			for i := 0; i < len(calls); i++ {
				for j := i + 1; j < len(calls); j++ {
					if calls[i].cache != calls[j].cache && calls[i].rest == calls[j].rest {
						o.Fail(&engine.Violation{Key: fi.Name() + "|primitive name shared by " + calls[i].cache + " and " + calls[j].cache, Pos: c.P.Pos(call.Pos()), Func: fi.Name(),
							Msg: "the caches " + calls[i].cache + " and " + calls[j].cache + " are filled by " + fi.Name() + " with the same primitive name " + types.ExprString(call.Args[1]) + ": both logical stores are one and the same Atomix primitive"})
					}
				}
			}
			return true
		})
	}
}

func isParamOf(fi *engine.FuncInfo, v *types.Var, info *types.Info) bool {
	sig := fi.Obj.Type().(*types.Signature)
	for i := 0; i < sig.Params().Len(); i++ {
		if sig.Params().At(i) == v {
			return true
		}
	}
	return false
}

// requestBuilder: PathValuesToGnmiChange.
func requestBuilder(c *engine.Ctx, id, rel string) {
	o := c.Custom(id, "K-enum(request builder)", "every element of the input is appended to exactly one of Delete (iff Deleted) or Update; a parse or conversion error returns (nil, err); the request's prefix target is the target argument",
		"the device is sent exactly the stored change: no element dropped, no delete turned into an update")
	defer o.Done(1)
	paths, err := c.A.PathsOpt(rel, engine.PathOpts{Roots: []string{".PathValuesToGnmiChange"}, NoInline: true})
	if err != nil {
		o.Undecided(rel, err.Error())
		return
	}
	n := 0
	for _, p := range paths {
		// the parameters by position (their names are the maintainers' business): the input slice, the target id
		valuesP, targetP := "$values", "$target"
		if fd := p.Root.Decl; fd != nil && fd.Type.Params != nil {
			var names []string
			for _, f := range fd.Type.Params.List {
				for _, nm := range f.Names {
					names = append(names, nm.Name)
				}
			}
			if len(names) >= 2 {
				valuesP, targetP = "$"+names[0], "$"+names[1]
			}
		}
		// the loop over the input
		for i := range p.Events {
			le := &p.Events[i]
			if le.Kind != engine.EvLoopEnter || le.Range != valuesP {
				continue
			}
			exit := -1
			var del, upd, deleted, notDeleted, branch bool
			for j := i + 1; j < len(p.Events); j++ {
				ej := &p.Events[j]
				if ej.Kind == engine.EvLoopExit && ej.Node == le.Node {
					exit = j
					break
				}
				if ej.Loops != le.LoopID {
					continue
				}
				switch ej.Kind {
				case engine.EvBranch:
					// leaving the iteration after the element was appended skips nothing
					if !(ej.Tok.String() == "continue" && (del || upd)) {
						branch = true
					}
				case engine.EvCond:
					if strings.HasSuffix(ej.Lit.L, "elem("+valuesP+").Deleted") && ej.Lit.R == "true" {
						deleted = ej.Lit.Mask == 2
						notDeleted = ej.Lit.Mask == 5
					}
				case engine.EvWrite:
					if ej.Local != nil && strings.HasPrefix(ej.RHS, "append(") {
						if strings.Contains(ej.RHS, "gnmi.Path{") && !strings.Contains(ej.RHS, "gnmi.Update{") {
							del = true
						}
						if strings.Contains(ej.RHS, "gnmi.Update{") {
							upd = true
						}
					}
				}
			}
			if exit < 0 || exit == i+1 {
				continue
			}
			n++
			o.Eval(1)
			bad := ""
			switch {
			case branch:
				bad = "the loop body contains break/continue: an element can be skipped"
			case deleted && (!del || upd):
				bad = "a Deleted element is not appended to Delete only"
			case notDeleted && (!upd || del):
				bad = "a live element is not appended to Update only"
			case !deleted && !notDeleted:
				bad = "the loop body does not branch on Deleted"
			}
			if bad != "" {
				o.Fail(&engine.Violation{Key: "PathValuesToGnmiChange|loop", Pos: c.P.Pos(le.Pos), Func: p.Root.Name(), Msg: bad})
				return
			}
		}
		// error exits return nil request
		last := &p.Events[len(p.Events)-1]
		if last.Kind == engine.EvReturn && len(last.Results) == 2 && last.Results[1] != "nil" && last.Results[0] != "nil" {
			o.Fail(&engine.Violation{Key: "PathValuesToGnmiChange|error exit", Pos: c.P.Pos(last.Pos), Func: p.Root.Name(), Msg: "an error exit returns a partial request"})
			return
		}
		if last.Kind == engine.EvReturn && len(last.Results) == 2 && last.Results[1] == "nil" {
			okPrefix := false
			for i := range p.Events {
				e := &p.Events[i]
				if e.Kind == engine.EvWrite && e.Field == "gnmi.Path.Target" && e.RHS == "string("+targetP+")" {
					okPrefix = true
				}
			}
			if !okPrefix {
				o.Fail(&engine.Violation{Key: "PathValuesToGnmiChange|prefix", Pos: c.P.Pos(last.Pos), Func: p.Root.Name(), Msg: "the request's prefix does not carry the target id"})
				return
			}
		}
	}
	if n > 0 {
		o.Site(rel + ".PathValuesToGnmiChange")
	}
}

// recordCarriesNoValueMap: C04.13 (seed C04-r52). The value maps live in primitives of their own; the record
// written by the configuration store carries none of them. An embedded copy is what `populate` overlays the
// primitive on: leaves the store pruned beneath a tombstone come back with the next Get, are written into the
// applied values as live when the tombstone is lifted, and are pushed to the device at the next re-synchronisation.
func recordCarriesNoValueMap(c *engine.Ctx) {
	o := c.Custom("C04.13", "K-order(record write)", "v2 configuration store: the write of the record (map.Map.Insert / Update of the configurations primitive) in Create and Update is preceded by Values := nil, in UpdateStatus by Status.Applied.Values := nil",
		"the applied configuration that is pushed again in a new term is what the applied primitive holds, not a stale copy embedded in the record")
	defer o.Done(3)
	ps, err := c.A.PathsOpt(pkgStoreCfgV2, engine.PathOpts{Roots: []string{".configurationStore.Create", ".configurationStore.Update", ".configurationStore.UpdateStatus"}, NoInline: true})
	if err != nil {
		o.Undecided(pkgStoreCfgV2, err.Error())
		return
	}
	seen := map[string]bool{}
	for _, p := range ps {
		want := "config/v2.Configuration.Values"
		if strings.HasSuffix(p.Root.Name(), ".UpdateStatus") {
			want = "config/v2.AppliedConfigurationStatus.Values"
		}
		cleared := false
		for i := range p.Events {
			e := &p.Events[i]
			if e.Kind == engine.EvWrite && e.Field == want {
				cleared = e.RHS == "nil"
			}
			if e.Kind != engine.EvCall || !(e.CalleeName == "map.Map.Update" || e.CalleeName == "map.Map.Insert") || !strings.Contains(e.Recv, ".configurations") {
				continue
			}
			o.Eval(1)
			if !seen[p.Root.Name()] {
				seen[p.Root.Name()] = true
				o.Site(c.P.Pos(e.Pos) + " record write in " + p.Root.Name())
			}
			if !cleared {
				o.Fail(&engine.Violation{Key: p.Root.Name() + "|record written with an embedded value map", Pos: c.P.Pos(e.Pos), Func: p.Root.Name(),
					Msg: "the record is written without " + want + " having been set to nil: the embedded copy is overlaid by populate and resurrects what the primitive no longer holds"})
				return
			}
		}
	}
}
