package props

import (
	"fmt"
	"go/ast"
	"go/constant"
	"go/types"
	"strings"

	"occheck/internal/engine"
)

func init() {
	register(&Prop{
		ID:    "C14",
		Title: "Only members of an admin group may change configuration",
		Explanation: "Decided: (1) in Server.Set the group evaluation is called on the incoming metadata and returned nil on every path that reaches transactions.Create, and its error edge returns an error; (2) the grant predicate: every path of the evaluation that grants (returns nil) is control dependent either on an equality between a non-empty caller group and a configured administrator group, or on the request carrying no identity metadata at all (the security-off case the property does not speak about); substring/prefix/suffix/fold/index/regexp predicates are banned as the deciding test of a grant; " +
			"(3) under authorization, reportAllTargets appends a target only under 'target id == caller group' or 'caller group == ROC admin group'.",
		Declined: []string{"token validation (onos-lib-go interceptor)", "OPA policies"},
		Run:      runC14,
		Witness:  []WitnessTarget{{pkgUtils, []string{"TemporaryEvaluate"}}, {pkgNbGnmi, []string{"reportAllTargets", "Server.Set"}}},
	})
}

const evalFn = "utils.TemporaryEvaluate"

func runC14(c *engine.Ctx, tier string) {
	c.Al = engine.NewAliases(c.P, "MD", "metautils.ExtractIncoming()")
	sp, err := setPaths(c)
	if rp, rerr := rollbackPaths(c); rerr == nil && err == nil {
		// every request that appends to the transaction log is evaluated: Set and the rollback
		sp = append(append([]*engine.Path{}, sp...), rp...)
	} else if rerr != nil {
		err = rerr
	}
	o := c.Custom("C14.1", "K-order", "transactions.Create in Server.Set and in Server.RollbackTransaction ⇐ ExtractIncoming() == nil ∨ TemporaryEvaluate(ExtractIncoming()) returned nil; the evaluation's error edge returns an error before anything is logged; no other function of the northbound packages calls transactions.Create",
		"nothing is logged for a caller the evaluation refuses")
	for _, cs := range c.P.CallSites() {
		if cs.Callee == "store/v2/transaction.Store.Create" && strings.HasPrefix(cs.Pkg, "pkg/northbound/") {
			o.Eval(1)
			if !strings.HasSuffix(cs.Func, ".Server.Set") && !strings.HasSuffix(cs.Func, ".Server.RollbackTransaction") {
				o.Fail(&engine.Violation{Key: cs.Func + "|appends to the transaction log", Pos: cs.Pos, Func: cs.Func, Msg: "a northbound function other than Set and RollbackTransaction appends to the transaction log: it is not covered by the group evaluation rule"})
			}
		}
	}
	if err != nil {
		o.Undecided("Server.Set", err.Error())
	} else {
		clause, _ := engine.ParseClause("@MD == nil || err(utils.TemporaryEvaluate(@MD)) == nil", c.Al, c.P)
		for _, s := range engine.FindSites(sp, c.Match(engine.Sel{Call: "store/v2/transaction.Store.Create"})) {
			o.Site(c.P.Pos(s.Ev().Pos) + " transactions.Create")
			for _, ref := range s.Refs {
				o.Eval(1)
				conds := engine.CondsBefore(ref.Path, ref.Idx)
				if !engine.Entails(conds, clause, c.P.Domain) {
					o.Fail(&engine.Violation{Key: ref.Path.Root.Name()[strings.LastIndex(ref.Path.Root.Name(), "Server."):] + "|create without group evaluation", Pos: c.P.Pos(s.Ev().Pos), Func: ref.Path.Root.Name(),
						Msg: "transactions.Create is reachable on a path on which the group evaluation was not called on the incoming metadata or its error was not honoured", Found: c.RenderConds(conds)})
					break
				}
			}
		}
		// the refusing edge
		for _, p := range sp {
			last := len(p.Events) - 1
			conds := engine.CondsBefore(p, last)
			refused := false
			for _, l := range conds {
				if l.L == c.Al.Expand("err(utils.TemporaryEvaluate(@MD))") && l.RNil && l.Mask == 5 {
					refused = true
				}
			}
			if !refused {
				continue
			}
			o.Eval(1)
			r := p.Events[last].Results
			if len(r) != 2 || r[1] == "nil" || r[0] != "nil" {
				o.Fail(&engine.Violation{Key: p.Root.Name()[strings.LastIndex(p.Root.Name(), "Server."):] + "|refusal not returned", Pos: c.P.Pos(p.Events[last].Pos), Func: p.Root.Name(), Msg: "a refused caller does not get an error"})
				break
			}
		}
	}
	o.Done(2)
	grantPredicate(c)
	callerGroupsShape(c)
	identityReaders(c)
	identityProvenance(c)
	targetListing(c)
}

var bannedPredicates = []string{"strings.Contains(", "strings.HasPrefix(", "strings.HasSuffix(", "strings.EqualFold(", "strings.Index(", "strings.ContainsAny(", "regexp.", "MatchString("}

// grantPredicate: C14.2.
func grantPredicate(c *engine.Ctx) {
	o := c.Custom("C14.2", "predicate", "every granting path of TemporaryEvaluate depends on (a) an == between a whole, non-empty element of utils.CallerGroups(md) and a configured admin group, or (b) all identity keys (preferred_username, name, email) and the caller's groups being empty AND the request not having presented a bearer token to an authenticating server (OIDC_SERVER_URL set ∧ authorization present); no substring/prefix/fold/index/regexp test decides a grant",
		"a caller with no groups, or whose group merely resembles an administrator group's name, must be refused")
	defer o.Done(1)
	paths, err := c.A.PathsOpt(pkgUtils, engine.PathOpts{Roots: []string{"utils.TemporaryEvaluate"}, Exact: true, NoInline: true})
	if err != nil {
		o.Undecided(evalFn, err.Error())
		return
	}
	var fi *engine.FuncInfo
	for _, f := range c.P.FuncsOf(c.P.Pkg(pkgUtils)) {
		if f.Name() == evalFn {
			fi = f
		}
	}
	if fi == nil {
		o.Undecided(evalFn, "function not found")
		return
	}
	// boolean flags of the function that are only ever assigned true (after a false/zero start)
	monotone := map[string]bool{}
	info := fi.Pkg.TypesInfo
	flagWrites := map[types.Object][]string{}
	ast.Inspect(fi.Decl.Body, func(n ast.Node) bool {
		switch x := n.(type) {
		case *ast.AssignStmt:
			for i, l := range x.Lhs {
				if id, ok := l.(*ast.Ident); ok && i < len(x.Rhs) {
					obj := info.Defs[id]
					if obj == nil {
						obj = info.Uses[id]
					}
					if obj != nil && isBool(obj.Type()) {
						flagWrites[obj] = append(flagWrites[obj], types.ExprString(x.Rhs[i]))
					}
				}
			}
		case *ast.ValueSpec:
			for i, id := range x.Names {
				if obj := info.Defs[id]; obj != nil && isBool(obj.Type()) {
					v := "false"
					if i < len(x.Values) {
						v = types.ExprString(x.Values[i])
					}
					flagWrites[obj] = append(flagWrites[obj], "init:"+v)
				}
			}
		}
		return true
	})
	for obj, ws := range flagWrites {
		ok := true
		for _, w := range ws {
			if w != "true" && w != "init:false" {
				ok = false
			}
		}
		monotone[obj.Name()] = ok
	}
	groupSrc := "utils.CallerGroups($md)"
	for _, p := range paths {
		last := &p.Events[len(p.Events)-1]
		if last.Kind != engine.EvReturn || len(last.Results) != 1 || last.Results[0] != "nil" {
			continue
		}
		// all conditions of the path, closed loops included (the grant is existential over the groups)
		var conds []engine.Lit
		cut := len(p.Events)
		flagTrue, flagSet := "", false
		for i := range p.Events {
			e := &p.Events[i]
			if e.Kind == engine.EvCond && strings.HasPrefix(e.Lit.L, "?") && e.Lit.R == "true" && e.Lit.Mask == 2 {
				flagTrue = strings.TrimPrefix(e.Lit.L, "?")
				if k := strings.Index(flagTrue, "@"); k >= 0 {
					flagTrue = flagTrue[:k]
				}
			}
		}
		if flagTrue != "" {
			for i := range p.Events {
				e := &p.Events[i]
				if e.Kind == engine.EvWrite && e.Local != nil && e.Local.Name() == flagTrue && e.RHS == "true" {
					flagSet = true
					cut = i
				}
			}
			if !flagSet && monotone[flagTrue] {
				continue // infeasible: the flag starts false and is only set inside the loop
			}
		}
		for i := 0; i < cut; i++ {
			if e := &p.Events[i]; e.Kind == engine.EvCond {
				conds = append(conds, e.Lit)
			}
		}
		o.Site("")
		o.Eval(1)
		// (b) no identity metadata at all
		empty := map[string]bool{}
		for _, l := range conds {
			for _, k := range []string{"preferred_username", "name", "email"} {
				if strings.HasSuffix(l.L, `metautils.NiceMD.Get("`+k+`")`) && l.R == `""` && l.Mask == 2 {
					empty[k] = true
				}
			}
			if l.L == "len("+groupSrc+")" && l.R == "0" && l.Mask == 2 {
				empty["groups"] = true
			}
			// … and the request did not present a bearer token to an authenticating server
			if strings.Contains(l.L, `os.Getenv("OIDC_SERVER_URL") != ""`) && strings.Contains(l.L, `metautils.NiceMD.Get("authorization") != ""`) && strings.Contains(l.L, "&&") && l.R == "true" && l.Mask == 5 {
				empty["token"] = true
			}
			// the same condition read literal by literal (a local that names a condition stands for it): no
			// authenticating server configured, or no bearer token presented
			if (l.L == `os.Getenv("OIDC_SERVER_URL")` || strings.HasSuffix(l.L, `metautils.NiceMD.Get("authorization")`)) && l.R == `""` && l.Mask == 2 {
				empty["token"] = true
			}
		}
		if empty["preferred_username"] && empty["name"] && empty["groups"] && empty["email"] && empty["token"] {
			continue
		}
		// (a) equality of a non-empty caller group with a configured group
		eq, nonEmpty := false, false
		banned, cutBy := "", ""
		// the caller's groups arrive joined by ";" (onos-lib-go's interceptor; the constant next to
		// TemporaryEvaluate): an element of any other tokenisation is a piece of a group name, not a group
		sepOK := func(sep string) bool {
			if sep == `";"` {
				return true
			}
			if pkg := c.P.Pkg(pkgUtils); pkg != nil && strings.HasPrefix(sep, "utils.") {
				if k, ok := pkg.Types.Scope().Lookup(strings.TrimPrefix(sep, "utils.")).(*types.Const); ok && k.Val().Kind() == constant.String {
					return constant.StringVal(k.Val()) == ";"
				}
			}
			return false
		}
		_ = sepOK
		callerToken := func(s string) bool { // a whole element of what CallerGroups returns (its shape: C14.2b)
			return s == "elem("+groupSrc+")"
		}
		neverEmpty := func(s string) bool { // elements of Fields/FieldsFunc are never empty
			return strings.HasPrefix(s, "elem(strings.FieldsFunc(") || strings.HasPrefix(s, "elem(strings.Fields(")
		}
		for _, l := range conds {
			callerL, callerR := strings.Contains(l.L, groupSrc), strings.Contains(l.R, groupSrc)
			adminL, adminR := strings.Contains(l.L, `os.Getenv("ADMINGROUPS")`), strings.Contains(l.R, `os.Getenv("ADMINGROUPS")`)
			plain := func(s string) bool { // an element, possibly trimmed, of a split list — not a predicate call
				for _, b := range bannedPredicates {
					if strings.Contains(s, b) {
						return false
					}
				}
				return strings.HasPrefix(s, "elem") || strings.HasPrefix(s, "strings.TrimSpace(elem")
			}
			if l.Mask == 2 && l.R != "true" && ((callerL && adminR) || (callerR && adminL)) && plain(l.L) && plain(l.R) {
				eq = true
				caller, admin := l.L, l.R
				if callerR {
					caller, admin = l.R, l.L
				}
				if !callerToken(caller) {
					cutBy = caller
				}
				if neverEmpty(admin) || neverEmpty(caller) {
					nonEmpty = true // equal to something that cannot be empty
				}
			}
			if l.Mask == 5 && l.R == `""` && callerL && plain(l.L) {
				nonEmpty = true
			}
			if l.R == "true" && l.Mask == 2 && (callerL || adminL) {
				for _, b := range bannedPredicates {
					if strings.Contains(l.L, b) {
						banned = l.L
					}
				}
			}
		}
		switch {
		case banned != "" && !eq:
			o.Fail(&engine.Violation{Key: evalFn + "|grant decided by non-equality predicate", Pos: c.P.Pos(last.Pos), Func: evalFn,
				Msg: "a grant is decided by " + c.Render(banned) + ": a group that merely resembles (is a substring of) the configured list, including the empty group, is admitted", Found: c.RenderConds(conds)})
			return
		case !eq:
			o.Fail(&engine.Violation{Key: evalFn + "|grant without group equality", Pos: c.P.Pos(last.Pos), Func: evalFn,
				Msg: "a path grants without an equality between a caller group and a configured administrator group (and not because the request has no identity metadata)", Found: c.RenderConds(conds)})
			return
		case cutBy != "":
			o.Fail(&engine.Violation{Key: evalFn + "|caller groups not split by the join separator", Pos: c.P.Pos(last.Pos), Func: evalFn,
				Msg: "the caller-side operand of the deciding equality is " + c.Render(cutBy) + ", not an element of utils.CallerGroups(md): a group whose name is cut into pieces (or only the first of the caller's groups) is compared", Found: c.RenderConds(conds)})
			return
		case !nonEmpty:
			o.Fail(&engine.Violation{Key: evalFn + "|empty group admitted", Pos: c.P.Pos(last.Pos), Func: evalFn,
				Msg: "the matching caller group is not required to be non-empty: an empty configured entry would admit callers without groups", Found: c.RenderConds(conds)})
			return
		}
	}
}

func isBool(t types.Type) bool {
	b, ok := t.Underlying().(*types.Basic)
	return ok && b.Info()&types.IsBoolean != 0
}

// targetListing: C14.3.
func targetListing(c *engine.Ctx) {
	o := c.Custom("C14.3", "predicate", "reportAllTargets: under authorization (OIDC server configured) a target id is appended only under string(target.ID) == group ∨ group == ROC admin group",
		"a caller sees only the targets named by its own groups unless it holds the ROC-admin group")
	defer o.Done(1)
	paths, err := c.A.PathsOpt(pkgNbGnmi, engine.PathOpts{Roots: []string{".Server.reportAllTargets"}, NoInline: true})
	if err != nil {
		o.Undecided("reportAllTargets", err.Error())
		return
	}
	for _, s := range engine.FindSites(paths, func(p *engine.Path, i int) bool {
		e := &p.Events[i]
		return e.Kind == engine.EvWrite && e.Local != nil && strings.HasPrefix(e.RHS, "append(") && strings.Contains(e.RHS, ".ID))") && strings.Contains(e.RHS, "elem(§")
	}) {
		e := s.Ev()
		o.Site(c.P.Pos(e.Pos) + " " + c.Render(c.A.DescribeEvent(e)))
		for _, ref := range s.Refs {
			o.Eval(1)
			conds := engine.CondsBefore(ref.Path, ref.Idx)
			secured, open, byGroup, byAdmin, other := false, false, false, false, ""
			for _, l := range conds {
				if strings.HasPrefix(l.L, "len(os.Getenv(") && l.R == "0" {
					if l.Mask == 4 || l.Mask == 5 {
						secured = true
					} else {
						open = true
					}
					continue
				}
				g := "elem($groups)"
				if l.Mask == 2 && (l.L == g || l.R == g) {
					o2 := l.L
					if l.L == g {
						o2 = l.R
					}
					switch {
					case strings.HasPrefix(o2, "string(elem(§") && strings.HasSuffix(o2, ".ID)"):
						byGroup = true
					case o2 == "northbound/gnmi/v2.aetherROCAdmin" || o2 == "os.Getenv(northbound/gnmi/v2.aetherROCAdmin)" || strings.HasPrefix(o2, "os.LookupEnv(northbound/gnmi/v2.aetherROCAdmin)") || strings.HasPrefix(o2, `"`):
						// (an override that is defined but empty cannot match: CallerGroups never returns an empty group, C14.2b)
						byAdmin = true
					default:
						other = o2
					}
				}
				for _, b := range bannedPredicates {
					if strings.Contains(l.L, b) && strings.Contains(l.L, "$groups") && l.R == "true" && l.Mask == 2 {
						other = l.L
					}
				}
			}
			if open && !secured {
				continue
			}
			if !(byGroup || byAdmin) || other != "" {
				o.Fail(&engine.Violation{Key: "reportAllTargets|listing predicate", Pos: c.P.Pos(e.Pos), Func: ref.Path.Root.Name(),
					Msg: "under authorization a target is listed without 'target id == caller group' or 'caller group == ROC admin' deciding it", Found: c.RenderConds(conds)})
				return
			}
		}
	}
}

// callerGroupsShape: C14.2b. The one reader of the caller's groups returns every metadata value of the
// key as one whole group (the pinned interceptor adds one value per element of the token's claim): no
// first-value-only read, no cutting at separators.
func callerGroupsShape(c *engine.Ctx) {
	o := c.Custom("C14.2b", "helper shape(CallerGroups)", "utils.CallerGroups ranges over md[\"groups\"] (all values of the key), appends exactly the iterated value, only when it is not empty, and returns the slice it appended to",
		"'at least one of the caller's groups': every group counts, and a group is compared whole")
	defer o.Done(1)
	ps, err := c.A.PathsOpt(pkgUtils, engine.PathOpts{Roots: []string{"utils.CallerGroups"}, Exact: true, NoInline: true})
	if err != nil || len(ps) == 0 {
		o.Undecided("utils.CallerGroups", fmt.Sprintf("no paths: %v", err))
		return
	}
	const src = `$md["groups"]`
	for _, p := range ps {
		o.Eval(1)
		last := &p.Events[len(p.Events)-1]
		ranged := false
		for i := range p.Events {
			e := &p.Events[i]
			switch {
			case e.Kind == engine.EvLoopEnter && e.Range != "":
				if e.Range != src {
					o.Fail(&engine.Violation{Key: "utils.CallerGroups|range", Pos: c.P.Pos(e.Pos), Func: p.Root.Name(), Msg: "the helper ranges over " + c.Render(e.Range) + ", not over every value of md[\"groups\"]"})
					return
				}
				ranged = true
			case e.Kind == engine.EvCall && e.CalleeName == "append" && len(e.Args) == 2:
				nonEmpty := false
				for _, l := range engine.CondsBefore(p, i) {
					if l.L == "elem("+src+")" && l.R == `""` && l.Mask == 5 {
						nonEmpty = true
					}
				}
				if e.Args[1] != "elem("+src+")" || !nonEmpty {
					o.Fail(&engine.Violation{Key: "utils.CallerGroups|element", Pos: c.P.Pos(e.Pos), Func: p.Root.Name(), Msg: "the helper appends " + c.Render(e.Args[1]) + " (non-empty tested: " + fmt.Sprint(nonEmpty) + "), not the whole non-empty metadata value"})
					return
				}
			case e.Kind == engine.EvCall && (strings.HasPrefix(e.CalleeName, "strings.") || e.CalleeName == "metautils.NiceMD.Get"):
				o.Fail(&engine.Violation{Key: "utils.CallerGroups|cut", Pos: c.P.Pos(e.Pos), Func: p.Root.Name(), Msg: "the helper calls " + e.CalleeName + ": a group value is cut, or only the first value of the key is read"})
				return
			}
		}
		if !ranged {
			o.Fail(&engine.Violation{Key: "utils.CallerGroups|range", Pos: c.P.Pos(last.Pos), Func: p.Root.Name(), Msg: "the helper does not range over md[\"groups\"]"})
			return
		}
		o.Site("")
	}
}

// identityReaders: C14.4. Decisions are taken on CallerGroups only: md.Get("groups") (the first value of the
// key) appears nowhere but as an argument of a logging call.
func identityReaders(c *engine.Ctx) {
	o := c.Custom("C14.4", "K-own(identity readers)", "in the module, metautils.NiceMD.Get(\"groups\") occurs only as an argument of a logging call; every decision reads the caller's groups through utils.CallerGroups",
		"NiceMD.Get returns the first value of a key: with one metadata value per group it is one group, the first")
	defer o.Done(1)
	for _, pkg := range c.P.Pkgs {
		rel := strings.TrimPrefix(pkg.PkgPath, engine.ModulePath+"/")
		if !strings.HasPrefix(rel, "pkg/") {
			continue
		}
		info := pkg.TypesInfo
		for _, fi := range c.P.FuncsOf(pkg) {
			if fi.Decl == nil || fi.Decl.Body == nil {
				continue
			}
			var stack []ast.Node
			ast.Inspect(fi.Decl.Body, func(n ast.Node) bool {
				if n == nil {
					stack = stack[:len(stack)-1]
					return true
				}
				stack = append(stack, n)
				call, ok := n.(*ast.CallExpr)
				if !ok || len(call.Args) != 1 {
					return true
				}
				sel, ok := call.Fun.(*ast.SelectorExpr)
				if !ok || sel.Sel.Name != "Get" {
					return true
				}
				if t := info.TypeOf(sel.X); t == nil || !strings.HasSuffix(t.String(), "metautils.NiceMD") {
					return true
				}
				if tv, ok := info.Types[call.Args[0]]; !ok || tv.Value == nil || tv.Value.ExactString() != `"groups"` {
					return true
				}
				o.Site(c.P.Pos(call.Pos()) + " in " + fi.Name())
				o.Eval(1)
				logged := false
				for i := len(stack) - 2; i >= 0; i-- {
					if pc, ok := stack[i].(*ast.CallExpr); ok {
						if ps, ok := pc.Fun.(*ast.SelectorExpr); ok {
							if idn, ok := ps.X.(*ast.Ident); ok && idn.Name == "log" {
								logged = true
							}
						}
						break
					}
					if _, ok := stack[i].(ast.Stmt); ok {
						break
					}
				}
				if !logged {
					o.Fail(&engine.Violation{Key: fi.Name() + "|reads md.Get(\"groups\")", Pos: c.P.Pos(call.Pos()), Func: fi.Name(),
						Msg: "md.Get(\"groups\") is read outside a logging call: it is the first value of the key only (one metadata value per group), so the other groups of the caller do not count"})
				}
				return true
			})
		}
	}
}

// identityProvenance: C14.5. The identity keys the handlers evaluate must come from the verified token
// only. The library's interceptor ADDS the token's claims to whatever the request metadata already
// holds under the same key, so with security on the server must clear the identity keys of the incoming
// metadata before the interceptor runs (a tap handle: grpc.InTapHandle) — the only place the application
// can do it, since the library installs its interceptor first.
func identityProvenance(c *engine.Ctx) {
	o := c.Custom("C14.5", "K-table(server wiring)", "Manager.startNorthboundServer passes northbound.Server.Serve a grpc.InTapHandle option (clearing client-supplied identity metadata) when authorization is enabled",
		"a caller with a valid token must not be able to supply its own 'groups' (or name, email, preferred_username) as a request header")
	defer o.Done(1)
	for _, cs := range c.P.CallSites() {
		if cs.Pkg != "pkg/manager" || !strings.HasSuffix(cs.Callee, "northbound.Server.Serve") {
			continue
		}
		o.Site(cs.Pos + " " + cs.Callee + " in " + cs.Func)
		o.Eval(1)
		tap := false
		for _, a := range cs.Call.Args {
			ast.Inspect(a, func(n ast.Node) bool {
				if sel, ok := n.(*ast.SelectorExpr); ok && sel.Sel.Name == "InTapHandle" {
					tap = true
				}
				return !tap
			})
		}
		if !tap {
			o.Fail(&engine.Violation{Key: cs.Func + "|identity metadata not cleared before authentication", Pos: cs.Pos, Func: cs.Func,
				Msg: "the northbound server is started without an option that clears client-supplied identity metadata: the authentication interceptor appends the token's groups behind a 'groups' header sent by the caller, and the handlers evaluate both"})
		}
	}
}
