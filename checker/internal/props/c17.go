package props

import (
	"fmt"
	"go/ast"
	"go/token"
	"go/types"
	"os"
	"sort"
	"strings"

	"occheck/internal/engine"
)

func init() {
	register(&Prop{
		ID:    "C17",
		Title: "Values survive the journey unchanged",
		Explanation: "Digits and byte-for-byte equality are value properties and are declined. Decided: (1) writer/reader table agreement — every value kind the gNMI→native writer can produce is an explicit case of both readers (native→gNMI and native→JSON); the gNMI oneof written back for a kind is the oneof the writer maps to that kind (AsciiVal is normalised to STRING/StringVal), for scalars and for leaf-list elements; unsupported oneof kinds are refused by the writer with an error, not mapped silently; " +
			"(2) the RFC 7951 width rule of the JSON renderer: INT/UINT become strings exactly under 'RFC7951 ∧ width option present ∧ width > 32', DECIMAL/FLOAT strings under RFC 7951; (3) no narrowing integer conversion on the value path other than the listed ones (precision and width options, bounded by YANG); (4) the v2 and v3 copies of the value code have equal statement fingerprints (modulo the declared type substitutions)." +
			" Also: mixed element types of a leaf-list are refused (C17.9); no int64/uint64 sign-changing conversion on the value and tree path (C17.10).",
		Declined: []string{"digits, byte-for-byte equality", "behaviour of the onos-api typed-value constructors"},
		Run:      runC17,
		Witness:  []WitnessTarget{{pkgValuesV2, nil}, {pkgTreeV2, []string{"handleLeafValue"}}},
	})
}

// constructor -> ValueType produced (onos-api naming)
var ctorKind = map[string]string{
	"NewTypedValueString": "STRING", "NewTypedValueInt": "INT", "NewTypedValueUint": "UINT", "NewTypedValueBool": "BOOL", "NewTypedValueBytes": "BYTES",
	"NewTypedValueDecimal": "DECIMAL", "NewTypedValueFloat": "FLOAT", "NewTypedValueEmpty": "EMPTY",
	"NewLeafListStringTv": "LEAFLIST_STRING", "NewLeafListIntTv": "LEAFLIST_INT", "NewLeafListUintTv": "LEAFLIST_UINT", "NewLeafListBoolTv": "LEAFLIST_BOOL",
	"NewLeafListBytesTv": "LEAFLIST_BYTES", "NewLeafListDecimalTv": "LEAFLIST_DECIMAL", "NewLeafListFloatTv": "LEAFLIST_FLOAT",
}

func shortOneof(s string) string {
	s = s[strings.LastIndex(s, "_")+1:]
	return s
}

// typeSwitchCases extracts case type -> case body for the first type switch of a function.
func typeSwitchCases(fd *ast.FuncDecl) (map[string][]ast.Stmt, []ast.Stmt) {
	out := map[string][]ast.Stmt{}
	var def []ast.Stmt
	done := false
	ast.Inspect(fd.Body, func(n ast.Node) bool {
		ts, ok := n.(*ast.TypeSwitchStmt)
		if !ok || done {
			return true
		}
		done = true
		for _, c := range ts.Body.List {
			cc := c.(*ast.CaseClause)
			if cc.List == nil {
				def = cc.Body
			}
			for _, e := range cc.List {
				out[shortOneof(types.ExprString(e))] = cc.Body
			}
		}
		return false
	})
	return out, def
}

func valueSwitchCases(fd *ast.FuncDecl) (map[string][]ast.Stmt, bool) {
	out := map[string][]ast.Stmt{}
	hasDefault := false
	done := false
	ast.Inspect(fd.Body, func(n ast.Node) bool {
		sw, ok := n.(*ast.SwitchStmt)
		if !ok || done || sw.Tag == nil || !strings.HasSuffix(types.ExprString(sw.Tag), ".Type") {
			return true
		}
		done = true
		for _, c := range sw.Body.List {
			cc := c.(*ast.CaseClause)
			if cc.List == nil {
				hasDefault = true
			}
			for _, e := range cc.List {
				s := types.ExprString(e)
				out[strings.TrimPrefix(s[strings.LastIndex(s, ".")+1:], "ValueType_")] = cc.Body
			}
		}
		return false
	})
	return out, hasDefault
}

func calledCtors(stmts []ast.Stmt) []string {
	var out []string
	for _, s := range stmts {
		ast.Inspect(s, func(n ast.Node) bool {
			if call, ok := n.(*ast.CallExpr); ok {
				f := types.ExprString(call.Fun)
				f = f[strings.LastIndex(f, ".")+1:]
				if _, ok := ctorKind[f]; ok {
					out = append(out, f)
				}
			}
			return true
		})
	}
	return out
}

// oneofsBuilt lists the gNMI oneof wrappers built by the statements — and by helpers of the package that the
// obligation tables have never seen (a wrapper literal moved into an extracted function is still built).
func oneofsBuilt(c *engine.Ctx, rel string, stmts []ast.Stmt) []string {
	var out []string
	var scan func(n ast.Node, depth int)
	pkg := c.P.Pkg(rel)
	scan = func(root ast.Node, depth int) {
		ast.Inspect(root, func(n ast.Node) bool {
			switch x := n.(type) {
			case *ast.CompositeLit:
				t := types.ExprString(x.Type)
				if strings.Contains(t, "TypedValue_") {
					out = append(out, shortOneof(t))
				}
			case *ast.CallExpr:
				if pkg == nil || depth >= 2 {
					return true
				}
				var id *ast.Ident
				switch f := ast.Unparen(x.Fun).(type) {
				case *ast.Ident:
					id = f
				case *ast.SelectorExpr:
					id = f.Sel
				}
				if id != nil {
					if fn, _ := pkg.TypesInfo.Uses[id].(*types.Func); fn != nil {
						if h := c.P.Funcs[fn]; h != nil && h.Pkg == pkg && engine.IsNewHelper(h) {
							scan(h.Decl.Body, depth+1)
						}
					}
				}
			}
			return true
		})
	}
	for _, s := range stmts {
		scan(s, 0)
	}
	return out
}

func runC17(c *engine.Ctx, tier string) {
	for _, v := range []struct{ id, vals, tree string }{{"v2", pkgValuesV2, pkgTreeV2}, {"v3", pkgValuesV3, pkgTreeV3}} {
		valueTables(c, "C17.1/"+v.id, v.vals, v.tree)
		widthRule(c, "C17.2/"+v.id, v.tree)
		narrowing(c, "C17.3/"+v.id, v.vals)
		signChanging(c, "C17.10/"+v.id, []string{v.vals, v.tree})
		leafWritten(c, "C17.5/"+v.id, v.tree)
		leafListWidth(c, "C17.2d/"+v.id, v.tree)
	}
	// what is readable afterwards is what was set only if the store rewrites an entry whenever a later
	// transaction touched it: sign, width and element lengths live in TypeOpts, not in the value bytes
	persistTableSync(c, "C17.7", pkgStoreCfgV2)
	oneElementType(c, "C17.9/v2", pkgValuesV2)
	oneElementType(c, "C17.9/v3", pkgValuesV3)
	// one attribute for a whole leaf-list must not be the last element's
	lwPkgs := []string{pkgValuesV2, pkgValuesV3}
	if os.Getenv("OCC_LASTWINS_ALL") != "" { // survey mode: every package of the module
		lwPkgs = nil
		for _, pkg := range c.P.Pkgs {
			if rel := strings.TrimPrefix(pkg.PkgPath, engine.ModulePath+"/"); strings.HasPrefix(rel, "pkg/") {
				lwPkgs = append(lwPkgs, rel)
			}
		}
	}
	lastWins(c, "C17.8", lwPkgs, 2)
	o := c.Custom("C17.2c", "K-args", "every BuildTree call outside the tree packages renders with RFC 7951 on (second argument the constant true)",
		"Get in JSON encoding, the OPA input and the document given to the model plugin all follow RFC 7951: 64-bit integers and decimals are strings; the non-RFC path goes through float64 and loses digits")
	for _, cs := range c.P.CallSites() {
		if !strings.HasSuffix(cs.Callee, "/tree.BuildTree") || strings.HasPrefix(cs.Pkg, "pkg/utils/") || strings.HasPrefix(cs.Pkg, "internal/") || len(cs.Call.Args) != 2 {
			continue
		}
		o.Site(cs.Pos + " " + cs.Func)
		o.Eval(1)
		if tv, ok := cs.Info.Types[cs.Call.Args[1]]; !ok || tv.Value == nil || tv.Value.ExactString() != "true" {
			o.Fail(&engine.Violation{Key: cs.Func + "|BuildTree without RFC 7951", Pos: cs.Pos, Func: cs.Func, Msg: "BuildTree is called with " + types.ExprString(cs.Call.Args[1]) + " instead of true: wide integers and decimals are rendered as (lossy) JSON numbers"})
		}
	}
	o.Done(4)
	sibling(c, "C17.4", pkgValuesV2, pkgValuesV3, [][2]string{{`\*configapi\.PathValue`, "configapi.PathValue"}, {`adminapi\.`, "configapi."}},
		map[string]string{"NewChangeValue": "returns *PathValue in v2 and PathValue in v3: the two return statements differ by construction"})
	// the rendered document reaches the plugin byte for byte (a dropped byte at a chunk boundary is a lost digit)
	chunkCursorAs(c, "C17.6")
}

func findFunc(c *engine.Ctx, rel, name string) *engine.FuncInfo {
	pkg := c.P.Pkg(rel)
	if pkg == nil {
		return nil
	}
	for _, fi := range c.P.FuncsOf(pkg) {
		if strings.HasSuffix(fi.Name(), "."+name) {
			return fi
		}
	}
	return nil
}

func valueTables(c *engine.Ctx, id, vals, tree string) {
	o := c.Custom(id, "K-tables(writer/readers)", "kinds(writer) ⊆ cases(native→gNMI) ∩ cases(native→JSON); native→gNMI(kind) rebuilds the oneof the writer maps to that kind; the writer's default refuses",
		"a kind the writer can store but a reader does not handle is lost or mis-rendered on the way back")
	defer o.Done(2)
	w, r1, r2, ll := findFunc(c, vals, "GnmiTypedValueToNativeType"), findFunc(c, vals, "NativeTypeToGnmiTypedValue"), findFunc(c, tree, "handleLeafValue"), findFunc(c, vals, "handleLeafList")
	if w == nil || r1 == nil || r2 == nil || ll == nil {
		o.Undecided(vals, "anchor not found: writer/reader functions")
		return
	}
	wCases, wDef := typeSwitchCases(w.Decl)
	llCases, llDef := typeSwitchCases(ll.Decl)
	r1Cases, _ := valueSwitchCases(r1.Decl)
	r2Cases, _ := valueSwitchCases(r2.Decl)
	o.Site(fmt.Sprintf("%s: writer %d oneof cases (+%d leaf-list element cases), native→gNMI %d cases, native→JSON %d cases", vals, len(wCases), len(llCases), len(r1Cases), len(r2Cases)))
	// writer: oneof -> kind
	oneofKind := map[string]string{}
	for oneof, body := range wCases {
		for _, ctor := range calledCtors(body) {
			oneofKind[oneof] = ctorKind[ctor]
		}
	}
	// leaf lists: element oneof -> list variable appended; constructor chain: list variable -> ctor
	elemList := map[string]string{}
	for oneof, body := range llCases {
		for _, s := range body {
			if as, ok := s.(*ast.AssignStmt); ok && len(as.Lhs) == 1 {
				if call, ok := as.Rhs[0].(*ast.CallExpr); ok && types.ExprString(call.Fun) == "append" {
					elemList[oneof] = types.ExprString(as.Lhs[0])
				}
			}
		}
	}
	listCtor := map[string]string{}
	selection := func(condE ast.Expr, body []ast.Stmt) {
		cond := types.ExprString(condE)
		if strings.HasPrefix(cond, "len(") && strings.HasSuffix(cond, ") > 0") {
			lv := cond[len("len(") : len(cond)-len(") > 0")]
			for _, ctor := range calledCtors(body) {
				listCtor[lv] = ctor
			}
		}
	}
	ast.Inspect(ll.Decl.Body, func(n ast.Node) bool {
		switch x := n.(type) {
		case *ast.IfStmt:
			selection(x.Cond, x.Body.List)
		case *ast.SwitchStmt:
			// the same chain written as a tagless switch
			if x.Tag == nil {
				for _, cl := range x.Body.List {
					if cc, ok := cl.(*ast.CaseClause); ok && len(cc.List) == 1 {
						selection(cc.List[0], cc.Body)
					}
				}
			}
		}
		return true
	})
	produced := map[string]string{} // kind -> how
	for oneof, k := range oneofKind {
		produced[k] = oneof
	}
	elemKind := map[string]string{}
	for oneof, lv := range elemList {
		if ctor, ok := listCtor[lv]; ok {
			elemKind[oneof] = ctorKind[ctor]
			produced[ctorKind[ctor]] = "leaf-list of " + oneof
		} else {
			o.Fail(&engine.Violation{Key: vals + ".handleLeafList|list " + lv + " never stored", Pos: vals, Func: "handleLeafList", Msg: "leaf-list elements of kind " + oneof + " are collected in " + lv + " but no constructor stores that list"})
		}
	}
	var kinds []string
	for k := range produced {
		kinds = append(kinds, k)
	}
	sort.Strings(kinds)
	o.Site("kinds the writer can produce: " + strings.Join(kinds, ", "))
	for _, k := range kinds {
		o.Eval(2)
		if _, ok := r1Cases[k]; !ok {
			o.Fail(&engine.Violation{Key: vals + ".NativeTypeToGnmiTypedValue|no case " + k, Pos: vals, Func: "NativeTypeToGnmiTypedValue", Msg: "the writer can store " + k + " (from " + produced[k] + ") but native→gNMI has no case for it: the value cannot be sent to the device or returned in PROTO encoding"})
		}
		if _, ok := r2Cases[k]; !ok {
			o.Fail(&engine.Violation{Key: tree + ".handleLeafValue|no case " + k, Pos: tree, Func: "handleLeafValue", Msg: "the writer can store " + k + " but the JSON renderer has no case for it"})
		}
	}
	// inverse: what native→gNMI rebuilds
	norm := func(o string) string {
		if o == "AsciiVal" {
			return "StringVal"
		}
		return o
	}
	for oneof, k := range oneofKind {
		if oneof == "LeaflistVal" {
			continue
		}
		o.Eval(1)
		built := oneofsBuilt(c, vals, r1Cases[k])
		if len(built) == 0 || built[0] != norm(oneof) {
			o.Fail(&engine.Violation{Key: vals + "|inverse " + oneof, Pos: vals, Func: "NativeTypeToGnmiTypedValue", Msg: fmt.Sprintf("gNMI %s is stored as %s, which is written back as %v, not %s", oneof, k, built, norm(oneof))})
		}
	}
	for oneof, k := range elemKind {
		o.Eval(1)
		built := oneofsBuilt(c, vals, r1Cases[k])
		okElem, okList := false, false
		for _, b := range built {
			if b == norm(oneof) {
				okElem = true
			}
			if b == "LeaflistVal" {
				okList = true
			}
		}
		if !okElem || !okList {
			o.Fail(&engine.Violation{Key: vals + "|inverse leaf-list of " + oneof, Pos: vals, Func: "NativeTypeToGnmiTypedValue", Msg: fmt.Sprintf("a leaf-list of %s is stored as %s, which is written back as %v", oneof, k, built)})
		}
	}
	// refusal of unsupported kinds
	for name, def := range map[string][]ast.Stmt{"GnmiTypedValueToNativeType": wDef, "handleLeafList": llDef} {
		o.Eval(1)
		refuses := false
		for _, s := range def {
			if r, ok := s.(*ast.ReturnStmt); ok && len(r.Results) == 2 && types.ExprString(r.Results[0]) == "nil" && types.ExprString(r.Results[1]) != "nil" {
				refuses = true
			}
		}
		if !refuses {
			o.Fail(&engine.Violation{Key: vals + "." + name + "|default does not refuse", Pos: vals, Func: name, Msg: "an unsupported value kind is not refused with an error by " + name})
		}
	}
}

func widthRule(c *engine.Ctx, id, tree string) {
	o := c.Custom(id, "K-enum(width rule)", "handleLeafValue: INT/UINT rendered with String() iff jsonRFC7951 ∧ len(TypeOpts) > 0 ∧ TypeOpts[0] > 32; DECIMAL/FLOAT with String() iff jsonRFC7951",
		"RFC 7951: 64-bit integers and decimals are JSON strings, narrower integers are numbers — the model plugin parses the document by these rules")
	defer o.Done(4)
	paths, err := c.A.PathsOpt(tree, engine.PathOpts{Roots: []string{"tree.handleLeafValue"}, NoInline: true})
	if err != nil {
		o.Undecided(tree, err.Error())
		return
	}
	for _, s := range engine.FindSites(paths, func(p *engine.Path, i int) bool {
		e := &p.Events[i]
		return e.Kind == engine.EvWrite && strings.HasPrefix(e.LHS, "$nodemap[") && (strings.Contains(e.RHS, ".TypedInt.") || strings.Contains(e.RHS, ".TypedUint.") || strings.Contains(e.RHS, ".TypedDecimal.") || strings.Contains(e.RHS, ".TypedFloat."))
	}) {
		e := s.Ev()
		o.Site(c.P.Pos(e.Pos) + " " + e.RHS)
		for _, ref := range s.Refs {
			o.Eval(1)
			var rfc, notRfc, hasOpt, wide, narrow, noOpt bool
			for _, l := range engine.CondsBefore(ref.Path, ref.Idx) {
				switch {
				case l.L == "$jsonRFC7951" && l.R == "true":
					rfc, notRfc = l.Mask == 2, l.Mask == 5
				case l.L == "len($TypedValue.TypeOpts)" && l.R == "0":
					hasOpt = hasOpt || l.Mask == 4
					noOpt = noOpt || l.Mask == 3 || l.Mask == 2
				case l.L == "$TypedValue.TypeOpts[0]" && strings.Contains(l.R, "32"):
					wide = wide || l.Mask == 4
					narrow = narrow || l.Mask == 3
				}
			}
			isString := strings.HasSuffix(e.RHS, ".String()")
			isInt := strings.Contains(e.RHS, ".TypedInt.") || strings.Contains(e.RHS, ".TypedUint.")
			want := rfc
			if isInt {
				want = rfc && hasOpt && wide
			}
			_ = notRfc
			_ = narrow
			_ = noOpt
			if isString != want {
				o.Fail(&engine.Violation{Key: tree + ".handleLeafValue|width rule " + e.RHS[strings.LastIndex(e.RHS, "Typed"):], Pos: c.P.Pos(e.Pos), Func: ref.Path.Root.Name(),
					Msg: fmt.Sprintf("rendered as string=%v where string=%v is required by the RFC 7951 width rule", isString, want), Found: c.RenderConds(engine.CondsBefore(ref.Path, ref.Idx))})
				break
			}
		}
	}
}

// narrowing: integer conversions that lose bits under the build's sizes.
func narrowing(c *engine.Ctx, id, vals string) {
	o := c.Custom(id, "conv", "no integer conversion on the value path narrows (under the build's type sizes) except the listed ones",
		"a narrowing conversion silently changes large values")
	defer o.Done(1)
	allowed := map[string]string{
		"uint8(v.DecimalVal.Precision)": "decimal64 precision: YANG bounds it to 1..18",
		"uint8(u.DecimalVal.Precision)": "decimal64 precision: YANG bounds it to 1..18",
		"uint8(typeOpt0)":               "width or precision option from the model: ≤ 64",
	}
	pkg := c.P.Pkg(vals)
	if pkg == nil {
		o.Undecided(vals, "package not found")
		return
	}
	sizes := pkg.TypesSizes
	info := pkg.TypesInfo
	for _, fi := range c.P.FuncsOf(pkg) {
		ast.Inspect(fi.Decl.Body, func(n ast.Node) bool {
			call, ok := n.(*ast.CallExpr)
			if !ok || len(call.Args) != 1 {
				return true
			}
			tv, ok := info.Types[call.Fun]
			if !ok || !tv.IsType() {
				return true
			}
			to, ok1 := tv.Type.Underlying().(*types.Basic)
			ft := info.TypeOf(call.Args[0])
			if ft == nil {
				return true
			}
			from, ok2 := ft.Underlying().(*types.Basic)
			if !ok1 || !ok2 || to.Info()&types.IsInteger == 0 || from.Info()&types.IsInteger == 0 {
				return true
			}
			if atv, ok := info.Types[call.Args[0]]; ok && atv.Value != nil {
				return true
			}
			o.Site("")
			o.Eval(1)
			st, sf := sizes.Sizeof(to), sizes.Sizeof(from)
			signChange := (to.Info()&types.IsUnsigned != 0) != (from.Info()&types.IsUnsigned != 0)
			if st < sf || (signChange && st <= sf && false) {
				txt := types.ExprString(call)
				if _, ok := allowed[txt]; !ok {
					o.Fail(&engine.Violation{Key: fi.Name() + "|narrowing " + txt, Pos: c.P.Pos(call.Pos()), Func: fi.Name(),
						Msg: fmt.Sprintf("%s narrows %s (%d bytes) to %s (%d bytes): large values are silently truncated", txt, from.Name(), sf, to.Name(), st)})
				}
			}
			return true
		})
	}
}

// sibling compares the fingerprints of same-named functions of two packages.
func sibling(c *engine.Ctx, id, relA, relB string, subst [][2]string, exempt map[string]string) {
	o := c.Custom(id, "K-sibling(fingerprint)", "same-named functions of "+relA+" and "+relB+" have equal statement fingerprints (locals renamed, declared type substitutions applied)",
		"the v3 copy is meant to be the same algorithm: a change made to one variant only is a divergence")
	defer o.Done(3)
	pa, pb := c.P.Pkg(relA), c.P.Pkg(relB)
	if pa == nil || pb == nil {
		o.Undecided(relA, "package not found")
		return
	}
	fb := map[string]*engine.FuncInfo{}
	for _, f := range c.P.FuncsOf(pb) {
		fb[f.Obj.Name()] = f
	}
	for _, fa := range c.P.FuncsOf(pa) {
		name := fa.Obj.Name()
		g, ok := fb[name]
		if !ok {
			continue
		}
		if why, ok := exempt[name]; ok {
			o.Site(name + ": exempt — " + why)
			continue
		}
		o.Site(name)
		o.Eval(1)
		a, err1 := c.P.Fingerprint(fa, subst)
		b, err2 := c.P.Fingerprint(g, subst)
		if err1 != nil || err2 != nil {
			o.Undecided(name, "cannot fingerprint")
			continue
		}
		onlyA, onlyB := engine.DiffMultiset(a, b)
		if len(onlyA)+len(onlyB) > 0 {
			// the layouts differ: do the two variants still DO the same? (same callees, literals, fields,
			// operators, case expressions, literal types — control structure, names and helpers apart)
			aa, ab := c.P.Atoms(fa, subst), c.P.Atoms(g, subst)
			var da, db []string
			for k := range aa {
				if !ab[k] {
					da = append(da, k)
				}
			}
			for k := range ab {
				if !aa[k] {
					db = append(db, k)
				}
			}
			if len(da)+len(db) == 0 {
				o.Site(name + ": laid out differently, same atoms")
				continue
			}
			sort.Strings(da)
			sort.Strings(db)
			onlyA, onlyB = append(da, onlyA...), append(db, onlyB...)
			show := func(l []string) string {
				if len(l) > 3 {
					l = l[:3]
				}
				return strings.Join(l, " ¦ ")
			}
			o.Fail(&engine.Violation{Key: relA + "/" + relB + "|" + name + " diverges", Pos: c.P.Pos(fa.Decl.Pos()), Func: fa.Name(),
				Msg: fmt.Sprintf("the two variants of %s differ: only in %s: %s; only in %s: %s", name, relA, show(onlyA), relB, show(onlyB))})
		}
	}
}

// leafWritten: C17.5. Every value kind ends up in the tree, read through its own accessor type.
func leafWritten(c *engine.Ctx, id, rel string) {
	fn := strings.TrimPrefix(rel, "pkg/") + ".handleLeafValue"
	o := c.Custom(id, "K-must(leaf written)", fn+": for every ValueType other than EMPTY, every path of that case assigns nodemap[pathelems[0]], and the assigned expression reads the value through the accessor type of that kind (STRING → TypedString, LEAFLIST_INT → TypedLeafListInt, …)",
		"a kind whose case assigns nothing disappears from the document the plugin validates and Get returns; a case that reads through another kind's accessor reinterprets the bytes")
	defer o.Done(14)
	ps, err := c.A.PathsOpt(rel, engine.PathOpts{Roots: []string{fn}, Exact: true, NoInline: true})
	if err != nil || len(ps) == 0 {
		o.Undecided(rel, fmt.Sprintf("no paths for %s: %v", fn, err))
		return
	}
	camel := func(kind string) string {
		out := ""
		for _, part := range strings.Split(kind, "_") {
			if part == "" {
				continue
			}
			out += part[:1] + strings.ToLower(part[1:])
		}
		return strings.Replace(out, "Leaflist", "LeafList", 1)
	}
	seen := map[string]bool{}
	reported := map[string]bool{}
	for _, p := range ps {
		kind := ""
		for i := range p.Events {
			if e := &p.Events[i]; e.Kind == engine.EvCond && e.Lit.L == "$TypedValue.Type" && e.Lit.Mask == 2 && strings.Contains(e.Lit.R, ".ValueType_") {
				kind = e.Lit.R[strings.Index(e.Lit.R, ".ValueType_")+len(".ValueType_"):]
			}
		}
		if kind == "" || kind == "EMPTY" {
			continue
		}
		o.Eval(1)
		if !seen[kind] {
			seen[kind] = true
			o.Site(kind)
		}
		want := "Typed" + camel(kind)
		wrote, through := false, false
		for i := range p.Events {
			e := &p.Events[i]
			if e.Kind == engine.EvWrite && isLeafSlot(e.LHS) {
				wrote = true
			}
			// the accessor conversion appears in the assigned expression or in a call that feeds it
			if (e.Kind == engine.EvWrite && strings.Contains(e.RHS, "."+want+"(")) || (e.Kind == engine.EvCall && (strings.Contains(e.Recv, "."+want+"(") || strings.Contains(e.Canon, "."+want+"("))) {
				through = true
			}
		}
		last := &p.Events[len(p.Events)-1]
		switch {
		case !wrote && !reported[kind+"w"]:
			reported[kind+"w"] = true
			o.Fail(&engine.Violation{Key: fn + "|" + kind + " not written", Pos: c.P.Pos(last.Pos), Func: fn,
				Msg: "a value of kind " + kind + " leaves handleLeafValue on a path that assigns nothing to nodemap[pathelems[0]]: the leaf is missing from the tree"})
		case wrote && !through && !reported[kind+"t"]:
			reported[kind+"t"] = true
			o.Fail(&engine.Violation{Key: fn + "|" + kind + " read through another accessor", Pos: c.P.Pos(last.Pos), Func: fn,
				Msg: "a value of kind " + kind + " is not read through " + want + ": its bytes are interpreted as another kind"})
		}
	}
}

// leafListWidth: C17.2d. The width rule for integer leaf-lists.
func leafListWidth(c *engine.Ctx, id, tree string) {
	o := c.Custom(id, "K-enum(width rule, leaf-lists)", "handleLeafValue, LEAFLIST_INT / LEAFLIST_UINT: the list of strings (each element formatted with %d from the typed list) is assigned iff jsonRFC7951 ∧ width > 32, where width is the second result of the typed List(); otherwise the typed list itself",
		"RFC 7951: 64-bit integers are JSON strings also inside leaf-lists")
	defer o.Done(2)
	paths, err := c.A.PathsOpt(tree, engine.PathOpts{Roots: []string{"tree.handleLeafValue"}, NoInline: true})
	if err != nil {
		o.Undecided(tree, err.Error())
		return
	}
	reported := map[string]bool{}
	seen := map[string]bool{}
	for _, p := range paths {
		kind, list := "", ""
		for i := range p.Events {
			e := &p.Events[i]
			if e.Kind == engine.EvCond && e.Lit.L == "$TypedValue.Type" && e.Lit.Mask == 2 && (strings.HasSuffix(e.Lit.R, "LEAFLIST_INT") || strings.HasSuffix(e.Lit.R, "LEAFLIST_UINT")) {
				kind = e.Lit.R[strings.LastIndex(e.Lit.R, "_")+1:]
			}
			if e.Kind == engine.EvCall && kind != "" && strings.HasSuffix(e.CalleeName, ".List") {
				list = e.Canon
			}
		}
		if kind == "" {
			continue
		}
		if !seen[kind] {
			seen[kind] = true
			o.Site("LEAFLIST_" + kind)
		}
		o.Eval(1)
		rfc, wide, rfcKnown, wideKnown := false, false, false, false
		var rhs string
		var formatted bool
		for i := range p.Events {
			e := &p.Events[i]
			switch e.Kind {
			case engine.EvCond:
				if e.Lit.L == "$jsonRFC7951" && e.Lit.R == "true" {
					rfcKnown, rfc = true, e.Lit.Mask == 2
				}
				if list != "" && e.Lit.L == list+".1" && strings.HasSuffix(e.Lit.R, "WidthThirtyTwo") {
					wideKnown, wide = true, e.Lit.Mask == 4
				}
			case engine.EvWrite:
				if isLeafSlot(e.LHS) {
					rhs = e.RHS
				}
			case engine.EvCall:
				if e.CalleeName == "fmt.Sprintf" && len(e.Args) == 2 && e.Args[0] == `"%d"` && list != "" && e.Args[1] == "elem("+list+")" {
					formatted = true
				}
			}
		}
		asStrings := strings.HasPrefix(rhs, "?asStrList") || strings.HasPrefix(rhs, "make([]string")
		typed := rhs == list
		bad := ""
		switch {
		case list == "":
			bad = "the typed List() is not consulted"
		case rfcKnown && rfc && wideKnown && wide:
			if !asStrings {
				bad = "a wide integer leaf-list is not rendered as strings under RFC 7951"
			}
		case (rfcKnown && !rfc) || (wideKnown && !wide):
			if !typed {
				bad = "a narrow (or non-RFC) integer leaf-list is not assigned the typed list itself: " + rhs
			}
		default:
			bad = "a path assigns the leaf-list without deciding jsonRFC7951 ∧ width > 32"
		}
		_ = formatted
		if bad != "" && !reported[kind+bad] {
			reported[kind+bad] = true
			o.Fail(&engine.Violation{Key: tree + ".handleLeafValue|LEAFLIST_" + kind + " width rule", Pos: c.P.Pos(p.Events[len(p.Events)-1].Pos), Func: p.Root.Name(), Msg: bad})
		}
	}
}

// oneElementType: C17.9 (finding F70). handleLeafList sorts the elements of a gNMI leaf-list into one list per
// element type and stores ONE of them: unless a collection with more than one non-empty list is refused, the
// elements of the other types are dropped silently. Decided: after the element loop there is an error exit
// other than the one taken when every list is empty.
func oneElementType(c *engine.Ctx, id, rel string) {
	o := c.Custom(id, "K-exists(refusal)", "handleLeafList: after the loop over the elements some path returns an error although not every per-type list is empty (a mixed collection is refused)",
		"the value a client sets is the value stored: elements of a second type must not vanish")
	defer o.Done(1)
	ps, err := c.A.PathsOpt(rel, engine.PathOpts{Roots: []string{".handleLeafList"}, NoInline: true})
	if err != nil || len(ps) == 0 {
		o.Undecided(rel, fmt.Sprintf("no paths of handleLeafList: %v", err))
		return
	}
	lists, refusing := map[string]bool{}, 0
	var pos token.Pos
	for _, p := range ps {
		last := &p.Events[len(p.Events)-1]
		if last.Kind != engine.EvReturn || len(last.Results) != 2 {
			continue
		}
		pos = last.Pos
		// the element loop is the first loop of the function
		exit := -1
		var first *engine.Event
		for i := range p.Events {
			e := &p.Events[i]
			if e.Kind == engine.EvLoopEnter && first == nil {
				first = e
			}
			if first != nil && e.Kind == engine.EvLoopExit && e.Node == first.Node {
				exit = i
				break
			}
		}
		if exit < 0 {
			continue
		}
		if last.Results[1] == "nil" {
			if k := strings.Index(last.Results[0], "(?"); k > 0 {
				lists[last.Results[0][:k]] = true
			}
			continue
		}
		empties := 0
		for i := exit; i < len(p.Events); i++ {
			if e := &p.Events[i]; e.Kind == engine.EvCond && strings.HasPrefix(e.Lit.L, "len(?") && e.Lit.R == "0" && e.Lit.Mask&4 == 0 {
				empties++
			}
		}
		o.Eval(1)
		if empties < 2 {
			refusing++
		}
	}
	o.Site(fmt.Sprintf("%s.handleLeafList: %d typed lists returned, %d refusing exits after the element loop", rel, len(lists), refusing))
	if len(lists) >= 2 && refusing == 0 {
		o.Fail(&engine.Violation{Key: rel + ".handleLeafList|mixed element types not refused", Pos: c.P.Pos(pos), Func: "handleLeafList",
			Msg: fmt.Sprintf("the elements are sorted into %d per-type lists and one of them is returned, but after the loop the only error exit is the one for 'every list empty': a leaf-list with elements of two types is stored as the elements of one of them", len(lists))})
	}
}

// signChanging: C17.10 (seed C17-r41). On the value path no 64-bit integer is converted to the type of the other
// signedness: uint64 → int64 turns the upper half of the range negative (18446744073709551615 is rendered "-1"),
// int64 → uint64 turns negatives into huge numbers. Operands of a type parameter are judged by every type of the
// constraint (a generic helper over int64 | uint64 that formats through int64 is the refactoring slip of the seed).
func signChanging(c *engine.Ctx, id string, pkgs []string) {
	o := c.Custom(id, "conv(sign)", "no conversion between int64 and uint64 (or from a type parameter whose constraint admits the other signedness at 64 bits) of a non-constant operand in the value and tree packages",
		"the value a client sets is the value in the JSON document, digit for digit")
	defer o.Done(0)
	wide := func(t types.Type) (signed, unsigned bool) {
		var visit func(t types.Type)
		visit = func(t types.Type) {
			switch u := t.Underlying().(type) {
			case *types.Basic:
				switch u.Kind() {
				case types.Int64:
					signed = true
				case types.Uint64:
					unsigned = true
				}
			case *types.Interface:
				for i := 0; i < u.NumEmbeddeds(); i++ {
					visit(u.EmbeddedType(i))
				}
			case *types.Union:
				for i := 0; i < u.Len(); i++ {
					visit(u.Term(i).Type())
				}
			}
		}
		if tp, ok := t.(*types.TypeParam); ok {
			visit(tp.Constraint())
			return
		}
		visit(t)
		return
	}
	for _, rel := range pkgs {
		pkg := c.P.Pkg(rel)
		if pkg == nil {
			o.Undecided(rel, "package not found")
			continue
		}
		info := pkg.TypesInfo
		for _, fi := range c.P.FuncsOf(pkg) {
			ast.Inspect(fi.Decl.Body, func(n ast.Node) bool {
				call, ok := n.(*ast.CallExpr)
				if !ok || len(call.Args) != 1 {
					return true
				}
				tv, ok := info.Types[call.Fun]
				if !ok || !tv.IsType() {
					return true
				}
				if atv, ok := info.Types[call.Args[0]]; ok && atv.Value != nil {
					return true
				}
				ft := info.TypeOf(call.Args[0])
				if ft == nil {
					return true
				}
				toS, toU := wide(tv.Type)
				frS, frU := wide(ft)
				if !(toS || toU) || !(frS || frU) {
					return true
				}
				o.Site("")
				o.Eval(1)
				if (toS && frU) || (toU && frS) {
					txt := types.ExprString(call)
					o.Fail(&engine.Violation{Key: fi.Name() + "|sign-changing " + txt, Pos: c.P.Pos(call.Pos()), Func: fi.Name(),
						Msg: txt + " converts a 64-bit integer to the other signedness (operand type " + ft.String() + "): half of the range changes its value"})
				}
				return true
			})
		}
	}
}

// isLeafSlot: a write into the node map handed to handleLeafValue (its first parameter) under a key that is a
// parameter of the function or the first element of one — `nodemap[pathelems[0]]`, or `nodemap[leafName]` when the
// caller evaluates the name; the parameter names are the maintainers' business.
func isLeafSlot(lhs string) bool {
	if !strings.HasPrefix(lhs, "$") || !strings.HasSuffix(lhs, "]") {
		return false
	}
	i := strings.Index(lhs, "[")
	if i < 0 {
		return false
	}
	key := lhs[i+1 : len(lhs)-1]
	return strings.HasPrefix(key, "$") && (!strings.ContainsAny(key, "[(") || strings.HasSuffix(key, "[0]") && strings.Count(key, "[") == 1)
}
