package props

import (
	"fmt"
	"go/ast"
	"go/types"
	"regexp"
	"sort"
	"strings"

	"occheck/internal/engine"
)

func init() {
	register(&Prop{
		ID:    "C09",
		Title: "Controllers never strand a transaction that could make progress",
		Explanation: "Liveness itself cannot be decided statically. Decided: the frozen wake-up obligations the fixed-point argument rests on — (1) every return that waits on the predecessor proposal re-queues that predecessor; (2) every terminal state of a proposal phase whose step moved a cursor a successor waits on (COMMITTED, APPLIED, ABORTED, apply-FAILED) re-queues the successor when one is linked; " +
			"(3) entering Validate and failing Initialize re-queue transaction index+1 (which waits for its predecessor to leave INITIALIZING); (4) each controller watcher maps a store event to exactly the frozen set of ids; (5) a failed store or topo call that is not classified as tolerated (NotFound/AlreadyExists/Conflict) makes the pass return a non-nil error, which the controller library retries; " +
			"(6) waits on a serializable predecessor transaction carry a wake-up." +
			" Also: an ABORTING pass that writes nothing is infeasible where the abort can move (C09.11)." +
			" Also: C09.12 listener before snapshot, C09.13 abort gate.",
		Declined: []string{"the fixed-point / termination claim over all delivery orders", "that the controller library delivers every queued id"},
		Run:      runC09,
		Witness:  []WitnessTarget{{pkgProposalCtl, nil}, {pkgTransactionCtl, nil}, {pkgConfigCtl, []string{"Start"}}, {pkgMastershipCtl, []string{"Start"}}},
	})
}

func runC09(c *engine.Ctx, tier string) {
	c.Al = proposalAliases(c.P)
	base := "err(@P) == nil && "
	requeuePrev := "controller.Result{Requeue:controller.NewID(store/v2/proposal.NewID(@P.TargetID,@PREV))}"
	requeueNext := "controller.Result{Requeue:controller.NewID(store/v2/proposal.NewID(@P.TargetID,@P.Status.NextIndex))}"
	// (1) waits re-queue the predecessor
	c.Outcome(engine.Outcome{ID: "C09.1a", Pkg: pkgProposalCtl, Root: "Reconciler.Reconcile", Min: 1,
		When:    base + "@P.Status.Phases.Apply == nil && @P.Status.Phases.Abort == nil && @P.Status.Phases.Commit == nil && @P.Status.Phases.Validate != nil && @P.Status.Phases.Validate.State == config/v2.ProposalValidatePhase_VALIDATING && err(@CFG) == nil && @PREV != 0 && @CFG.Status.Committed.Index != @PREV",
		Result0: requeuePrev, Returns: "err==nil",
		Why: "a validation that waits for its predecessor's merge pokes the predecessor, whose COMMITTED/ABORTED step wakes it in turn"})
	c.Outcome(engine.Outcome{ID: "C09.1b", Pkg: pkgProposalCtl, Root: "Reconciler.Reconcile", Min: 1,
		When:    base + "@P.Status.Phases.Apply != nil && @P.Status.Phases.Apply.State == config/v2.ProposalApplyPhase_APPLYING && err(@CFG) == nil && !(@CFG.Status.Applied.Index >= @OWN) && @PREV != 0 && @CFG.Status.Applied.Index != @PREV",
		Result0: requeuePrev, Returns: "err==nil",
		Why: "an apply that waits for its predecessor's apply pokes the predecessor"})
	c.Outcome(engine.Outcome{ID: "C09.1c", Pkg: pkgProposalCtl, Root: "Reconciler.Reconcile", Min: 1,
		When: base + "@P.Status.Phases.Apply == nil && @P.Status.Phases.Abort != nil && @P.Status.Phases.Abort.State == config/v2.ProposalAbortPhase_ABORTING && err(@CFG) == nil && @PREV != 0 && " +
			"@CFG.Status.Committed.Index != @PREV && !(@CFG.Status.Applied.Index == @PREV && @CFG.Status.Committed.Index >= @OWN)",
		Result0: requeuePrev, Returns: "err==nil",
		Why: "an abort whose turn has not come (no cursor is at its predecessor) pokes the predecessor like the other waits do (F52)"})
	abortWaitJustified(c)
	// (2) terminal states wake the successor
	for _, x := range []struct{ id, when string }{
		{"C09.2a", "@P.Status.Phases.Apply == nil && @P.Status.Phases.Abort == nil && @P.Status.Phases.Commit != nil && @P.Status.Phases.Commit.State == config/v2.ProposalCommitPhase_COMMITTED"},
		{"C09.2b", "@P.Status.Phases.Apply != nil && @P.Status.Phases.Apply.State == config/v2.ProposalApplyPhase_APPLIED"},
		{"C09.2c", "@P.Status.Phases.Apply == nil && @P.Status.Phases.Abort != nil && @P.Status.Phases.Abort.State == config/v2.ProposalAbortPhase_ABORTED"},
		// apply-FAILED moves the applied cursor like APPLIED does. This row was once left out as a false alarm
		// ("the configuration watcher and the predecessor pokes wake the successor"): wrong — after a refusal
		// Applied.Index names the FAILED proposal, which forwards nothing, and Configuration.Index need not
		// name the waiting proposal (a rollback behind a refused change waits for ever: finding F42).
		{"C09.2d", "@P.Status.Phases.Apply != nil && @P.Status.Phases.Apply.State == config/v2.ProposalApplyPhase_FAILED"},
	} {
		c.Outcome(engine.Outcome{ID: x.id, Pkg: pkgProposalCtl, Root: "Reconciler.Reconcile", Min: 1, Consistent: true,
			When:    base + x.when + " && @P.Status.NextIndex != 0",
			Result0: requeueNext, Returns: "err==nil",
			Why: "a proposal in a terminal state of a cursor-advancing phase re-queues its successor: the successor's wait (C09.1) pokes this proposal, and this is the only thing that wakes it once the cursor has moved"})
	}
	// (3) transaction index+1
	c.Al = transactionAliases(c.P)
	// the abort of a transaction is complete only when EVERY proposal is aborted — a refused proposal's abort is what
	// moves the cursors past it, and its successor waits for exactly that (seed C09-r52; the same gate is C01.1d)
	allProposalsGates(c, "C09.13", "d")
	// a store watch registers its listener before it reads the snapshot it replays: a record created in between is in
	// neither, and the controller that depends on the watch never hears of it (seed C09-r51; the same clause is C15.3)
	for _, rel := range []string{pkgStorePropV2, pkgStoreTxV2, pkgStoreCfgV2} {
		watchOrder(c, "C09.12/"+strings.TrimPrefix(rel, "pkg/store/"), rel)
	}
	requeueSucc := "controller.Result{Requeue:controller.NewID((@T.Index + 1))}"
	c.Outcome(engine.Outcome{ID: "C09.3a", Pkg: pkgTransactionCtl, Root: "Reconciler.Reconcile", Min: 1,
		When:    "#wrote(config/v2.TransactionPhases.Validate=) && !#failed(" + stTxUpdStat + ")",
		Result0: requeueSucc, Returns: "err==nil",
		Why: "transaction index+1 waits until this one has left INITIALIZING; the pass that opens Validate wakes it"})
	c.Outcome(engine.Outcome{ID: "C09.3b", Pkg: pkgTransactionCtl, Root: "Reconciler.Reconcile", Min: 2,
		When:    "#wrote(config/v2.TransactionInitializePhase.State=config/v2.TransactionInitializePhase_FAILED) && !#failed(" + stTxUpdStat + ")",
		Result0: requeueSucc, Returns: "err==nil",
		Why: "a transaction whose initialisation fails goes straight to Abort and never passes the INITIALIZED step that wakes index+1: the failing pass itself must wake it"})
	// (6) serializable waits
	for _, x := range []struct{ id, st string }{{"C09.6a", "VALIDATED"}, {"C09.6b", "COMMITTED"}, {"C09.6c", "APPLIED"}} {
		c.Outcome(engine.Outcome{ID: x.id, Pkg: pkgTransactionCtl, Root: "Reconciler.Reconcile", Min: 1,
			When:    "err(@PREVTS) == nil && @PREVTS.Isolation == config/v2.TransactionStrategy_SERIALIZABLE && @PREVTS.Status.State < config/v2.TransactionStatus_" + x.st,
			MustNot: []engine.Sel{{Filter: returnsNoWake, Name: "return without re-queue and without error"}},
			Why:     "a transaction waiting for a serializable predecessor must be woken when the predecessor advances; no watcher maps the predecessor's events to its successors, so the wait itself has to carry a re-queue or an error"})
	}
	// (4) watcher maps
	watcherMaps(c)
	// (5) transient failures are returned
	for _, rel := range []string{pkgProposalCtl, pkgTransactionCtl, pkgConfigCtl, pkgMastershipCtl} {
		transientReturned(c, "C09.5/"+strings.TrimPrefix(rel, "pkg/controller/v2/"), rel)
	}
	infraWatcherMaps(c)
	controllerWiring(c)
	managerWiring(c)
	everyOpenPhaseIsServed(c)
	// what the replay at start-up wakes is the reconciler of the id the event carries: a replayed
	// transaction without its log index wakes transaction 0, and the real one is never looked at
	versionStamping(c, "C09.10", pkgStoreTxV2, true, 4)
}

// returnsNoWake matches a root return that carries neither a re-queue nor an error.
func returnsNoWake(p *engine.Path, i int) bool {
	e := &p.Events[i]
	if e.Kind != engine.EvReturn || len(e.Results) != 2 {
		return false
	}
	return e.Results[0] == "controller.Result{}" && e.Results[1] == "nil"
}

var watcherTable = []struct {
	pkg, recv string
	sends     []string
}{
	{pkgProposalCtl, "Watcher", []string{"controller.NewID(@E.Proposal.ID)"}},
	{pkgProposalCtl, "ConfigurationWatcher", []string{
		"controller.NewID(store/v2/proposal.NewID(@E.Configuration.TargetID,@E.Configuration.Index))",
		"controller.NewID(store/v2/proposal.NewID(@E.Configuration.TargetID,@E.Configuration.Status.Applied.Index))",
		// before the first apply Applied.Index is 0 and after a rollback Configuration.Index has moved back; a
		// committed proposal without an apply phase pokes nobody: every proposal from min(Applied, Committed)+1 up
		// to Proposed.Index is woken (F52, F56) — the two first-iteration forms of that loop's send
		"range:controller.NewID(store/v2/proposal.NewID(@E.Configuration.TargetID,(@E.Configuration.Status.Applied.Index + 1)))",
		"range:controller.NewID(store/v2/proposal.NewID(@E.Configuration.TargetID,(@E.Configuration.Status.Committed.Index + 1)))"}},
	// N+1 waits for N to leave INITIALIZING: woken by N's events, not only by the Requeue of the pass that wrote (F58)
	{pkgTransactionCtl, "Watcher", []string{"controller.NewID(@E.Transaction.Index)", "controller.NewID((@E.Transaction.Index + 1))"}},
	{pkgTransactionCtl, "ProposalWatcher", []string{"controller.NewID(@E.Proposal.TransactionIndex)"}},
	{pkgConfigCtl, "Watcher", []string{"controller.NewID(@E.Configuration.ID)"}},
	{pkgConfigCtl, "TopoWatcher", []string{"controller.NewID(store/v2/configuration.NewID(config/v2.TargetID(@E.Object.ID),config/v2.TargetType(@CFGBL.Type),config/v2.TargetVersion(@CFGBL.Version)))"}},
	{pkgMastershipCtl, "ConfigurationStoreWatcher", []string{"controller.NewID(@E.Configuration.ID)"}},
}

// watcherMaps: the ids a controller watcher derives from a store event are exactly the frozen ones.
func watcherMaps(c *engine.Ctx) { watcherMapsAs(c, "C09.4", "") }

// watcherMapsAs evaluates the rows of the table whose "pkg.recv" contains only (all when empty).
func watcherMapsAs(c *engine.Ctx, id, only string) {
	o := c.Custom(id, "K-own(watcher bodies)", "each controller watcher sends exactly the frozen set of ids per store event, and (store watchers) sends them whatever the event's type or content",
		"these mappings are what re-enables a reconciliation when another record changes; a dropped or re-targeted mapping strands the records that depended on it")
	al := engine.NewAliases(c.P, "E", "recv(^eventCh)", "CFGBL", "&topo.Configurable{}@1")
	n := 0
	for _, w := range watcherTable {
		if only != "" && !strings.Contains(w.pkg+"."+w.recv, only) {
			continue
		}
		n++
		paths, err := c.A.Paths(w.pkg)
		if err != nil {
			o.Undecided(w.pkg, err.Error())
			continue
		}
		got := map[string]string{}
		for _, p := range paths {
			if p.Lit == nil || !strings.HasSuffix(p.Root.Name(), "."+w.recv+".Start") {
				continue
			}
			for i := range p.Events {
				e := &p.Events[i]
				if e.Kind == engine.EvSend && e.Chan == "^ch" {
					got[e.RHS] = c.P.Pos(e.Pos)
					if w.recv == "TopoWatcher" {
						continue // topology events are legitimately filtered by kind and aspect
					}
					// a store event is forwarded whatever its type and content: the reconcilers rely on
					// UPDATED events (the write that beat theirs) as much as on CREATED/REPLAYED ones
					for _, l := range engine.CondsBefore(p, i) {
						if ls := l.String(); strings.Contains(ls, ".Status.Applied.Index") && strings.Contains(ls, ".Status.Committed.Index") ||
							strings.Contains(ls, ".Status.Proposed.Index") {
							continue // the bounds of the range of proposals that are woken (from min(Applied, Committed)+1 to Proposed)
						}
						if l.L == "ok(recv(^eventCh))" {
							continue // the channel is still open: no property of the event
						}
						if strings.Contains(l.String(), "recv(^eventCh)") {
							o.Fail(&engine.Violation{Key: w.pkg + "." + w.recv + "|forwarding depends on the event", Pos: c.P.Pos(e.Pos), Func: w.recv + ".Start",
								Msg: "the watcher forwards the id only under " + c.Render(l.String()) + ": store events of the other kinds no longer wake the reconciler (a reconciler that lost a write race returns quietly and waits for exactly such an event)"})
						}
					}
				}
			}
		}
		o.Site(w.pkg + "." + w.recv)
		want := map[string]bool{}
		rangeForms := map[string]bool{}
		for _, s := range w.sends {
			if strings.HasPrefix(s, "range:") {
				rangeForms[al.Expand(strings.TrimPrefix(s, "range:"))] = true
				continue
			}
			want[al.Expand(s)] = true
		}
		if len(rangeForms) > 0 {
			// both first-iteration forms must be sent, inside a loop bounded by Proposed.Index
			for f := range rangeForms {
				o.Eval(1)
				if _, ok := got[f]; !ok {
					o.Fail(&engine.Violation{Key: w.pkg + "." + w.recv + "|missing range from " + al.Render(f), Pos: w.pkg, Func: w.recv + ".Start",
						Msg: "the watcher does not wake the proposals from min(Applied.Index, Committed.Index)+1 upwards: " + al.Render(f) + " is not sent"})
				}
			}
			bounded := false
			for _, p := range paths {
				if p.Lit == nil || !strings.HasSuffix(p.Root.Name(), "."+w.recv+".Start") {
					continue
				}
				for i := range p.Events {
					if e := &p.Events[i]; e.Kind == engine.EvCond && strings.HasSuffix(e.Lit.R, al.Expand("@E.Configuration.Status.Proposed.Index")) && e.Lit.Mask&4 == 0 {
						bounded = true
					}
				}
			}
			if !bounded {
				o.Fail(&engine.Violation{Key: w.pkg + "." + w.recv + "|range bound", Pos: w.pkg, Func: w.recv + ".Start", Msg: "the range of proposals woken by a configuration event is not bounded by Proposed.Index (inclusive)"})
			}
		}
		var gl []string
		for g := range got {
			gl = append(gl, g)
		}
		sort.Strings(gl)
		for _, g := range gl {
			o.Eval(1)
			if !want[g] && !rangeForms[g] {
				o.Fail(&engine.Violation{Key: w.pkg + "." + w.recv + "|sends " + al.Render(g), Pos: got[g], Func: w.recv + ".Start",
					Msg: "watcher maps an event to an id that is not in the frozen table: " + al.Render(g)})
			}
		}
		for s := range want {
			o.Eval(1)
			if _, ok := got[s]; !ok {
				o.Fail(&engine.Violation{Key: w.pkg + "." + w.recv + "|missing " + al.Render(s), Pos: w.pkg, Func: w.recv + ".Start",
					Msg: "watcher no longer maps its event to " + al.Render(s) + ": records waiting on that change are never re-examined"})
			}
		}
	}
	o.Done(n)
}

// transientReturned: on every complete path of a reconciler on which a store/topo/plugin call
// failed and the failure was not classified by one of the tolerated classifiers, the pass returns a
// non-nil error.
func transientReturned(c *engine.Ctx, id, rel string) {
	o := c.Custom(id, "K-enum(error outcome)", "a failed store/topo call that is not classified NotFound/AlreadyExists/Conflict/Forbidden makes Reconcile return a non-nil error",
		"the controller library retries a pass only when it returns an error (or a re-queue); a transient failure swallowed as success strands the record until an unrelated event")
	paths, err := c.A.Paths(rel)
	if err != nil {
		o.Undecided(rel, err.Error())
		o.Done(0)
		return
	}
	reported := map[string]bool{}
	for _, p := range paths {
		if p.Lit != nil || !strings.HasSuffix(p.Root.Name(), "Reconciler.Reconcile") || len(p.Events) == 0 {
			continue
		}
		last := &p.Events[len(p.Events)-1]
		if last.Kind != engine.EvReturn || len(last.Results) == 0 {
			continue
		}
		conds := engine.CondsBefore(p, len(p.Events)-1)
		for i := range p.Events {
			e := &p.Events[i]
			if e.Kind != engine.EvCall || e.Def == "" || e.Deferred {
				continue
			}
			if !(strings.HasPrefix(e.CalleeName, "store/") || strings.HasPrefix(e.CalleeName, "southbound/gnmi.Client.Capabilities")) {
				continue
			}
			errv := "err(" + e.Canon + ")"
			failed, classified := false, false
			for _, l := range conds {
				if l.L == errv && l.RNil && l.Mask == 5 {
					failed = true
				}
				if strings.HasPrefix(l.L, "errors.Is") && strings.HasSuffix(l.L, "("+errv+")") && l.R == "true" && l.Mask == 2 {
					cls := l.L[:strings.Index(l.L, "(")]
					if toleratedClass(e.CalleeName, cls) {
						classified = true
					}
				}
			}
			if !failed || classified {
				continue
			}
			o.Site("")
			o.Eval(1)
			if last.Results[len(last.Results)-1] == "nil" {
				key := engine.SiteKey(p, i, "call "+e.CalleeName+" error swallowed")
				if !reported[key] {
					reported[key] = true
					o.Fail(&engine.Violation{Key: key, Pos: c.P.Pos(e.Pos), Func: engine.FuncChain(p, i),
						Msg:   "the error of " + e.CalleeName + " is neither classified as tolerated nor returned: the pass reports success and nothing retries it",
						Found: c.RenderConds(conds), Path: c.PathTrace(p, len(p.Events)-1)})
				}
			}
		}
	}
	o.Done(1)
}

// toleratedClass is the frozen table of (callee, classifier) pairs whose failure a reconciler may
// answer with success: the record is gone, exists already, or somebody else just wrote the very
// record this pass wanted to write (so an event for that record is on its way). Everything else —
// in particular a conflict on Configuration.Store.Update, whose competing writers' events map to
// other proposals — must be returned so that the controller retries.
func toleratedClass(callee, cls string) bool {
	switch {
	case strings.HasSuffix(callee, ".Store.Get") || strings.HasSuffix(callee, ".Store.GetByIndex"):
		return cls == "errors.IsNotFound"
	case strings.HasSuffix(callee, ".Store.UpdateStatus"):
		return cls == "errors.IsNotFound" || cls == "errors.IsConflict"
	case strings.HasSuffix(callee, ".Store.Create"):
		return cls == "errors.IsAlreadyExists"
	case strings.HasSuffix(callee, ".Store.Delete"):
		return cls == "errors.IsNotFound"
	}
	return false
}

// controllerWiring: C09.7. Every watcher a controller package defines is registered by its constructor.
func controllerWiring(c *engine.Ctx) {
	o := c.Custom("C09.7", "K-table(controller wiring)", "in each v2 controller package, NewController registers (c.Watch) every type of the package that has Start(chan<- controller.ID) and Stop(), registers one reconciler (c.Reconcile), and every interface-typed field of those literals is set from a constructor parameter",
		"an event source that is not watched strands whoever waits for its events; a watcher or reconciler built without its store panics or never sees anything")
	defer o.Done(10)
	for _, rel := range []string{pkgProposalCtl, pkgTransactionCtl, pkgConfigCtl, pkgMastershipCtl, pkgConnectionCtl, pkgTargetCtl} {
		pkg := c.P.Pkg(rel)
		if pkg == nil {
			o.Undecided(rel, "package not loaded")
			continue
		}
		info := pkg.TypesInfo
		// watcher types of the package
		watchers := map[string]bool{}
		scope := pkg.Types.Scope()
		for _, name := range scope.Names() {
			tn, ok := scope.Lookup(name).(*types.TypeName)
			if !ok {
				continue
			}
			if _, isStruct := tn.Type().Underlying().(*types.Struct); !isStruct {
				continue
			}
			ms := types.NewMethodSet(types.NewPointer(tn.Type()))
			start, stop := ms.Lookup(pkg.Types, "Start"), ms.Lookup(pkg.Types, "Stop")
			if start == nil || stop == nil {
				continue
			}
			if sig, ok := start.Type().(*types.Signature); ok && sig.Params().Len() == 1 && strings.Contains(sig.Params().At(0).Type().String(), "controller.ID") {
				watchers[name] = true
			}
		}
		var ctor *engine.FuncInfo
		for _, fi := range c.P.FuncsOf(pkg) {
			if fi.Decl.Name.Name == "NewController" && fi.Decl.Recv == nil {
				ctor = fi
			}
		}
		if ctor == nil {
			o.Undecided(rel, "NewController not found")
			continue
		}
		params := map[types.Object]bool{}
		for _, f := range ctor.Decl.Type.Params.List {
			for _, n := range f.Names {
				params[info.Defs[n]] = true
			}
		}
		registered := map[string]bool{}
		reconcilers := 0
		checkLit := func(call *ast.CallExpr, what string) string {
			if len(call.Args) != 1 {
				return ""
			}
			u, ok := ast.Unparen(call.Args[0]).(*ast.UnaryExpr)
			if !ok {
				return ""
			}
			lit, ok := u.X.(*ast.CompositeLit)
			if !ok {
				return ""
			}
			t := info.TypeOf(lit)
			nt, _ := t.(*types.Named)
			st, _ := t.Underlying().(*types.Struct)
			if nt == nil || st == nil {
				return ""
			}
			set := map[string]ast.Expr{}
			for _, el := range lit.Elts {
				if kv, ok := el.(*ast.KeyValueExpr); ok {
					set[types.ExprString(kv.Key)] = kv.Value
				}
			}
			for i := 0; i < st.NumFields(); i++ {
				f := st.Field(i)
				if _, isIface := f.Type().Underlying().(*types.Interface); !isIface {
					continue
				}
				o.Eval(1)
				v, ok := set[f.Name()]
				fromParam := false
				if ok {
					if id, isID := ast.Unparen(v).(*ast.Ident); isID && params[info.Uses[id]] {
						fromParam = true
					}
				}
				if !fromParam {
					o.Fail(&engine.Violation{Key: rel + ".NewController|" + nt.Obj().Name() + "." + f.Name() + " not set from a parameter", Pos: c.P.Pos(lit.Pos()), Func: ctor.Name(),
						Msg: "the " + what + " " + nt.Obj().Name() + " is built without its " + f.Name() + " (an interface-typed dependency): it panics or sees nothing"})
				}
			}
			return nt.Obj().Name()
		}
		ast.Inspect(ctor.Decl.Body, func(n ast.Node) bool {
			call, ok := n.(*ast.CallExpr)
			if !ok {
				return true
			}
			sel, ok := call.Fun.(*ast.SelectorExpr)
			if !ok {
				return true
			}
			switch sel.Sel.Name {
			case "Watch":
				if name := checkLit(call, "watcher"); name != "" {
					registered[name] = true
					o.Site(c.P.Pos(call.Pos()) + " " + rel + " watches " + name)
				}
			case "Reconcile":
				if name := checkLit(call, "reconciler"); name != "" {
					reconcilers++
					o.Site(c.P.Pos(call.Pos()) + " " + rel + " reconciles with " + name)
				}
			}
			return true
		})
		for w := range watchers {
			o.Eval(1)
			if !registered[w] {
				o.Fail(&engine.Violation{Key: rel + ".NewController|watcher " + w + " not registered", Pos: c.P.Pos(ctor.Decl.Pos()), Func: ctor.Name(),
					Msg: "the package defines the watcher " + w + " but NewController does not register it: the events it maps never wake the controller"})
			}
		}
		if reconcilers != 1 {
			o.Fail(&engine.Violation{Key: rel + ".NewController|reconciler", Pos: c.P.Pos(ctor.Decl.Pos()), Func: ctor.Name(), Msg: fmt.Sprintf("NewController registers %d reconcilers, not one", reconcilers)})
		}
	}
}

// managerWiring: C09.8. The manager starts every controller and reports a controller that did not start.
func managerWiring(c *engine.Ctx) {
	o := c.Custom("C09.8", "K-table(manager wiring)", "Manager.Start reaches NewController of the node, connection, target, mastership, configuration, proposal and transaction controllers, each start helper returns the error of Controller.Start, each helper's error is tested and returned by Start, and every store constructor is called once (one instance shared by the controllers and the northbound server)",
		"a controller that is not started (or whose failed start is ignored) leaves every record that waits for it stranded")
	defer o.Done(7)
	funcs, sites := c.P.Reach("manager.Manager.Start")
	_ = funcs
	need := map[string]bool{}
	for _, p := range []string{"controller/node", "controller/connection", "controller/target", "controller/v2/mastership", "controller/v2/configuration", "controller/v2/proposal", "controller/v2/transaction"} {
		need[p+".NewController"] = false
	}
	storeCtors := map[string]int{}
	for _, cs := range sites {
		if _, ok := need[cs.Callee]; ok {
			need[cs.Callee] = true
			o.Site(cs.Pos + " " + cs.Func + " → " + cs.Callee)
		}
		if strings.HasSuffix(cs.Callee, ".NewAtomixStore") && cs.Func == "manager.Manager.Start" {
			storeCtors[cs.Callee]++
		}
	}
	for callee, ok := range need {
		o.Eval(1)
		if !ok {
			o.Fail(&engine.Violation{Key: "manager.Manager.Start|" + callee + " not reached", Pos: "pkg/manager/manager.go", Func: "manager.Manager.Start",
				Msg: callee + " is not reachable from Manager.Start: that controller is never started"})
		}
	}
	for ctor, n := range storeCtors {
		o.Eval(1)
		if n != 1 {
			o.Fail(&engine.Violation{Key: "manager.Manager.Start|" + ctor + " called " + fmt.Sprint(n) + " times", Pos: "pkg/manager/manager.go", Func: "manager.Manager.Start",
				Msg: ctor + " is called more than once: controllers and handlers would not share one store instance (watch registries are per instance)"})
		}
	}
	pkg := c.P.Pkg("pkg/manager")
	if pkg == nil {
		o.Undecided("pkg/manager", "package not loaded")
		return
	}
	for _, fi := range c.P.FuncsOf(pkg) {
		name := fi.Decl.Name.Name
		switch {
		case strings.HasPrefix(name, "start") && strings.HasSuffix(name, "Controller"):
			// returns x.Start()
			ok := false
			ast.Inspect(fi.Decl.Body, func(n ast.Node) bool {
				if r, isRet := n.(*ast.ReturnStmt); isRet && len(r.Results) == 1 {
					if call, isCall := r.Results[0].(*ast.CallExpr); isCall {
						if sel, isSel := call.Fun.(*ast.SelectorExpr); isSel && sel.Sel.Name == "Start" {
							ok = true
						}
					}
				}
				return true
			})
			o.Eval(1)
			if !ok {
				o.Fail(&engine.Violation{Key: fi.Name() + "|does not return Controller.Start()", Pos: c.P.Pos(fi.Decl.Pos()), Func: fi.Name(),
					Msg: "the start helper does not return the error of Controller.Start(): the controller is built but not started, or a failed start is hidden"})
			}
		case name == "Start":
			// every err = m.startX(...) is followed by if err != nil { return err }
			body := fi.Decl.Body.List
			for i, st := range body {
				as, ok := st.(*ast.AssignStmt)
				if !ok || len(as.Rhs) != 1 {
					continue
				}
				call, ok := as.Rhs[0].(*ast.CallExpr)
				if !ok {
					continue
				}
				sel, ok := call.Fun.(*ast.SelectorExpr)
				if !ok || !strings.HasPrefix(sel.Sel.Name, "start") {
					continue
				}
				o.Eval(1)
				tested := false
				if i+1 < len(body) {
					if ifs, ok := body[i+1].(*ast.IfStmt); ok && types.ExprString(ifs.Cond) == "err != nil" && len(ifs.Body.List) == 1 {
						if r, ok := ifs.Body.List[0].(*ast.ReturnStmt); ok && len(r.Results) == 1 && types.ExprString(r.Results[0]) == "err" {
							tested = true
						}
					}
				}
				if !tested {
					o.Fail(&engine.Violation{Key: "manager.Manager.Start|error of " + sel.Sel.Name + " not returned", Pos: c.P.Pos(as.Pos()), Func: fi.Name(),
						Msg: "the error of " + sel.Sel.Name + " is not tested and returned: the manager reports 'started' without that controller"})
				}
			}
		}
	}
}

// everyOpenPhaseIsServed: C09.9. A record that carries an open phase reaches that phase's function.
func everyOpenPhaseIsServed(c *engine.Ctx) {
	type ph struct{ name, fn string }
	for _, x := range []struct {
		id, pkg, alias, fnPfx string
		aliases               *engine.Aliases
	}{
		{"C09.9/transaction", pkgTransactionCtl, "@T", "controller/v2/transaction.Reconciler.", transactionAliases(c.P)},
		{"C09.9/proposal", pkgProposalCtl, "@P", "controller/v2/proposal.Reconciler.", proposalAliases(c.P)},
	} {
		c.Al = x.aliases
		phases := []ph{{"Apply", "reconcileApply"}, {"Abort", "reconcileAbort"}, {"Commit", "reconcileCommit"}, {"Validate", "reconcileValidate"}, {"Initialize", "reconcileInitialize"}}
		for i, p := range phases {
			when := "err(" + x.alias + ") == nil"
			for j := 0; j < i; j++ {
				when += " && " + x.alias + ".Status.Phases." + phases[j].name + " == nil"
			}
			when += " && " + x.alias + ".Status.Phases." + p.name + " != nil"
			c.Outcome(engine.Outcome{ID: x.id + "/" + p.name, Pkg: x.pkg, Root: "Reconciler.Reconcile", Min: 1, Consistent: true,
				When: when,
				Must: []engine.Sel{{Call: x.fnPfx + p.fn}},
				Why:  "whatever else the record says (its summary state, its age), a record whose " + p.name + " phase is open — and no phase of higher precedence — is handed to " + p.fn + ": an early exit in front of the dispatcher strands it"})
		}
	}
}

// infrastructure watchers: the same frozen-table rule for the controllers that keep connections,
// relations and mastership in step. Patterns are matched after rendering symbols and normalising
// allocation numbers.
var infraWatcherTable = []struct {
	pkg, recv string
	sends     []string // substrings that identify each expected send (all must be present in one send)
	under     [][]string
}{
	{pkgMastershipCtl, "TopoWatcher", []string{
		"controller.NewID(store/v2/configuration.NewID(config/v2.TargetID(⟨{^w.topo}store/topo.Store.Get(recv(^eventCh).Object.Obj.(*topo.Object_Relation).Relation.TgtEntityID)⟩.ID),config/v2.TargetType(&topo.Configurable{}@k.Type),config/v2.TargetVersion(&topo.Configurable{}@k.Version)))",
		"controller.NewID(store/v2/configuration.NewID(config/v2.TargetID(recv(^eventCh).Object.ID),config/v2.TargetType(&topo.Configurable{}@k.Type),config/v2.TargetVersion(&topo.Configurable{}@k.Version)))",
		// every configuration of the relation's target, whatever type/version it was made under (F54)
		"controller.NewID(elem(⟨{^w.configurations}store/v2/configuration.Store.List()⟩).ID)"},
		[][]string{nil, nil, {").TargetID"}}},
	{pkgConnectionCtl, "ConnWatcher", []string{"controller.NewID({recv(^c.connCh)}southbound/gnmi.Conn.ID())"}, nil},
	{pkgConnectionCtl, "TopoWatcher", []string{"controller.NewID(southbound/gnmi.ConnID(recv(^eventCh).Object.ID))"},
		[][]string{{".Relation.KindID == topo.CONTROLS", ".Relation.SrcEntityID"}}},
	{pkgTargetCtl, "ConnWatcher", []string{"controller.NewID({recv(^c.connCh)}southbound/gnmi.Conn.TargetID())"}, nil},
	{pkgTargetCtl, "TopoWatcher", []string{"controller.NewID(recv(^eventCh).Object.ID)"}, nil},
}

var allocRe = regexp.MustCompile(`@\d+`)

func infraWatcherMaps(c *engine.Ctx) {
	o := c.Custom("C09.4b", "K-own(watcher bodies, infrastructure)", "the watchers of the mastership, connection and target controllers send exactly the frozen ids per event (the configuration of the relation's target / of the entity; the connection's id; the relation's id under CONTROLS ∧ own source; the connection's target; the entity)",
		"a connection that appears or disappears must reach the connection controller (relation), the mastership controller (term) and the target controller: a re-targeted or dropped mapping leaves a dead master in place")
	defer o.Done(5)
	for _, w := range infraWatcherTable {
		paths, err := c.A.PathsOpt(w.pkg, engine.PathOpts{NoInline: true})
		if err != nil {
			o.Undecided(w.pkg, err.Error())
			continue
		}
		got := map[string]*engine.Path{}
		gotIdx := map[string]int{}
		for _, p := range paths {
			if p.Lit == nil || !strings.HasSuffix(p.Root.Name(), "."+w.recv+".Start") {
				continue
			}
			for i := range p.Events {
				e := &p.Events[i]
				if e.Kind == engine.EvSend && e.Chan == "^ch" {
					k := allocRe.ReplaceAllString(c.P.Render(e.RHS, nil), "@k")
					got[k] = p
					gotIdx[k] = i
				}
			}
		}
		o.Site(w.pkg + "." + w.recv)
		if w.pkg == pkgMastershipCtl && w.recv == "TopoWatcher" {
			// a relation whose source entity is already gone (a dead instance) still wakes the reconciler (F55)
			o.Eval(1)
			survives := false
			for _, p := range paths {
				if p.Lit == nil || !strings.HasSuffix(p.Root.Name(), "."+w.recv+".Start") {
					continue
				}
				gone := -1
				for i := range p.Events {
					e := &p.Events[i]
					if e.Kind == engine.EvCond && strings.HasPrefix(e.Lit.L, "errors.IsNotFound(") && strings.Contains(c.P.Render(e.Lit.L, nil), ".Relation.SrcEntityID") && e.Lit.R == "true" && e.Lit.Mask == 2 {
						gone = i
					}
					if gone >= 0 && e.Kind == engine.EvSend && e.Chan == "^ch" {
						survives = true
					}
				}
			}
			if !survives {
				o.Fail(&engine.Violation{Key: w.pkg + "." + w.recv + "|a relation whose source is gone is dropped", Pos: w.pkg, Func: w.recv + ".Start",
					Msg: "no path on which the relation's source entity is not found goes on to enqueue the target's configuration: the removal of a dead instance's master relation does not wake the mastership reconciler"})
			}
		}
		matched := map[string]bool{}
		for wi, want := range w.sends {
			o.Eval(1)
			parts := strings.Split(want, "|")
			found := ""
			for g := range got {
				ok := true
				rest := g
				for _, part := range parts {
					idx := strings.Index(rest, part)
					if idx < 0 {
						ok = false
						break
					}
					rest = rest[idx+len(part):]
				}
				if ok && (len(parts) > 1 || g == want) {
					found = g
				}
			}
			if found == "" {
				o.Fail(&engine.Violation{Key: w.pkg + "." + w.recv + "|missing " + parts[0], Pos: w.pkg, Func: w.recv + ".Start",
					Msg: "the watcher no longer maps its event to " + strings.Join(parts, "…")})
				continue
			}
			matched[found] = true
			for ci, conds := range w.under {
				if len(w.under) == len(w.sends) && len(w.sends) > 1 && ci != wi {
					continue // one condition list per send
				}
				p, i := got[found], gotIdx[found]
				for _, need := range conds {
					ok := false
					for _, l := range engine.CondsBefore(p, i) {
						if strings.Contains(l.String(), need) && l.Mask == 2 {
							ok = true
						}
					}
					if !ok {
						o.Fail(&engine.Violation{Key: w.pkg + "." + w.recv + "|send without " + need, Pos: c.P.Pos(p.Events[i].Pos), Func: w.recv + ".Start",
							Msg: "the id is sent without the condition " + need + " == … : relations of other kinds or of other nodes would be reconciled as this node's connections"})
					}
				}
			}
		}
		for g, p := range got {
			o.Eval(1)
			if !matched[g] {
				o.Fail(&engine.Violation{Key: w.pkg + "." + w.recv + "|sends " + g, Pos: c.P.Pos(p.Events[gotIdx[g]].Pos), Func: w.recv + ".Start",
					Msg: "the watcher maps an event to an id that is not in the frozen table: " + g})
			}
		}
	}
}

// abortWaitJustified: C09.11 (seed C09-r41) — the converse of C09.1c. An ABORTING pass that writes nothing
// (it waits, whatever it re-queues) is taken only in states in which the abort really cannot move: its path
// condition is inconsistent with "the committed cursor is at the predecessor" and with "the applied cursor is at
// the predecessor and the committed cursor has passed this proposal" (by this proposal or by a later one).
func abortWaitJustified(c *engine.Ctx) {
	o := c.Custom("C09.11", "K-enum(wait predicate)", "an ABORTING pass of the proposal controller that performs no store write is infeasible for Committed.Index == PrevIndex and for Applied.Index == PrevIndex ∧ Committed.Index ≥ TransactionIndex",
		"re-examining changes nothing only if nothing can be done: a branch that covers '== own index' but not '> own index' strands an abort behind a later commit, and the two proposals re-queue each other for ever")
	defer o.Done(1)
	paths, err := c.A.Paths(pkgProposalCtl)
	if err != nil {
		o.Undecided(pkgProposalCtl, err.Error())
		return
	}
	class, err1 := engine.ParseClause("err(@P) == nil && @P.Status.Phases.Apply == nil && @P.Status.Phases.Abort != nil && @P.Status.Phases.Abort.State == config/v2.ProposalAbortPhase_ABORTING && err(@CFG) == nil", c.Al, c.P)
	var states []engine.Formula
	var names []string
	for _, st := range []string{
		"@CFG.Status.Committed.Index == @PREV",
		"@CFG.Status.Applied.Index == @PREV && @CFG.Status.Committed.Index == @OWN && @CFG.Status.Applied.Index < @OWN",
		"@CFG.Status.Applied.Index == @PREV && @CFG.Status.Committed.Index > @OWN && @CFG.Status.Applied.Index < @OWN",
	} {
		f, e := engine.ParseClause(st, c.Al, c.P)
		if e != nil {
			err1 = e
		}
		states = append(states, f)
		names = append(names, st)
	}
	if err1 != nil {
		o.Undecided("clauses", err1.Error())
		return
	}
	reported := map[string]bool{}
	for _, p := range paths {
		if p.Lit != nil || !strings.HasSuffix(p.Root.Name(), "Reconciler.Reconcile") {
			continue
		}
		last := len(p.Events) - 1
		if p.Events[last].Kind != engine.EvReturn {
			continue
		}
		conds := engine.CondsBefore(p, last)
		if !engine.Entails(conds, class, c.P.Domain) {
			continue
		}
		wrote := false
		for i := range p.Events {
			if e := &p.Events[i]; e.Kind == engine.EvCall && (strings.HasSuffix(e.CalleeName, "Store.UpdateStatus") || strings.HasSuffix(e.CalleeName, "Store.Update")) {
				wrote = true
			}
		}
		if wrote {
			continue
		}
		o.Site(c.P.Pos(p.Events[last].Pos) + " waiting ABORTING pass")
		for k, st := range states {
			o.Eval(1)
			d, ok := engine.DNF(st, false)
			if !ok || len(d) != 1 {
				continue
			}
			if !engine.Unsat(append(append([]engine.Lit{}, conds...), d[0]...), c.P.Domain) && !reported[names[k]] {
				reported[names[k]] = true
				o.Fail(&engine.Violation{Key: "Reconciler.reconcileAbort|wait taken in a state that can move: " + c.Al.Render(names[k]), Pos: c.P.Pos(p.Events[last].Pos), Func: engine.FuncChain(p, last),
					Msg: "an ABORTING pass returns without any store write on a path that is feasible for " + c.Al.Render(names[k]) + ": the abort could move a cursor there but waits, and nothing else will move it", Found: c.RenderConds(conds)})
			}
		}
	}
}
