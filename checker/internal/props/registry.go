// Package props holds the repository-specific obligation tables, one file per property.
package props

import (
	"fmt"
	"sort"

	"occheck/internal/engine"
)

// Prop is a registered property check.
type Prop struct {
	ID          string
	Title       string
	Explanation string   // what is decided
	Declined    []string // what is not
	Assumptions []string
	Packages    []string
	Run         func(c *engine.Ctx, tier string)
	NeedSSA     bool
	Witness     []WitnessTarget // where the thorough tier derives witness mutants
}

// WitnessTarget names functions (by short-name substring; none = all) of a package.
type WitnessTarget struct {
	Pkg   string
	Funcs []string
}

var registry = map[string]*Prop{}

func register(p *Prop) { registry[p.ID] = p }

// Get returns a registered property.
func Get(id string) (*Prop, error) {
	p, ok := registry[id]
	if !ok {
		return nil, fmt.Errorf("no check registered for property %s", id)
	}
	return p, nil
}

// IDs lists the registered property ids.
func IDs() []string {
	var out []string
	for k := range registry {
		out = append(out, k)
	}
	sort.Strings(out)
	return out
}

// Package paths (relative to the module root) that the tables speak about.
const (
	pkgProposalCtl    = "pkg/controller/v2/proposal"
	pkgTransactionCtl = "pkg/controller/v2/transaction"
	pkgConfigCtl      = "pkg/controller/v2/configuration"
	pkgMastershipCtl  = "pkg/controller/v2/mastership"
	pkgConnectionCtl  = "pkg/controller/connection"
	pkgTargetCtl      = "pkg/controller/target"
	pkgCtlUtils       = "pkg/controller/utils"
	pkgNbGnmi         = "pkg/northbound/gnmi/v2"
	pkgNbAdmin        = "pkg/northbound/admin"
	pkgStoreCfgV2     = "pkg/store/v2/configuration"
	pkgStorePropV2    = "pkg/store/v2/proposal"
	pkgStoreTxV2      = "pkg/store/v2/transaction"
	pkgStoreCfgV3     = "pkg/store/v3/configuration"
	pkgStoreTxV3      = "pkg/store/v3/transaction"
	pkgUtils          = "pkg/utils"
	pkgUtilsPath      = "pkg/utils/path"
	pkgTreeV2         = "pkg/utils/v2/tree"
	pkgTreeV3         = "pkg/utils/v3/tree"
	pkgValuesV2       = "pkg/utils/v2/values"
	pkgValuesV3       = "pkg/utils/v3/values"
	pkgRegistry       = "pkg/pluginregistry"
	pkgSbGnmi         = "pkg/southbound/gnmi"
	pkgTxCtlV3        = "pkg/controller/v3/transaction"
	pkgCfgCtlV3       = "pkg/controller/v3/configuration"
	pkgMsCtlV3        = "pkg/controller/v3/mastership"
)

// proposalAliases names the records the v2 proposal reconciler works on.
func proposalAliases(p *engine.Prog) *engine.Aliases {
	return engine.NewAliases(p,
		"P", "call:store/v2/proposal.Store.Get($ID.Value.(config/v2.ProposalID))",
		"CFG", "call:store/v2/configuration.Store.Get(store/v2/configuration.NewID(@P.TargetID,@P.TargetType,@P.TargetVersion))",
		"PREVP", "call:store/v2/proposal.Store.Get(store/v2/proposal.NewID(@CFG.TargetID,@CFG.Status.Proposed.Index))",
		"TGT", "call:store/topo.Store.Get(topo.ID(@P.TargetID))",
		"REL", "call:store/topo.Store.Get(topo.ID(@CFG.Status.Mastership.Master))",
		"CONN", "call:southbound/gnmi.ConnManager.Get(southbound/gnmi.ConnID(@REL.ID))",
		"OWN", "@P.TransactionIndex",
		"PREV", "@P.Status.PrevIndex",
		"CHG", "@P.Details.(*config/v2.Proposal_Change)",
		"RBK", "@P.Details.(*config/v2.Proposal_Rollback)",
		"RBP", "call:store/v2/proposal.Store.Get(store/v2/proposal.NewID(@P.TargetID,@RBK.Rollback.RollbackIndex))",
		"PLUGIN", "call:pluginregistry.PluginRegistry.GetPlugin(@P.TargetType,@P.TargetVersion)",
	)
}

// transactionAliases names the records the v2 transaction reconciler works on.
func transactionAliases(p *engine.Prog) *engine.Aliases {
	return engine.NewAliases(p,
		"T", "call:store/v2/transaction.Store.GetByIndex($ID.Value.(config/v2.Index))",
		"PREVT", "call:store/v2/transaction.Store.GetByIndex((@T.Index - 1))",
		"PE", "call:store/v2/proposal.Store.Get(elem(@T.Status.Proposals))",
		"PREVTS", "call:store/v2/transaction.Store.GetByIndex(@PE.Status.PrevIndex)",
		"TCHG", "@T.Details.(*config/v2.Transaction_Change)",
		"TRBK", "@T.Details.(*config/v2.Transaction_Rollback)",
		"RBT", "call:store/v2/transaction.Store.GetByIndex(@TRBK.Rollback.RollbackIndex)",
		"RBTCHG", "@RBT.Details.(*config/v2.Transaction_Change)",
		"EXP", "call:store/v2/proposal.Store.Get(store/v2/proposal.NewID(key(@TCHG.Change.Values),@T.Index))",
		"EXPR", "call:store/v2/proposal.Store.Get(store/v2/proposal.NewID(key(@RBTCHG.Change.Values),@T.Index))",
	)
}
