package props

import (
	"fmt"
	"go/ast"
	"go/token"
	"go/types"
	"regexp"
	"sort"
	"strings"

	"occheck/internal/engine"
)

var pipelinePkgs = []string{pkgCtlUtils, pkgProposalCtl, pkgTxCtlV3, pkgTreeV2, pkgTreeV3, pkgStoreCfgV2, pkgStoreCfgV3, pkgNbGnmi, pkgUtilsPath, pkgNbAdmin}

const subtreeHelper = "utils/path.IsDescendantPath"

func init() {
	register(&Prop{
		ID:    "C03",
		Title: "Stored configuration is the gNMI-sequential effect of acknowledged Sets",
		Explanation: "The equality with a sequential reference model is a history property and is declined. Decided: (1) the subtree relation is element-boundary aware: in the configuration pipeline a prefix test between two path-typed strings goes through the designated helper (whose body is checked to test the character after the prefix against '/' and '[') or has a separator appended to its second operand; " +
			"(2) the Get filter: the non-exact expression built from the request path ends in a boundary alternative (or the query itself ends in '/'); (3) order independence: inside a range over a map in the change pipeline, a write or delete on a collection that outlives the iteration is keyed by the iteration's own key or by the Path of its own value; " +
			"(4) tombstones are not readable: Get appends a value only under 'path matches ∧ not Deleted', and BuildTree iterates the values pruned without tombstones; (5) the persisting decision table of the configuration store (entry exists? survives pruning? index differs?) → Insert / Remove / Update / nothing, with every other store error leaving the function and one Commit after the loop over all values." +
			" Also: delete, replace, update are visited in that order by the Set handler (C03.17); the v2 store synchronises its value maps with the pruned values (C03.5a)." +
			" Also: C03.18.",
		Declined: []string{"leaf-by-leaf equality with a reference model over histories", "wildcard semantics beyond the boundary clause", "JSON rendering (C18)"},
		Run:      runC03,
		Witness: []WitnessTarget{{pkgCtlUtils, []string{"AddDeleteChildren"}}, {pkgTreeV2, []string{"PrunePath"}}, {pkgUtilsPath, []string{"IsDescendantPath"}}, {pkgUtils, []string{"MatchWildcardRegexp"}},
			{pkgStoreCfgV2, []string{"configurationStore.store"}}, {pkgNbGnmi, []string{"getUpdate"}}},
	})
}

func runC03(c *engine.Ctx, tier string) {
	pathRelation(c, "C03.1a", pipelinePkgs)
	subtreeHelperShape(c, "C03.1b")
	getFilterBoundary(c, "C03.2")
	mapOrder(c, "C03.3", []string{pkgCtlUtils, pkgProposalCtl, pkgTxCtlV3, pkgStoreCfgV2, pkgStoreCfgV3, pkgTreeV2, pkgTreeV3})
	tombstones(c)
	operationOrder(c)
	// "a delete removes precisely the addressed node": the recorded path is the named path (seed C03-r51; the same clause is C13.17)
	deleteLandsOnNamedPathAs(c, "C03.18")
	persistTableSync(c, "C03.5a", pkgStoreCfgV2)
	persistTable(c, "C03.5b", pkgStoreCfgV3)
	removalsPersisted(c)
	ancestorSearch(c)
	mergeAgreement(c)
	cascadeShape(c, "C03.10a", pkgCtlUtils, "controller/utils.AddDeleteChildren")
	cascadeShape(c, "C03.10b", pkgTxCtlV3, "controller/v3/transaction.addDeleteChildren")
	populateRouting(c, "C03.12a", pkgStoreCfgV2)
	populateRouting(c, "C03.12b", pkgStoreCfgV3)
	queryNormalised(c)
	pruneShape(c, "C03.11a", pkgTreeV2)
	pruneShape(c, "C03.11b", pkgTreeV3)
	// (9) an acknowledged Set's values are in the stored configuration: the commit step skips the merge
	// when the committed cursor is not at the predecessor, which is sound only because validation waited
	// for the predecessor's commit (the cursor is then at the predecessor or already at this proposal)
	c.Al = proposalAliases(c.P)
	c.Guard(engine.Guard{ID: "C03.9a", Pkg: pkgProposalCtl, Min: 1,
		Sel:     engine.Sel{Field: "config/v2.ProposalValidatePhase.State", RHS: "config/v2.ProposalValidatePhase_VALIDATED"},
		Require: "!(@PREV != 0 && @CFG.Status.Committed.Index != @PREV)",
		Why:     "a proposal leaves validation only on top of its predecessor's committed result: otherwise its commit step finds the cursor elsewhere, skips the merge and still reports COMMITTED — an acknowledged Set whose values were never stored"})
	c.Guard(engine.Guard{ID: "C03.9b", Pkg: pkgProposalCtl, Min: 1,
		Sel:     engine.Sel{Call: stCfgUpdate},
		Require: "@CFG.Status.Committed.Index == @PREV && #wrote(" + fCommittedIdx + "=@OWN)",
		Why:     "values are merged exactly once, on the predecessor's result, and the same write moves the cursor"})
	// a value stays readable "until it is rolled back": what a rollback writes back must differ, for the store, from what the change wrote
	captureLoopAs(c, "C03.13")
	// "nothing else changes": the proposal built for one target of a Set holds that target's values only
	var all []string
	for _, pkg := range c.P.Pkgs {
		if rel := strings.TrimPrefix(pkg.PkgPath, engine.ModulePath+"/"); strings.HasPrefix(rel, "pkg/") {
			all = append(all, rel)
		}
	}
	sort.Strings(all)
	perIterationFresh(c, "C03.15", all, 20)
	// the ancestor walk of the tombstone search and of the cascade goes through GetParentPath
	parentCut(c, "C03.16")
}

var pathNameRe = regexp.MustCompile(`(?i)path|prefix`)

// isPathTyped decides whether a string expression denotes a configuration path.
func isPathTyped(info *types.Info, e ast.Expr) (strong bool, weak bool) {
	e = ast.Unparen(e)
	t := info.TypeOf(e)
	if t == nil {
		return
	}
	if b, ok := t.Underlying().(*types.Basic); !ok || b.Info()&types.IsString == 0 {
		return
	}
	switch x := e.(type) {
	case *ast.SelectorExpr:
		if x.Sel.Name == "Path" {
			if rt := info.TypeOf(x.X); rt != nil && strings.HasSuffix(strings.TrimPrefix(rt.String(), "*"), ".PathValue") {
				return true, true
			}
		}
		return false, pathNameRe.MatchString(x.Sel.Name)
	case *ast.Ident:
		return false, pathNameRe.MatchString(x.Name)
	case *ast.CallExpr:
		if f := types.ExprString(x.Fun); strings.HasSuffix(f, "StrPath") {
			return true, true
		}
	case *ast.BinaryExpr:
		if x.Op == token.ADD {
			s, w := isPathTyped(info, x.X)
			return s, w
		}
	}
	return
}

// endsWithSeparator: e is x + "/" (or a constant ending in a separator).
func endsWithSeparator(info *types.Info, e ast.Expr) bool {
	e = ast.Unparen(e)
	if b, ok := e.(*ast.BinaryExpr); ok && b.Op == token.ADD {
		if tv, ok := info.Types[b.Y]; ok && tv.Value != nil {
			s := strings.Trim(tv.Value.ExactString(), `"`)
			return strings.HasSuffix(s, "/") || strings.HasSuffix(s, "[")
		}
	}
	return false
}

// pathRelation: C03.1a / C18.1.
func pathRelation(c *engine.Ctx, id string, pkgs []string) { pathRelationMin(c, id, pkgs, 3) }

func pathRelationMin(c *engine.Ctx, id string, pkgs []string, min int) {
	o := c.Custom(id, "pathrel", "a prefix test between two path-typed strings goes through "+subtreeHelper+" or appends a separator to its second operand",
		"'lies beneath' decided on raw text also hits siblings whose names share a textual prefix with a deleted or requested node")
	defer o.Done(min)
	in := map[string]bool{}
	for _, p := range pkgs {
		in[p] = true
	}
	for _, cs := range c.P.CallSites() {
		if !in[cs.Pkg] {
			continue
		}
		if cs.Callee == subtreeHelper {
			o.Site(cs.Pos + " " + cs.Func + " uses " + subtreeHelper)
			o.Eval(1)
			continue
		}
		if cs.Callee != "strings.HasPrefix" || len(cs.Call.Args) != 2 {
			continue
		}
		s0, w0 := isPathTyped(cs.Info, cs.Call.Args[0])
		s1, w1 := isPathTyped(cs.Info, cs.Call.Args[1])
		if !((s0 || s1) && (w0 && w1)) && !(w0 && w1) {
			continue
		}
		o.Site(cs.Pos + " " + cs.Func + " strings.HasPrefix(" + types.ExprString(cs.Call.Args[0]) + ", " + types.ExprString(cs.Call.Args[1]) + ")")
		o.Eval(1)
		switch {
		case cs.Func == subtreeHelper:
			// the helper itself: its shape is checked by C03.1b
		case endsWithSeparator(cs.Info, cs.Call.Args[1]):
		default:
			o.Fail(&engine.Violation{Key: cs.Func + "|raw prefix test on paths", Pos: cs.Pos, Func: cs.Func,
				Msg: "strings.HasPrefix(" + types.ExprString(cs.Call.Args[0]) + ", " + types.ExprString(cs.Call.Args[1]) + ") decides a subtree relation on raw text: /a/b also covers /a/bc"})
		}
	}
}

// subtreeHelperShape: the designated helper tests the character after the prefix.
func subtreeHelperShape(c *engine.Ctx, id string) {
	o := c.Custom(id, "pathrel(helper shape)", subtreeHelper+"(path, ancestor): true only if HasPrefix(path, ancestor) ∧ len(path) > len(ancestor) ∧ path[len(ancestor)] ∈ {'/', '['}",
		"the boundary test is what distinguishes a descendant from a textual sibling")
	defer o.Done(1)
	paths, err := c.A.PathsOpt(pkgUtilsPath, engine.PathOpts{Roots: []string{"path.IsDescendantPath"}, NoInline: true})
	if err != nil || len(paths) == 0 {
		o.Undecided(subtreeHelper, "anchor not found: designated subtree helper missing")
		return
	}
	o.Site(subtreeHelper)
	grants := 0
	for _, p := range paths {
		last := &p.Events[len(p.Events)-1]
		if last.Kind != engine.EvReturn || len(last.Results) != 1 || last.Results[0] == "false" {
			continue
		}
		o.Eval(1)
		grants++
		var hasPrefix, longer bool
		for _, l := range engine.CondsBefore(p, len(p.Events)-1) {
			if l.L == "strings.HasPrefix($path,$ancestor)" && l.R == "true" && l.Mask == 2 {
				hasPrefix = true
			}
			if (l.L == "len($ancestor)" && l.R == "len($path)" && l.Mask == 1) || (l.L == "len($path)" && l.R == "len($ancestor)" && l.Mask == 4) {
				longer = true
			}
		}
		r := last.Results[0]
		has := func(ch string, code string) bool {
			return strings.Contains(r, "$path[len($ancestor)] == '"+ch+"'") || strings.Contains(r, "$path[len($ancestor)] == "+code)
		}
		boundary := r == "true" || (has("/", "47") && has("[", "91") && !strings.Contains(r, "&&"))
		if r == "true" {
			// must then be guarded by boundary comparisons in the conditions
			b1 := false
			for _, l := range engine.CondsBefore(p, len(p.Events)-1) {
				if l.L == "$path[len($ancestor)]" && (l.R == "47" || l.R == "91" || l.R == "'/'" || l.R == "'['") && l.Mask == 2 {
					b1 = true
				}
			}
			boundary = b1
		}
		if !hasPrefix || !longer || !boundary {
			o.Fail(&engine.Violation{Key: subtreeHelper + "|shape", Pos: c.P.Pos(last.Pos), Func: subtreeHelper,
				Msg: "the subtree helper can answer true without prefix ∧ strictly longer ∧ boundary character ('/' or '[') after the prefix: returns " + r, Found: c.RenderConds(engine.CondsBefore(p, len(p.Events)-1))})
			return
		}
	}
	if grants == 0 {
		o.Undecided(subtreeHelper+"|grants", "no path of the helper returns a non-false value")
	}
}

// getFilterBoundary: C03.2.
func getFilterBoundary(c *engine.Ctx, id string) {
	o := c.Custom(id, "pathrel(regexp)", "MatchWildcardRegexp: exact → ^%s$; non-exact → the expression ends in a group that has '$' as an alternative (node itself or something beneath it), or the query ends in '/'",
		"a Get for /a/b must not return /a/bc")
	defer o.Done(2)
	// the expression may be built by a helper shared between the panicking and the error-returning
	// compile functions: helpers of the package are inlined, the result is judged at the exported roots
	paths, err := c.A.PathsOpt(pkgUtils, engine.PathOpts{Roots: []string{"utils.MatchWildcardRegexp", "utils.CompileWildcardRegexp"}, Exact: true})
	if err != nil {
		o.Undecided("MatchWildcardRegexp", err.Error())
		return
	}
	boundaryRe := regexp.MustCompile(`^"\^%s\(([^()]*\|)*\$(\|[^()]*)*\)"$`)
	// a wrapper that only compiles what a helper of the package builds from the same two arguments is
	// replaced by that helper's paths
	wrapRe := regexp.MustCompile(`^regexp\.(?:Must)?Compile\((utils\.\w+)\(\$query,\$exact\)\)$`)
	helpers := map[string]bool{}
	var direct []*engine.Path
	for _, p := range paths {
		last := &p.Events[len(p.Events)-1]
		if last.Kind == engine.EvReturn && len(last.Results) >= 1 {
			if m := wrapRe.FindStringSubmatch(last.Results[0]); m != nil {
				helpers[m[1]] = true
				o.Site(c.P.Pos(last.Pos) + " " + last.Results[0])
				continue
			}
		}
		direct = append(direct, p)
	}
	for h := range helpers {
		hp, err := c.A.PathsOpt(pkgUtils, engine.PathOpts{Roots: []string{h}, Exact: true, NoInline: true})
		if err != nil || len(hp) == 0 {
			o.Undecided(h, fmt.Sprintf("no paths: %v", err))
			continue
		}
		direct = append(direct, hp...)
	}
	for _, p := range direct {
		last := &p.Events[len(p.Events)-1]
		if last.Kind != engine.EvReturn || len(last.Results) < 1 || len(last.Results) > 2 {
			continue
		}
		r := last.Results[0]
		if strings.HasPrefix(r, "fmt.Sprintf(") && helpers[p.Root.Name()] {
			r = "regexp.Compile(" + r + ")"
		}
		o.Site(c.P.Pos(last.Pos) + " " + r)
		o.Eval(1)
		i := strings.Index(r, "fmt.Sprintf(")
		if !(strings.HasPrefix(r, "regexp.MustCompile(fmt.Sprintf(") || strings.HasPrefix(r, "regexp.Compile(fmt.Sprintf(")) || i < 0 {
			o.Fail(&engine.Violation{Key: "MatchWildcardRegexp|shape", Pos: c.P.Pos(last.Pos), Func: p.Root.Name(), Msg: "unexpected result shape " + r})
			continue
		}
		rest := r[i+len("fmt.Sprintf("):]
		format := rest
		// the format literal ends at the first top-level comma
		depth, inStr := 0, false
		for k := 0; k < len(rest); k++ {
			ch := rest[k]
			if inStr {
				if ch == '\\' {
					k++
				} else if ch == '"' || ch == '`' {
					inStr = false
				}
				continue
			}
			if ch == '"' || ch == '`' {
				inStr = true
			} else if ch == '(' {
				depth++
			} else if ch == ')' {
				depth--
			} else if ch == ',' && depth == 0 {
				format = rest[:k]
				break
			}
		}
		format = strings.ReplaceAll(format, "`", `"`)
		format = strings.ReplaceAll(format, `\\[`, `\[`)
		exact, slash := false, false
		exactKnown, slashKnown := false, false
		for _, l := range engine.CondsBefore(p, len(p.Events)-1) {
			if l.L == "$exact" && l.R == "true" {
				exactKnown = true
				if l.Mask == 2 {
					exact = true
				}
			}
			if l.L == `strings.HasSuffix($query,"/")` && l.R == "true" {
				slashKnown = true
				if l.Mask == 2 {
					slash = true
				}
			}
		}
		if !exactKnown {
			o.Fail(&engine.Violation{Key: "MatchWildcardRegexp|exact flag not consulted", Pos: c.P.Pos(last.Pos), Func: p.Root.Name(),
				Msg: "an expression is returned on a path that never tests the exact flag: an exact query would be answered with the subtree form (or the reverse)"})
			continue
		}
		if !exact && !slash && !slashKnown && boundaryRe.MatchString(format) {
			o.Fail(&engine.Violation{Key: "MatchWildcardRegexp|boundary group appended without testing for a trailing '/'", Pos: c.P.Pos(last.Pos), Func: p.Root.Name(),
				Msg: "the boundary group is appended to the raw query on a path that does not exclude a query ending in '/': ^/a/(/|[|$) matches nothing beneath /a/ (a prefix-only Get of the root returns nothing)"})
			continue
		}
		ok := false
		switch {
		case exact:
			ok = format == `"^%s$"`
		case slash:
			ok = format == `"^%s"` || boundaryRe.MatchString(format)
		default:
			ok = boundaryRe.MatchString(format)
		}
		if !ok {
			o.Fail(&engine.Violation{Key: "MatchWildcardRegexp|non-exact form without boundary", Pos: c.P.Pos(last.Pos), Func: p.Root.Name(),
				Msg: "the expression " + format + " has no element boundary after the requested path: stored paths that merely share the textual prefix are returned as well"})
		}
	}
}

// mapOrder: C03.3.
func mapOrder(c *engine.Ctx, id string, pkgs []string) {
	o := c.Custom(id, "maporder", "inside a range over a map, a write/delete on a map that outlives the iteration is keyed by the iteration's own key or by the Path of its own value (callees that receive the map are followed one level)",
		"Go randomises map iteration: a write keyed by anything else makes the merged configuration depend on the order in which a request's operations happen to be visited")
	defer o.Done(4)
	for _, rel := range pkgs {
		pkg := c.P.Pkg(rel)
		if pkg == nil {
			continue
		}
		info := pkg.TypesInfo
		for _, fi := range c.P.FuncsOf(pkg) {
			ast.Inspect(fi.Decl.Body, func(n ast.Node) bool {
				rs, ok := n.(*ast.RangeStmt)
				if !ok {
					return true
				}
				if t := info.TypeOf(rs.X); t == nil {
					return true
				} else if _, isMap := t.Underlying().(*types.Map); !isMap {
					return true
				}
				o.Site("")
				keyObj, valObj := identObj(info, rs.Key), identObj(info, rs.Value)
				own := func(k ast.Expr, subst map[types.Object]ast.Expr) bool {
					k = ast.Unparen(k)
					if id, ok := k.(*ast.Ident); ok {
						obj := info.Uses[id]
						if e, ok := subst[obj]; ok {
							return isOwnKey(info, e, keyObj, valObj)
						}
					}
					if sel, ok := k.(*ast.SelectorExpr); ok && sel.Sel.Name == "Path" {
						if id, ok := sel.X.(*ast.Ident); ok {
							if e, ok := subst[info.Uses[id]]; ok {
								if eid, ok := ast.Unparen(e).(*ast.Ident); ok && info.Uses[eid] == valObj && valObj != nil {
									return true
								}
							}
						}
					}
					return isOwnKey(info, k, keyObj, valObj)
				}
				outlives := func(x ast.Expr) bool {
					x = ast.Unparen(x)
					root := x
					for {
						switch y := root.(type) {
						case *ast.SelectorExpr:
							root = y.X
							continue
						case *ast.IndexExpr:
							root = y.X
							continue
						}
						break
					}
					id, ok := root.(*ast.Ident)
					if !ok {
						return false
					}
					obj := info.Uses[id]
					if obj == nil {
						return false
					}
					if t := info.TypeOf(x); t == nil {
						return false
					} else if _, isMap := t.Underlying().(*types.Map); !isMap {
						return false
					}
					return obj.Pos() < rs.Body.Pos() || obj.Pos() > rs.Body.End()
				}
				check := func(body ast.Node, subst map[types.Object]ast.Expr, isOuter func(ast.Expr) bool, via string) {
					ast.Inspect(body, func(m ast.Node) bool {
						switch y := m.(type) {
						case *ast.FuncLit:
							return false
						case *ast.AssignStmt:
							for _, l := range y.Lhs {
								if ix, ok := ast.Unparen(l).(*ast.IndexExpr); ok && isOuter(ix.X) {
									o.Eval(1)
									if !own(ix.Index, subst) {
										o.Fail(&engine.Violation{Key: c.P.KeyOwner(fi) + "|range over a map|write of an outliving map at another key" + via,
											Pos: c.P.Pos(y.Pos()), Func: fi.Name(),
											Msg: "inside the range over the map " + types.ExprString(rs.X) + " the collection " + types.ExprString(ix.X) + " is written at key " + types.ExprString(ix.Index) + via + ", which is not the iteration's own key: the result depends on map iteration order"})
									}
								}
							}
						case *ast.CallExpr:
							if id, ok := y.Fun.(*ast.Ident); ok && id.Name == "delete" && len(y.Args) == 2 && isOuter(y.Args[0]) {
								o.Eval(1)
								if !own(y.Args[1], subst) {
									o.Fail(&engine.Violation{Key: c.P.KeyOwner(fi) + "|range over a map|delete of another entry of an outliving map" + via,
										Pos: c.P.Pos(y.Pos()), Func: fi.Name(),
										Msg: "inside the range over the map " + types.ExprString(rs.X) + " an entry of " + types.ExprString(y.Args[0]) + " other than the iteration's own (" + types.ExprString(y.Args[1]) + ")" + via + " is deleted: the result depends on map iteration order"})
								}
							}
						}
						return true
					})
				}
				check(rs.Body, nil, outlives, "")
				// one level into same-package callees that receive an outliving map
				ast.Inspect(rs.Body, func(m ast.Node) bool {
					call, ok := m.(*ast.CallExpr)
					if !ok {
						return true
					}
					var fid *ast.Ident
					switch f := call.Fun.(type) {
					case *ast.Ident:
						fid = f
					case *ast.SelectorExpr:
						fid = f.Sel
					}
					if fid == nil {
						return true
					}
					fn, _ := info.Uses[fid].(*types.Func)
					target := c.P.Funcs[fn]
					if target == nil || target.Pkg != pkg {
						return true
					}
					subst := map[types.Object]ast.Expr{}
					mapParams := map[types.Object]bool{}
					i := 0
					for _, f := range target.Decl.Type.Params.List {
						for _, nm := range f.Names {
							if i < len(call.Args) {
								po := target.Pkg.TypesInfo.Defs[nm]
								subst[po] = call.Args[i]
								if outlives(call.Args[i]) {
									mapParams[po] = true
								}
							}
							i++
						}
					}
					if len(mapParams) == 0 {
						return true
					}
					isParamMap := func(x ast.Expr) bool {
						id, ok := ast.Unparen(x).(*ast.Ident)
						return ok && mapParams[target.Pkg.TypesInfo.Uses[id]]
					}
					via := " (in " + target.Name() + ")"
					if engine.IsNewHelper(target) {
						via = "" // an extracted block is still part of this function: same construct, same key
					}
					check(target.Decl.Body, subst, isParamMap, via)
					return true
				})
				return true
			})
		}
	}
}

func identObj(info *types.Info, e ast.Expr) types.Object {
	id, ok := e.(*ast.Ident)
	if !ok || id.Name == "_" {
		return nil
	}
	if o := info.Defs[id]; o != nil {
		return o
	}
	return info.Uses[id]
}

func isOwnKey(info *types.Info, k ast.Expr, keyObj, valObj types.Object) bool {
	k = ast.Unparen(k)
	switch x := k.(type) {
	case *ast.Ident:
		return keyObj != nil && info.Uses[x] == keyObj
	case *ast.SelectorExpr:
		if x.Sel.Name == "Path" || x.Sel.Name == "ID" || x.Sel.Name == "Index" {
			if id, ok := x.X.(*ast.Ident); ok {
				return valObj != nil && info.Uses[id] == valObj
			}
		}
	case *ast.CallExpr:
		// conversions of the own key: string(k), T(k)
		if len(x.Args) == 1 {
			if tv, ok := info.Types[x.Fun]; ok && tv.IsType() {
				return isOwnKey(info, x.Args[0], keyObj, valObj)
			}
		}
	}
	return false
}

// tombstones: C03.4.
func tombstones(c *engine.Ctx) {
	o := c.Custom("C03.4", "K-guard(custom)", "getUpdate appends a value to the result only under 'regexp matches its Path ∧ ¬Deleted'; BuildTree iterates PrunePathValues(values, false)",
		"a deleted value, or a value beneath a tombstone, is never readable")
	defer o.Done(2)
	paths, err := c.A.PathsOpt(pkgNbGnmi, engine.PathOpts{Roots: []string{".Server.getUpdate"}, NoInline: true})
	if err != nil {
		o.Undecided("getUpdate", err.Error())
	} else {
		n := 0
		for _, s := range engine.FindSites(paths, func(p *engine.Path, i int) bool {
			e := &p.Events[i]
			return e.Kind == engine.EvWrite && e.Local != nil && e.Local.Name() != "" && strings.HasPrefix(e.RHS, "append(") && strings.Contains(e.RHS, "elem(") && strings.Contains(engine.FuncChain(p, i), "getUpdate") &&
				strings.Contains(p.Events[i].Loops, "L") && isFilterAppend(p, i)
		}) {
			n++
			e := s.Ev()
			o.Site(c.P.Pos(e.Pos) + " " + c.A.DescribeEvent(e))
			for _, ref := range s.Refs {
				o.Eval(1)
				match, live := false, false
				for _, l := range engine.CondsBefore(ref.Path, ref.Idx) {
					if strings.HasSuffix(l.L, ".Path)") && strings.Contains(l.L, "regexp.Regexp.MatchString(") && l.R == "true" && l.Mask == 2 {
						match = true
					}
					if strings.HasSuffix(l.L, ".Deleted") && l.R == "true" && l.Mask == 5 {
						live = true
					}
				}
				if !match || !live {
					o.Fail(&engine.Violation{Key: "getUpdate|filter", Pos: c.P.Pos(e.Pos), Func: ref.Path.Root.Name(), Msg: "a value is returned by Get without 'path matches ∧ not Deleted'", Found: c.RenderConds(engine.CondsBefore(ref.Path, ref.Idx))})
					break
				}
			}
		}
		if n == 0 {
			o.Undecided("getUpdate|filter", "anchor not found: the filtering append of getUpdate")
		}
	}
	for _, rel := range []string{pkgTreeV2, pkgTreeV3} {
		tp, err := c.A.PathsOpt(rel, engine.PathOpts{Roots: []string{"tree.BuildTree"}, NoInline: true})
		if err != nil {
			o.Undecided(rel, err.Error())
			continue
		}
		ok := false
		for _, p := range tp {
			for i := range p.Events {
				if e := &p.Events[i]; e.Kind == engine.EvLoopEnter && strings.HasSuffix(e.Range, "tree.PrunePathValues($values,false)") {
					ok = true
				}
			}
		}
		o.Eval(1)
		if ok {
			o.Site(rel + ".BuildTree ranges over PrunePathValues(values, false)")
		} else {
			o.Fail(&engine.Violation{Key: rel + ".BuildTree|prune", Pos: rel, Func: "BuildTree", Msg: "BuildTree does not iterate the values pruned without tombstones"})
		}
	}
}

func isFilterAppend(p *engine.Path, i int) bool {
	e := &p.Events[i]
	return strings.Contains(e.RHS, "filteredValues") || strings.HasPrefix(e.RHS, "append(?filtered") || strings.HasPrefix(e.RHS, "append(make([]*config/v2.PathValue,0)")
}

// persistTable: C03.5.
func persistTable(c *engine.Ctx, id, rel string) {
	o := c.Custom(id, "K-enum(persist table)", "store(): (entry missing, survives pruning) → Insert; (missing, pruned) → nothing; (exists, pruned) → Remove; (exists, survives, index differs) → Update; (exists, survives, same index) → nothing; other Get errors leave; one Commit after the loop",
		"what is persisted is exactly the pruned value set; a repeated merge is idempotent")
	defer o.Done(1)
	paths, err := c.A.PathsOpt(rel, engine.PathOpts{Roots: []string{".configurationStore.store"}, NoInline: true})
	if err != nil {
		o.Undecided(rel, err.Error())
		return
	}
	seen := map[string]bool{}
	for _, p := range paths {
		for i := range p.Events {
			le := &p.Events[i]
			if le.Kind != engine.EvLoopEnter || le.Range != "$values" {
				continue
			}
			var get string
			exit, ret := -1, false
			var missing, exists, otherErr, keep, pruned, differs, same bool
			effect := ""
			for j := i + 1; j < len(p.Events); j++ {
				ej := &p.Events[j]
				if ej.Kind == engine.EvLoopExit && ej.Node == le.Node {
					exit = j
					break
				}
				if ej.Kind == engine.EvReturn {
					ret = true
				}
				if ej.Kind == engine.EvCall && strings.HasSuffix(ej.CalleeName, "map.Map.Get") {
					get = ej.Canon
				}
				if ej.Kind == engine.EvCall && strings.HasPrefix(ej.CalleeName, "map.Transaction.") {
					effect += ej.CalleeName[strings.LastIndex(ej.CalleeName, ".")+1:]
				}
				if ej.Kind != engine.EvCond {
					continue
				}
				l := ej.Lit
				switch {
				case get != "" && l.L == "err("+get+")" && l.RNil:
					exists = exists || l.Mask == 2
				case strings.HasPrefix(l.L, "errors.IsNotFound(") && l.R == "true":
					missing = missing || l.Mask == 2
					otherErr = otherErr || l.Mask == 5
				case strings.HasPrefix(l.L, "has(") && strings.Contains(l.L, "PrunePathMap($values,true)[") && l.R == "true":
					keep = keep || l.Mask == 2
					pruned = pruned || l.Mask == 5
				case strings.HasSuffix(l.L, ".Index") && strings.HasSuffix(l.R, ".Index") || strings.Contains(l.L, ".Index") && strings.Contains(l.R, ".Index"):
					differs = differs || l.Mask == 5
					same = same || l.Mask == 2
				}
			}
			if exit == i+1 {
				continue
			}
			if exit < 0 && !ret {
				continue
			}
			o.Eval(1)
			want := "?"
			switch {
			case otherErr:
				want = "leave"
			case missing && keep:
				want = "Insert"
			case missing && pruned:
				want = ""
			case exists && pruned:
				want = "Remove"
			case exists && keep && differs:
				want = "Update"
			case exists && keep && same:
				want = ""
			}
			got := effect
			if exit < 0 {
				got = "leave"
			}
			cell := want
			if want == "" {
				cell = "nothing"
			}
			seen[cell] = true
			if want == "?" || got != want {
				o.Fail(&engine.Violation{Key: rel + ".store|decision table", Pos: c.P.Pos(le.Pos), Func: p.Root.Name(),
					Msg: "persisting decision: for (missing=" + b2s(missing) + ", exists=" + b2s(exists) + ", survives pruning=" + b2s(keep) + ", pruned=" + b2s(pruned) + ", index differs=" + b2s(differs) + ") the effect is '" + got + "' where '" + want + "' is required"})
				return
			}
			// one commit after the loop
			if exit > 0 {
				commits := 0
				for j := exit; j < len(p.Events); j++ {
					if ej := &p.Events[j]; ej.Kind == engine.EvCall && strings.HasSuffix(ej.CalleeName, "map.Transaction.Commit") {
						commits++
					}
				}
				if commits != 1 {
					o.Fail(&engine.Violation{Key: rel + ".store|commit", Pos: c.P.Pos(le.Pos), Func: p.Root.Name(), Msg: "the map transaction is not committed exactly once after the loop"})
					return
				}
			}
		}
	}
	for _, cell := range []string{"Insert", "Remove", "Update", "nothing", "leave"} {
		if !seen[cell] {
			o.Undecided(rel+".store|cell "+cell, "anchor not found: no path of store() shows the '"+cell+"' cell of the decision table")
		}
	}
	o.Site(rel + ".store: all five cells observed")
}

func b2s(b bool) string {
	if b {
		return "y"
	}
	return "n"
}

// removalsPersisted: C03.6. The controllers express "this entry is gone" by deleting it from the
// configuration's value map before Store.Update; the store must then be able to see removals, i.e.
// enumerate what is persisted, not only what the map holds.
func removalsPersisted(c *engine.Ctx) {
	o := c.Custom("C03.6", "agreement(writer/persister)", "every delete() on a configuration value map that reaches Store.Update is matched by a store() that enumerates the persisted entries (else the removal is not persisted)",
		"a tombstone removed from the map only comes back with the next read and prunes the value re-created beneath it")
	defer o.Done(1)
	for _, pair := range [][2]string{{pkgProposalCtl, pkgStoreCfgV2}, {pkgTxCtlV3, pkgStoreCfgV3}} {
		ctl, st := c.P.Pkg(pair[0]), c.P.Pkg(pair[1])
		if ctl == nil || st == nil {
			o.Undecided(pair[0], "package not loaded")
			continue
		}
		// does store() enumerate the primitive?
		enumerates, found := false, false
		for _, fi := range c.P.FuncsOf(st) {
			if !strings.HasSuffix(fi.Name(), ".store") { // resolved name: a renamed helper keeps its row (engine.detectRenames)
				continue
			}
			found = true
			ast.Inspect(fi.Decl.Body, func(n ast.Node) bool {
				call, ok := n.(*ast.CallExpr)
				if !ok {
					return true
				}
				if sel, ok := call.Fun.(*ast.SelectorExpr); ok && (sel.Sel.Name == "List" || sel.Sel.Name == "Entries" || sel.Sel.Name == "Keys") {
					if t := st.TypesInfo.TypeOf(sel.X); t != nil && strings.Contains(t.String(), "atomix") {
						enumerates = true
					}
				}
				return true
			})
		}
		if !found {
			o.Undecided(pair[1], "store() not found")
			continue
		}
		info := ctl.TypesInfo
		isValueMap := func(e ast.Expr) bool {
			t := info.TypeOf(e)
			if t == nil {
				return false
			}
			m, ok := t.Underlying().(*types.Map)
			return ok && strings.HasSuffix(strings.TrimPrefix(m.Elem().String(), "*"), ".PathValue")
		}
		isPersistedExpr := func(e ast.Expr) bool {
			sel, ok := ast.Unparen(e).(*ast.SelectorExpr)
			if !ok || sel.Sel.Name != "Values" {
				return false
			}
			t := info.TypeOf(sel.X)
			if t == nil {
				return false
			}
			s := t.String()
			return strings.HasSuffix(s, ".Configuration") || strings.HasSuffix(s, ".CommittedConfiguration") || strings.HasSuffix(s, ".AppliedConfiguration") || strings.HasSuffix(s, ".AppliedConfigurationStatus")
		}
		for _, fi := range c.P.FuncsOf(ctl) {
			ast.Inspect(fi.Decl.Body, func(n ast.Node) bool {
				call, ok := n.(*ast.CallExpr)
				if !ok || len(call.Args) != 2 {
					return true
				}
				id, ok := call.Fun.(*ast.Ident)
				if !ok || id.Name != "delete" || !isValueMap(call.Args[0]) {
					return true
				}
				if _, isBuiltin := info.Uses[id].(*types.Builtin); !isBuiltin {
					return true
				}
				persisted := isPersistedExpr(call.Args[0])
				// a parameter: look at what the callers in this package pass
				if pid, ok := ast.Unparen(call.Args[0]).(*ast.Ident); ok && !persisted {
					pobj := info.Uses[pid]
					idx := -1
					if fi.Decl.Type.Params != nil {
						k := 0
						for _, f := range fi.Decl.Type.Params.List {
							for _, nm := range f.Names {
								if info.Defs[nm] == pobj {
									idx = k
								}
								k++
							}
						}
					}
					if idx >= 0 {
						for _, cs := range c.P.CallSites() {
							if cs.Pkg == pair[0] && calleeFunc(cs) == fi.Obj && idx < len(cs.Call.Args) && isPersistedExpr(cs.Call.Args[idx]) {
								persisted = true
							}
						}
					}
				}
				if !persisted {
					return true
				}
				o.Site(c.P.Pos(call.Pos()) + " " + types.ExprString(call) + " in " + fi.Name())
				o.Eval(1)
				if !enumerates {
					o.Fail(&engine.Violation{Key: fi.Name() + "|delete on a persisted value map; " + pair[1] + " store() sees only keys present in the map", Pos: c.P.Pos(call.Pos()), Func: fi.Name(),
						Msg: "the entry is deleted from the configuration's value map, but store() in " + pair[1] + " ranges over the map only and never enumerates the persisted entries: the removal is not persisted and the entry returns with the next read"})
				}
				return true
			})
		}
	}
}

// ancestorSearch: C03.7. Whoever looks for a deleted ancestor of a path must use the subtree relation.
func ancestorSearch(c *engine.Ctx) {
	o := c.Custom("C03.7", "pathrel(ancestor search)", "a function that removes or captures the tombstone of an ancestor finds the ancestor with "+subtreeHelper+", not by walking GetParentPath (which never yields the key-less list path /l from /l[k=1]/v)",
		"after a whole list was deleted, a new entry must clear the list's tombstone, or the store prunes the entry at once")
	defer o.Done(2)
	for _, rel := range []string{pkgProposalCtl, pkgTxCtlV3} {
		pkg := c.P.Pkg(rel)
		if pkg == nil {
			o.Undecided(rel, "package not loaded")
			continue
		}
		for _, fi := range c.P.FuncsOf(pkg) {
			usesParentWalk, usesRelation, deletes := false, false, false
			var pos ast.Node
			ast.Inspect(fi.Decl.Body, func(n ast.Node) bool {
				call, ok := n.(*ast.CallExpr)
				if !ok {
					return true
				}
				switch f := call.Fun.(type) {
				case *ast.SelectorExpr:
					if fn, ok := pkg.TypesInfo.Uses[f.Sel].(*types.Func); ok && fn.Pkg() != nil && strings.HasSuffix(fn.Pkg().Path(), "pkg/utils/path") {
						switch fn.Name() {
						case "GetParentPath":
							usesParentWalk = true
							if pos == nil {
								pos = call
							}
						case "IsDescendantPath":
							usesRelation = true
						}
					}
				case *ast.Ident:
					if _, isBuiltin := pkg.TypesInfo.Uses[f].(*types.Builtin); isBuiltin && f.Name == "delete" {
						deletes = true
					}
				}
				return true
			})
			if !deletes || (!usesParentWalk && !usesRelation) {
				continue
			}
			o.Site(c.P.Pos(fi.Decl.Pos()) + " " + fi.Name())
			o.Eval(1)
			if usesParentWalk && !usesRelation {
				o.Fail(&engine.Violation{Key: fi.Name() + "|ancestor tombstone searched by GetParentPath chain", Pos: c.P.Pos(pos.Pos()), Func: fi.Name(),
					Msg: "the deleted ancestor is searched by walking GetParentPath, whose chain from /l[k=1]/v is /l[k=1] then the root: the tombstone of a deleted list (/l) is never found, and the new entry is pruned by the store"})
			}
		}
	}
}

// mergeAgreement: C03.8. What is validated and what is persisted must be merged the same way.
func mergeAgreement(c *engine.Ctx) {
	o := c.Custom("C03.8", "agreement(validated/persisted merge)", "a function that merges a change into a copy of the values with applyChangeToConfig (clearing ancestor tombstones) merges it into the persisted map the same way, not by a bare indexed write",
		"the validated tree has the re-created value, the persisted map still has the ancestor's tombstone above it, and the store prunes the value")
	defer o.Done(2)
	for _, rel := range []string{pkgProposalCtl, pkgTxCtlV3} {
		pkg := c.P.Pkg(rel)
		if pkg == nil {
			o.Undecided(rel, "package not loaded")
			continue
		}
		info := pkg.TypesInfo
		persisted := func(e ast.Expr) bool {
			sel, ok := ast.Unparen(e).(*ast.SelectorExpr)
			if !ok || sel.Sel.Name != "Values" {
				return false
			}
			t := info.TypeOf(sel.X)
			return t != nil && (strings.HasSuffix(t.String(), ".Configuration") || strings.HasSuffix(t.String(), ".CommittedConfiguration"))
		}
		for _, fi := range c.P.FuncsOf(pkg) {
			usesHelperOnCopy := false
			var bare []ast.Node
			ast.Inspect(fi.Decl.Body, func(n ast.Node) bool {
				switch x := n.(type) {
				case *ast.CallExpr:
					if id, ok := x.Fun.(*ast.Ident); ok && id.Name == "applyChangeToConfig" && len(x.Args) > 0 && !persisted(x.Args[0]) {
						usesHelperOnCopy = true
					}
				case *ast.AssignStmt:
					for _, l := range x.Lhs {
						if ix, ok := l.(*ast.IndexExpr); ok && persisted(ix.X) {
							bare = append(bare, x)
						}
					}
				}
				return true
			})
			if !usesHelperOnCopy {
				continue
			}
			o.Site(c.P.Pos(fi.Decl.Pos()) + " " + fi.Name())
			o.Eval(1)
			for _, b := range bare {
				o.Fail(&engine.Violation{Key: fi.Name() + "|persisted merge bypasses applyChangeToConfig", Pos: c.P.Pos(b.Pos()), Func: fi.Name(),
					Msg: "the change is merged into the validated copy with applyChangeToConfig but into the persisted value map by a bare indexed write: an ancestor's tombstone stays above the new value and the store prunes it"})
			}
		}
	}
}

// cascadeShape: C03.10. The cascade of a delete over the stored values.
func cascadeShape(c *engine.Ctx, id, rel, fn string) {
	o := c.Custom(id, "K-facts(cascade)", fn+": (1) every change value is put into the result under its own path; (2) for a deleted change value, every stored value for which IsDescendantPath(stored.Path, change.Path) holds is put into the result under its own path with Deleted = true and Index = the transaction's index; (3) nothing else is tombstoned or taken from the stored values; (4) the result map is what is returned",
		"a delete of a container or list removes what lies beneath it, and only that; the tombstones carry the deleting transaction's index so that the store persists them")
	defer o.Done(5)
	ps, err := c.A.PathsOpt(rel, engine.PathOpts{Roots: []string{fn}, NoInline: true})
	if err != nil || len(ps) == 0 {
		o.Undecided(rel, fmt.Sprintf("no paths for %s: %v", fn, err))
		return
	}
	fi := ps[0].Root
	var names []string
	for _, f := range fi.Decl.Type.Params.List {
		for _, n := range f.Names {
			names = append(names, n.Name)
		}
	}
	if len(names) != 3 {
		o.Undecided(fn, "signature changed")
		return
	}
	idx, chg, cfg := "$"+names[0], "elem($"+names[1]+")", "elem($"+names[2]+")"
	delLit := chg + ".Deleted"
	descLit := "utils/path.IsDescendantPath(" + cfg + ".Path," + chg + ".Path)"
	holds := func(p *engine.Path, i int, l string) bool {
		for _, x := range engine.CondsBefore(p, i) {
			if x.L == l && x.R == "true" && x.Mask == 2 {
				return true
			}
		}
		return false
	}
	fail := func(p *engine.Path, pos token.Pos, msg string) {
		o.Fail(&engine.Violation{Key: fi.Name() + "|" + msg, Pos: c.P.Pos(pos), Func: fi.Name(), Msg: msg})
	}
	for _, p := range ps {
		o.Eval(1)
		var ret *engine.Event
		entered, chgPut, cfgPut, tomb, index := false, false, false, false, false
		var result string
		sawDel, sawDesc := false, false
		for i := range p.Events {
			e := &p.Events[i]
			switch e.Kind {
			case engine.EvCond:
				if e.Lit.L == delLit {
					entered = true // the body of the loop over the change starts with this test
				}
				if e.Lit.L == delLit && e.Lit.R == "true" && e.Lit.Mask == 2 {
					sawDel = true
				}
				if e.Lit.L == descLit && e.Lit.R == "true" && e.Lit.Mask == 2 {
					sawDesc = true
				}
			case engine.EvReturn:
				ret = e
			case engine.EvWrite:
				guarded := holds(p, i, delLit) && holds(p, i, descLit)
				switch {
				case strings.HasSuffix(e.LHS, "["+chg+".Path]") && e.RHS == chg:
					chgPut = true
					result = stripVerC03(e.LHS[:strings.LastIndex(e.LHS, "[")])
					o.Site(c.P.Pos(e.Pos) + " result[change.Path] = change")
				case strings.HasSuffix(e.LHS, "["+cfg+".Path]") && e.RHS == cfg:
					cfgPut = true
					o.Site(c.P.Pos(e.Pos) + " result[stored.Path] = stored")
					if !guarded {
						fail(p, e.Pos, "a stored value is taken into the change without 'change deleted ∧ stored beneath change'")
					}
				case strings.HasSuffix(e.Field, ".PathValue.Deleted") && strings.Contains(e.LHS, cfg):
					o.Site(c.P.Pos(e.Pos) + " stored.Deleted = true")
					if e.RHS == "true" {
						tomb = true
					}
					if !guarded || e.RHS != "true" {
						fail(p, e.Pos, "a stored value's Deleted flag is written without 'change deleted ∧ stored beneath change', or not to true")
					}
				case strings.HasSuffix(e.Field, ".PathValue.Index") && strings.Contains(e.LHS, cfg):
					o.Site(c.P.Pos(e.Pos) + " stored.Index = index")
					if e.RHS == idx {
						index = true
					} else {
						fail(p, e.Pos, "a cascaded tombstone gets an index other than the transaction's")
					}
				case strings.Contains(e.LHS, "["+cfg+".Path]") || strings.Contains(e.LHS, "["+chg+".Path]"):
					fail(p, e.Pos, "the result is written with something other than the value itself: "+e.LHS+" = "+e.RHS)
				}
			}
		}
		end := token.NoPos
		if ret != nil {
			end = ret.Pos
		}
		if entered && !chgPut {
			fail(p, end, "a path through the loop over the change does not put the change value into the result")
		}
		if sawDel && sawDesc && !(cfgPut && tomb && index) {
			fail(p, end, "a stored value beneath a deleted change value is not put into the result with Deleted = true and Index = index")
		}
		if ret != nil && result != "" && (len(ret.Results) != 1 || stripVerC03(ret.Results[0]) != result) {
			fail(p, end, "the function does not return the map it filled")
		}
	}
}

func stripVerC03(s string) string {
	if i := strings.LastIndex(s, "#"); i >= 0 && !strings.ContainsAny(s[i:], ".[(") {
		return s[:i]
	}
	return s
}

// pruneShape: C03.11. What PrunePathValues keeps.
func pruneShape(c *engine.Ctx, id, rel string) {
	fn := strings.TrimPrefix(rel, "pkg/") + ".PrunePathValues"
	o := c.Custom(id, "K-facts(prune)", fn+": the input is copied before it is sorted; the comparator is Path < Path; in one iteration over the sorted values — a value beneath a recorded deleted subtree is neither kept nor recorded; a deleted value not beneath one is recorded and kept iff leaveTopDeletedPaths; any other value is kept; the kept list is returned",
		"the store persists, Get renders and the device receives exactly what pruning keeps: a tombstone must hide what lies beneath it and nothing else")
	defer o.Done(4)
	ps, err := c.A.PathsOpt(rel, engine.PathOpts{Roots: []string{fn}, Exact: true, NoInline: true})
	if err != nil || len(ps) == 0 {
		o.Undecided(rel, fmt.Sprintf("no paths for %s: %v", fn, err))
		return
	}
	fail := func(p *engine.Path, pos token.Pos, msg string) {
		o.Fail(&engine.Violation{Key: fn + "|" + msg, Pos: c.P.Pos(pos), Func: fn, Msg: msg})
	}
	for _, p := range ps {
		if p.Lit != nil {
			// the comparator
			for i := range p.Events {
				if e := &p.Events[i]; e.Kind == engine.EvReturn && len(e.Results) == 1 {
					o.Site(c.P.Pos(e.Pos) + " comparator " + e.Results[0])
					o.Eval(1)
					if !regexp.MustCompile(`^\(?\^sortedPaths\[\$i\]\.Path < \^sortedPaths\[\$j\]\.Path\)?$`).MatchString(e.Results[0]) {
						fail(p, e.Pos, "the sort comparator is "+e.Results[0]+", not Path < Path: an ancestor no longer sorts before what lies beneath it")
					}
				}
			}
			continue
		}
		o.Eval(1)
		var sorted string
		copied, sortedCall := false, false
		desc, del, delKnown, leave, leaveKnown := false, false, false, false, false
		keep, record := false, false
		body := false
		hasBreak := false
		var ret *engine.Event
		for i := range p.Events {
			e := &p.Events[i]
			switch e.Kind {
			case engine.EvBranch:
				if e.Tok == token.BREAK {
					hasBreak = true
				}
			case engine.EvCall:
				switch {
				case e.CalleeName == "copy" && len(e.Args) == 2 && e.Args[1] == "$paths":
					copied = true
					sorted = e.Args[0]
				case e.CalleeName == "sort.Slice" && len(e.Args) == 2:
					sortedCall = e.Args[0] == sorted && sorted != ""
					if !sortedCall {
						fail(p, e.Pos, "sort.Slice is applied to "+e.Args[0]+", not to the copy of the input")
					}
				case e.CalleeName == "append" && len(e.Args) == 2 && sorted != "" && e.Args[1] == "elem("+sorted+")":
					keep = true
					o.Site(c.P.Pos(e.Pos) + " keep")
				case e.CalleeName == "append" && len(e.Args) == 2 && sorted != "" && e.Args[1] == "elem("+sorted+").Path":
					record = true
					o.Site(c.P.Pos(e.Pos) + " record deleted subtree")
				case e.CalleeName == "append":
					fail(p, e.Pos, "append("+strings.Join(e.Args, ", ")+") is neither 'keep the value' nor 'record its path'")
				}
			case engine.EvCond:
				l := e.Lit
				switch {
				case sorted != "" && strings.HasPrefix(l.L, subtreeHelper+"(elem("+sorted+").Path,") && l.R == "true":
					body = true
					if l.Mask == 2 {
						desc = true
					}
				case sorted != "" && l.L == "elem("+sorted+").Deleted" && l.R == "true":
					body, delKnown, del = true, true, l.Mask == 2
				case l.L == "$leaveTopDeletedPaths" && l.R == "true":
					leaveKnown, leave = true, l.Mask == 2
				}
			case engine.EvReturn:
				ret = e
			}
		}
		end := token.NoPos
		if ret != nil {
			end = ret.Pos
		}
		if !copied || !sortedCall {
			fail(p, end, "the input slice is not copied before sorting (the caller's order would be changed)")
		}
		if !body {
			continue
		}
		if !desc && !delKnown {
			fail(p, end, "a value is kept or recorded on a path that never tests its Deleted flag")
		}
		if hasBreak {
			fail(p, end, "the loop over the sorted values is left early (break): the values that sort after this one are lost")
		}
		switch {
		case desc:
			if keep || record {
				fail(p, end, "a value beneath a recorded deleted subtree is kept or recorded")
			}
		case delKnown && del:
			if !record {
				fail(p, end, "a deleted value is not recorded as a deleted subtree: what lies beneath it is kept")
			}
			if leaveKnown && keep != leave {
				fail(p, end, "the top tombstone is kept exactly when leaveTopDeletedPaths is false")
			}
			if !leaveKnown {
				fail(p, end, "a tombstone is kept or dropped without consulting leaveTopDeletedPaths")
			}
		case delKnown && !del:
			if !keep || record {
				fail(p, end, "a live value that is not beneath a deleted subtree is not kept (or is recorded as deleted)")
			}
		}
		if ret != nil && (len(ret.Results) != 1 || !strings.HasPrefix(ret.Results[0], "?prunedPaths")) {
			fail(p, end, "the function returns "+strings.Join(ret.Results, ",")+", not the kept list")
		}
	}
}

// populateRouting: C03.12. What is read from each primitive goes into the map it belongs to.
func populateRouting(c *engine.Ctx, id, rel string) {
	o := c.Custom(id, "K-dataflow(populate)", "populate(): an entry taken from the stream listed from getCommitted is stored under its own key in the committed value map only, an entry from getApplied's stream in the applied value map only",
		"Get reads the committed values: an applied entry stored there shows the caller what the device last accepted instead of what was set")
	defer o.Done(2)
	ps, err := c.A.PathsOpt(rel, engine.PathOpts{Roots: []string{"configurationStore.populate"}, NoInline: true})
	if err != nil || len(ps) == 0 {
		o.Undecided(rel, fmt.Sprintf("no paths for populate: %v", err))
		return
	}
	reported := map[string]bool{}
	for _, p := range ps {
		// symbol of a Next() result -> which primitive its stream was listed from
		origin := map[string]string{}
		lists := map[string]string{} // stream canon -> committed/applied
		for i := range p.Events {
			e := &p.Events[i]
			if e.Kind != engine.EvCall {
				continue
			}
			switch {
			case strings.HasSuffix(e.CalleeName, "Map.List"):
				r := c.P.Render(e.Recv, nil)
				switch {
				case strings.Contains(r, "getCommitted("):
					lists[e.Canon] = "committed"
				case strings.Contains(r, "getApplied("):
					lists[e.Canon] = "applied"
				}
			case strings.HasSuffix(e.CalleeName, "EntryStream.Next"):
				for s, k := range lists {
					if e.Recv == s {
						origin[e.Canon] = k
					}
				}
			}
		}
		for i := range p.Events {
			e := &p.Events[i]
			if e.Kind != engine.EvWrite || !strings.HasSuffix(e.Field, "Values[]") {
				continue
			}
			var want string
			switch {
			case strings.HasSuffix(e.Field, "AppliedConfigurationStatus.Values[]") || strings.HasSuffix(e.Field, "AppliedConfiguration.Values[]"):
				want = "applied"
			case strings.HasSuffix(e.Field, "Configuration.Values[]") || strings.HasSuffix(e.Field, "CommittedConfiguration.Values[]"):
				want = "committed"
			default:
				continue
			}
			o.Site(c.P.Pos(e.Pos) + " " + e.Field)
			o.Eval(1)
			src := strings.TrimSuffix(strings.TrimPrefix(e.RHS, "*"), ".Value")
			got := origin[src]
			keyOK := strings.HasSuffix(e.LHS, "["+src+".Key]")
			if (got != want || !keyOK) && !reported[c.P.Pos(e.Pos)] {
				reported[c.P.Pos(e.Pos)] = true
				o.Fail(&engine.Violation{Key: rel + ".populate|" + want + " map filled from the " + got + " primitive", Pos: c.P.Pos(e.Pos), Func: p.Root.Name(),
					Msg: "the " + want + " value map is written with an entry read from the '" + got + "' primitive (or not under the entry's own key): " + c.Render(e.LHS) + " = " + c.Render(e.RHS)})
			}
		}
	}
}

// queryNormalised: C03.14. The text given to the Get filter does not end in a separator.
func queryNormalised(c *engine.Ctx) {
	o := c.Custom("C03.14", "K-dataflow(query)", "Server.processRequest: the pathAsString of every path of the request is strings.TrimSuffix(…, \"/\")",
		"MatchWildcardRegexp gives a query that ends in '/' no element boundary (C03.2): a prefix plus an empty path would otherwise ask for '/node/' and miss /node[k=1]/… and the leaf /node itself")
	defer o.Done(1)
	for _, w := range c.P.FieldWrites() {
		if w.Field != "northbound/gnmi/v2.pathInfo.pathAsString" || w.Func != "northbound/gnmi/v2.Server.processRequest" || w.Test {
			continue
		}
		o.Eval(1)
		if w.RHS == "prefixPath" {
			continue // the prefix-only form: the prefix's own path
		}
		o.Site(w.Pos + " pathAsString: " + w.RHS)
		ok := false
		// the variable assigned must have been trimmed: look for the assignment in the function
		for _, fi := range c.P.FuncsOf(c.P.Pkg(pkgNbGnmi)) {
			if fi.Name() != w.Func {
				continue
			}
			ast.Inspect(fi.Decl.Body, func(n ast.Node) bool {
				as, isAs := n.(*ast.AssignStmt)
				if !isAs || len(as.Lhs) != 1 || len(as.Rhs) != 1 {
					return true
				}
				if types.ExprString(as.Lhs[0]) == w.RHS && strings.HasPrefix(types.ExprString(as.Rhs[0]), "strings.TrimSuffix("+w.RHS+", \"/\")") {
					ok = true
				}
				return true
			})
		}
		if strings.HasPrefix(w.RHS, "strings.TrimSuffix(") {
			ok = true
		}
		if !ok {
			o.Fail(&engine.Violation{Key: w.Func + "|query not trimmed", Pos: w.Pos, Func: w.Func, Msg: "the query text " + w.RHS + " is stored without strings.TrimSuffix(…, \"/\")"})
		}
	}
}

// persistTableSync: the persist table of a store() that makes the primitive EQUAL to the pruned values it is
// given (v2 since the repair of F25): the snapshot of the primitive is every entry of its List stream, keyed by
// the entry's key; (stored, not among the pruned values) → Remove IfVersion; (among the pruned values, not
// stored) → Insert; (both, Index or Deleted differs) → Update IfVersion; (both, same) → nothing; one Commit.
func persistTableSync(c *engine.Ctx, id, rel string) {
	o := c.Custom(id, "K-enum(persist table)", "store(): pruned := PrunePathMap(values, true) by path; snapshot := every entry of List by key; (stored, not pruned) → Remove; (pruned, not stored) → Insert; (both, Index or Deleted differs) → Update; (both, same) → nothing; one Commit after the loops",
		"what is persisted is exactly the pruned value set — a tombstone that was lifted leaves the primitive, too; a repeated merge is idempotent")
	defer o.Done(1)
	paths, err := c.A.PathsOpt(rel, engine.PathOpts{Roots: []string{".configurationStore.store"}, NoInline: true})
	if err != nil {
		o.Undecided(rel, err.Error())
		return
	}
	seen := map[string]bool{}
	fail := func(p *engine.Path, pos token.Pos, key, msg string) {
		o.Fail(&engine.Violation{Key: rel + ".store|" + key, Pos: c.P.Pos(pos), Func: p.Root.Name(), Msg: msg})
	}
	// the two maps (their allocation names are the same on every path)
	allocBase := func(lhs string) string {
		k := strings.Index(lhs, ")@")
		if k < 0 {
			return ""
		}
		j := k + 2
		for j < len(lhs) && lhs[j] >= '0' && lhs[j] <= '9' {
			j++
		}
		return lhs[:j]
	}
	pruned, snapshot := "", ""
	for _, p := range paths {
		valuesP := "$values"
		if fd := p.Root.Decl; fd != nil && fd.Type.Params != nil {
			if l := fd.Type.Params.List; len(l) > 0 && len(l[len(l)-1].Names) > 0 {
				valuesP = "$" + l[len(l)-1].Names[len(l[len(l)-1].Names)-1].Name
			}
		}
		for i := range p.Events {
			e := &p.Events[i]
			if e.Kind != engine.EvWrite {
				continue
			}
			base := allocBase(e.LHS)
			if base == "" {
				continue
			}
			switch {
			case strings.HasPrefix(base, "make(map[string]*config/") && strings.Contains(e.RHS, "tree.PrunePathMap("+valuesP+",true)") && strings.HasPrefix(e.RHS, "elem(") && e.LHS == base+"["+e.RHS+".Path]":
				pruned = base
			case strings.HasPrefix(base, "make(map[string]*map.Entry[") && strings.HasPrefix(e.RHS, "§") && e.LHS == base+"["+e.RHS+".Key]":
				for j := 0; j < i; j++ {
					if x := &p.Events[j]; x.Kind == engine.EvCall && strings.HasSuffix(x.CalleeName, "EntryStream.Next") && x.Canon == e.RHS {
						snapshot = base
					}
				}
			}
		}
	}
	if pruned == "" || snapshot == "" {
		o.Undecided(rel+".store|maps", "anchor not found: store() does not build the pruned values by path from PrunePathMap(values, true) and a snapshot of every List entry by key")
		return
	}
	for _, p := range paths {
		for i := range p.Events {
			le := &p.Events[i]
			if le.Kind != engine.EvLoopEnter {
				continue
			}
			overSnapshot := snapshot != "" && strings.HasPrefix(le.Range, snapshot)
			overPruned := pruned != "" && strings.HasPrefix(le.Range, pruned)
			if !overSnapshot && !overPruned {
				continue
			}
			other := pruned
			if overPruned {
				other = snapshot
			}
			exit := -1
			var has, hasNot, idxDiff, idxSame, delDiff, delSame bool
			effect, effKey, effVer := "", "", ""
			for j := i + 1; j < len(p.Events); j++ {
				ej := &p.Events[j]
				if ej.Kind == engine.EvLoopExit && ej.Node == le.Node {
					exit = j
					break
				}
				if ej.Kind == engine.EvCall && strings.HasPrefix(ej.CalleeName, "map.Transaction.") {
					effect += ej.CalleeName[strings.LastIndex(ej.CalleeName, ".")+1:]
					if len(ej.Args) > 0 {
						effKey = ej.Args[0]
					}
					if len(ej.Args) > 0 {
						effVer = ej.Args[len(ej.Args)-1]
					}
				}
				if ej.Kind != engine.EvCond {
					continue
				}
				l := ej.Lit
				switch {
				case strings.HasPrefix(l.L, "has("+other+"[key("+le.Range+")]") || strings.HasPrefix(l.L, "ok("+other+"[key("+le.Range+")]"):
					has = has || l.Mask == 2
					hasNot = hasNot || l.Mask == 5
				case strings.Contains(l.L, ".Index") && strings.Contains(l.R, ".Index"):
					idxDiff = idxDiff || l.Mask == 5
					idxSame = idxSame || l.Mask == 2
				case strings.Contains(l.L, ".Deleted") && strings.Contains(l.R, ".Deleted"):
					delDiff = delDiff || l.Mask == 5
					delSame = delSame || l.Mask == 2
				}
			}
			if exit < 0 || exit == i+1 {
				continue
			}
			o.Eval(1)
			want := "?"
			switch {
			case overSnapshot && hasNot:
				want = "Remove"
			case overSnapshot && has:
				want = ""
			case overPruned && hasNot:
				want = "Insert"
			case overPruned && has && (idxDiff || delDiff):
				want = "Update"
			case overPruned && has && idxSame && delSame:
				want = ""
			}
			cell := want
			if want == "" {
				cell = "nothing"
				if overSnapshot {
					cell = "keep"
				}
			}
			seen[cell] = true
			if want == "?" || effect != want {
				fail(p, le.Pos, "decision table", fmt.Sprintf("persisting decision: in the loop over %s, for (in the other map=%v/%v, index differs=%v same=%v, tombstone flag differs=%v same=%v) the effect is '%s' where '%s' is required",
					map[bool]string{true: "the stored entries", false: "the pruned values"}[overSnapshot], has, hasNot, idxDiff, idxSame, delDiff, delSame, effect, want))
				return
			}
			if effect != "" && effKey != "key("+le.Range+")" {
				fail(p, le.Pos, "effect key", "the "+effect+" is not made under the iteration's own key: "+effKey)
				return
			}
			if (effect == "Remove" || effect == "Update") && !strings.Contains(effVer, "map.IfVersion(") {
				fail(p, le.Pos, "unconditional "+effect, "the "+effect+" of a stored entry is not conditional on the version of the snapshot")
				return
			}
			// one commit after the loops
			commits := 0
			for j := exit; j < len(p.Events); j++ {
				if ej := &p.Events[j]; ej.Kind == engine.EvCall && strings.HasSuffix(ej.CalleeName, "map.Transaction.Commit") {
					commits++
				}
			}
			last := &p.Events[len(p.Events)-1]
			if commits != 1 && last.Kind == engine.EvReturn {
				fail(p, le.Pos, "commit", "the map transaction is not committed exactly once after the loops")
				return
			}
		}
	}
	for _, cell := range []string{"Remove", "keep", "Insert", "Update", "nothing"} {
		if !seen[cell] {
			o.Undecided(rel+".store|cell "+cell, "anchor not found: no path of store() shows the '"+cell+"' cell of the decision table (pruned := PrunePathMap(values, true) by path, snapshot := entries of List by key)")
		}
	}
	o.Site(rel + ".store: all five cells observed")
}

// operationOrder: C03.17 (seed C03-r41). gNMI processes the operations of one SetRequest as deletes, then
// replaces, then updates: what is written later wins in the per-target maps the handler fills, so the handler
// has to visit the three lists in that order (an update of a path that the same request also replaces wins).
func operationOrder(c *engine.Ctx) {
	o := c.Custom("C03.17", "K-order(operations)", "Server.Set visits req.GetDelete() before req.GetReplace() before req.GetUpdate() (separate loops in that order, or one loop over a slice that concatenates them in that order)",
		"the stored configuration is the gNMI-sequential effect of the request: delete, replace, update")
	defer o.Done(1)
	sp, err := setPaths(c)
	if err != nil {
		o.Undecided("Server.Set", err.Error())
		return
	}
	rank := func(rng string) []int {
		// the operation lists a range expression mentions, in textual (= concatenation) order
		type hit struct{ at, k int }
		var hs []hit
		for k, name := range []string{"gnmi.SetRequest.GetDelete()", "gnmi.SetRequest.GetReplace()", "gnmi.SetRequest.GetUpdate()"} {
			for from := 0; ; {
				j := strings.Index(rng[from:], name)
				if j < 0 {
					break
				}
				hs = append(hs, hit{from + j, k})
				from += j + len(name)
			}
		}
		sort.Slice(hs, func(i, j int) bool { return hs[i].at < hs[j].at })
		var out []int
		for _, h := range hs {
			out = append(out, h.k)
		}
		return out
	}
	seenAll := false
	for _, p := range sp {
		if p.Lit != nil {
			continue
		}
		var order []int
		var pos token.Pos
		for i := range p.Events {
			e := &p.Events[i]
			if e.Kind == engine.EvLoopEnter && e.Stack == "" {
				if r := rank(e.Range); len(r) > 0 {
					order = append(order, r...)
					pos = e.Pos
				}
			}
		}
		if len(order) == 0 {
			continue
		}
		o.Eval(1)
		seen := map[int]bool{}
		for i, k := range order {
			seen[k] = true
			if i > 0 && order[i-1] > k {
				names := []string{"delete", "replace", "update"}
				o.Fail(&engine.Violation{Key: "Server.Set|operation order", Pos: c.P.Pos(pos), Func: p.Root.Name(),
					Msg: "the handler visits the " + names[order[i-1]] + " operations before the " + names[k] + " operations: gNMI applies delete, replace, update in that order, so what the later kind writes must win"})
				return
			}
		}
		if seen[0] && seen[1] && seen[2] {
			seenAll = true
		}
	}
	if seenAll {
		o.Site("Server.Set: delete, replace, update visited in that order")
	}
}
