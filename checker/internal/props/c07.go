package props

import (
	"go/types"
	"strings"

	"occheck/internal/engine"
)

var v2Mutators = []string{stPropCreate, stPropUpdStat, stCfgUpdate, stCfgUpdStat, stCfgCreate, stTxUpdStat,
	"store/v2/proposal.Store.Update", "store/v2/transaction.Store.Update", "store/v2/transaction.Store.Create", sbSet}

func init() {
	register(&Prop{
		ID:    "C07",
		Title: "A crash between any two store writes loses nothing and repeats nothing",
		Explanation: "Reconcilers keep no state, so crash safety is re-entrancy of every step. Decided: (1) the non-idempotent effects (plugin validation + capture, merge, device Set) are reachable only under the cursor guards that make a repeated step a no-op (shared with C02), and a proposal whose applied cursor already covers it is marked APPLIED without sending; " +
			"(2) within a step the record that makes the step re-entrant is written first and its error leaves the function: configuration before proposal status for commit, apply, failed apply and abort; " +
			"(3) after a status write the pass ends (one status write per pass), so a crash never separates two dependent status writes; (4) AlreadyExists after Create is tolerated, any other store error is returned; " +
			"(5) Reconciler types have only interface-typed fields and no method assigns one; (6) every controller watcher subscribes with replay, so all records are re-examined at start-up.",
		Declined: []string{"equivalence of final outcomes with and without a crash (a history property)", "behaviour of the Atomix primitives"},
		Run:      runC07,
		Witness:  []WitnessTarget{{pkgProposalCtl, nil}, {pkgTransactionCtl, nil}},
	})
}

func runC07(c *engine.Ctx, tier string) {
	c.Al = proposalAliases(c.P)
	// (1) re-entrancy guards
	c.Guard(engine.Guard{ID: "C07.1a", Pkg: pkgProposalCtl, Min: 1, Sel: engine.Sel{Call: stCfgUpdate},
		Require: "@CFG.Status.Committed.Index == @PREV",
		Why:     "a merge repeated after a crash is skipped: the committed cursor has already moved past the predecessor"})
	c.Guard(engine.Guard{ID: "C07.1b", Pkg: pkgProposalCtl, Min: 1, Sel: engine.Sel{Call: sbSet},
		Require: "!(@CFG.Status.Applied.Index >= @OWN)",
		Why:     "a device Set repeated after a crash is skipped once the applied cursor covers the proposal"})
	c.Guard(engine.Guard{ID: "C07.1c", Pkg: pkgProposalCtl, Min: 2,
		Sel:     engine.Sel{Field: "config/v2.ProposalApplyPhase.State", RHS: "config/v2.ProposalApplyPhase_APPLIED"},
		Require: "@CFG.Status.Applied.Index >= @OWN || (#ok(" + sbSet + ") && #wrote(" + fAppliedIdx + "=@OWN) && #ok(" + stCfgUpdStat + "))",
		Why:     "APPLIED is recorded either because the applied cursor already covers the proposal (resume after crash) or after the Set succeeded and the cursor was persisted"})
	// re-creation of proposals after a crash: a proposal that already exists is collected, not skipped
	saved := c.Al
	c.Al = transactionAliases(c.P)
	onePerTarget(c, "C07.1d", "@TCHG.Change.Values")
	onePerTarget(c, "C07.1e", "@RBTCHG.Change.Values")
	c.Al = saved
	// (2) write order
	c.Guard(engine.Guard{ID: "C07.2a", Pkg: pkgProposalCtl, Min: 1,
		Sel:     engine.Sel{Field: "config/v2.ProposalCommitPhase.State", RHS: "config/v2.ProposalCommitPhase_COMMITTED"},
		Require: "#ok(" + stCfgUpdate + ") || !(@CFG.Status.Committed.Index == @PREV)",
		Why:     "COMMITTED is recorded only after the merge was persisted (or was already persisted before a crash)"})
	c.Guard(engine.Guard{ID: "C07.2b", Pkg: pkgProposalCtl, Min: 2,
		Sel:     engine.Sel{Field: "config/v2.ProposalAbortPhase.State", RHS: "config/v2.ProposalAbortPhase_ABORTED"},
		Require: "#ok(" + stCfgUpdStat + ") || (@CFG.Status.Committed.Index >= @OWN && @CFG.Status.Applied.Index >= @OWN)",
		Why:     "ABORTED is recorded only after the cursors were persisted past the proposal (in this pass, or — the resume test — in an earlier one)"})
	c.Guard(engine.Guard{ID: "C07.2c", Pkg: pkgProposalCtl, Min: 2,
		Sel:     engine.Sel{Field: "config/v2.ProposalApplyPhase.State", RHS: "config/v2.ProposalApplyPhase_FAILED"},
		Require: "#wrote(" + fAppliedIdx + "=@OWN) && #ok(" + stCfgUpdStat + ")",
		Why:     "a failed apply is recorded only after the applied cursor was persisted past the proposal"})
	c.Guard(engine.Guard{ID: "C07.2d", Pkg: pkgProposalCtl, Min: 1,
		Sel:     engine.Sel{Field: fAppliedIdx, RHS: "@OWN", Filter: afterSet},
		Require: "#called(" + sbSet + ")",
		Why:     "in the apply step the applied cursor moves only after the device was asked"})
	storeWriteOrder(c, "C07.2e", "C07.2f")
	// (3) one status write per pass
	muts := engine.Sel{CallAny: v2Mutators}
	for _, x := range []struct{ id, pkg, after string }{
		{"C07.3a", pkgProposalCtl, stPropUpdStat},
		{"C07.3b", pkgTransactionCtl, stTxUpdStat},
		{"C07.3c", pkgTransactionCtl, stPropUpdStat},
	} {
		after := engine.Sel{Call: x.after}
		c.Outcome(engine.Outcome{ID: x.id, Pkg: x.pkg, Root: "Reconciler.Reconcile", When: "true", After: &after, Min: 3,
			MustNot: []engine.Sel{muts},
			Why:     "after a status write the pass ends: no second dependent write can be separated from it by a crash"})
	}
	// (4) AlreadyExists tolerated, other store errors returned
	for _, x := range []struct{ id, pkg, callee string }{
		{"C07.4a", pkgProposalCtl, stCfgCreate},
		{"C07.4b", pkgTransactionCtl, stPropCreate},
	} {
		c.Outcome(engine.Outcome{ID: x.id + "-tolerate", Pkg: x.pkg, Root: "Reconciler.Reconcile", Min: 1,
			When: "#errIs(" + x.callee + "|errors.IsAlreadyExists)", Returns: "err==nil",
			Why: "a Create repeated after a crash finds the record and carries on"})
		c.Outcome(engine.Outcome{ID: x.id + "-propagate", Pkg: x.pkg, Root: "Reconciler.Reconcile", Min: 1,
			When: "#errIsNot(" + x.callee + "|errors.IsAlreadyExists)", Returns: "err!=nil",
			Why: "any other Create error is returned so that the controller retries the step"})
	}
	// (5) statelessness
	stateless(c)
	// (6) replay on start
	replay(c, "C07.6", []string{pkgProposalCtl, pkgTransactionCtl, pkgConfigCtl, pkgMastershipCtl}, 6)
	// replay after a restart hands the controllers records that carry their log index and version: the
	// transaction watcher enqueues the index, and every later write is conditional on the version
	versionStamping(c, "C07.5", pkgStoreTxV2, true, 4)
	// the abort step has a resume test like commit and apply: cursors written, ABORTED write lost (F57)
	saved07 := c.Al
	c.Al = proposalAliases(c.P)
	c.Outcome(engine.Outcome{ID: "C07.6", Pkg: pkgProposalCtl, Root: "Reconciler.Reconcile", Min: 1,
		When: "err(@P) == nil && @P.Status.Phases.Apply == nil && @P.Status.Phases.Abort != nil && @P.Status.Phases.Abort.State == config/v2.ProposalAbortPhase_ABORTING && err(@CFG) == nil && " +
			"@CFG.Status.Committed.Index >= @OWN && @CFG.Status.Applied.Index >= @OWN",
		Must:    []engine.Sel{{Field: "config/v2.ProposalAbortPhase.State", RHS: "config/v2.ProposalAbortPhase_ABORTED"}, {Call: stPropUpdStat}},
		MustNot: []engine.Sel{{Call: stCfgUpdStat}, {Call: stCfgUpdate}},
		Why:     "the abort writes the cursors first and the ABORTED state second: a pass that finds both cursors at or past the proposal only records the state, otherwise a lost second write leaves the proposal ABORTING for ever"})
	c.Al = saved07
}

// afterSet keeps only applied-cursor writes that happen on a path on which the device Set was
// attempted successfully (the "success" write, not the abort/failed ones).
func afterSet(p *engine.Path, i int) bool {
	for j := 0; j < i; j++ {
		e := &p.Events[j]
		if e.Kind == engine.EvCond && strings.HasPrefix(e.Lit.L, "err(") && e.Lit.RNil && e.Lit.Mask == 2 {
			// err(X) == nil where X is the symbol of a Set call
			for k := 0; k < j; k++ {
				ce := &p.Events[k]
				if ce.Kind == engine.EvCall && ce.CalleeName == sbSet && e.Lit.L == "err("+ce.Canon+")" {
					return true
				}
			}
		}
	}
	return false
}

func stateless(c *engine.Ctx) {
	o := c.Custom("C07.5", "K-own(receiver)", "every controller Reconciler struct has only interface-typed fields and no method assigns a receiver field",
		"a reconciler that remembers anything between passes loses it in a crash; everything it needs must come from the stores")
	for _, rel := range []string{pkgProposalCtl, pkgTransactionCtl, pkgConfigCtl, pkgMastershipCtl, pkgConnectionCtl, pkgTargetCtl} {
		pkg := c.P.Pkg(rel)
		if pkg == nil {
			o.Undecided(rel, "package not found")
			continue
		}
		obj := pkg.Types.Scope().Lookup("Reconciler")
		if obj == nil {
			o.Undecided(rel, "type Reconciler not found")
			continue
		}
		st, ok := obj.Type().Underlying().(*types.Struct)
		if !ok {
			continue
		}
		o.Site(rel + ".Reconciler")
		for i := 0; i < st.NumFields(); i++ {
			o.Eval(1)
			f := st.Field(i)
			if !types.IsInterface(f.Type()) {
				o.Fail(&engine.Violation{Key: rel + ".Reconciler." + f.Name(), Pos: c.P.Pos(f.Pos()), Func: rel + ".Reconciler",
					Msg: "Reconciler field " + f.Name() + " of type " + f.Type().String() + " is not a store/manager interface: reconcilers must be stateless"})
			}
		}
		label := strings.TrimPrefix(rel, "pkg/") + ".Reconciler."
		for _, w := range c.P.FieldWrites() {
			if w.Pkg == rel && strings.HasPrefix(w.Field, label) && w.Op != "lit" {
				o.Eval(1)
				o.Fail(&engine.Violation{Key: w.Func + "|write " + w.Field, Pos: w.Pos, Func: w.Func, Msg: "a Reconciler field is assigned: reconcilers must be stateless"})
			}
		}
	}
	o.Done(6)
}

// replay: every call of a v2/v3 store Watch made from a controller watcher passes WithReplay().
func replay(c *engine.Ctx, id string, pkgs []string, min int) {
	o := c.Custom(id, "K-args", "every store Watch call of a controller watcher passes WithReplay()",
		"after a restart every record is delivered to its controller again; without replay a record written just before the crash is never reconciled")
	for _, rel := range pkgs {
		paths, err := c.A.Paths(rel)
		if err != nil {
			o.Undecided(rel, err.Error())
			continue
		}
		for _, s := range engine.FindSites(paths, func(p *engine.Path, i int) bool {
			e := &p.Events[i]
			return e.Kind == engine.EvCall && strings.HasSuffix(e.CalleeName, ".Store.Watch") && strings.HasPrefix(e.CalleeName, "store/v")
		}) {
			e := s.Ev()
			o.Site(c.P.Pos(e.Pos) + " " + c.A.DescribeEvent(e))
			o.Eval(1)
			has := false
			for _, a := range e.Args {
				if strings.HasSuffix(a, ".WithReplay()") {
					has = true
				}
			}
			if !has {
				o.Fail(&engine.Violation{Key: engine.SiteKey(s.Refs[0].Path, s.Refs[0].Idx, "call "+e.CalleeName), Pos: c.P.Pos(e.Pos), Func: e.Fn.Name(),
					Msg: "store Watch without WithReplay(): records written before the controller (re)started are never reconciled"})
			}
		}
	}
	o.Done(min)
}

// storeWriteOrder: inside the configuration store the value maps are persisted before the versioned
// record whose cursor claims them (shared by C07 and C01).
func storeWriteOrder(c *engine.Ctx, idUpdate, idStatus string) {
	sp, serr := storePaths(c, pkgStoreCfgV2)
	if serr != nil {
		o := c.Custom(idUpdate, "load", "paths of the configuration store", "")
		o.Undecided(pkgStoreCfgV2, serr.Error())
		o.Done(0)
		return
	}
	saved := c.Al
	c.Al = engine.NewAliases(c.P, "C", "$Configuration")
	storeFn := "store/v2/configuration.configurationStore.store"
	for _, x := range []struct{ id, root, vals string }{
		{idUpdate, "configurationStore.Update", "@C.Values"},
		{idStatus, "configurationStore.UpdateStatus", "@C.Status.Applied.Values"},
	} {
		root := x.root
		if x.id == "" {
			continue
		}
		c.Guard(engine.Guard{ID: x.id, Pkg: pkgStoreCfgV2, Min: 1, PathsOverride: sp,
			Sel:     engine.Sel{Call: "map.Map.Update", Filter: func(p *engine.Path, i int) bool { return strings.HasSuffix(p.Root.Name(), root) }},
			Require: x.vals + " == nil || #ok(" + storeFn + ")",
			Why:     "the commit/apply step is re-entrant only because the cursor in the record is written after the values it stands for: a crash between the two writes must leave the cursor behind, never ahead"})
	}
	c.Al = saved
}
