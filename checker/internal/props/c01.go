package props

import (
	"go/ast"
	"strings"

	"occheck/internal/engine"
)

func init() {
	register(&Prop{
		ID:    "C01",
		Title: "A multi-target Set is committed on all of its targets or on none",
		Explanation: "Decided (structural necessary conditions): (1) each of the five transaction-level state advances (INITIALIZED, VALIDATED, COMMITTED, ABORTED, APPLIED) is control dependent on an all-elements flag that is initialised true, cleared only inside one loop over exactly T.Status.Proposals, and every loop-body path that neither clears it nor leaves the function entails 'this proposal is in the target state' (decided over the whole enum domain); " +
			"(2) a FAILED proposal validation makes the transaction FAILED with that failure, opens Abort and never opens Commit; (3) phases are opened only from the state that precedes them and only by the transaction controller; (4) the dispatchers give Apply > Abort > Commit > Validate > Initialize precedence; " +
			"(5) the abort path of a proposal performs no Configuration.Store.Update and writes neither Values nor Index; (6) the commit path of a proposal assigns no failure and its state enum has no failure value; (7) every target named by the change gets a proposal id appended on every fall-through path of the creation loop." +
			" Also: a proposal is marked committed only under the commit cursor (C01.11)." +
			" Also: C01.9c.",
		Declined:    []string{"atomicity of the stores themselves", "crash atomicity across targets beyond the re-entrancy guards (C07)", "what the model plugin is given (C05)"},
		Assumptions: []string{"enum-typed fields hold one of their declared constants", "equal canonical expressions denote equal values within one reconcile pass"},
		Run:         runC01,
		Witness:     []WitnessTarget{{pkgTransactionCtl, nil}, {pkgProposalCtl, []string{"reconcileProposal", "reconcileAbort", "reconcileCommit", "reconcileValidate"}}},
	})
}

func runC01(c *engine.Ctx, tier string) {
	c.Al = transactionAliases(c.P)
	allProposalsGates(c, "C01.1", "abcde")
	// the cursor a target's record carries never runs ahead of the values persisted for it: otherwise a
	// crash inside one store update leaves that target claiming a change whose values are lost, while the
	// other targets of the request hold theirs
	storeWriteOrder(c, "C01.8a", "C01.8b")
	// the per-target chain is linked while the proposed cursor still points at the predecessor: a proposal left
	// without its predecessor link takes the commit shortcut of another proposal and is skipped on that target only
	c.Al = proposalAliases(c.P)
	link := "@CFG.Status.Proposed.Index < @OWN"
	c.Guard(engine.Guard{ID: "C01.9a", Pkg: pkgProposalCtl, Min: 1,
		Sel:     engine.Sel{Field: "config/v2.ProposalStatus.NextIndex"},
		Require: link + " && @CFG.Status.Proposed.Index > 0 && err(@PREVP) == nil && @PREVP.Status.NextIndex == 0",
		Why:     "the predecessor's NextIndex is set once, to this proposal, while the proposed cursor still points at the predecessor"})
	c.Guard(engine.Guard{ID: "C01.9b", Pkg: pkgProposalCtl, Min: 1,
		Sel:     engine.Sel{Field: "config/v2.ProposalStatus.PrevIndex"},
		Require: link + " && @CFG.Status.Proposed.Index > 0 && err(@PREVP) == nil && @P.Status.PrevIndex == 0",
		Why:     "PrevIndex is taken from the proposed cursor while it still points at the predecessor"})
	// a proposal is marked COMMITTED only when the committed cursor has reached it: either this pass merged its
	// values (cursor at the predecessor → moved to this proposal) or an earlier pass did; the cursor is the COMMIT
	// cursor (it also moves over aborted proposals), not Configuration.Index (seed C01-r42: after a rejected Set
	// the share of one target is marked committed without being written)
	// the chain link of a target's share names the proposed cursor (seed C01-r52: linked to the committed cursor a
	// share whose predecessor is still in flight commits first, and the predecessor is then marked committed unwritten)
	c.Guard(engine.Guard{ID: "C01.9c", Pkg: pkgProposalCtl, None: true, Rule: "K-own",
		Sel: engine.Sel{Field: "config/v2.ProposalStatus.PrevIndex", NotRHS: "@CFG.Status.Proposed.Index", Lit: true},
		Why: "PrevIndex is only ever taken from the proposed cursor"})
	c.Guard(engine.Guard{ID: "C01.11", Pkg: pkgProposalCtl, Min: 1,
		Sel:     engine.Sel{Call: stCfgUpdate},
		Require: "@P.Status.Phases.Commit.State == config/v2.ProposalCommitPhase_COMMITTING && @CFG.Status.Committed.Index == @PREV && #wrote(" + fCommittedIdx + "=@OWN)",
		Why:     "each target's share of the request is written under the commit cursor: written when the cursor is at the predecessor, skipped only when the cursor has already passed it — so no named target is marked committed without holding the change"})
	c.Al = transactionAliases(c.P)
	for _, g := range []struct{ id, rhs, prev string }{
		{"C01.1f", "config/v2.TransactionStatus_VALIDATED", "config/v2.TransactionValidatePhase.State=config/v2.TransactionValidatePhase_VALIDATED"},
		{"C01.1g", "config/v2.TransactionStatus_COMMITTED", "config/v2.TransactionCommitPhase.State=config/v2.TransactionCommitPhase_COMMITTED"},
		{"C01.1h", "config/v2.TransactionStatus_APPLIED", "config/v2.TransactionApplyPhase.State=config/v2.TransactionApplyPhase_APPLIED"},
	} {
		// the summary state is written on the same path as the gated phase state
		c.Outcome(engine.Outcome{ID: g.id, Pkg: pkgTransactionCtl, When: "#wrote(config/v2.TransactionStatus.State=" + g.rhs + ")", Min: 1,
			Must: []engine.Sel{{Field: strings.Split(g.prev, "=")[0], RHS: strings.Split(g.prev, "=")[1]}},
			Why:  "Transaction.Status.State (what the Set handler waits on) advances only together with the gated phase state"})
	}

	// C01.2 a failed validation aborts the whole transaction
	c.Outcome(engine.Outcome{ID: "C01.2", Pkg: pkgTransactionCtl, Min: 1,
		When: "@T.Status.Phases.Apply == nil && @T.Status.Phases.Abort == nil && @T.Status.Phases.Commit == nil && @T.Status.Phases.Validate != nil && @T.Status.Phases.Validate.State == config/v2.TransactionValidatePhase_VALIDATING && err(@PE) == nil && @PE.Status.Phases.Validate != nil && @PE.Status.Phases.Validate.State == config/v2.ProposalValidatePhase_FAILED",
		Must: []engine.Sel{
			{Field: "config/v2.TransactionStatus.State", RHS: "config/v2.TransactionStatus_FAILED"},
			{Field: "config/v2.TransactionStatus.Failure", RHS: "@PE.Status.Phases.Validate.Failure"},
			{Field: "config/v2.TransactionPhases.Abort"},
			{Field: "config/v2.TransactionValidatePhase.State", RHS: "config/v2.TransactionValidatePhase_FAILED"},
			{Call: stTxUpdStat},
		},
		MustNot: []engine.Sel{{Field: "config/v2.TransactionPhases.Commit"}, {Field: "config/v2.TransactionValidatePhase.State", RHS: "config/v2.TransactionValidatePhase_VALIDATED"}},
		Why:     "if the model of any one target rejects its share, the request is failed with that failure and every target is aborted; Commit is never opened"})

	// C01.3 who may open a phase, and from which state
	open := []struct{ id, field, req string }{
		{"C01.3a", "config/v2.TransactionPhases.Commit", "@T.Status.Phases.Validate.State == config/v2.TransactionValidatePhase_VALIDATED && @T.Status.Phases.Abort == nil"},
		{"C01.3b", "config/v2.ProposalPhases.Validate", "@T.Status.Phases.Validate.State == config/v2.TransactionValidatePhase_VALIDATING && @PE.Status.Phases.Validate == nil && @T.Status.Phases.Commit == nil && @T.Status.Phases.Abort == nil && @T.Status.Phases.Apply == nil"},
		{"C01.3c", "config/v2.ProposalPhases.Commit", "@T.Status.Phases.Commit.State == config/v2.TransactionCommitPhase_COMMITTING && @PE.Status.Phases.Commit == nil && @T.Status.Phases.Abort == nil"},
		{"C01.3d", "config/v2.ProposalPhases.Abort", "@T.Status.Phases.Abort.State == config/v2.TransactionAbortPhase_ABORTING && @PE.Status.Phases.Abort == nil"},
		{"C01.3e", "config/v2.TransactionPhases.Abort", "#wrote(config/v2.TransactionStatus.State=config/v2.TransactionStatus_FAILED) && @T.Status.Phases.Commit == nil && @T.Status.Phases.Apply == nil"},
		{"C01.3f", "config/v2.TransactionPhases.Validate", "@T.Status.Phases.Initialize.State == config/v2.TransactionInitializePhase_INITIALIZED && @T.Status.Phases.Abort == nil"},
	}
	for _, o := range open {
		c.Guard(engine.Guard{ID: o.id, Pkg: pkgTransactionCtl, Min: 1, Sel: engine.Sel{Field: o.field}, Require: o.req,
			Why: "a phase is opened only from the state that precedes it; Commit in particular only after VALIDATED and never once Abort exists"})
	}
	for _, f := range []string{"config/v2.ProposalPhases.Validate", "config/v2.ProposalPhases.Commit", "config/v2.ProposalPhases.Abort", "config/v2.ProposalPhases.Apply",
		"config/v2.TransactionPhases.Validate", "config/v2.TransactionPhases.Commit", "config/v2.TransactionPhases.Abort", "config/v2.TransactionPhases.Apply", "config/v2.TransactionPhases.Initialize"} {
		c.Own(engine.Own{ID: "C01.3-own/" + strings.TrimPrefix(f, "config/v2."), Field: f, Pkgs: []string{pkgTransactionCtl}, Min: 1,
			Why: "only the transaction controller opens phases (the proposal controller only advances states inside an open phase)"})
	}

	// C01.4 dispatcher precedence (paths start at Reconcile, so the dispatcher's tests are part of every condition)
	c.Al = proposalAliases(c.P)
	c.Guard(engine.Guard{ID: "C01.4a", Pkg: pkgProposalCtl, Min: 1, Sel: engine.Sel{Call: pluginValidate},
		Require: "@P.Status.Phases.Apply == nil && @P.Status.Phases.Abort == nil && @P.Status.Phases.Commit == nil && @P.Status.Phases.Validate != nil",
		Why:     "validation runs only while no later phase exists"})
	c.Guard(engine.Guard{ID: "C01.4b", Pkg: pkgProposalCtl, Min: 1, Sel: engine.Sel{Call: stCfgUpdate},
		Require: "@P.Status.Phases.Apply == nil && @P.Status.Phases.Abort == nil && @P.Status.Phases.Commit != nil",
		Why:     "values are merged only in the Commit phase and never once the proposal is being aborted"})
	c.Guard(engine.Guard{ID: "C01.4c", Pkg: pkgProposalCtl, Min: 1, Sel: engine.Sel{Call: sbSet},
		Require: "@P.Status.Phases.Apply != nil",
		Why:     "the device is written only in the Apply phase"})

	// C01.5 abort touches no values
	c.Outcome(engine.Outcome{ID: "C01.5", Pkg: pkgProposalCtl, Root: "Reconciler.Reconcile", Min: 3,
		When: "err(@P) == nil && @P.Status.Phases.Apply == nil && @P.Status.Phases.Abort != nil",
		MustNot: []engine.Sel{{Call: stCfgUpdate}, {Call: stCfgCreate}, {Field: fCfgValues}, {Field: fCfgValues + "[]"}, {Field: fCfgIndex},
			{Field: "config/v2.AppliedConfigurationStatus.Values"}, {Field: "config/v2.AppliedConfigurationStatus.Values[]"}, {Call: sbSet}},
		Why: "an aborted proposal moves the cursors past itself through UpdateStatus only; it never persists values, never changes Configuration.Index and never talks to the device"})
	// C01.6 commit cannot fail
	c.Outcome(engine.Outcome{ID: "C01.6", Pkg: pkgProposalCtl, Root: "Reconciler.Reconcile", Min: 3,
		When: "err(@P) == nil && @P.Status.Phases.Apply == nil && @P.Status.Phases.Abort == nil && @P.Status.Phases.Commit != nil",
		MustNot: []engine.Sel{{Field: "config/v2.ProposalValidatePhase.Failure"}, {Field: "config/v2.ProposalApplyPhase.Failure"}, {Field: "config/v2.ProposalValidatePhase.State"},
			{Field: "config/v2.ProposalApplyPhase.State"}, {Field: "config/v2.ProposalAbortPhase.State"}},
		Why: "once validated on every target, the merge of a proposal has no failure outcome (a partial commit could not be undone)"})
	o := c.Custom("C01.6-enum", "K-tables(domain)", "ProposalCommitPhase_State and TransactionCommitPhase_State have no failure value", "the commit phase has no failure state to enter")
	for _, name := range []string{"config/v2.ProposalCommitPhase_COMMITTING", "config/v2.TransactionCommitPhase_COMMITTING"} {
		cst := c.P.LookupConst(name)
		if cst == nil {
			o.Undecided(name, "constant not found")
			continue
		}
		o.Site(name)
		for n := range c.P.DomainNames(cst.Type()) {
			o.Eval(1)
			if strings.Contains(n, "FAIL") || strings.Contains(n, "ABORT") {
				o.Fail(&engine.Violation{Key: n, Msg: "the commit phase now has a failure value " + n + ": the all-or-nothing argument needs a new obligation for it"})
			}
		}
	}
	o.Done(2)

	// C01.7 one proposal per named target
	c.Al = transactionAliases(c.P)
	onePerTarget(c, "C01.7a", "@TCHG.Change.Values")
	onePerTarget(c, "C01.7b", "@RBTCHG.Change.Values")
	c.Guard(engine.Guard{ID: "C01.7c", Pkg: pkgTransactionCtl, Min: 2, Sel: engine.Sel{Call: stPropCreate},
		Require: "errors.IsNotFound(err(@EXP)) || errors.IsNotFound(err(@EXPR))",
		Why:     "a proposal is created for the loop's own target, under the id (target, transaction index), only when it does not exist yet (re-entrancy)"})
	// every named target gets a proposal that carries its share of the change, and nothing else
	proposalRecords(c, "C01.10", "")
}

// onePerTarget: in the loop over the change's targets every fall-through path of the body appends
// the proposal id of the iteration's own target to the slice that becomes T.Status.Proposals.
func onePerTarget(c *engine.Ctx, id, rangeExpr string) {
	o := c.Custom(id, "K-order(loop body)", "every fall-through iteration over "+rangeExpr+" appends NewID(key, T.Index) to the slice stored as T.Status.Proposals",
		"every target named by the request gets exactly one proposal recorded in the transaction; a skipped target would be silently left out of the all-or-nothing gate")
	paths, err := c.A.Paths(pkgTransactionCtl)
	if err != nil {
		o.Undecided(pkgTransactionCtl, err.Error())
		o.Done(0)
		return
	}
	rng := c.Al.Expand(rangeExpr)
	wantID := c.Al.Expand("store/v2/proposal.NewID(key(" + rangeExpr + "),@T.Index)")
	for _, p := range paths {
		for i := range p.Events {
			le := &p.Events[i]
			if le.Kind != engine.EvLoopEnter || le.Range != rng {
				continue
			}
			exit := -1
			appended := false
			for j := i + 1; j < len(p.Events); j++ {
				e := &p.Events[j]
				if e.Kind == engine.EvLoopExit && e.Loops == le.Loops && e.Node == le.Node {
					exit = j
					break
				}
				if e.Kind == engine.EvWrite && e.Local != nil && e.Loops == le.LoopID && strings.HasPrefix(e.RHS, "append(") && strings.HasSuffix(e.RHS, ","+wantID+")") {
					appended = true
				}
			}
			if exit < 0 || exit == i+1 {
				continue
			}
			o.Site("")
			o.Eval(1)
			if !appended {
				o.Fail(&engine.Violation{Key: engine.SiteKey(p, i, "loop over "+c.Render(rng)), Pos: c.P.Pos(le.Pos), Func: engine.FuncChain(p, i),
					Msg: "an iteration can fall through without appending the proposal id of its target", Path: c.PathTrace(p, exit)})
				o.Done(1)
				return
			}
			// and the slice written to T.Status.Proposals after the loop is the appended one
			stored := false
			for j := exit; j < len(p.Events); j++ {
				e := &p.Events[j]
				if e.Kind == engine.EvWrite && e.Field == "config/v2.TransactionStatus.Proposals" {
					if as, ok := e.Node.(*ast.AssignStmt); ok && len(as.Rhs) == 1 {
						if rid, ok := as.Rhs[0].(*ast.Ident); ok && strings.Contains(e.RHS, "?"+rid.Name+"@") {
							stored = true
						}
					}
				}
				if e.Kind == engine.EvReturn {
					break
				}
			}
			if !stored {
				o.Fail(&engine.Violation{Key: engine.SiteKey(p, i, "store proposals after loop over "+c.Render(rng)), Pos: c.P.Pos(le.Pos), Func: engine.FuncChain(p, i),
					Msg: "after the loop the collected proposal ids are not stored in T.Status.Proposals", Path: c.PathTrace(p, len(p.Events)-1)})
				o.Done(1)
				return
			}
		}
	}
	o.Done(1)
}

// allProposalsGates: the transaction advances only when every one of its proposals reached the state
// (shared by C01 and C02). letters selects the phases (a init, b validate, c commit, d abort, e apply).
func allProposalsGates(c *engine.Ctx, idPrefix, letters string) {
	saved := c.Al
	c.Al = transactionAliases(c.P)
	rng := "@T.Status.Proposals"
	gates := []struct{ id, field, rhs, clause string }{
		{"a", "config/v2.TransactionInitializePhase.State", "config/v2.TransactionInitializePhase_INITIALIZED",
			"@PE.Status.Phases.Initialize != nil && @PE.Status.Phases.Initialize.State == config/v2.ProposalInitializePhase_INITIALIZED"},
		{"b", "config/v2.TransactionValidatePhase.State", "config/v2.TransactionValidatePhase_VALIDATED",
			"@PE.Status.Phases.Validate != nil && @PE.Status.Phases.Validate.State == config/v2.ProposalValidatePhase_VALIDATED"},
		{"c", "config/v2.TransactionCommitPhase.State", "config/v2.TransactionCommitPhase_COMMITTED",
			"@PE.Status.Phases.Commit != nil && @PE.Status.Phases.Commit.State == config/v2.ProposalCommitPhase_COMMITTED"},
		{"d", "config/v2.TransactionAbortPhase.State", "config/v2.TransactionAbortPhase_ABORTED",
			"@PE.Status.Phases.Abort != nil && @PE.Status.Phases.Abort.State == config/v2.ProposalAbortPhase_ABORTED"},
		{"e", "config/v2.TransactionApplyPhase.State", "config/v2.TransactionApplyPhase_APPLIED",
			"@PE.Status.Phases.Apply != nil && @PE.Status.Phases.Apply.State == config/v2.ProposalApplyPhase_APPLIED"},
	}
	for _, g := range gates {
		if !strings.Contains(letters, g.id) {
			continue
		}
		c.Gate(engine.Gate{ID: idPrefix + g.id, Pkg: pkgTransactionCtl, Min: 1, Range: rng, Clause: "err(@PE) == nil && " + g.clause,
			Sel: engine.Sel{Field: g.field, RHS: g.rhs},
			Why: "the transaction advances only when every one of its proposals (every named target) reached the state; one missing target would commit/apply a partial request"})
	}
	c.Al = saved
}
