package props

import (
	"go/ast"
	"go/token"
	"go/types"

	"strings"

	"occheck/internal/engine"
)

func init() {
	register(&Prop{
		ID:    "C18",
		Title: "The JSON document is the configuration, no more and no less",
		Explanation: "'Exactly those leaves' is an algorithmic property of addPathToTree over all inputs and is declined; this is the thinnest claim of the twenty. Decided: (1) pruning decides 'lies beneath' through the boundary-aware subtree helper (shared with C03), and remembers every deleted subtree root; (2) the v2 and v3 tree packages have equal statement fingerprints modulo *PathValue ↔ PathValue; " +
			"(3) the three facts the list-entry reuse argument rests on: a new entry is appended (and the key map used as the entry) iff foundkeys < len(keyMap); a key mismatch resets the count and moves on to the next entry; BuildTree inserts in the order produced by PrunePathValues, whose comparator is '<' on Path." +
			" Also: C18.6 key kinds covered by the comparison helper.",
		Declined: []string{"that the tree contains exactly the given leaves for all inputs (splitting/merging of list entries in general)", "key parsing inside an element with escaped brackets"},
		Run:      runC18,
		Witness:  []WitnessTarget{{pkgTreeV2, []string{"PrunePath", "BuildTree", "addPathToTree"}}},
	})
}

func runC18(c *engine.Ctx, tier string) {
	pathRelationMin(c, "C18.1", []string{pkgTreeV2, pkgTreeV3}, 2)
	sibling(c, "C18.2", pkgTreeV2, pkgTreeV3, [][2]string{{`\*configapi\.PathValue`, "configapi.PathValue"}}, nil)
	for _, rel := range []string{pkgTreeV2, pkgTreeV3} {
		listEntryFacts(c, "C18.3/"+strings.TrimPrefix(rel, "pkg/utils/"), rel)
	}
	// the tree is built from the tokenizer's elements only: a key value may contain '/'
	oneTokenizerIn(c, "C18.4", []string{pkgTreeV2, pkgTreeV3}, 2)
	// a leaf of the tree is the stored value read through the accessor of its own kind (a signed value read as
	// unsigned changes the document, and as a key leaf splits the list entry)
	keyKindsCovered(c, "C18.6/v2", pkgTreeV2)
	keyKindsCovered(c, "C18.6/v3", pkgTreeV3)
	leafWritten(c, "C18.5/v2", pkgTreeV2)
	leafWritten(c, "C18.5/v3", pkgTreeV3)
}

func listEntryFacts(c *engine.Ctx, id, rel string) {
	o := c.Custom(id, "K-guard(custom)", "append of a new list entry ⇐ foundkeys < len(keyMap); key mismatch ⇒ foundkeys := 0 and continue with the next entry; sort comparator of PrunePathValues is Path < Path; BuildTree ranges over PrunePathValues(values, false)",
		"entries of one list are contiguous in the sorted input, so 'the last matching entry, or a new one when not all keys matched' identifies an entry by its full key set")
	defer o.Done(5)
	paths, err := c.A.PathsOpt(rel, engine.PathOpts{NoInline: true})
	if err != nil {
		o.Undecided(rel, err.Error())
		return
	}
	appended, reset, cmp, keys, member := 0, 0, 0, 0, 0
	for _, p := range paths {
		isAdd := strings.HasSuffix(p.Root.Name(), ".addPathToTree") && p.Lit == nil
		for i := range p.Events {
			e := &p.Events[i]
			if isAdd && e.Kind == engine.EvWrite && e.Local != nil && strings.HasPrefix(e.RHS, "append(") && strings.Contains(e.RHS, ".([]interface{})") {
				appended++
				o.Eval(1)
				ok := false
				for _, l := range engine.CondsBefore(p, i) {
					if strings.HasPrefix(l.L, "?foundkeys") && strings.HasPrefix(l.R, "len(make(map[string]interface{})") && l.Mask == 1 {
						ok = true
					}
				}
				if !ok {
					o.Fail(&engine.Violation{Key: rel + ".addPathToTree|append condition", Pos: c.P.Pos(e.Pos), Func: p.Root.Name(), Msg: "a list entry is appended without 'foundkeys < len(keyMap)'", Found: c.RenderConds(engine.CondsBefore(p, i))})
					return
				}
			}
			if isAdd && e.Kind == engine.EvWrite && e.Local != nil && e.Local.Name() == "foundkeys" && e.RHS == "0" && e.Op == "=" {
				reset++
				o.Eval(1)
				// the next control event must be a continue of the entries loop, and the path must show the mismatch
				mismatch := false
				for _, l := range engine.CondsBefore(p, i) {
					if strings.Contains(l.L, "convertBasicType(") && strings.Contains(l.R, "convertBasicType(") && l.Mask == 5 {
						mismatch = true
					}
				}
				cont := false
				for j := i + 1; j < len(p.Events) && j < i+3; j++ {
					if p.Events[j].Kind == engine.EvBranch && p.Events[j].Tok.String() == "continue" {
						cont = true
					}
				}
				if !mismatch || !cont {
					o.Fail(&engine.Violation{Key: rel + ".addPathToTree|mismatch handling", Pos: c.P.Pos(e.Pos), Func: p.Root.Name(), Msg: "the key count is reset without a key mismatch, or the search does not continue with the next entry"})
					return
				}
			}
			// the key map: name = text between '[' and the FIRST '=', value = text from there to the first ']'
			if isAdd && e.Kind == engine.EvWrite && e.Local == nil && strings.HasPrefix(e.LHS, "make(map[string]interface{})@") && strings.Contains(e.LHS, "[") {
				keys++
				o.Eval(1)
				at := strings.Index(e.LHS, ")@")
				ks := e.LHS[at+2:]
				ks = ks[strings.Index(ks, "[")+1:]
				if k := strings.Index(ks, "["); k > 0 {
					ks = ks[:k]
				}
				tl := strings.TrimPrefix(rel, "pkg/") + "."
				wantKey := ks + "[(strings.Index(" + ks + "," + tl + "bracketsq) + 1):strings.Index(" + ks + "," + tl + "equals)]"
				wantVal := ks + "[(strings.Index(" + ks + "," + tl + "equals) + 1):strings.Index(" + ks + "," + tl + "brktclose)]"
				if !strings.HasSuffix(e.LHS, "["+wantKey+"]") || e.RHS != wantVal {
					o.Fail(&engine.Violation{Key: rel + ".addPathToTree|key split", Pos: c.P.Pos(e.Pos), Func: p.Root.Name(),
						Msg: "a list key is not cut as name = [ … first '=' and value = first '=' … first ']': key values containing '=' (or the key name) are truncated, so distinct entries merge or one entry splits"})
					return
				}
			}
			// pruning: a value is skipped when it lies beneath ANY recorded deleted root
			if p.Lit == nil && strings.HasSuffix(p.Root.Name(), ".PrunePathValues") && e.Kind == engine.EvCall && e.CalleeName == subtreeHelper && len(e.Args) == 2 {
				member++
				o.Eval(1)
				var le *engine.Event
				for j := i - 1; j >= 0; j-- {
					if x := &p.Events[j]; x.Kind == engine.EvLoopEnter && x.LoopID == e.Loops {
						le = x
						break
					}
				}
				if le == nil || !strings.HasPrefix(le.Range, "?deletedSubtrees") && !strings.Contains(le.Range, "eleted") || e.Args[1] != "elem("+le.Range+")" || !strings.HasSuffix(e.Args[0], ".Path") {
					o.Fail(&engine.Violation{Key: rel + ".PrunePathValues|membership", Pos: c.P.Pos(e.Pos), Func: p.Root.Name(),
						Msg: "the subtree test of pruning is not made against every recorded deleted root (second operand " + e.Args[1] + "): a deleted subtree is not contiguous in lexicographic order ('-' and '.' sort before '/'), so testing only the latest root lets values beneath an earlier tombstone survive"})
					return
				}
			}
			if p.Lit != nil && strings.HasSuffix(p.Root.Name(), ".PrunePathValues") && e.Kind == engine.EvReturn && len(e.Results) == 1 {
				cmp++
				o.Eval(1)
				if e.Results[0] != "(^sortedPaths[$i].Path < ^sortedPaths[$j].Path)" {
					o.Fail(&engine.Violation{Key: rel + ".PrunePathValues|comparator", Pos: c.P.Pos(e.Pos), Func: p.Root.Name(), Msg: "the sort comparator is " + e.Results[0] + ", not Path < Path: ancestors no longer precede their descendants and entries of one list are no longer contiguous"})
					return
				}
			}
		}
	}
	if appended > 0 {
		o.Site(rel + ": append guarded by foundkeys < len(keyMap)")
	}
	if reset > 0 {
		o.Site(rel + ": key mismatch resets the count and continues")
	}
	if cmp > 0 {
		o.Site(rel + ": comparator Path < Path")
	}
	if keys > 0 {
		o.Site(rel + ": key name/value cut at the first '=' and first ']'")
	}
	if member > 0 {
		o.Site(rel + ": pruning tests membership against every recorded deleted root")
	}
}

// keyKindsCovered: C18.6 (seed C18-r42) — writer/reader table agreement inside the tree builder. A list entry
// is found again by comparing, as text, the key values of the path with what handleLeafValue stored for the key
// leaf. convertBasicType must therefore render every scalar kind that handleLeafValue stores as the text the
// path carries: for every Go type of a value stored by a non-leaf-list case that is a string, a signed or
// unsigned integer or a bool there is a case in convertBasicType (a reflect.Kind of that class, or a type-switch
// case of that type). A missing class makes the key leaf unequal to its own key: every later leaf of the entry
// starts a second entry. (Floats and byte slices are not covered at HEAD either: §7, review of C18.)
func keyKindsCovered(c *engine.Ctx, id, rel string) {
	o := c.Custom(id, "K-tables(agreement)", "every scalar class {string, signed, unsigned, bool} that handleLeafValue stores in an entry has a rendering case in convertBasicType",
		"list entries are identified by their full key sets: distinct entries are never merged and one entry is never split")
	defer o.Done(2)
	pkg := c.P.Pkg(rel)
	if pkg == nil {
		o.Undecided(rel, "package not found")
		return
	}
	info := pkg.TypesInfo
	class := func(t types.Type) string {
		b, ok := t.Underlying().(*types.Basic)
		if !ok {
			return ""
		}
		switch {
		case b.Info()&types.IsString != 0:
			return "string"
		case b.Info()&types.IsBoolean != 0:
			return "bool"
		case b.Info()&types.IsUnsigned != 0:
			return "unsigned"
		case b.Info()&types.IsInteger != 0:
			return "signed"
		}
		return ""
	}
	stored := map[string]string{}
	covered := map[string]bool{}
	var convPos token.Pos
	for _, fi := range c.P.FuncsOf(pkg) {
		switch {
		case strings.HasSuffix(fi.Name(), ".handleLeafValue"):
			for _, h := range c.P.WithHelpers(fi, 2, true) {
				ast.Inspect(h.Decl.Body, func(n ast.Node) bool {
					as, ok := n.(*ast.AssignStmt)
					if !ok || len(as.Lhs) != 1 || len(as.Rhs) != 1 {
						return true
					}
					ix, ok := ast.Unparen(as.Lhs[0]).(*ast.IndexExpr)
					if !ok {
						return true
					}
					if mt := info.TypeOf(ix.X); mt == nil {
						return true
					} else if _, isMap := mt.Underlying().(*types.Map); !isMap {
						return true
					}
					if t := info.TypeOf(as.Rhs[0]); t != nil {
						if k := class(t); k != "" {
							stored[k] = c.P.Pos(as.Pos())
						}
					}
					return true
				})
			}
		case strings.HasSuffix(fi.Name(), ".convertBasicType"):
			convPos = fi.Decl.Pos()
			covered["string"] = false
			ast.Inspect(fi.Decl.Body, func(n ast.Node) bool {
				cc, ok := n.(*ast.CaseClause)
				if !ok {
					return true
				}
				for _, e := range cc.List {
					if tv, ok := info.Types[e]; ok && tv.IsType() {
						if k := class(tv.Type); k != "" {
							covered[k] = true
						}
						continue
					}
					switch types.ExprString(e) {
					case "reflect.Int", "reflect.Int8", "reflect.Int16", "reflect.Int32", "reflect.Int64":
						covered["signed"] = true
					case "reflect.Uint", "reflect.Uint8", "reflect.Uint16", "reflect.Uint32", "reflect.Uint64":
						covered["unsigned"] = true
					case "reflect.Bool":
						covered["bool"] = true
					case "reflect.String":
						covered["string"] = true
					}
				}
				return true
			})
			// reflect.Value.String() of a string value is the string: the fall-through covers strings
			ast.Inspect(fi.Decl.Body, func(n ast.Node) bool {
				if r, ok := n.(*ast.ReturnStmt); ok && len(r.Results) == 1 {
					if call, ok := r.Results[0].(*ast.CallExpr); ok {
						if sel, ok := call.Fun.(*ast.SelectorExpr); ok && sel.Sel.Name == "String" {
							if t := info.TypeOf(sel.X); t != nil && strings.HasSuffix(t.String(), "reflect.Value") {
								covered["string"] = true
							}
						}
					}
				}
				return true
			})
		}
	}
	if len(stored) == 0 || convPos == token.NoPos {
		o.Undecided(rel, "anchor not found: handleLeafValue stores no scalar, or convertBasicType is gone")
		return
	}
	for _, k := range []string{"string", "signed", "unsigned", "bool"} {
		at, isStored := stored[k]
		if !isStored {
			continue
		}
		o.Site(at + " " + k + " stored")
		o.Eval(1)
		if !covered[k] {
			o.Fail(&engine.Violation{Key: rel + ".convertBasicType|no rendering for " + k, Pos: c.P.Pos(convPos), Func: "convertBasicType",
				Msg: "handleLeafValue stores a " + k + " value (" + at + ") but convertBasicType has no case that renders a " + k + " as its text: a key leaf of that type never equals the key of its own path, and the entry is split"})
		}
	}
}
