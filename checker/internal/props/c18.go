package props

import (
	"strings"

	"occheck/internal/engine"
)

func init() {
	register(&Prop{
		ID:    "C18",
		Title: "The JSON document is the configuration, no more and no less",
		Explanation: "'Exactly those leaves' is an algorithmic property of addPathToTree over all inputs and is declined; this is the thinnest claim of the twenty. Decided: (1) pruning decides 'lies beneath' through the boundary-aware subtree helper (shared with C03), and remembers every deleted subtree root; (2) the v2 and v3 tree packages have equal statement fingerprints modulo *PathValue ↔ PathValue; " +
			"(3) the three facts the list-entry reuse argument rests on: a new entry is appended (and the key map used as the entry) iff foundkeys < len(keyMap); a key mismatch resets the count and moves on to the next entry; BuildTree inserts in the order produced by PrunePathValues, whose comparator is '<' on Path.",
		Declined: []string{"that the tree contains exactly the given leaves for all inputs (splitting/merging of list entries in general)", "key parsing inside an element with escaped brackets"},
		Run:      runC18,
		Witness:  []WitnessTarget{{pkgTreeV2, []string{"PrunePath", "BuildTree", "addPathToTree"}}},
	})
}

func runC18(c *engine.Ctx, tier string) {
	pathRelationMin(c, "C18.1", []string{pkgTreeV2, pkgTreeV3}, 2)
	sibling(c, "C18.2", pkgTreeV2, pkgTreeV3, [][2]string{{`\*configapi\.PathValue`, "configapi.PathValue"}}, nil)
	for _, rel := range []string{pkgTreeV2, pkgTreeV3} {
		listEntryFacts(c, "C18.3/"+strings.TrimPrefix(rel, "pkg/utils/"), rel)
	}
	// the tree is built from the tokenizer's elements only: a key value may contain '/'
	oneTokenizerIn(c, "C18.4", []string{pkgTreeV2, pkgTreeV3}, 2)
	// a leaf of the tree is the stored value read through the accessor of its own kind (a signed value read as
	// unsigned changes the document, and as a key leaf splits the list entry)
	leafWritten(c, "C18.5/v2", pkgTreeV2)
	leafWritten(c, "C18.5/v3", pkgTreeV3)
}

func listEntryFacts(c *engine.Ctx, id, rel string) {
	o := c.Custom(id, "K-guard(custom)", "append of a new list entry ⇐ foundkeys < len(keyMap); key mismatch ⇒ foundkeys := 0 and continue with the next entry; sort comparator of PrunePathValues is Path < Path; BuildTree ranges over PrunePathValues(values, false)",
		"entries of one list are contiguous in the sorted input, so 'the last matching entry, or a new one when not all keys matched' identifies an entry by its full key set")
	defer o.Done(5)
	paths, err := c.A.PathsOpt(rel, engine.PathOpts{NoInline: true})
	if err != nil {
		o.Undecided(rel, err.Error())
		return
	}
	appended, reset, cmp, keys, member := 0, 0, 0, 0, 0
	for _, p := range paths {
		isAdd := strings.HasSuffix(p.Root.Name(), ".addPathToTree") && p.Lit == nil
		for i := range p.Events {
			e := &p.Events[i]
			if isAdd && e.Kind == engine.EvWrite && e.Local != nil && strings.HasPrefix(e.RHS, "append(") && strings.Contains(e.RHS, ".([]interface{})") {
				appended++
				o.Eval(1)
				ok := false
				for _, l := range engine.CondsBefore(p, i) {
					if strings.HasPrefix(l.L, "?foundkeys") && strings.HasPrefix(l.R, "len(make(map[string]interface{})") && l.Mask == 1 {
						ok = true
					}
				}
				if !ok {
					o.Fail(&engine.Violation{Key: rel + ".addPathToTree|append condition", Pos: c.P.Pos(e.Pos), Func: p.Root.Name(), Msg: "a list entry is appended without 'foundkeys < len(keyMap)'", Found: c.RenderConds(engine.CondsBefore(p, i))})
					return
				}
			}
			if isAdd && e.Kind == engine.EvWrite && e.Local != nil && e.Local.Name() == "foundkeys" && e.RHS == "0" && e.Op == "=" {
				reset++
				o.Eval(1)
				// the next control event must be a continue of the entries loop, and the path must show the mismatch
				mismatch := false
				for _, l := range engine.CondsBefore(p, i) {
					if strings.Contains(l.L, "convertBasicType(") && strings.Contains(l.R, "convertBasicType(") && l.Mask == 5 {
						mismatch = true
					}
				}
				cont := false
				for j := i + 1; j < len(p.Events) && j < i+3; j++ {
					if p.Events[j].Kind == engine.EvBranch && p.Events[j].Tok.String() == "continue" {
						cont = true
					}
				}
				if !mismatch || !cont {
					o.Fail(&engine.Violation{Key: rel + ".addPathToTree|mismatch handling", Pos: c.P.Pos(e.Pos), Func: p.Root.Name(), Msg: "the key count is reset without a key mismatch, or the search does not continue with the next entry"})
					return
				}
			}
			// the key map: name = text between '[' and the FIRST '=', value = text from there to the first ']'
			if isAdd && e.Kind == engine.EvWrite && e.Local == nil && strings.HasPrefix(e.LHS, "make(map[string]interface{})@") && strings.Contains(e.LHS, "[") {
				keys++
				o.Eval(1)
				at := strings.Index(e.LHS, ")@")
				ks := e.LHS[at+2:]
				ks = ks[strings.Index(ks, "[")+1:]
				if k := strings.Index(ks, "["); k > 0 {
					ks = ks[:k]
				}
				tl := strings.TrimPrefix(rel, "pkg/") + "."
				wantKey := ks + "[(strings.Index(" + ks + "," + tl + "bracketsq) + 1):strings.Index(" + ks + "," + tl + "equals)]"
				wantVal := ks + "[(strings.Index(" + ks + "," + tl + "equals) + 1):strings.Index(" + ks + "," + tl + "brktclose)]"
				if !strings.HasSuffix(e.LHS, "["+wantKey+"]") || e.RHS != wantVal {
					o.Fail(&engine.Violation{Key: rel + ".addPathToTree|key split", Pos: c.P.Pos(e.Pos), Func: p.Root.Name(),
						Msg: "a list key is not cut as name = [ … first '=' and value = first '=' … first ']': key values containing '=' (or the key name) are truncated, so distinct entries merge or one entry splits"})
					return
				}
			}
			// pruning: a value is skipped when it lies beneath ANY recorded deleted root
			if p.Lit == nil && strings.HasSuffix(p.Root.Name(), ".PrunePathValues") && e.Kind == engine.EvCall && e.CalleeName == subtreeHelper && len(e.Args) == 2 {
				member++
				o.Eval(1)
				var le *engine.Event
				for j := i - 1; j >= 0; j-- {
					if x := &p.Events[j]; x.Kind == engine.EvLoopEnter && x.LoopID == e.Loops {
						le = x
						break
					}
				}
				if le == nil || !strings.HasPrefix(le.Range, "?deletedSubtrees") && !strings.Contains(le.Range, "eleted") || e.Args[1] != "elem("+le.Range+")" || !strings.HasSuffix(e.Args[0], ".Path") {
					o.Fail(&engine.Violation{Key: rel + ".PrunePathValues|membership", Pos: c.P.Pos(e.Pos), Func: p.Root.Name(),
						Msg: "the subtree test of pruning is not made against every recorded deleted root (second operand " + e.Args[1] + "): a deleted subtree is not contiguous in lexicographic order ('-' and '.' sort before '/'), so testing only the latest root lets values beneath an earlier tombstone survive"})
					return
				}
			}
			if p.Lit != nil && strings.HasSuffix(p.Root.Name(), ".PrunePathValues") && e.Kind == engine.EvReturn && len(e.Results) == 1 {
				cmp++
				o.Eval(1)
				if e.Results[0] != "(^sortedPaths[$i].Path < ^sortedPaths[$j].Path)" {
					o.Fail(&engine.Violation{Key: rel + ".PrunePathValues|comparator", Pos: c.P.Pos(e.Pos), Func: p.Root.Name(), Msg: "the sort comparator is " + e.Results[0] + ", not Path < Path: ancestors no longer precede their descendants and entries of one list are no longer contiguous"})
					return
				}
			}
		}
	}
	if appended > 0 {
		o.Site(rel + ": append guarded by foundkeys < len(keyMap)")
	}
	if reset > 0 {
		o.Site(rel + ": key mismatch resets the count and continues")
	}
	if cmp > 0 {
		o.Site(rel + ": comparator Path < Path")
	}
	if keys > 0 {
		o.Site(rel + ": key name/value cut at the first '=' and first ']'")
	}
	if member > 0 {
		o.Site(rel + ": pruning tests membership against every recorded deleted root")
	}
}
