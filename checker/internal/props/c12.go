package props

import (
	"fmt"
	"go/ast"
	"go/constant"
	"go/token"
	"go/types"
	"os"
	"regexp"
	"sort"
	"strings"

	"occheck/internal/engine"
)

func init() {
	register(&Prop{
		ID:    "C12",
		Title: "No request can crash the server",
		Explanation: "Absence of panics for every decodable request is a whole-program value property and is declined as such. Decided, over every module function statically reachable from the gNMI and admin RPC handlers (and, for the value classes, from the v2 controllers' Reconcile): " +
			"(1) wire-nullable dereference: a field read through a pointer that comes from an optional field of a request message (directly, through a getter, through a parameter that some caller feeds with such a value, through a map of messages, or through a module struct field that is assigned nil somewhere) is dominated by a non-nil test of that pointer on every enumerated path; " +
			"(2) nil-map write: an indexed write into a map that is a field of a decoded message or a never-allocated variable is dominated by a non-nil test or an allocation; (3) sentinel index: a slice bound or index computed from strings.Index/LastIndex is dominated by a test of that result (or a Contains/HasPrefix/HasSuffix test of the same operands); len(x)-1 indexes are dominated by a non-empty test; " +
			"(4) regexp.MustCompile is applied only to constants or to text whose request-derived part went through regexp.QuoteMeta; (5) no explicit panic() and no single-value type assertion is reachable outside the frozen table of reviewed sites; (6) float values reach big.NewFloat-based constructors only under a NaN test." +
			" Also: C12.14 value of a failed lookup, C12.15 channel typestate of the stores.",
		Declined: []string{"absence of all run-time panics (integer conversion, allocation size, recursion depth, third-party libraries)", "panics in goroutines of the stores and of the Atomix client", "index expressions other than the sentinel / len-1 classes"},
		Run:      runC12,
		Witness:  []WitnessTarget{{pkgNbGnmi, []string{"createUpdate", "getTargetInfo", "processRequest", "doUpdateOrReplace", "doDelete"}}, {pkgUtilsPath, []string{"ExtractIndexNames", "FindPathFromModel"}}},
	})
}

// c12Roots: the RPC entry points (exported methods of the two servers) and the controllers.
func c12Roots(c *engine.Ctx) (entries []*engine.FuncInfo, ctl []*engine.FuncInfo) {
	for _, fi := range c.P.Funcs {
		n := fi.Name()
		switch {
		case strings.HasPrefix(n, "northbound/gnmi/v2.Server.") || strings.HasPrefix(n, "northbound/admin.Server."):
			if fi.Decl.Name.IsExported() {
				entries = append(entries, fi)
			}
		case strings.HasPrefix(n, "controller/v2/") && strings.HasSuffix(n, ".Reconciler.Reconcile"):
			ctl = append(ctl, fi)
		case strings.HasPrefix(n, "store/v2/") || strings.HasPrefix(n, "store/topo.") || strings.HasPrefix(n, "pluginregistry."):
			// reached through the Store / registry interfaces, which the static call graph does not resolve:
			// every method of the implementations counts as reachable from the controllers
			if fi.Decl.Recv != nil {
				ctl = append(ctl, fi)
			}
		}
	}
	sort.Slice(entries, func(i, j int) bool { return entries[i].Name() < entries[j].Name() })
	sort.Slice(ctl, func(i, j int) bool { return ctl[i].Name() < ctl[j].Name() })
	return
}

type c12Site struct {
	path *engine.Path
	idx  int
}

type c12Data struct {
	reachNB  map[string]bool // reachable from the RPC handlers
	reachAll map[string]bool // … or from the controllers
	paths    []*engine.Path
	byFunc   map[string]*engine.FuncInfo
}

func c12Collect(c *engine.Ctx, o *engine.Obl) *c12Data {
	d := &c12Data{reachNB: map[string]bool{}, reachAll: map[string]bool{}, byFunc: map[string]*engine.FuncInfo{}}
	for _, fi := range c.P.Funcs {
		d.byFunc[fi.Name()] = fi
	}
	entries, ctl := c12Roots(c)
	if len(entries) < 10 {
		o.Undecided("entries", fmt.Sprintf("only %d RPC entry points found", len(entries)))
	}
	for _, e := range entries {
		r, _ := c.P.Reach(e.Name())
		for f := range r {
			d.reachNB[f] = true
			d.reachAll[f] = true
		}
	}
	for _, e := range ctl {
		r, _ := c.P.Reach(e.Name())
		for f := range r {
			d.reachAll[f] = true
		}
	}
	byPkg := map[string][]string{}
	for f := range d.reachAll {
		fi := d.byFunc[f]
		if fi == nil {
			continue
		}
		rel := strings.TrimPrefix(fi.Pkg.PkgPath, engine.ModulePath+"/")
		byPkg[rel] = append(byPkg[rel], f)
	}
	var pkgs []string
	for p := range byPkg {
		pkgs = append(pkgs, p)
	}
	sort.Strings(pkgs)
	for _, rel := range pkgs {
		sort.Strings(byPkg[rel])
		ps, err := c.A.PathsOpt(rel, engine.PathOpts{Roots: byPkg[rel], Exact: true, NoInline: true, Sites: true, MaxPaths: 40000})
		if err != nil {
			o.Undecided(rel, err.Error())
			continue
		}
		d.paths = append(d.paths, ps...)
	}
	for f := range d.reachAll {
		if why, bad := c.A.Unsupported[f]; bad {
			o.Undecided(f, "function not enumerated: "+why)
		}
	}
	return d
}

func runC12(c *engine.Ctx, tier string) {
	o0 := c.Custom("C12.0", "reach", "the functions statically reachable from the RPC handlers and the controllers are enumerated with panic-site events", "")
	d := c12Collect(c, o0)
	o0.Res.Sites = len(d.reachAll)
	o0.Eval(len(d.paths))
	o0.Done(100)
	if os.Getenv("OCC_DEBUG_C12") != "" {
		c12Dump(c, d)
	}
	n := c12Deref(c, d)
	c12MapWrite(c, d, n)
	slashFact := c12StrPathShape(c)
	c12Sentinel(c, d, n, slashFact)
	c12ConstIndex(c, d, n)
	c12Tables(c, d)
	c12Regexp(c, d)
	c12NaN(c, d)
	c12WaitGroups(c, d)
	c12ErrPathDeref(c, d)
	c12NotOkUse(c, d)
	c12Narrowing(c, d)
	c12GoBeforeCheck(c)
	c12StreamTypestate(c)
	c12RelayAnswered(c)
	// C12.9: cancelling a request (every Set/rollback/watch handler leaves its store watch that way) must
	// not be able to panic the store: no close of a channel another goroutine may still send on
	for _, rel := range storePkgs {
		if rel != pkgStorePropV2 {
			publishedChannelClosed(c, "C12.9/"+strings.TrimPrefix(rel, "pkg/store/"), rel, 1)
		}
		// a second close, or a send after close, in a store goroutine takes the whole process down, where no
		// recovery interceptor of the request that caused it can catch it (seed C12-r52; the same clause is C15.4)
		channelTypestate(c, "C12.15/"+strings.TrimPrefix(rel, "pkg/store/"), rel)
	}
}

// c12ErrPathDeref: C12.8. A call that returns (value, error) returns a nil/zero value with a non-nil
// error (the stores return (nil, NotFound)); dereferencing the value on the path where the error was
// found non-nil panics. Decided per function on the enumerated paths: a deref site whose base is the
// value result of call C, under a path condition err(C) != nil.
func c12ErrPathDeref(c *engine.Ctx, d *c12Data) {
	o := c.Custom("C12.8", "nil(value of a failed call)", "in the functions reachable from the RPC handlers and the controllers, the value result of a call is not dereferenced on a path that assumed that call's error non-nil",
		"store and topo reads return (nil, NotFound); a reordering of the 'missing or present' and 'what to do' decisions dereferences the nil entry and the process dies in a controller, far from the request that caused it")
	defer o.Done(50)
	reported := map[string]bool{}
	sites := map[string]bool{}
	for _, p := range d.paths {
		for i := range p.Events {
			e := &p.Events[i]
			if e.Kind != engine.EvSite || e.SiteKind != "deref" {
				continue
			}
			x := stripVer(e.SiteX)
			if !strings.Contains(x, "(") && !strings.HasPrefix(x, "§") {
				continue
			}
			if k := c.P.Pos(e.Pos) + "|" + x; !sites[k] {
				sites[k] = true
				o.Site("")
			}
			o.Eval(1)
			for _, l := range append(append([]engine.Lit{}, engine.CondsBefore(p, i)...), e.SiteLocal...) {
				if !l.RNil || l.Mask != 5 || !strings.HasPrefix(l.L, "err(") || !strings.HasSuffix(l.L, ")") {
					continue
				}
				call := l.L[4 : len(l.L)-1]
				if x != call && !(strings.HasPrefix(x, call+".") && len(x) == len(call)+2 && x[len(x)-1] >= '0' && x[len(x)-1] <= '9') {
					continue
				}
				key := p.Root.Name() + "|" + types.ExprString(e.SiteExpr) + " dereferenced on the error path of the call that produced it"
				if reported[key] {
					continue
				}
				reported[key] = true
				o.Fail(&engine.Violation{Key: key, Pos: c.P.Pos(e.Pos), Func: p.Root.Name(),
					Msg:   types.ExprString(e.SiteExpr) + " is the value returned by " + c.Render(call) + " and is dereferenced on a path where that call's error is non-nil: the value is nil there",
					Found: engine.LitsString(engine.CondsBefore(p, i))})
			}
		}
	}
}

// c12NotOkUse: C12.14 (seed C12-r41). The value of a comma-ok lookup (`conn, ok := conns.Get(id)`) is not
// used as the receiver of a method call on a path that assumed ok false: it is the zero value there — for the
// interface values the lookups of this code base return, a nil interface, and the call panics (in the seed: in
// a goroutine of the handler, where no recovery interceptor can catch it).
func c12NotOkUse(c *engine.Ctx, d *c12Data) {
	o := c.Custom("C12.14", "nil(value of a failed lookup)", "in the functions reachable from the RPC handlers and the controllers (goroutine literals included), no method is called on the value of a comma-ok call on a path that assumed its ok result false",
		"a lookup that misses returns the zero value: calling through it crashes the process")
	defer o.Done(5)
	reported := map[string]bool{}
	sites := map[string]bool{}
	for _, p := range d.paths {
		for i := range p.Events {
			e := &p.Events[i]
			if e.Kind != engine.EvCall || e.Recv == "" {
				continue
			}
			x := stripVer(strings.TrimSuffix(strings.TrimPrefix(e.Recv, "{"), "}"))
			if !strings.HasPrefix(x, "§") && !strings.Contains(x, "(") {
				continue
			}
			if k := c.P.Pos(e.Pos) + "|" + x; !sites[k] {
				sites[k] = true
				o.Site("")
			}
			o.Eval(1)
			for _, l := range engine.CondsBefore(p, i) {
				if l.L != "ok("+x+")" || l.R != "true" || l.Mask != 5 {
					continue
				}
				key := p.Root.Name() + "|method called on the value of a lookup that missed: " + e.CalleeName
				if reported[key] {
					continue
				}
				reported[key] = true
				o.Fail(&engine.Violation{Key: key, Pos: c.P.Pos(e.Pos), Func: p.Root.Name(),
					Msg:   e.CalleeName + " is called on " + c.Render(x) + " on a path on which the lookup that produced it reported ok == false: the value is the zero value (a nil interface) there",
					Found: engine.LitsString(engine.CondsBefore(p, i))})
			}
		}
	}
}

func c12Dump(c *engine.Ctx, d *c12Data) {
	seen := map[string]bool{}
	for _, p := range d.paths {
		for i := range p.Events {
			e := &p.Events[i]
			if e.Kind != engine.EvSite {
				continue
			}
			key := fmt.Sprintf("%s %s %s X=%s idx=%v type=%s", c.P.Pos(e.Pos), e.SiteKind, p.Root.Name(), e.SiteX, e.SiteIdx, e.SiteType)
			if !seen[key] {
				seen[key] = true
				fmt.Println(key)
			}
		}
	}
}

var _ ast.Node

func regexpMust(s string) *regexp.Regexp { return regexp.MustCompile(s) }

// ---- C12.1: dereference of wire-nullable pointers

var msgLabels = []string{"gnmi.", "gnmi_ext.", "config/v2.", "config/v3.", "admin.", "topo."}

func isMsgLabel(s string) bool {
	s = strings.TrimPrefix(s, "*")
	for _, l := range msgLabels {
		if strings.HasPrefix(s, l) {
			return true
		}
	}
	return false
}

// isOneofWrapper: gnmi.TypedValue_DecimalVal.DecimalVal — set by the decoder together with the case.
func isOneofWrapperField(field string) bool {
	parts := strings.Split(field, ".")
	if len(parts) < 3 {
		return false
	}
	typ := parts[len(parts)-2]
	return strings.Contains(typ, "_") && strings.HasSuffix(typ, "_"+parts[len(parts)-1])
}

var getterRe = regexpMust(`\.Get[A-Z]\w*\(\)$`)

type c12Null struct {
	c        *engine.Ctx
	d        *c12Data
	nilField map[string]string // module field id -> position of a nil assignment
	entries  map[string]bool
	calls    map[*types.Func][]c12Site
	memo     map[string]string // func|param index -> "" (non-nil) or witness
	busy     map[string]bool
}

func newC12Null(c *engine.Ctx, d *c12Data) *c12Null {
	n := &c12Null{c: c, d: d, nilField: map[string]string{}, entries: map[string]bool{}, calls: map[*types.Func][]c12Site{}, memo: map[string]string{}, busy: map[string]bool{}}
	for _, fw := range c.P.FieldWrites() {
		if fw.RHS == "nil" && !fw.Test && !isMsgLabel(fw.Field) {
			n.nilField[fw.Field] = fw.Pos
		}
	}
	es, _ := c12Roots(c)
	for _, e := range es {
		n.entries[e.Name()] = true
	}
	for _, p := range d.paths {
		for i := range p.Events {
			if e := &p.Events[i]; e.Kind == engine.EvCall && e.Callee != nil {
				n.calls[e.Callee] = append(n.calls[e.Callee], c12Site{p, i})
			}
		}
	}
	return n
}

// source classifies a pointer-typed canonical value; "" = not a nullable source.
// ctxFn is the function the value lives in.
func (n *c12Null) source(canon, typ, field string, ctxFn *engine.FuncInfo) string {
	if !strings.HasPrefix(typ, "*") && !strings.HasPrefix(typ, "map[") {
		return ""
	}
	r := n.c.P.Render(canon, nil)
	if r == "nil" {
		return "the nil literal"
	}
	// locally built values
	if strings.HasPrefix(r, "&") || strings.HasPrefix(r, "new(") || strings.HasPrefix(r, "make(") {
		return ""
	}
	if getterRe.MatchString(r) && isMsgLabel(typ) {
		// getter of a message: nil when the optional field is absent
		if i := strings.LastIndex(r, "}"); i >= 0 && isMsgLabel(r[i+1:]) && n.wireRooted(r, ctxFn) {
			return "result of the getter " + r[i+1:]
		}
	}
	if field != "" && !strings.HasSuffix(field, "[]") {
		if isMsgLabel(field) {
			if isOneofWrapperField(field) || !n.wireRooted(r, ctxFn) {
				return ""
			}
			return "optional message field " + field
		}
		if pos, ok := n.nilField[field]; ok {
			return "field " + field + " (assigned nil at " + pos + ")"
		}
		return ""
	}
	if strings.HasSuffix(field, "[]") && isMsgLabel(field) && n.wireRooted(r, ctxFn) && strings.HasPrefix(typ, "*") {
		return "element of the message map " + strings.TrimSuffix(field, "[]") + " (a key without value decodes to a nil element)"
	}
	// a parameter of this function
	if strings.HasPrefix(r, "$") && !strings.ContainsAny(r, ".[(") && ctxFn != nil {
		return n.param(ctxFn, r)
	}
	// an element of a map parameter that some caller feeds with a message map
	if strings.HasPrefix(r, "$") && strings.HasSuffix(r, "]") && ctxFn != nil && strings.HasPrefix(typ, "*") {
		tok := rootToken(r)
		if strings.HasPrefix(r[len(tok):], "[") && !strings.Contains(r[len(tok):], "].") {
			if idx, _ := paramIndex(ctxFn, tok); idx >= 0 {
				for _, cs := range n.calls[ctxFn.Obj] {
					e := &cs.path.Events[cs.idx]
					if idx < len(e.ArgExprs) {
						if f := engine.FieldID(cs.path.Root.Pkg.TypesInfo, e.ArgExprs[idx]); f != "" && isMsgLabel(f) {
							return "element of the message map " + f + " passed by " + cs.path.Root.Name() + " (a key without value decodes to a nil element)"
						}
					}
				}
			}
		}
	}
	return ""
}

// rootToken returns the leading "$name" token of an access path (after elem(/key(/receiver wrappers).
func rootToken(r string) string {
	for {
		switch {
		case strings.HasPrefix(r, "elem("):
			r = r[5:]
		case strings.HasPrefix(r, "key("):
			r = r[4:]
		case strings.HasPrefix(r, "{"), strings.HasPrefix(r, "("), strings.HasPrefix(r, "*"):
			r = r[1:]
		default:
			if !strings.HasPrefix(r, "$") {
				return ""
			}
			end := len(r)
			for i, ch := range r {
				if i > 0 && !(ch == '_' || ch == '\'' || ch >= '0' && ch <= '9' || ch >= 'a' && ch <= 'z' || ch >= 'A' && ch <= 'Z') {
					end = i
					break
				}
			}
			return r[:end]
		}
	}
}

// paramIndex resolves a root token ($name, $Type, $Type'2) to the parameter index and type.
func paramIndex(fn *engine.FuncInfo, tok string) (int, types.Type) {
	if fn == nil || fn.Decl.Type.Params == nil || tok == "" {
		return -1, nil
	}
	base, ord := tok, 1
	if i := strings.Index(tok, "'"); i >= 0 {
		base = tok[:i]
		fmt.Sscan(tok[i+1:], &ord)
	}
	k, seen := 0, 0
	byName := -1
	var byNameT types.Type
	for _, f := range fn.Decl.Type.Params.List {
		for _, nm := range f.Names {
			obj := fn.Pkg.TypesInfo.Defs[nm]
			if obj != nil && obj.Type().String() == "context.Context" {
				continue // call events do not list context arguments
			}
			if obj != nil {
				if "$"+nm.Name == tok {
					byName, byNameT = k, obj.Type()
				}
				if "$"+namedOf(obj.Type()) == base {
					seen++
					if seen == ord {
						return k, obj.Type()
					}
				}
			}
			k++
		}
	}
	return byName, byNameT
}

// wireRooted: the access path starts at a parameter of message type (a decoded request or a part of it).
func (n *c12Null) wireRooted(r string, fn *engine.FuncInfo) bool {
	idx, t := paramIndex(fn, rootToken(r))
	return idx >= 0 && t != nil && isMsgLabel(engine.TypeLabel(t))
}

// param decides whether the parameter named by canon ($Type or $name) of fn can be nil: some call
// site in the reachable code passes a nullable value without a dominating test.
func (n *c12Null) param(fn *engine.FuncInfo, canon string) string {
	if n.entries[fn.Name()] {
		return "" // gRPC hands the handler a decoded, non-nil request
	}
	idx, _ := paramIndex(fn, canon)
	if idx < 0 {
		return ""
	}
	key := fmt.Sprintf("%s|%d", fn.Name(), idx)
	if v, ok := n.memo[key]; ok {
		return v
	}
	if n.busy[key] {
		return ""
	}
	n.busy[key] = true
	defer delete(n.busy, key)
	res := ""
	for _, cs := range n.calls[fn.Obj] {
		e := &cs.path.Events[cs.idx]
		if idx >= len(e.Args) {
			continue
		}
		a := e.Args[idx]
		typ, field := "", ""
		if idx < len(e.ArgExprs) {
			info := cs.path.Root.Pkg.TypesInfo
			if t := info.TypeOf(e.ArgExprs[idx]); t != nil {
				typ = typeLabelOf(t)
			}
			field = engine.FieldID(info, e.ArgExprs[idx])
		}
		src := n.source(a, typ, field, cs.path.Root)
		if src == "" {
			continue
		}
		if n.nonNil(cs.path, cs.idx, a, nil) {
			continue
		}
		res = "parameter fed by " + cs.path.Root.Name() + " (" + n.c.P.Pos(e.Pos) + ") with " + src
		break
	}
	n.memo[key] = res
	return res
}

func namedOf(t types.Type) string {
	if p, ok := t.(*types.Pointer); ok {
		t = p.Elem()
	}
	if nt, ok := t.(*types.Named); ok {
		return nt.Obj().Name()
	}
	return ""
}

func typeLabelOf(t types.Type) string { return engine.TypeLabel(t) }

// nonNil: the conditions in scope before event idx (plus local) entail canon != nil.
func (n *c12Null) nonNil(p *engine.Path, idx int, canon string, local []engine.Lit) bool {
	conds := append(append([]engine.Lit{}, engine.CondsBefore(p, idx)...), local...)
	want := engine.FLit{Lit: engine.Lit{L: canon, R: "nil", RNil: true, Mask: 5}}
	if engine.Entails(conds, want, n.c.P.Domain) {
		return true
	}
	// the value was assigned a fresh allocation on this path (x = &T{}, make)
	return false
}

func c12Deref(c *engine.Ctx, d *c12Data) *c12Null {
	o := c.Custom("C12.1", "K-guard(wire-nullable dereference)", "every field read through a pointer that can be nil for a decodable request is dominated by a non-nil test of that pointer",
		"an absent optional field decodes to nil; there is no recovery interceptor, so one nil dereference in a handler ends the process")
	defer o.Done(15)
	n := newC12Null(c, d)
	reported := map[string]bool{}
	sites := map[string]bool{}
	for _, p := range d.paths {
		if !d.reachNB[p.Root.Name()] {
			continue
		}
		for i := range p.Events {
			e := &p.Events[i]
			if e.Kind != engine.EvSite || e.SiteKind != "deref" {
				continue
			}
			src := n.source(e.SiteX, e.SiteType, e.SiteField, p.Root)
			if src == "" {
				continue
			}
			skey := c.P.Pos(e.Pos) + "|" + e.SiteX
			if !sites[skey] {
				sites[skey] = true
				o.Site(c.P.Pos(e.Pos) + " " + types.ExprString(e.SiteExpr) + " in " + p.Root.Name() + ": " + src)
			}
			o.Eval(1)
			if n.nonNil(p, i, e.SiteX, e.SiteLocal) {
				continue
			}
			if p.Lit == nil && n.guardedByCallers(p.Root, e.SiteX, 0) {
				continue
			}
			key := p.Root.Name() + "|" + types.ExprString(e.SiteExpr) + " dereferenced without a nil test"
			if reported[key+c.P.Pos(e.Pos)] {
				continue
			}
			reported[key+c.P.Pos(e.Pos)] = true
			o.Fail(&engine.Violation{Key: key, Pos: c.P.Pos(e.Pos), Func: p.Root.Name(),
				Msg:   types.ExprString(e.SiteExpr) + " can be nil (" + src + ") and is dereferenced on a path that does not test it",
				Found: engine.LitsString(engine.CondsBefore(p, i))})
		}
	}
	return n
}

// ---- C12.2: writes into maps that decode (or load) as nil when empty

// mapNonNil: going through the events in scope before idx, the last thing the path learnt about the
// map (ignoring element writes, which start a new version of the collection but cannot make it nil)
// is a non-nil test or the assignment of a fresh map.
func mapNonNil(p *engine.Path, idx int, canon string, local []engine.Lit) bool {
	base := stripVer(canon)
	state := false
	for _, e := range engine.EventsBefore(p, idx) {
		switch e.Kind {
		case engine.EvCond:
			if e.Lit.RNil && stripVer(e.Lit.L) == base {
				state = e.Lit.Mask == 5
			}
		case engine.EvWrite:
			if e.LHS == base {
				state = strings.HasPrefix(e.RHS, "make(") || strings.HasPrefix(e.RHS, "map[") || strings.HasPrefix(e.RHS, "&")
			}
		}
	}
	for _, l := range local {
		if l.RNil && stripVer(l.L) == base {
			state = l.Mask == 5
		}
	}
	return state
}

func c12MapWrite(c *engine.Ctx, d *c12Data, n *c12Null) {
	o := c.Custom("C12.2", "K-guard(nil-map write)", "every indexed write into a map that is a field of a protobuf message (decoded from the request, or loaded from a store: empty maps come back nil) is dominated by a non-nil test or by an allocation of that map",
		"an assignment to an entry of a nil map panics")
	defer o.Done(2)
	reported := map[string]bool{}
	sites := map[string]bool{}
	for _, p := range d.paths {
		if !d.reachNB[p.Root.Name()] {
			continue
		}
		for i := range p.Events {
			e := &p.Events[i]
			if e.Kind != engine.EvSite || e.SiteKind != "mapwrite" || e.SiteField == "" || !isMsgLabel(e.SiteField) {
				continue
			}
			r := c.P.Render(e.SiteX, nil)
			if strings.Contains(rootOf(r), "@") || strings.HasPrefix(r, "make(") || strings.HasPrefix(r, "&") {
				continue // a message built by this function
			}
			skey := c.P.Pos(e.Pos) + "|" + stripVer(e.SiteX)
			if !sites[skey] {
				sites[skey] = true
				o.Site(c.P.Pos(e.Pos) + " " + types.ExprString(e.SiteExpr) + "[…] = … in " + p.Root.Name() + " (" + e.SiteField + ")")
			}
			o.Eval(1)
			if mapNonNil(p, i, e.SiteX, e.SiteLocal) {
				continue
			}
			if p.Lit == nil && n.mapGuardedByCallers(p.Root, stripVer(e.SiteX), 0) {
				continue
			}
			key := p.Root.Name() + "|write into " + types.ExprString(e.SiteExpr) + " without a nil test or allocation"
			if reported[key] {
				continue
			}
			reported[key] = true
			o.Fail(&engine.Violation{Key: key, Pos: c.P.Pos(e.Pos), Func: p.Root.Name(),
				Msg:   types.ExprString(e.SiteExpr) + " (" + e.SiteField + ") is nil when the message carries no entries; the write panics on a path that neither tests nor allocates it",
				Found: engine.LitsString(engine.CondsBefore(p, i))})
		}
	}
}

func stripVer(s string) string {
	if i := strings.LastIndex(s, "#"); i >= 0 && !strings.ContainsAny(s[i:], ".[(") {
		return s[:i]
	}
	return s
}

func rootOf(r string) string {
	for i, ch := range r {
		if ch == '.' || ch == '[' {
			return r[:i]
		}
	}
	return r
}

func (n *c12Null) mapGuardedByCallers(fn *engine.FuncInfo, canon string, depth int) bool {
	if depth > 3 || n.entries[fn.Name()] {
		return false
	}
	tok := rootToken(canon)
	idx, _ := paramIndex(fn, tok)
	if idx < 0 {
		return false
	}
	sites := n.calls[fn.Obj]
	if len(sites) == 0 {
		return false
	}
	for _, cs := range sites {
		e := &cs.path.Events[cs.idx]
		if idx >= len(e.Args) {
			return false
		}
		sub := substRoot(canon, tok, e.Args[idx])
		if mapNonNil(cs.path, cs.idx, sub, nil) {
			continue
		}
		if cs.path.Lit == nil && n.mapGuardedByCallers(cs.path.Root, sub, depth+1) {
			continue
		}
		return false
	}
	return true
}

// guardedByCallers: the value (an access path rooted at a parameter of fn) is tested non-nil before
// every call of fn in the reachable code, or in the callers' callers.
func (n *c12Null) guardedByCallers(fn *engine.FuncInfo, canon string, depth int) bool {
	if depth > 3 || n.entries[fn.Name()] {
		return false
	}
	tok := rootToken(canon)
	idx, _ := paramIndex(fn, tok)
	if idx < 0 {
		return false
	}
	sites := n.calls[fn.Obj]
	if len(sites) == 0 {
		return false
	}
	for _, cs := range sites {
		e := &cs.path.Events[cs.idx]
		if idx >= len(e.Args) {
			return false
		}
		sub := substRoot(canon, tok, e.Args[idx])
		if n.nonNil(cs.path, cs.idx, sub, nil) {
			continue
		}
		if cs.path.Lit == nil && n.guardedByCallers(cs.path.Root, sub, depth+1) {
			continue
		}
		return false
	}
	return true
}

// substRoot replaces the root token of an access path by the caller's argument.
func substRoot(canon, tok, arg string) string {
	var b strings.Builder
	for i := 0; i < len(canon); {
		if strings.HasPrefix(canon[i:], tok) {
			j := i + len(tok)
			if j == len(canon) || !(canon[j] == '_' || canon[j] == '\'' || canon[j] >= '0' && canon[j] <= '9' || canon[j] >= 'a' && canon[j] <= 'z' || canon[j] >= 'A' && canon[j] <= 'Z') {
				b.WriteString(arg)
				i = j
				continue
			}
		}
		b.WriteByte(canon[i])
		i++
	}
	return b.String()
}

// ---- C12.3: slice bounds and indexes computed from a search result or from len-1

var sentinelRe = regexpMust(`(strings|bytes)\.(Index|LastIndex|IndexByte|LastIndexByte|IndexRune|IndexAny|LastIndexAny)\(`)

// sentinelCalls returns the balanced call texts of the search calls inside a canonical expression.
func sentinelCalls(s string) []string {
	var out []string
	for _, loc := range sentinelRe.FindAllStringIndex(s, -1) {
		depth, end := 0, -1
		for i := loc[1] - 1; i < len(s); i++ {
			switch s[i] {
			case '(':
				depth++
			case ')':
				depth--
				if depth == 0 {
					end = i + 1
				}
			}
			if end >= 0 {
				break
			}
		}
		if end > 0 {
			out = append(out, s[loc[0]:end])
		}
	}
	return out
}

// callArgs splits "pkg.F(a,b)" into its top-level arguments.
func callArgs(call string) []string {
	i := strings.Index(call, "(")
	if i < 0 || !strings.HasSuffix(call, ")") {
		return nil
	}
	body := call[i+1 : len(call)-1]
	var args []string
	depth, start := 0, 0
	inStr := byte(0)
	for k := 0; k < len(body); k++ {
		ch := body[k]
		if inStr != 0 {
			if ch == '\\' {
				k++
			} else if ch == inStr {
				inStr = 0
			}
			continue
		}
		switch ch {
		case '"', '`':
			inStr = ch
		case '(', '[', '{':
			depth++
		case ')', ']', '}':
			depth--
		case ',':
			if depth == 0 {
				args = append(args, strings.TrimSpace(body[start:k]))
				start = k + 1
			}
		}
	}
	return append(args, strings.TrimSpace(body[start:]))
}

func sentinelTested(conds []engine.Lit, call string) bool {
	args := callArgs(call)
	for _, l := range conds {
		if strings.Contains(l.L, call) || strings.Contains(l.R, call) {
			return true // the result itself is compared with something
		}
		// strings.Contains / HasPrefix / HasSuffix of the same operands holds
		if l.R == "true" && l.Mask == 2 && len(args) == 2 {
			for _, f := range []string{"strings.Contains(", "strings.HasPrefix(", "strings.HasSuffix(", "strings.ContainsRune(", "strings.ContainsAny(", "bytes.Contains("} {
				if strings.HasPrefix(l.L, f) {
					if a := callArgs(l.L); len(a) == 2 && a[0] == args[0] && a[1] == args[1] {
						return true
					}
				}
			}
		}
	}
	return false
}

func c12Sentinel(c *engine.Ctx, d *c12Data, n *c12Null, slashFact bool) {
	o := c.Custom("C12.3", "K-guard(sentinel index)", "a slice bound or index computed from strings.Index/LastIndex (−1 when absent) is dominated by a test of that result or by a Contains/HasPrefix/HasSuffix test of the same operands; an index len(x)−1 is dominated by a non-empty test of x",
		"request text decides whether the separator is there: x[:−1] and x[−1] panic")
	defer o.Done(6)
	reported := map[string]bool{}
	sites := map[string]bool{}
	for _, p := range d.paths {
		for i := range p.Events {
			e := &p.Events[i]
			if e.Kind != engine.EvSite || (e.SiteKind != "index" && e.SiteKind != "slice") {
				continue
			}
			conds := append(append([]engine.Lit{}, engine.CondsBefore(p, i)...), e.SiteLocal...)
			for _, ix := range e.SiteIdx {
				for _, call := range sentinelCalls(ix) {
					skey := c.P.Pos(e.Pos) + "|" + call
					if !sites[skey] {
						sites[skey] = true
						o.Site(c.P.Pos(e.Pos) + " " + types.ExprString(e.Node.(ast.Expr)) + " in " + p.Root.Name())
					}
					o.Eval(1)
					if sentinelTested(conds, call) {
						continue
					}
					if a := callArgs(call); slashFact && len(a) == 2 && a[1] == "\"/\"" && beginsWithSlash(c.P.Render(a[0], nil)) {
						continue // C12.3b: the searched text begins with the separator
					}
					key := p.Root.Name() + "|" + types.ExprString(e.Node.(ast.Expr)) + " uses an untested search result"
					if !reported[key] {
						reported[key] = true
						o.Fail(&engine.Violation{Key: key, Pos: c.P.Pos(e.Pos), Func: p.Root.Name(),
							Msg:   "the bound " + c.P.Render(ix, nil) + " is −1 when the separator is absent, and no condition on this path tests it",
							Found: engine.LitsString(conds)})
					}
				}
				// len(x)-1
				want := "(len(" + e.SiteX + ") - 1)"
				if ix == want && e.SiteKind == "index" {
					skey := c.P.Pos(e.Pos) + "|len-1"
					if !sites[skey] {
						sites[skey] = true
						o.Site(c.P.Pos(e.Pos) + " " + types.ExprString(e.Node.(ast.Expr)) + " in " + p.Root.Name())
					}
					o.Eval(1)
					nonEmpty := engine.FLit{Lit: engine.Lit{L: "len(" + e.SiteX + ")", R: "0", RConst: constant.MakeInt64(0), Mask: 5}}
					if engine.Entails(conds, nonEmpty, c.P.Domain) || producesNonEmpty(e.SiteX) {
						continue
					}
					key := p.Root.Name() + "|" + types.ExprString(e.Node.(ast.Expr)) + " indexes len-1 of a possibly empty slice"
					if !reported[key] {
						reported[key] = true
						o.Fail(&engine.Violation{Key: key, Pos: c.P.Pos(e.Pos), Func: p.Root.Name(),
							Msg:   c.P.Render(e.SiteX, nil) + " can be empty on this path; index len-1 is −1",
							Found: engine.LitsString(conds)})
					}
				}
			}
		}
	}
}

// producesNonEmpty: strings.Split never returns an empty slice for a non-empty separator.
func producesNonEmpty(x string) bool {
	return strings.HasPrefix(x, "strings.Split(") && !strings.HasSuffix(x, ",\"\")")
}

// beginsWithSlash: a utils.StrPath result, or a "%s%s" concatenation that starts with one.
func beginsWithSlash(x string) bool {
	x = strings.TrimPrefix(strings.TrimSuffix(x, "⟩"), "⟨")
	if strings.HasPrefix(x, "utils.StrPath(") {
		return true
	}
	if strings.HasPrefix(x, "fmt.Sprintf(\"%s%s\",") {
		a := callArgs(x)
		return len(a) == 3 && beginsWithSlash(a[1])
	}
	return false
}

// c12StrPathShape: C12.3b. utils.StrPath returns a string that begins with '/'.
func c12StrPathShape(c *engine.Ctx) bool {
	o := c.Custom("C12.3b", "helper shape(StrPath)", "every return of utils.StrPath is \"/\", strPathV03 (\"/\" + …) or strPathV04 under len(Elem) != 0, whose StrPathElem writes '/' first in every iteration into a fresh builder",
		"doDelete cuts the last element off at strings.LastIndex(path, \"/\") without testing it: sound only because every path string begins with '/'")
	defer o.Done(4)
	ps, err := c.A.PathsOpt("pkg/utils", engine.PathOpts{Roots: []string{"utils.StrPath", "utils.StrPathElem", "utils.strPathV03", "utils.strPathV04"}, Exact: true, NoInline: true})
	if err != nil {
		o.Undecided("pkg/utils", err.Error())
		return false
	}
	ok := true
	bad := func(p *engine.Path, pos, msg string) {
		ok = false
		o.Fail(&engine.Violation{Key: p.Root.Name() + "|" + msg, Pos: pos, Func: p.Root.Name(), Msg: msg})
	}
	seen := map[string]bool{}
	for _, p := range ps {
		name := p.Root.Name()
		seen[name] = true
		o.Eval(1)
		var ret *engine.Event
		for i := range p.Events {
			if p.Events[i].Kind == engine.EvReturn {
				ret = &p.Events[i]
			}
		}
		if ret == nil || len(ret.Results) != 1 {
			continue
		}
		r := ret.Results[0]
		pos := c.P.Pos(ret.Pos)
		switch name {
		case "utils.StrPath":
			o.Site(pos + " return " + r)
			switch {
			case r == "\"/\"":
			case r == "utils.strPathV03($Path)":
			case r == "utils.strPathV04($Path)":
				want := engine.FLit{Lit: engine.Lit{L: "len($Path.Elem)", R: "0", RConst: constant.MakeInt64(0), Mask: 5}}
				if !engine.Entails(engine.CondsBefore(p, len(p.Events)-1), want, c.P.Domain) {
					bad(p, pos, "strPathV04 is reached without len(path.Elem) != 0: an empty element list renders as the empty string")
				}
			default:
				bad(p, pos, "StrPath returns "+r+", which is not known to begin with '/'")
			}
		case "utils.strPathV03":
			o.Site(pos + " return " + r)
			if !strings.HasPrefix(r, "(\"/\" + ") {
				bad(p, pos, "strPathV03 returns "+r+", which does not begin with \"/\" +")
			}
		case "utils.strPathV04":
			o.Site(pos + " return " + r)
			if r != "utils.StrPathElem($Path.Elem)" {
				bad(p, pos, "strPathV04 returns "+r)
			}
		case "utils.StrPathElem":
			// the first call after entering the element loop writes '/' into the builder that is returned
			for i := range p.Events {
				if p.Events[i].Kind == engine.EvLoopEnter && p.Events[i].Range == "$pathElem" {
					for j := i + 1; j < len(p.Events); j++ {
						if e := &p.Events[j]; e.Kind == engine.EvCall {
							o.Site(c.P.Pos(e.Pos) + " first write of an iteration")
							if e.CalleeName != "strings.Builder.WriteRune" || len(e.Args) != 1 || e.Args[0] != "'/'" || !strings.HasPrefix(r, "{"+e.Recv+"}") {
								bad(p, c.P.Pos(e.Pos), "the first write of an element iteration is not WriteRune('/') into the returned builder")
							}
							break
						} else if e.Kind == engine.EvLoopExit {
							break
						}
					}
					break
				}
			}
		}
	}
	for _, f := range []string{"utils.StrPath", "utils.StrPathElem", "utils.strPathV03", "utils.strPathV04"} {
		if !seen[f] {
			o.Undecided(f, "function not found")
			ok = false
		}
	}
	return ok
}

// ---- C12.4/5: frozen tables of explicit panics and single-value type assertions

// reviewed sites: function -> reason. Anything else reachable is reported.
var c12AssertOK = map[string]string{
	"controller/v2/configuration.Reconciler.Reconcile": "id.Value is the ConfigurationID this controller's own watcher and partitioner put into the ID (controller.NewID(config.ID))",
	"controller/v2/mastership.Reconciler.Reconcile":    "id.Value is the ConfigurationID the mastership watchers enqueue",
	"controller/v2/proposal.Reconciler.Reconcile":      "id.Value is the ProposalID the proposal watchers enqueue",
	"controller/v2/transaction.Reconciler.Reconcile":   "id.Value is the Index the transaction watchers enqueue",
	"northbound/gnmi/v2.getGNMIServiceVersion":         "asserts the type of the gNMI proto descriptor's own extension; does not depend on the request (runs on a constant descriptor)",
}

func c12Tables(c *engine.Ctx, d *c12Data) {
	o := c.Custom("C12.5", "K-table(assertions, panics)", "no panic() call and no single-value type assertion is reachable from the handlers or the controllers outside the reviewed table",
		"x.(T) panics when the dynamic type differs; panic() ends the process")
	defer o.Done(5)
	seen := map[string]bool{}
	for _, p := range d.paths {
		for i := range p.Events {
			e := &p.Events[i]
			switch {
			case e.Kind == engine.EvSite && e.SiteKind == "assert":
				k := c.P.Pos(e.Pos)
				if seen[k] {
					continue
				}
				seen[k] = true
				o.Site(k + " " + types.ExprString(e.Node.(ast.Expr)) + " in " + p.Root.Name())
				o.Eval(1)
				if _, ok := c12AssertOK[p.Root.Name()]; !ok {
					o.Fail(&engine.Violation{Key: p.Root.Name() + "|single-value type assertion " + types.ExprString(e.Node.(ast.Expr)), Pos: k, Func: p.Root.Name(),
						Msg: "a single-value type assertion is reachable from a handler or controller and is not in the reviewed table: it panics when the dynamic type differs"})
				}
			case e.Kind == engine.EvCall && e.CalleeName == "panic":
				k := c.P.Pos(e.Pos)
				if seen[k] {
					continue
				}
				seen[k] = true
				o.Site(k + " panic in " + p.Root.Name())
				o.Eval(1)
				o.Fail(&engine.Violation{Key: p.Root.Name() + "|explicit panic", Pos: k, Func: p.Root.Name(),
					Msg: "an explicit panic() is reachable from a handler or controller"})
			}
		}
	}
	// the table must not rot: every entry still names a reachable function with an assertion
	for f := range c12AssertOK {
		found := false
		for k := range seen {
			_ = k
		}
		for _, p := range d.paths {
			if p.Root.Name() == f {
				found = true
			}
		}
		if !found {
			o.Undecided(f, "reviewed-table entry names a function that is no longer enumerated")
		}
	}
}

// ---- C12.4: regexp.MustCompile

func c12Regexp(c *engine.Ctx, d *c12Data) {
	o := c.Custom("C12.4", "K-dataflow(regexp text)", "in the functions reachable from the handlers regexp.MustCompile is reached only with text that has no non-constant part (request text is quoted with regexp.QuoteMeta and compiled with regexp.Compile, whose error is answered)",
		"MustCompile panics on an expression that does not parse; the query text is request text")
	defer o.Done(2)
	seen := map[string]bool{}
	for _, p := range d.paths {
		for i := range p.Events {
			e := &p.Events[i]
			if e.Kind != engine.EvCall || e.CalleeName != "regexp.MustCompile" || len(e.Args) != 1 {
				continue
			}
			k := c.P.Pos(e.Pos)
			arg := c.P.Render(e.Args[0], nil)
			if !seen[k] {
				seen[k] = true
				o.Site(k + " MustCompile(" + arg + ") in " + p.Root.Name())
			}
			o.Eval(1)
			if free := unquotedParts(arg); len(free) > 0 {
				o.Fail(&engine.Violation{Key: p.Root.Name() + "|MustCompile on unquoted text", Pos: k, Func: p.Root.Name(),
					Msg: "the expression " + arg + " contains " + strings.Join(free, ", ") + " outside regexp.QuoteMeta: request text that is not a valid expression panics"})
			} else if free := unquotedParts(strings.ReplaceAll(arg, "regexp.QuoteMeta", "regexp.quoteMeta")); len(free) > 0 {
				// quoted, but the size of the expression still follows the request: the regexp package refuses
				// expressions above its size limit and MustCompile panics on that refusal too
				o.Fail(&engine.Violation{Key: p.Root.Name() + "|MustCompile on request-sized text", Pos: k, Func: p.Root.Name(),
					Msg: "the expression " + arg + " is built from " + strings.Join(free, ", ") + ": its size follows the request and regexp refuses expressions above its size limit (\"expression too large\"), which MustCompile turns into a panic; request text is compiled with regexp.Compile and the error answered"})
			}
		}
	}
}

// unquotedParts lists the variable leaves ($param, ?unknown, ^free, §symbol) of a canonical
// expression that are not inside a regexp.QuoteMeta(…) call.
func unquotedParts(s string) []string {
	var out []string
	depthQuoted := -1
	depth := 0
	inStr := byte(0)
	for i := 0; i < len(s); i++ {
		ch := s[i]
		if inStr != 0 {
			if ch == '\\' {
				i++
			} else if ch == inStr {
				inStr = 0
			}
			continue
		}
		switch ch {
		case '"', '`':
			inStr = ch
		case '(':
			depth++
			if depthQuoted < 0 && strings.HasSuffix(s[:i], "regexp.QuoteMeta") {
				depthQuoted = depth
			}
		case ')':
			if depth == depthQuoted {
				depthQuoted = -1
			}
			depth--
		case '$', '?', '^':
			if depthQuoted < 0 {
				j := i + 1
				for j < len(s) && (s[j] == '_' || s[j] == '@' || s[j] >= '0' && s[j] <= '9' || s[j] >= 'a' && s[j] <= 'z' || s[j] >= 'A' && s[j] <= 'Z') {
					j++
				}
				if j > i+1 {
					out = append(out, s[i:j])
				}
				i = j - 1
			}
		}
	}
	return engine.SortedUnique(out)
}

// ---- C12.6: NaN

func c12NaN(c *engine.Ctx, d *c12Data) {
	o := c.Custom("C12.6", "K-guard(NaN, Inf)", "a float taken from a request (a FloatVal of a TypedValue) reaches NewTypedValueFloat, or is appended to the list NewLeafListFloatTv is built from, only under failed math.IsNaN and math.IsInf tests of the same value",
		"big.NewFloat panics on NaN; NaN and the infinities cannot be rendered in the JSON document of the candidate configuration, the validation step then errors for ever and the Set is never answered")
	defer o.Done(2)
	seen := map[string]bool{}
	for _, p := range d.paths {
		for i := range p.Events {
			e := &p.Events[i]
			if e.Kind != engine.EvCall {
				continue
			}
			val := ""
			switch {
			case strings.HasSuffix(e.CalleeName, ".NewTypedValueFloat") && len(e.Args) == 1:
				val = e.Args[0]
			case e.CalleeName == "append" && len(e.Args) == 2 && strings.HasSuffix(e.Args[1], ".(*gnmi.TypedValue_FloatVal).FloatVal"):
				val = e.Args[1]
			default:
				continue
			}
			if strings.HasPrefix(p.Root.Name(), "utils/v3/") {
				continue
			}
			k := c.P.Pos(e.Pos)
			if !seen[k] {
				seen[k] = true
				o.Site(k + " " + e.CalleeName + "(" + val + ") in " + p.Root.Name())
			}
			o.Eval(1)
			f64 := val
			if !strings.HasPrefix(f64, "float64(") {
				f64 = "float64(" + val + ")"
			}
			nan, inf := false, false
			for _, l := range engine.CondsBefore(p, i) {
				if (l.L == "math.IsNaN("+val+")" || l.L == "math.IsNaN("+f64+")") && l.R == "true" && l.Mask == 5 {
					nan = true
				}
				if (l.L == "math.IsInf("+val+",0)" || l.L == "math.IsInf("+f64+",0)") && l.R == "true" && l.Mask == 5 {
					inf = true
				}
			}
			if !nan || !inf {
				what := "NaN"
				if nan {
					what = "Inf"
				}
				o.Fail(&engine.Violation{Key: p.Root.Name() + "|" + e.CalleeName + " without " + what + " test", Pos: k, Func: p.Root.Name(),
					Msg:   "the request float " + c.Render(val) + " is used (" + e.CalleeName + ") without a failed math.Is" + what + " test",
					Found: engine.LitsString(engine.CondsBefore(p, i))})
			}
		}
	}
}

// ---- C12.3c: constant indexes into slices that come from outside the function

var constIdxRe = regexpMust(`^[0-9]+$`)

// lenAtLeast: conds entail len(x) > k.
func lenAtLeast(c *engine.Ctx, conds []engine.Lit, x string, k int64) bool {
	l := "len(" + x + ")"
	if k == 0 {
		if engine.Entails(conds, engine.FLit{Lit: engine.Lit{L: l, R: "0", RConst: constant.MakeInt64(0), Mask: 5}}, c.P.Domain) {
			return true
		}
	}
	return engine.Entails(conds, engine.FLit{Lit: engine.Lit{L: l, R: fmt.Sprint(k), RConst: constant.MakeInt64(k), Mask: 4}}, c.P.Domain)
}

func c12ConstIndex(c *engine.Ctx, d *c12Data, n *c12Null) {
	o := c.Custom("C12.3c", "K-guard(constant index)", "x[k] with a constant k, where x is a parameter or a field of a parameter (a slice the function did not build), is dominated by a length test len(x) > k — in the function or at every call site (argument substituted)",
		"TypeOpts and split path elements come from the model, the store and the request: an empty slice panics at [0]")
	defer o.Done(3) // a floor for "the rule still finds its constructs", not the count of today (a refactoring may remove a constant index)
	reported := map[string]bool{}
	sites := map[string]bool{}
	for _, p := range d.paths {
		for i := range p.Events {
			e := &p.Events[i]
			if e.Kind != engine.EvSite || e.SiteKind != "index" || len(e.SiteIdx) != 1 || !constIdxRe.MatchString(e.SiteIdx[0]) || !strings.HasPrefix(e.SiteType, "[]") {
				continue
			}
			x := stripVer(e.SiteX)
			if !strings.HasPrefix(x, "$") || strings.Contains(x, "(") {
				continue // built by this function or returned by a call: not this rule
			}
			var k int64
			fmt.Sscan(e.SiteIdx[0], &k)
			skey := c.P.Pos(e.Pos) + "|" + x
			if !sites[skey] {
				sites[skey] = true
				o.Site(c.P.Pos(e.Pos) + " " + types.ExprString(e.Node.(ast.Expr)) + " in " + p.Root.Name())
			}
			o.Eval(1)
			conds := append(append([]engine.Lit{}, engine.CondsBefore(p, i)...), e.SiteLocal...)
			if lenAtLeast(c, conds, e.SiteX, k) || lenAtLeast(c, conds, x, k) {
				continue
			}
			if p.Lit == nil && n.lenGuardedByCallers(c, p.Root, x, k, 0) {
				continue
			}
			key := p.Root.Name() + "|" + types.ExprString(e.Node.(ast.Expr)) + " without a length test"
			if reported[key] {
				continue
			}
			reported[key] = true
			o.Fail(&engine.Violation{Key: key, Pos: c.P.Pos(e.Pos), Func: p.Root.Name(),
				Msg:   types.ExprString(e.Node.(ast.Expr)) + " indexes a slice this function did not build, on a path (and from a call site) that does not test its length",
				Found: engine.LitsString(conds)})
		}
	}
}

func (n *c12Null) lenGuardedByCallers(c *engine.Ctx, fn *engine.FuncInfo, canon string, k int64, depth int) bool {
	if depth > 3 || n.entries[fn.Name()] {
		return false
	}
	tok := rootToken(canon)
	idx, _ := paramIndex(fn, tok)
	if idx < 0 {
		return false
	}
	sites := n.calls[fn.Obj]
	if len(sites) == 0 {
		return false
	}
	for _, cs := range sites {
		e := &cs.path.Events[cs.idx]
		if idx >= len(e.Args) {
			return false
		}
		sub := substRoot(canon, tok, e.Args[idx])
		if lenAtLeast(c, engine.CondsBefore(cs.path, cs.idx), sub, k) || lenAtLeast(c, engine.CondsBefore(cs.path, cs.idx), stripVer(sub), k) {
			continue
		}
		if cs.path.Lit == nil && n.lenGuardedByCallers(c, cs.path.Root, sub, k, depth+1) {
			continue
		}
		return false
	}
	return true
}

// ---- C12.7: WaitGroup / close discipline around helper goroutines

func c12WaitGroups(c *engine.Ctx, d *c12Data) {
	o := c.Custom("C12.7", "typestate(WaitGroup, close)", "a goroutine that calls wg.Done() is started after wg.Add in the starting goroutine (the Add lexically precedes the go statement in the same function and is not inside the started function), and a channel that is closed after wg.Wait() is sent to only by goroutines that hold that WaitGroup (defer wg.Done())",
		"Add inside the goroutine races with Wait: the channel is closed while a worker still sends on it — a panic in a helper goroutine that no handler-level recover can catch")
	defer o.Done(1)
	for _, pkg := range c.P.Pkgs {
		rel := strings.TrimPrefix(pkg.PkgPath, engine.ModulePath+"/")
		if !strings.HasPrefix(rel, "pkg/") {
			continue
		}
		info := pkg.TypesInfo
		isWG := func(e ast.Expr) types.Object {
			id, ok := ast.Unparen(e).(*ast.Ident)
			if !ok {
				return nil
			}
			obj := info.Uses[id]
			if obj == nil {
				return nil
			}
			if strings.HasSuffix(strings.TrimPrefix(obj.Type().String(), "*"), "sync.WaitGroup") {
				return obj
			}
			return nil
		}
		for _, fi := range c.P.FuncsOf(pkg) {
			if !d.reachAll[fi.Name()] {
				continue
			}
			// collect per function: Add calls (outside literals: position), go statements with literals
			type goLit struct {
				stmt  *ast.GoStmt
				lit   *ast.FuncLit
				dones map[types.Object]bool
				adds  map[types.Object]bool
				waits map[types.Object]bool
				sends map[types.Object]bool
				close map[types.Object]bool
			}
			var lits []*goLit
			addPos := map[types.Object][]token.Pos{}
			var walk func(n ast.Node, cur *goLit)
			walk = func(n ast.Node, cur *goLit) {
				ast.Inspect(n, func(m ast.Node) bool {
					switch x := m.(type) {
					case *ast.GoStmt:
						if fl, ok := x.Call.Fun.(*ast.FuncLit); ok {
							g := &goLit{stmt: x, lit: fl, dones: map[types.Object]bool{}, adds: map[types.Object]bool{}, waits: map[types.Object]bool{}, sends: map[types.Object]bool{}, close: map[types.Object]bool{}}
							lits = append(lits, g)
							walk(fl.Body, g)
							for _, a := range x.Call.Args {
								walk(a, cur)
							}
							return false
						}
					case *ast.CallExpr:
						if sel, ok := x.Fun.(*ast.SelectorExpr); ok {
							if w := isWG(sel.X); w != nil {
								switch sel.Sel.Name {
								case "Add":
									if cur != nil {
										cur.adds[w] = true
									} else {
										addPos[w] = append(addPos[w], x.Pos())
									}
								case "Done":
									if cur != nil {
										cur.dones[w] = true
									}
								case "Wait":
									if cur != nil {
										cur.waits[w] = true
									}
								}
							}
						}
						if id, ok := x.Fun.(*ast.Ident); ok && id.Name == "close" && len(x.Args) == 1 && cur != nil {
							if cid, ok := ast.Unparen(x.Args[0]).(*ast.Ident); ok && info.Uses[cid] != nil {
								cur.close[info.Uses[cid]] = true
							}
						}
					case *ast.SendStmt:
						if cid, ok := ast.Unparen(x.Chan).(*ast.Ident); ok && info.Uses[cid] != nil && cur != nil {
							cur.sends[info.Uses[cid]] = true
						}
					}
					return true
				})
			}
			walk(fi.Decl.Body, nil)
			for _, g := range lits {
				for w := range g.dones {
					o.Site(c.P.Pos(g.stmt.Pos()) + " go func … " + w.Name() + ".Done() in " + fi.Name())
					o.Eval(1)
					if g.adds[w] {
						o.Fail(&engine.Violation{Key: fi.Name() + "|" + w.Name() + ".Add inside the goroutine it accounts for", Pos: c.P.Pos(g.stmt.Pos()), Func: fi.Name(),
							Msg: w.Name() + ".Add is called inside the goroutine whose Done it pairs with: Wait can return (and what follows it run) before the goroutine has registered"})
						continue
					}
					before := false
					for _, p := range addPos[w] {
						if p < g.stmt.Pos() {
							before = true
						}
					}
					if !before {
						o.Fail(&engine.Violation{Key: fi.Name() + "|goroutine started without a preceding " + w.Name() + ".Add", Pos: c.P.Pos(g.stmt.Pos()), Func: fi.Name(),
							Msg: "a goroutine that calls " + w.Name() + ".Done() is started without a " + w.Name() + ".Add before the go statement"})
					}
				}
			}
			// channels closed after Wait: senders must hold the WaitGroup
			for _, closer := range lits {
				for ch := range closer.close {
					for w := range closer.waits {
						for _, g := range lits {
							if g == closer || !g.sends[ch] {
								continue
							}
							o.Eval(1)
							if !g.dones[w] {
								o.Fail(&engine.Violation{Key: fi.Name() + "|send on " + ch.Name() + " by a goroutine outside " + w.Name(), Pos: c.P.Pos(g.stmt.Pos()), Func: fi.Name(),
									Msg: ch.Name() + " is closed after " + w.Name() + ".Wait(), but a goroutine that sends on it does not hold " + w.Name() + ": it can send after the close"})
							}
						}
					}
				}
			}
		}
	}
}

// c12Narrowing: C12.10. An integer field of a request message that is converted to a narrower integer
// type keeps only its low bits: a range the callee relies on (a decimal64 precision of at most 18, used
// as an exponent) is no longer implied by the type. Decided on the typed syntax of the reachable
// functions: T(x) with T, typeof(x) integers, sizeof(T) < sizeof(typeof(x)), x a field (or element of a
// field) of a protobuf message of the gnmi / onos-api packages — each such conversion must be inside an
// if-statement (or after an early-return test) whose condition compares the same expression with a bound.
func c12Narrowing(c *engine.Ctx, d *c12Data) {
	o := c.Custom("C12.10", "range(narrowing of wire integers)", "every conversion of an integer field of a request message to a narrower integer type is dominated, in its function, by a comparison of that same field with a bound (an if whose body returns, or an enclosing if)",
		"uint8(precision) of a uint32 wire field turns 320 into 64; the renderer divides by 10^precision in an int64, which is 0 from 64 on: integer divide by zero in the controller that validates the change")
	defer o.Done(2)
	sizes := types.SizesFor("gc", "amd64")
	var names []string
	for f := range d.reachAll {
		names = append(names, f)
	}
	sort.Strings(names)
	for _, name := range names {
		fi := d.byFunc[name]
		if fi == nil || fi.Decl == nil || fi.Decl.Body == nil {
			continue
		}
		info := fi.Pkg.TypesInfo
		wireField := func(e ast.Expr) bool {
			for {
				switch x := ast.Unparen(e).(type) {
				case *ast.IndexExpr:
					e = x.X
					continue
				case *ast.SelectorExpr:
					sel := info.Selections[x]
					if sel == nil || sel.Kind() != types.FieldVal {
						return false
					}
					t := sel.Recv()
					if p, ok := t.Underlying().(*types.Pointer); ok {
						t = p.Elem()
					}
					if n, ok := t.(*types.Named); ok && n.Obj().Pkg() != nil {
						pp := n.Obj().Pkg().Path()
						return strings.HasPrefix(pp, "github.com/openconfig/gnmi/proto/") || strings.HasPrefix(pp, "github.com/onosproject/onos-api/go/")
					}
					return false
				case *ast.CallExpr: // getter
					if s2, ok := x.Fun.(*ast.SelectorExpr); ok && strings.HasPrefix(s2.Sel.Name, "Get") && len(x.Args) == 0 {
						if sel := info.Selections[s2]; sel != nil {
							t := sel.Recv()
							if p, ok := t.Underlying().(*types.Pointer); ok {
								t = p.Elem()
							}
							if n, ok := t.(*types.Named); ok && n.Obj().Pkg() != nil {
								pp := n.Obj().Pkg().Path()
								return strings.HasPrefix(pp, "github.com/openconfig/gnmi/proto/") || strings.HasPrefix(pp, "github.com/onosproject/onos-api/go/")
							}
						}
					}
					return false
				}
				return false
			}
		}
		// comparisons of an expression (by text) with anything, anywhere in the function before the position
		type cmp struct {
			text string
			pos  token.Pos
		}
		var cmps []cmp
		ast.Inspect(fi.Decl.Body, func(n ast.Node) bool {
			if b, ok := n.(*ast.BinaryExpr); ok {
				switch b.Op {
				case token.LSS, token.GTR, token.LEQ, token.GEQ:
					cmps = append(cmps, cmp{types.ExprString(ast.Unparen(b.X)), b.Pos()}, cmp{types.ExprString(ast.Unparen(b.Y)), b.Pos()})
				}
			}
			return true
		})
		ast.Inspect(fi.Decl.Body, func(n ast.Node) bool {
			call, ok := n.(*ast.CallExpr)
			if !ok || len(call.Args) != 1 {
				return true
			}
			tv, ok := info.Types[call.Fun]
			if !ok || !tv.IsType() {
				return true
			}
			to, ok1 := tv.Type.Underlying().(*types.Basic)
			at := info.TypeOf(call.Args[0])
			if at == nil || !ok1 {
				return true
			}
			from, ok2 := at.Underlying().(*types.Basic)
			if !ok2 || to.Info()&types.IsInteger == 0 || from.Info()&types.IsInteger == 0 || info.Types[call.Args[0]].Value != nil {
				return true
			}
			if sizes.Sizeof(to) >= sizes.Sizeof(from) || !wireField(call.Args[0]) {
				return true
			}
			o.Site(c.P.Pos(call.Pos()) + " " + types.ExprString(call) + " in " + name)
			o.Eval(1)
			arg := types.ExprString(ast.Unparen(call.Args[0]))
			for _, k := range cmps {
				if k.text == arg && k.pos < call.Pos() {
					return true
				}
			}
			o.Fail(&engine.Violation{Key: name + "|" + types.ExprString(call) + " narrows a wire integer without a range test", Pos: c.P.Pos(call.Pos()), Func: name,
				Msg: types.ExprString(call) + " converts the " + from.Name() + " request field " + arg + " to " + to.Name() + " and no comparison of " + arg + " with a bound precedes it in the function: values outside the range of " + to.Name() + " wrap"})
			return true
		})
	}
}

// c12GoBeforeCheck: C12.11. A goroutine launched between a call and the first look at that call's
// error runs also when the call failed — typically on the nil handle the call was meant to produce
// (the southbound Subscribe starts its receive loop before it knows whether a stream exists: Recv on a
// nil stream panics in a goroutine nobody can recover). Decided on the enumerated paths of the
// southbound, northbound and store packages: no EvGo between a call whose error result is later tested
// or returned on the same path and the first such test/return.
func c12GoBeforeCheck(c *engine.Ctx) {
	o := c.Custom("C12.11", "K-order(check before go)", "on no path is a goroutine started after a call whose error result is still unexamined and is examined (tested or returned) later on the same path",
		"the goroutine runs whether or not the call succeeded; a panic in it takes the whole process down")
	defer o.Done(5)
	reported := map[string]bool{}
	for _, rel := range []string{"pkg/southbound/gnmi", pkgNbGnmi, pkgNbAdmin, pkgStoreTxV2, pkgStorePropV2, pkgStoreCfgV2, "pkg/store/topo", "pkg/pluginregistry"} {
		ps, err := c.A.PathsOpt(rel, engine.PathOpts{NoInline: true})
		if err != nil {
			o.Undecided(rel, err.Error())
			continue
		}
		for _, p := range ps {
			for gi := range p.Events {
				g := &p.Events[gi]
				if g.Kind != engine.EvGo {
					continue
				}
				o.Site(c.P.Pos(g.Pos))
				o.Eval(1)
				// calls before the go statement whose error was not looked at yet
				for ci := 0; ci < gi; ci++ {
					ce := &p.Events[ci]
					if ce.Kind != engine.EvCall || ce.Deferred || ce.Canon == "" {
						continue
					}
					errv := "err(" + ce.Canon + ")"
					looked := func(from, to int) bool {
						for k := from; k < to; k++ {
							e := &p.Events[k]
							switch e.Kind {
							case engine.EvCond:
								if strings.Contains(e.Lit.L, errv) || strings.Contains(e.Lit.R, errv) {
									return true
								}
							case engine.EvReturn:
								for _, r := range e.Results {
									if strings.Contains(r, errv) {
										return true
									}
								}
							}
						}
						return false
					}
					if looked(ci+1, gi) || !looked(gi+1, len(p.Events)) {
						continue
					}
					key := p.Root.Name() + "|goroutine started before the error of " + ce.CalleeName + " is examined"
					if !reported[key] {
						reported[key] = true
						o.Fail(&engine.Violation{Key: key, Pos: c.P.Pos(g.Pos), Func: p.Root.Name(),
							Msg: "a goroutine is started here although the error of " + c.Render(ce.Canon) + " (" + c.P.Pos(ce.Pos) + ") is only examined afterwards: the goroutine also runs when that call failed"})
					}
				}
			}
		}
	}
}

// c12StreamTypestate: C12.12. The backing gNMI client has two states — no subscription stream, stream
// open — and its Poll and Recv dereference the stream without looking. The wrapper in
// pkg/southbound/gnmi is the only caller; it must know the state.
func c12StreamTypestate(c *engine.Ctx) {
	o := c.Custom("C12.12", "typestate(subscription stream)", "in pkg/southbound/gnmi every call of the backing client's Poll is made on a path that either saw the backing Subscribe succeed or tested the wrapper's 'subscribed' flag true; the flag is set true only after the backing Subscribe succeeded; Recv is called only from the monitor (started after a successful Subscribe: C12.11, C19.5)",
		"polls are relayed to every target of a northbound stream, also to targets whose subscription could not be opened: the wrapper is the last place that can refuse")
	defer o.Done(2)
	ps, err := c.A.PathsOpt("pkg/southbound/gnmi", engine.PathOpts{NoInline: true})
	if err != nil {
		o.Undecided("pkg/southbound/gnmi", err.Error())
		return
	}
	reported := map[string]bool{}
	for _, p := range ps {
		for i := range p.Events {
			e := &p.Events[i]
			if e.Kind != engine.EvCall {
				continue
			}
			subOK := func() bool {
				for j := 0; j < i; j++ {
					ce := &p.Events[j]
					if ce.Kind == engine.EvCall && ce.CalleeName == "gnmi.Client.Subscribe" {
						for _, l := range engine.CondsBefore(p, i) {
							if l.L == "err("+ce.Canon+")" && l.RNil && l.Mask == 2 {
								return true
							}
						}
					}
				}
				return false
			}
			flagOK := func() bool {
				for _, l := range engine.CondsBefore(p, i) {
					if strings.HasSuffix(l.L, "atomic.Bool.Load()") && l.R == "true" && l.Mask == 2 {
						return true
					}
				}
				return false
			}
			bad := ""
			switch {
			case e.CalleeName == "gnmi.Client.Poll":
				o.Site(c.P.Pos(e.Pos) + " backing Poll in " + p.Root.Name())
				o.Eval(1)
				if !subOK() && !flagOK() {
					bad = "the backing client's Poll is reachable without knowing that a subscription stream was opened: it writes to a nil stream"
				}
			case e.CalleeName == "gnmi.Client.Recv":
				o.Site(c.P.Pos(e.Pos) + " backing Recv in " + p.Root.Name())
				o.Eval(1)
				if !strings.HasSuffix(p.Root.Name(), "client.run") && !subOK() && !flagOK() {
					bad = "the backing client's Recv is called outside the response monitor without knowing that a stream was opened"
				}
			case e.CalleeName == "atomic.Bool.Store" && len(e.Args) == 1 && e.Args[0] == "true":
				o.Site(c.P.Pos(e.Pos) + " flag set in " + p.Root.Name())
				o.Eval(1)
				if !subOK() {
					bad = "the 'subscribed' flag is set on a path where the backing Subscribe did not succeed"
				}
			}
			if bad != "" {
				key := p.Root.Name() + "|" + bad
				if !reported[key] {
					reported[key] = true
					o.Fail(&engine.Violation{Key: key, Pos: c.P.Pos(e.Pos), Func: p.Root.Name(), Msg: bad, Found: engine.LitsString(engine.CondsBefore(p, i))})
				}
			}
		}
	}
}

// c12RelayAnswered: C12.13. "is answered with a response or a gRPC status": a subscription or poll that
// cannot be relayed to its target ends the RPC with that error.
func c12RelayAnswered(c *engine.Ctx) {
	ps, err := c.A.PathsOpt(pkgNbGnmi, engine.PathOpts{Roots: []string{".Server.processSubscribeRequest"}, NoInline: true})
	if err != nil || len(ps) == 0 {
		o := c.Custom("C12.13", "load", "paths of processSubscribeRequest", "")
		o.Undecided("processSubscribeRequest", fmt.Sprintf("no paths: %v", err))
		o.Done(0)
		return
	}
	for i, callee := range []string{"northbound/gnmi/v2.Server.sendSubscriptionRequest", "northbound/gnmi/v2.Server.sendPollRequest"} {
		c.Outcome(engine.Outcome{ID: fmt.Sprintf("C12.13%c", 'a'+i), Pkg: pkgNbGnmi, Min: 1, PathsOverride: ps,
			When: "#everFailed(" + callee + ")", Returns: "err!=nil",
			Why: "a subscription or poll for an unknown or unconnected target is answered with the error of " + callee + ", not with silence"})
	}
}
