package props

import (
	"fmt"
	"strings"

	"occheck/internal/engine"
)

func init() {
	register(&Prop{
		ID:    "C06",
		Title: "Rolling back the latest change restores exactly the previous state",
		Explanation: "Exact restoration is a value property over histories and is declined. Decided: (1) a rollback proposal is VALIDATED only when Configuration.Index equals the rolled-back index, the rolled-back proposal exists and is a change; each of the three refusing branches records FAILED with FORBIDDEN / NOT_FOUND / FORBIDDEN and validates nothing; " +
			"(2) a rollback transaction whose target index is missing or is itself a rollback is FAILED (NOT_FOUND / FORBIDDEN) with Abort opened and creates no proposal; (3) on the change path every iteration over the change's values records the prior value (or a tombstone) under the value's own path, and RollbackIndex := Configuration.Index, RollbackValues := the captured map are written on the VALIDATED path only; " +
			"(4) committing a change sets Configuration.Index to the own index, committing a rollback sets it to the captured RollbackIndex and merges the captured values; (5) capture domain = write domain: the collection iterated to capture prior values is the collection iterated to mutate Configuration.Values at commit." +
			" Also: the applied values are recorded entry by entry, unconditionally (C06.8).",
		Declined: []string{"that the restored configuration equals the previous one value for value", "the device side of a rollback"},
		Run:      runC06,
		Witness:  []WitnessTarget{{pkgProposalCtl, []string{"reconcileValidate", "reconcileCommit"}}, {pkgTransactionCtl, []string{"reconcileInitialize"}}},
	})
}

func runC06(c *engine.Ctx, tier string) {
	c.Al = proposalAliases(c.P)
	appliedRecordsEverything(c)
	inValidate := "err(@P) == nil && @P.Status.Phases.Apply == nil && @P.Status.Phases.Abort == nil && @P.Status.Phases.Commit == nil && @P.Status.Phases.Validate != nil && @P.Status.Phases.Validate.State == config/v2.ProposalValidatePhase_VALIDATING && err(@CFG) == nil && ok(@PLUGIN) && type(@P.Details) == *config/v2.Proposal_Rollback"
	validated := engine.Sel{Field: "config/v2.ProposalValidatePhase.State", RHS: "config/v2.ProposalValidatePhase_VALIDATED"}
	failed := engine.Sel{Field: "config/v2.ProposalValidatePhase.State", RHS: "config/v2.ProposalValidatePhase_FAILED"}
	c.Guard(engine.Guard{ID: "C06.1a", Pkg: pkgProposalCtl, Min: 1, Sel: validated, Assume: oneofSet,
		Require: "type(@P.Details) == *config/v2.Proposal_Change || (@CFG.Index == @RBK.Rollback.RollbackIndex && err(@RBP) == nil && type(@RBP.Details) == *config/v2.Proposal_Change)",
		Why:     "only the change the configuration currently reflects may be rolled back, and only a change"})
	for _, x := range []struct{ id, when, typ string }{
		{"C06.1b", "@CFG.Index != @RBK.Rollback.RollbackIndex", "config/v2.Failure_FORBIDDEN"},
		{"C06.1c", "@CFG.Index == @RBK.Rollback.RollbackIndex && err(@RBP) != nil && errors.IsNotFound(err(@RBP))", "config/v2.Failure_NOT_FOUND"},
		{"C06.1d", "@CFG.Index == @RBK.Rollback.RollbackIndex && err(@RBP) == nil && type(@RBP.Details) == *config/v2.Proposal_Rollback", "config/v2.Failure_FORBIDDEN"},
	} {
		c.Outcome(engine.Outcome{ID: x.id, Pkg: pkgProposalCtl, Root: "Reconciler.Reconcile", Min: 1,
			When:    inValidate + " && " + x.when,
			Must:    []engine.Sel{failed, {Field: "config/v2.Failure.Type", RHS: x.typ, OnlyLit: true}},
			MustNot: []engine.Sel{validated, {Call: pluginValidate}, {Field: "config/v2.ProposalStatus.RollbackValues"}},
			Why:     "a rollback of anything but the latest change, of a missing index or of a rollback is refused with its class and validates nothing"})
	}
	// (3) capture
	c.Guard(engine.Guard{ID: "C06.3a", Pkg: pkgProposalCtl, Min: 1, Sel: engine.Sel{Field: "config/v2.ProposalStatus.RollbackIndex"}, Assume: oneofSet,
		Require: "#ok(" + pluginValidate + ") && ((type(@P.Details) == *config/v2.Proposal_Change) || (type(@P.Details) == *config/v2.Proposal_Rollback))",
		Why:     "the rollback index is recorded on the VALIDATED path only"})
	c.Guard(engine.Guard{ID: "C06.3b", Pkg: pkgProposalCtl, None: true, Rule: "K-own(rhs)", Assume: oneofSet,
		Sel: engine.Sel{Field: "config/v2.ProposalStatus.RollbackIndex", Filter: func(p *engine.Path, i int) bool {
			r := p.Events[i].RHS
			return r != c.Al.Expand("@CFG.Index") && r != c.Al.Expand("@RBP.Status.RollbackIndex")
		}},
		Why: "RollbackIndex is the index the configuration reflected when the change was validated (or, for a rollback, the one captured by the rolled-back change)"})
	captureLoop(c)
	// a rollback reaches every target of the change it undoes: one rollback proposal per target, recorded in the transaction
	saved := c.Al
	c.Al = transactionAliases(c.P)
	onePerTarget(c, "C06.7", "@RBTCHG.Change.Values")
	c.Al = saved
	// what the commit of a rollback merges is the captured prior state (and of a change, the change)
	commitSourceAs(c, "C06.3d")
	// (4) commit
	c.Guard(engine.Guard{ID: "C06.4a", Pkg: pkgProposalCtl, Min: 1, Sel: engine.Sel{Field: fCfgIndex, RHS: "@OWN"},
		Require: "type(@P.Details) == *config/v2.Proposal_Change && @CFG.Status.Committed.Index == @PREV", Why: "committing a change makes it the change the configuration reflects"})
	c.Guard(engine.Guard{ID: "C06.4b", Pkg: pkgProposalCtl, Min: 1, Sel: engine.Sel{Field: fCfgIndex, RHS: "@P.Status.RollbackIndex"},
		Require: "type(@P.Details) == *config/v2.Proposal_Rollback && @CFG.Status.Committed.Index == @PREV", Why: "committing a rollback restores the index captured when the change was validated"})
	c.Guard(engine.Guard{ID: "C06.4c", Pkg: pkgProposalCtl, None: true, Rule: "K-own(rhs)",
		Sel: engine.Sel{Field: fCfgIndex, Lit: true, Filter: func(p *engine.Path, i int) bool {
			r := p.Events[i].RHS
			return r != c.Al.Expand("@OWN") && r != c.Al.Expand("@P.Status.RollbackIndex")
		}},
		Why: "Configuration.Index is only ever the own index (change) or the captured rollback index (rollback)"})
	c.Own(engine.Own{ID: "C06.4d", Field: fCfgIndex, Pkgs: []string{pkgProposalCtl, pkgStoreCfgV2, pkgNbAdmin}, SkipLit: true, Min: 2,
		Why: "Configuration.Index is owned by the commit step"})
	// (5) capture domain = write domain
	captureDomain(c)

	// (2) transaction initialise
	c.Al = transactionAliases(c.P)
	inInit := "err(@T) == nil && @T.Status.Phases.Apply == nil && @T.Status.Phases.Abort == nil && @T.Status.Phases.Commit == nil && @T.Status.Phases.Validate == nil && @T.Status.Phases.Initialize != nil && @T.Status.Phases.Initialize.State == config/v2.TransactionInitializePhase_INITIALIZING && @T.Status.Proposals == nil && type(@T.Details) == *config/v2.Transaction_Rollback"
	for _, x := range []struct{ id, when, typ string }{
		{"C06.2a", "err(@RBT) != nil && errors.IsNotFound(err(@RBT))", "config/v2.Failure_NOT_FOUND"},
		{"C06.2b", "err(@RBT) == nil && type(@RBT.Details) == *config/v2.Transaction_Rollback", "config/v2.Failure_FORBIDDEN"},
	} {
		c.Outcome(engine.Outcome{ID: x.id, Pkg: pkgTransactionCtl, Root: "Reconciler.Reconcile", Min: 1,
			When: inInit + " && " + x.when,
			Must: []engine.Sel{{Field: "config/v2.TransactionStatus.State", RHS: "config/v2.TransactionStatus_FAILED"}, {Field: "config/v2.Failure.Type", RHS: x.typ, OnlyLit: true},
				{Field: "config/v2.TransactionPhases.Abort"}, {Field: "config/v2.TransactionInitializePhase.State", RHS: "config/v2.TransactionInitializePhase_FAILED"}, {Call: stTxUpdStat}},
			MustNot: []engine.Sel{{Call: stPropCreate}, {Field: "config/v2.TransactionStatus.Proposals"}},
			Why:     "a rollback of a missing index or of a rollback is refused: the transaction fails with its class, aborts, and creates no proposal"})
	}
	c.Guard(engine.Guard{ID: "C06.2c", Pkg: pkgTransactionCtl, None: true, Rule: "K-own(rhs)",
		Sel: engine.Sel{Field: "config/v2.RollbackProposal.RollbackIndex", NotRHS: "@TRBK.Rollback.RollbackIndex", OnlyLit: true},
		Why: "a rollback proposal carries the index named by the rollback transaction"})
	// what is logged per target of a rollback
	proposalRecords(c, "", "C06.9")
}

// captureLoop: on the change path every iteration over the change's values assigns
// rollbackValues[path] on every branch.
func captureLoop(c *engine.Ctx) { captureLoopAs(c, "C06.3c") }

func captureLoopAs(c *engine.Ctx, id string) {
	o := c.Custom(id, "K-order(loop body)", "every iteration over the change's values writes captured[key] (prior value or tombstone) on every fall-through branch, and P.Status.RollbackValues := captured",
		"every path the change touches has its prior state captured for a later rollback")
	defer o.Done(1)
	paths, err := c.A.Paths(pkgProposalCtl)
	if err != nil {
		o.Undecided(pkgProposalCtl, err.Error())
		return
	}
	chg := c.Al.Expand("@CHG.Change.Values")
	cfgv := c.Al.Expand("@CFG.Values")
	for _, p := range paths {
		for i := range p.Events {
			le := &p.Events[i]
			if le.Kind != engine.EvLoopEnter || le.Range != chg || !strings.Contains(engine.FuncChain(p, i), "reconcileValidate") {
				continue
			}
			exit := -1
			captured := ""
			var has, hasNot bool
			var rhs string
			for j := i + 1; j < len(p.Events); j++ {
				ej := &p.Events[j]
				if ej.Kind == engine.EvLoopExit && ej.Node == le.Node {
					exit = j
					break
				}
				if ej.Loops != le.LoopID {
					continue
				}
				if ej.Kind == engine.EvCond && strings.HasPrefix(ej.Lit.L, "has("+cfgv+"[key("+chg+")]") {
					has = ej.Lit.Mask == 2
					hasNot = ej.Lit.Mask == 5
				}
				if ej.Kind == engine.EvWrite && ej.Local == nil && strings.HasSuffix(ej.LHS, "[key("+chg+")]") && strings.HasPrefix(ej.LHS, "make(map[string]*config/v2.PathValue)@") && ej.Stack == le.Stack {
					captured = strings.TrimSuffix(ej.LHS, "[key("+chg+")]")
					rhs = ej.RHS
				}
			}
			if exit < 0 || exit == i+1 {
				continue
			}
			o.Site("")
			o.Eval(1)
			bad := ""
			switch {
			case captured == "":
				bad = "an iteration over the change's values can complete without capturing anything under the value's own path"
			case has && !strings.HasPrefix(rhs, cfgv+"[key("+chg+")]"):
				bad = "for a path that exists in the configuration the captured value is " + c.Render(rhs) + ", not the configuration's value"
			case hasNot && !(strings.Contains(rhs, "Deleted:true") && strings.Contains(rhs, "Path:key("+chg+")")):
				bad = "for a path that does not exist in the configuration the captured value is not a tombstone for that path: " + c.Render(rhs)
				// (until repair ad644df a tombstone that carried the change's own index was a defect — the store
				// rewrote an entry only when the index differed; the store now compares the tombstone flag too,
				// so the index of a placeholder is no longer anybody's necessary condition and the clause was
				// withdrawn: seeds C03-c, C03-f, C05-e are harmless on today's tree)
			}
			if bad == "" {
				// the captured map is what is stored on the VALIDATED path
				stored, validated := false, false
				for j := exit; j < len(p.Events); j++ {
					ej := &p.Events[j]
					if ej.Kind == engine.EvWrite && ej.Field == "config/v2.ProposalStatus.RollbackValues" {
						stored = true
						if !strings.HasPrefix(ej.RHS, captured) {
							bad = "P.Status.RollbackValues is assigned " + c.Render(ej.RHS) + ", not the captured map"
						}
					}
					if ej.Kind == engine.EvWrite && ej.Field == "config/v2.ProposalValidatePhase.State" && ej.RHS == "config/v2.ProposalValidatePhase_VALIDATED" {
						validated = true
					}
				}
				if bad == "" && validated && !stored {
					bad = "the proposal is VALIDATED on a path that captured the prior values but never stores them in P.Status.RollbackValues: a later rollback restores nothing"
				}
			}
			if bad != "" {
				o.Fail(&engine.Violation{Key: engine.SiteKey(p, i, "capture loop"), Pos: c.P.Pos(le.Pos), Func: engine.FuncChain(p, i), Msg: bad, Path: c.PathTrace(p, exit)})
				return
			}
		}
	}
}

// captureDomain: the loop that captures prior values and the loop that mutates Configuration.Values
// at commit must range over the same collection.
func captureDomain(c *engine.Ctx) {
	o := c.Custom("C06.5", "domain-agreement", "collection iterated to capture prior values (validate) == collection iterated to mutate Configuration.Values (commit)",
		"a path the commit writes but the capture never saw cannot be restored by a rollback (cascaded deletes of children)")
	defer o.Done(2)
	paths, err := c.A.Paths(pkgProposalCtl)
	if err != nil {
		o.Undecided(pkgProposalCtl, err.Error())
		return
	}
	chg := c.Al.Expand("@CHG.Change.Values")
	var capture, commit string
	var commitPos string
	var commitPath *engine.Path
	var commitIdx int
	for _, p := range paths {
		for i := range p.Events {
			le := &p.Events[i]
			if le.Kind != engine.EvLoopEnter {
				continue
			}
			chain := engine.FuncChain(p, i)
			if le.Range == chg && strings.Contains(chain, "reconcileValidate") {
				capture = le.Range
			}
			if strings.Contains(chain, "reconcileCommit") && strings.HasPrefix(le.Range, "controller/utils.AddDeleteChildren(") && strings.Contains(le.Range, chg) {
				commit = le.Range
				commitPos = c.P.Pos(le.Pos)
				commitPath, commitIdx = p, i
			}
			if strings.Contains(chain, "reconcileCommit") && le.Range == chg {
				commit = le.Range
				commitPos = c.P.Pos(le.Pos)
				commitPath, commitIdx = p, i
			}
		}
	}
	if capture == "" || commit == "" {
		o.Undecided("capture/commit loops", "anchor not found: capture loop or commit loop of the change path not located")
		return
	}
	o.Site("capture loop ranges over " + c.Render(capture))
	o.Site("commit loop ranges over " + c.Render(commit))
	o.Eval(1)
	if capture != commit {
		o.Fail(&engine.Violation{Key: "reconcileValidate/reconcileCommit|capture domain ≠ write domain", Pos: commitPos, Func: engine.FuncChain(commitPath, commitIdx),
			Msg: "prior values are captured for " + c.Render(capture) + " but the commit mutates Configuration.Values for every entry of " + c.Render(commit) + ": entries added by the cascade (children of a deleted subtree) are changed without their prior value being captured"})
	}
}

// proposalRecords: what the transaction controller logs per target. A change transaction gets, for every
// target of its change, a proposal with that target's values (each stamped with the transaction's index); a
// rollback transaction gets, for every target of the change it rolls back, a proposal that names that change.
// idChange / idRollback select which half is stated (either may be empty).
func proposalRecords(c *engine.Ctx, idChange, idRollback string) {
	saved := c.Al
	c.Al = transactionAliases(c.P)
	defer func() { c.Al = saved }()
	paths, err := c.A.Paths(pkgTransactionCtl)
	type half struct {
		id, what, vals, details string
		min                     int
	}
	for _, h := range []half{
		{idChange, "change", "@TCHG.Change.Values", "Details:&config/v2.Proposal_Change{Change:&config/v2.ChangeProposal{Values:make(map[string]*config/v2.PathValue)@", 1},
		{idRollback, "rollback", "@RBTCHG.Change.Values", "Details:&config/v2.Proposal_Rollback{Rollback:&config/v2.RollbackProposal{RollbackIndex:@TRBK.Rollback.RollbackIndex}}", 1},
	} {
		if h.id == "" {
			continue
		}
		o := c.Custom(h.id, "K-dataflow(proposal record)", "reconcileInitialize, "+h.what+" transaction: for every target id k of "+h.vals+" the record given to proposals.Create has ID = NewID(k, T.Index), TargetID = k, TransactionIndex = T.Index and "+
			map[string]string{"change": "Details = Proposal_Change{Values: a map allocated for this target holding every (path, value) of that target's change, each value stamped Index = T.Index}", "rollback": "Details = Proposal_Rollback{RollbackIndex: the index the rollback transaction names}"}[h.what],
			"the proposal is all the proposal controller knows: it validates, commits, applies and rolls back exactly what this record says, for the target it names")
		if err != nil {
			o.Undecided(pkgTransactionCtl, err.Error())
			o.Done(0)
			continue
		}
		vals := c.Al.Expand(h.vals)
		tIdx := c.Al.Expand("@T.Index")
		for _, st := range engine.FindSites(paths, c.Match(engine.Sel{Call: stPropCreate})) {
			for _, ref := range st.Refs {
				p := ref.Path
				e := &p.Events[ref.Idx]
				if len(e.Args) != 1 || !strings.Contains(e.Args[0], "key("+vals+")") {
					continue
				}
				o.Site(c.P.Pos(e.Pos))
				o.Eval(1)
				arg := e.Args[0]
				for _, want := range []string{
					"ID:store/v2/proposal.NewID(key(" + vals + ")," + tIdx + ")",
					"TargetID:key(" + vals + ")",
					"TransactionIndex:" + tIdx + "}",
					c.Al.Expand(h.details),
				} {
					if !strings.Contains(arg, want) {
						o.Fail(&engine.Violation{Key: "reconcileInitialize|" + h.what + " proposal lacks " + c.Render(want[:strings.Index(want, ":")]), Pos: c.P.Pos(e.Pos), Func: engine.FuncChain(p, ref.Idx),
							Msg: "the " + h.what + " proposal given to Create does not carry " + c.Render(want) + ": " + c.Render(arg)})
					}
				}
				if h.what != "change" {
					continue
				}
				// the values map: allocated inside this target's iteration (C03.15) and filled from this target's change
				inner := "elem(" + vals + ").Values"
				iterated, filled, stamped := false, false, false
				for j := 0; j < ref.Idx; j++ {
					x := &p.Events[j]
					switch {
					case x.Kind == engine.EvLoopEnter && x.Range == inner && j+1 < len(p.Events) && p.Events[j+1].Kind != engine.EvLoopExit:
						iterated = true
					case x.Kind == engine.EvWrite && strings.HasPrefix(x.LHS, "make(map[string]*config/v2.PathValue)@") && strings.HasSuffix(x.LHS, "[key("+inner+")]") && x.RHS == "elem("+inner+")":
						filled = true
					case x.Kind == engine.EvWrite && x.Field == "config/v2.PathValue.Index" && x.LHS == "elem("+inner+").Index" && x.RHS == tIdx:
						stamped = true
					}
				}
				if iterated && !(filled && stamped) {
					o.Fail(&engine.Violation{Key: "reconcileInitialize|change proposal values", Pos: c.P.Pos(e.Pos), Func: engine.FuncChain(p, ref.Idx),
						Msg: fmt.Sprintf("on a path that iterates the target's change, the proposal's values are not that change's (path, value) pairs stamped with the transaction index (filled=%v, stamped=%v)", filled, stamped)})
				}
			}
		}
		o.Done(h.min)
	}
}

// appliedRecordsEverything: C06.8 (seed C06-r42). What was sent to the device is recorded in the applied values
// entry by entry, unconditionally: a rollback restores values that carry OLDER indexes (or none), so a recording
// loop that skips "older" values leaves the rolled-back change in the applied values, and the next
// re-synchronisation pushes it to the device again.
func appliedRecordsEverything(c *engine.Ctx) {
	o := c.Custom("C06.8", "K-must(per entry)", "reconcileApply: every iteration of the loop over the values that were sent records its entry in Status.Applied.Values (directly or through applyChangeToConfig) — no condition, no continue before the recording",
		"once applied, the device AND the applied configuration are what they were before the change: the applied values are what is pushed again in a new term")
	defer o.Done(1)
	paths, err := c.A.Paths(pkgProposalCtl)
	if err != nil {
		o.Undecided(pkgProposalCtl, err.Error())
		return
	}
	reported := false
	for _, p := range paths {
		if p.Lit != nil {
			continue
		}
		for i := range p.Events {
			le := &p.Events[i]
			if le.Kind != engine.EvLoopEnter || !strings.Contains(le.Range, "AddDeleteChildren(") {
				continue
			}
			records, condBefore, iterated, exit := -1, false, false, -1
			for j := i + 1; j < len(p.Events); j++ {
				e := &p.Events[j]
				if e.Kind == engine.EvLoopExit && e.Node == le.Node {
					exit = j
					break
				}
				iterated = true
				isRec := e.Kind == engine.EvCall && strings.HasSuffix(e.CalleeName, ".applyChangeToConfig") && len(e.Args) > 0 && strings.HasSuffix(stripVer(e.Args[0]), ".Status.Applied.Values") ||
					e.Kind == engine.EvWrite && strings.Contains(e.LHS, ".Status.Applied.Values[")
				if isRec && records < 0 {
					records = j
				}
				if records < 0 && e.Loops == le.LoopID && (e.Kind == engine.EvCond || e.Kind == engine.EvBranch) {
					condBefore = true
				}
			}
			if !iterated || exit < 0 {
				continue
			}
			// only the loop that records (the loop that builds the request ranges over the same values)
			recordingLoop := records >= 0
			if !recordingLoop {
				// a recording loop on another path of the same loop node?
				continue
			}
			o.Site(c.P.Pos(le.Pos) + " recording loop of reconcileApply")
			o.Eval(1)
			if condBefore && !reported {
				reported = true
				o.Fail(&engine.Violation{Key: "Reconciler.reconcileApply|applied values recorded conditionally", Pos: c.P.Pos(le.Pos), Func: engine.FuncChain(p, i),
					Msg: "an entry of the values sent to the device can be left out of Status.Applied.Values (a condition or continue precedes the recording inside the loop): a restored older value is skipped and the rolled-back change stays in the applied configuration"})
			}
		}
	}
}
