package props

import (
	"fmt"
	"go/ast"
	"go/token"
	"go/types"
	"regexp"
	"strings"

	"occheck/internal/engine"
)

func init() {
	register(&Prop{
		ID:    "C16",
		Title: "Textual paths and gNMI paths are one and the same",
		Explanation: "Round trip and injectivity are value properties and are declined. Decided: (1) one tokenizer — a path-typed string is split, or its last element found, on '/' only inside the tokenizer functions of pkg/utils (SplitPath, nextTokenIndex, …) or through them; raw strings.Split / LastIndex / Index with a '/' separator on a path elsewhere is flagged (one exempted idiom with its reason); " +
			"(2) escape agreement — the rune the renderer escapes in element names is the separator the splitter cuts at ('/'), the rune it escapes in key values is the terminator the key parser stops at (']'), and both sides treat '\\' as the escape; (3) keys are rendered in sorted order (sort.Strings on the key slice before it is ranged over); (4) GetParentPath is defined through the tokenizer.",
		Declined: []string{"injectivity and round-trip equality over all names and key values", "escaping of key names and of '[' in element names (YANG identifiers cannot contain them)"},
		Run:      runC16,
		Witness:  []WitnessTarget{{pkgUtils, []string{"StrPathElem", "writeSafeString", "SplitPath", "nextTokenIndex", "parseKey", "parseElement", "findUnescaped"}}, {pkgUtilsPath, []string{"GetParentPath"}}, {pkgNbGnmi, []string{"createUpdate", "doDelete"}}},
	})
}

var tokenizerFuncs = map[string]bool{
	"utils.SplitPath": true, "utils.nextTokenIndex": true, "utils.findUnescaped": true, "utils.parseElement": true, "utils.parseKey": true,
	"utils.strPathV03": true, "utils.SplitPaths": true,
}

// parentCut: GetParentPath removes the LAST element by position. A textual search for "/"+last finds
// the first place where that text occurs (/a/state-machine/state → /a-machine/state), and every caller
// that walks up the ancestors (tombstone search, cascade) then looks at paths that do not exist.
func parentCut(c *engine.Ctx, id string) {
	o := c.Custom(id, "helper shape(GetParentPath)", "utils/path.GetParentPath returns \"\" under len(SplitPath(path)) <= 1 and otherwise the prefix of path that ends where its last SplitPath element begins: path[0 : len(path)-len(last)-1] (or strings.TrimSuffix(path, \"/\"+last)); no search for the element's text",
		"the parent of a path is that path without its last element, wherever the same text occurs earlier in the path")
	defer o.Done(2)
	ps, err := c.A.PathsOpt(pkgUtilsPath, engine.PathOpts{Roots: []string{"utils/path.GetParentPath"}, Exact: true, NoInline: true})
	if err != nil || len(ps) == 0 {
		o.Undecided(pkgUtilsPath, fmt.Sprintf("no paths for GetParentPath: %v", err))
		return
	}
	const split = "utils.SplitPath($path)"
	last := split + "[(len(" + split + ") - 1)]"
	accepted := map[string]bool{
		"$path[0:((len($path) - len(" + last + ")) - 1)]":  true,
		"$path[:((len($path) - len(" + last + ")) - 1)]":   true,
		"strings.TrimSuffix($path,(\"/\" + " + last + "))": true,
	}
	for _, p := range ps {
		ret := &p.Events[len(p.Events)-1]
		if ret.Kind != engine.EvReturn || len(ret.Results) != 1 {
			continue
		}
		o.Site(c.P.Pos(ret.Pos) + " " + ret.Results[0])
		o.Eval(1)
		short := false
		for _, l := range engine.CondsBefore(p, len(p.Events)-1) {
			if l.L == "len("+split+")" && (l.R == "1" && l.Mask&4 == 0 || l.R == "2" && l.Mask == 1) {
				short = true
			}
		}
		switch {
		case short && ret.Results[0] != `""`:
			o.Fail(&engine.Violation{Key: "GetParentPath|root", Pos: c.P.Pos(ret.Pos), Func: p.Root.Name(), Msg: "a path of at most one element has the parent " + ret.Results[0] + " where \"\" is required"})
		case !short && !accepted[ret.Results[0]]:
			o.Fail(&engine.Violation{Key: "GetParentPath|cut", Pos: c.P.Pos(ret.Pos), Func: p.Root.Name(),
				Msg: "the parent is computed as " + c.Render(ret.Results[0]) + ", not by cutting the path where its last element begins: the same text earlier in the path is hit first"})
		}
	}
}

func runC16(c *engine.Ctx, tier string) {
	parentCut(c, "C16.10")
	// "for all element names and key values the system accepts": what the northbound accepts must be what the parser reads
	if ps, err := c.A.PathsOpt(pkgNbGnmi, engine.PathOpts{Roots: []string{".Server.doUpdateOrReplace", ".Server.doDelete"}, NoInline: true}); err == nil {
		keyValuesChecked(c, "C16.11", ps)
	}
	oneTokenizer(c)
	escapeAgreement(c)
	escaperShape(c)
	keyGrammar(c)
	unescaperFacts(c)
	elementParserFacts(c)
	splitterAutomaton(c)
	sortedKeys(c)
	o := c.Custom("C16.4", "api-uniformity", "GetParentPath computes the parent through utils.SplitPath", "the parent of a path is that path without its last element, brackets respected")
	var uses bool
	for _, cs := range c.P.CallSites() {
		if cs.Func == "utils/path.GetParentPath" {
			o.Eval(1)
			if cs.Callee == "utils.SplitPath" {
				uses = true
			}
		}
	}
	if uses {
		o.Site("utils/path.GetParentPath → utils.SplitPath")
	} else {
		o.Fail(&engine.Violation{Key: "utils/path.GetParentPath|not through the tokenizer", Pos: pkgUtilsPath, Func: "utils/path.GetParentPath", Msg: "GetParentPath does not use the bracket-aware tokenizer"})
	}
	o.Done(1)
}

func isSlashConst(info *types.Info, e ast.Expr) bool {
	tv, ok := info.Types[e]
	if !ok || tv.Value == nil {
		return false
	}
	s := tv.Value.ExactString()
	return s == `"/"` || s == "47"
}

// startsWithSlashConst: the separator searched for is "/" or "/" + something.
func startsWithSlashConst(info *types.Info, e ast.Expr) bool {
	e = ast.Unparen(e)
	if isSlashConst(info, e) {
		return true
	}
	if b, ok := e.(*ast.BinaryExpr); ok && b.Op == token.ADD {
		return startsWithSlashConst(info, b.X)
	}
	return false
}

func oneTokenizer(c *engine.Ctx) { oneTokenizerIn(c, "C16.1", nil, 1) }

// oneTokenizerIn restricts the rule to the given packages (nil = the whole module).
func oneTokenizerIn(c *engine.Ctx, id string, pkgs []string, min int) {
	o := c.Custom(id, "api-uniformity", "no raw strings.Split/SplitN/Index/LastIndex/IndexByte/LastIndexByte/Trim… with separator '/' on a path-typed string outside the tokenizer functions",
		"a key value may contain '/': only the bracket- and escape-aware tokenizer cuts a textual path at element boundaries")
	defer o.Done(min)
	inScope := func(rel string) bool {
		if pkgs == nil {
			return true
		}
		for _, p := range pkgs {
			if p == rel {
				return true
			}
		}
		return false
	}
	raw := map[string]bool{"strings.Split": true, "strings.SplitN": true, "strings.Index": true, "strings.LastIndex": true, "strings.IndexByte": true, "strings.LastIndexByte": true, "strings.SplitAfter": true, "strings.Cut": true}
	for _, cs := range c.P.CallSites() {
		if strings.HasPrefix(cs.Pkg, "internal/") || strings.HasPrefix(cs.Pkg, "cmd/") || !inScope(cs.Pkg) {
			continue
		}
		if cs.Callee == "utils.SplitPath" {
			o.Site(cs.Pos + " " + cs.Func + " uses utils.SplitPath")
			o.Eval(1)
			continue
		}
		if !raw[cs.Callee] || len(cs.Call.Args) < 2 || !startsWithSlashConst(cs.Info, cs.Call.Args[1]) {
			continue
		}
		// the string being cut: unwrap Trim/TrimPrefix etc. and slices of the string
		arg := ast.Unparen(cs.Call.Args[0])
		for {
			if call, ok := arg.(*ast.CallExpr); ok && len(call.Args) >= 1 && strings.HasPrefix(types.ExprString(call.Fun), "strings.Trim") {
				arg = ast.Unparen(call.Args[0])
				continue
			}
			if sl, ok := arg.(*ast.SliceExpr); ok {
				arg = ast.Unparen(sl.X)
				continue
			}
			break
		}
		s, w := isPathTyped(cs.Info, arg)
		if !s && !w {
			continue
		}
		o.Eval(1)
		switch {
		case tokenizerFuncs[cs.Func]:
		case (cs.Func == "northbound/gnmi/v2.Server.doDelete" || cs.Func == "northbound/admin.Server.stripKeyLeaf" || strings.HasPrefix(cs.Func, "northbound/admin.")) && cs.Callee == "strings.LastIndex" && guardedByNoBracketSuffix(cs):
			// the key leaf of a list entry is taken off: the last element has no brackets (guarded by
			// !strings.HasSuffix(path, "]")), so the last '/' is an element boundary
		default:
			o.Fail(&engine.Violation{Key: cs.Func + "|raw '/' cut on a path (" + cs.Callee + ")", Pos: cs.Pos, Func: cs.Func,
				Msg: cs.Callee + "(" + types.ExprString(cs.Call.Args[0]) + ", \"/\") cuts a textual path on raw '/', ignoring brackets and escapes: a key value containing '/' is torn apart"})
		}
	}
}

// guardedByNoBracketSuffix: the call sits in an if whose condition contains !strings.HasSuffix(x, "]").
func guardedByNoBracketSuffix(cs engine.CallSite) bool {
	ok := false
	ast.Inspect(cs.Decl.Body, func(n ast.Node) bool {
		ifs, isIf := n.(*ast.IfStmt)
		if !isIf || cs.Call.Pos() < ifs.Body.Pos() || cs.Call.End() > ifs.Body.End() {
			return true
		}
		if strings.Contains(types.ExprString(ifs.Cond), `!strings.HasSuffix(`) && strings.Contains(types.ExprString(ifs.Cond), `"]")`) {
			ok = true
		}
		return true
	})
	return ok
}

func charConst(info *types.Info, e ast.Expr) string {
	if tv, ok := info.Types[e]; ok && tv.Value != nil {
		return tv.Value.ExactString()
	}
	return ""
}

func escapeAgreement(c *engine.Ctx) { escapeAgreementAs(c, "C16.2") }

func escapeAgreementAs(c *engine.Ctx, id string) {
	o := c.Custom(id, "K-tables(escape sets)", "renderer: names escape {'/', '\\'}, key values escape {']', '\\'}; parser: splitter cuts at unescaped '/' outside brackets, key parser stops at unescaped ']', both treat '\\' as escape",
		"what the renderer writes is exactly what the parser undoes: change one side only and some path no longer survives the round trip")
	defer o.Done(3)
	pkg := c.P.Pkg(pkgUtils)
	if pkg == nil {
		o.Undecided(pkgUtils, "package not found")
		return
	}
	info := pkg.TypesInfo
	var nameEsc, valEsc []string
	var writerEscapes, finderEscape, tokenRunes []string
	var keyValueTerm string
	for _, cs := range c.P.CallSites() {
		if cs.Pkg != pkgUtils {
			continue
		}
		if cs.Callee == "utils.writeSafeString" && len(cs.Call.Args) == 3 {
			ch := charConst(cs.Info, cs.Call.Args[2])
			what := types.ExprString(cs.Call.Args[1])
			if strings.HasSuffix(what, ".Name") {
				nameEsc = append(nameEsc, ch)
			} else if strings.Contains(what, ".Key[") {
				valEsc = append(valEsc, ch)
			}
		}
		if cs.Callee == "utils.findUnescaped" && cs.Func == "utils.parseKey" && len(cs.Call.Args) == 2 {
			if types.ExprString(cs.Call.Args[0]) == "rhs" {
				keyValueTerm = charConst(cs.Info, cs.Call.Args[1])
			}
		}
	}
	for _, fi := range c.P.FuncsOf(pkg) {
		switch fi.Name() {
		case "utils.writeSafeString":
			ast.Inspect(fi.Decl.Body, func(n ast.Node) bool {
				if b, ok := n.(*ast.BinaryExpr); ok && b.Op == token.EQL {
					if ch := charConst(info, b.Y); ch != "" {
						writerEscapes = append(writerEscapes, ch)
					} else if id, ok := b.Y.(*ast.Ident); ok {
						writerEscapes = append(writerEscapes, "param:"+id.Name)
					}
				}
				return true
			})
		case "utils.findUnescaped":
			ast.Inspect(fi.Decl.Body, func(n ast.Node) bool {
				if b, ok := n.(*ast.BinaryExpr); ok && b.Op == token.EQL {
					if ch := charConst(info, b.Y); ch != "" {
						finderEscape = append(finderEscape, ch)
					}
				}
				if call, ok := n.(*ast.CallExpr); ok && types.ExprString(call.Fun) == "strings.IndexByte" && len(call.Args) == 2 {
					if ch := charConst(info, call.Args[1]); ch != "" {
						finderEscape = append(finderEscape, ch)
					}
				}
				return true
			})
		case "utils.nextTokenIndex":
			ast.Inspect(fi.Decl.Body, func(n ast.Node) bool {
				if cc, ok := n.(*ast.CaseClause); ok {
					for _, e := range cc.List {
						tokenRunes = append(tokenRunes, charConst(info, e))
					}
				}
				return true
			})
		}
	}
	has := func(l []string, x string) bool {
		for _, y := range l {
			if y == x {
				return true
			}
		}
		return false
	}
	const slash, rbr, lbr, bsl = "47", "93", "91", "92"
	check := func(ok bool, key, msg string) {
		o.Eval(1)
		if !ok {
			o.Fail(&engine.Violation{Key: "escape agreement|" + key, Pos: pkgUtils + "/gnmiPathUtils.go", Func: "utils", Msg: msg})
		}
	}
	o.Site("renderer: name escape " + strings.Join(nameEsc, ",") + ", key-value escape " + strings.Join(valEsc, ",") + ", always " + strings.Join(writerEscapes, ","))
	o.Site("parser: key value terminator " + keyValueTerm + ", findUnescaped handles " + strings.Join(finderEscape, ",") + ", splitter runes " + strings.Join(tokenRunes, ","))
	o.Site("agreement evaluated")
	check(len(nameEsc) >= 1 && allEq(nameEsc, slash), "name escape", "element names are not escaped with the separator '/' the splitter cuts at")
	check(len(valEsc) >= 1 && allEq(valEsc, rbr), "key value escape", "key values are not escaped with ']' (rendered escape set "+strings.Join(valEsc, ",")+")")
	check(keyValueTerm == rbr, "key value terminator", "the key parser does not stop the value at an unescaped ']' (terminator "+keyValueTerm+") while the renderer escapes ']'")
	check(has(writerEscapes, bsl) && has(writerEscapes, "param:esc"), "writer escapes backslash", "writeSafeString no longer escapes both the given rune and '\\'")
	check(has(finderEscape, bsl), "finder unescapes backslash", "findUnescaped no longer treats '\\' as the escape")
	check(has(tokenRunes, slash) && has(tokenRunes, lbr) && has(tokenRunes, rbr) && has(tokenRunes, bsl), "splitter runes", "nextTokenIndex no longer distinguishes '/', '[', ']' and '\\'")
}

func allEq(l []string, x string) bool {
	for _, y := range l {
		if y != x {
			return false
		}
	}
	return true
}

func sortedKeys(c *engine.Ctx) {
	o := c.Custom("C16.3", "K-order", "StrPathElem: sort.Strings(keys) precedes the loop that renders the keys, and that loop ranges over the sorted slice",
		"two gNMI paths that differ only in key order have one textual form")
	defer o.Done(1)
	paths, err := c.A.PathsOpt(pkgUtils, engine.PathOpts{Roots: []string{"utils.StrPathElem"}, NoInline: true})
	if err != nil {
		o.Undecided("StrPathElem", err.Error())
		return
	}
	n := 0
	for _, p := range paths {
		sorted := ""
		for i := range p.Events {
			e := &p.Events[i]
			if e.Kind == engine.EvCall && e.CalleeName == "sort.Strings" && len(e.Args) == 1 {
				sorted = e.Args[0]
			}
			if e.Kind == engine.EvCall && e.CalleeName == "strings.Builder.WriteString" && strings.HasPrefix(strings.Join(e.Args, ""), "elem") {
				// the key name is written inside a loop: which collection does it range over?
				var le *engine.Event
				for j := i - 1; j >= 0; j-- {
					if x := &p.Events[j]; x.Kind == engine.EvLoopEnter && x.LoopID == e.Loops {
						le = x
						break
					}
				}
				n++
				o.Eval(1)
				if le == nil || sorted == "" || stripHash(le.Range) != stripHash(sorted) {
					o.Fail(&engine.Violation{Key: "StrPathElem|keys not sorted", Pos: c.P.Pos(e.Pos), Func: p.Root.Name(), Msg: "keys are rendered from a collection that was not sorted first (map iteration order would leak into the textual path)"})
					return
				}
			}
		}
	}
	if n > 0 {
		o.Site("StrPathElem: key loop ranges over the slice given to sort.Strings")
	}
}

func stripHash(s string) string {
	if i := strings.Index(s, "#"); i >= 0 {
		return s[:i]
	}
	return s
}

// splitterAutomaton: the transition table of nextTokenIndex, evaluated per rune class and state.
func splitterAutomaton(c *engine.Ctx) {
	o := c.Custom("C16.5", "K-tables(splitter automaton)", "nextTokenIndex: '[' → inBrackets:=true; unescaped ']' → inBrackets:=false; '\\' toggles escape; '/' outside brackets and unescaped → token ends here; every other step clears escape; the state is two booleans",
		"inside a key, '[' is literal for the renderer and the key parser: a splitter that nests brackets, or forgets an escape, cuts a path elsewhere than where the renderer joined it")
	defer o.Done(1)
	paths, err := c.A.PathsOpt(pkgUtils, engine.PathOpts{Roots: []string{"utils.nextTokenIndex"}, NoInline: true})
	if err != nil {
		o.Undecided("nextTokenIndex", err.Error())
		return
	}
	cells := map[string]bool{}
	for _, p := range paths {
		for i := range p.Events {
			le := &p.Events[i]
			if le.Kind != engine.EvLoopEnter || le.Range != "$path" {
				continue
			}
			class := "other"
			var esc, notEsc, inBr, notInBr bool
			writes := map[string]string{}
			returned := ""
			end := -1
			for j := i + 1; j < len(p.Events); j++ {
				ej := &p.Events[j]
				if ej.Kind == engine.EvLoopExit && ej.Node == le.Node {
					end = j
					break
				}
				switch ej.Kind {
				case engine.EvCond:
					l := ej.Lit
					if l.L == "elem($path)" && l.Mask == 2 {
						class = l.R
					}
					if strings.HasPrefix(l.L, "?escape") && l.R == "true" {
						esc, notEsc = esc || l.Mask == 2, notEsc || l.Mask == 5
					}
					if strings.HasPrefix(l.L, "?inBrackets") && l.R == "true" {
						inBr, notInBr = inBr || l.Mask == 2, notInBr || l.Mask == 5
					}
				case engine.EvWrite:
					if ej.Local != nil && ej.Loops == le.LoopID {
						if !isBool(ej.Local.Type()) && ej.Local.Name() != "i" && ej.Local.Name() != "c" {
							o.Eval(1)
							o.Fail(&engine.Violation{Key: "nextTokenIndex|non-boolean state " + ej.Local.Name(), Pos: c.P.Pos(ej.Pos), Func: p.Root.Name(), Msg: "the splitter keeps non-boolean state (" + ej.Local.Name() + "): brackets do not nest inside a key"})
							return
						}
						writes[ej.Local.Name()] = ej.RHS
					}
				case engine.EvReturn:
					if len(ej.Results) == 1 {
						returned = ej.Results[0]
					}
				}
			}
			if end == i+1 {
				continue
			}
			delete(writes, "i")
			delete(writes, "c")
			o.Eval(1)
			want := map[string]string{}
			wantRet := ""
			switch class {
			case "'['":
				want = map[string]string{"inBrackets": "true", "escape": "false"}
			case "']'":
				want = map[string]string{"escape": "false"}
				if notEsc {
					want["inBrackets"] = "false"
				} else if !esc {
					want = nil // the body did not test escape
				}
			case "'\\\\'":
				want = map[string]string{"escape": "TOGGLE"}
			case "'/'":
				if notInBr && notEsc {
					wantRet = "key($path)"
					want = map[string]string{}
				} else {
					want = map[string]string{"escape": "false"}
				}
			default:
				want = map[string]string{"escape": "false"}
			}
			ok := want != nil && len(want) == len(writes) && returned == wantRet
			for k, v := range want {
				got := writes[k]
				if v == "TOGGLE" {
					if !(strings.HasPrefix(got, "!") && strings.Contains(got, "escape")) {
						ok = false
					}
				} else if got != v {
					ok = false
				}
			}
			cells[class] = true
			if !ok {
				o.Fail(&engine.Violation{Key: "nextTokenIndex|transition for " + class, Pos: c.P.Pos(le.Pos), Func: p.Root.Name(),
					Msg: fmt.Sprintf("for rune %s (escape=%v/%v, inBrackets=%v/%v) the splitter does %v return %q; required %v return %q", class, esc, notEsc, inBr, notInBr, writes, returned, want, wantRet)})
				return
			}
		}
	}
	for _, cl := range []string{"'['", "']'", "'/'", "other"} {
		if !cells[cl] {
			o.Undecided("nextTokenIndex|class "+cl, "anchor not found: the splitter has no transition for "+cl)
		}
	}
	o.Site("nextTokenIndex: transition table evaluated for '[', ']', '\\', '/', other")
}

// escaperShape: C16.6. Every rune of the text goes through the escaping decision.
func escaperShape(c *engine.Ctx) {
	o := c.Custom("C16.6", "K-facts(escaper)", "writeSafeString writes into the builder only inside its loop over the runes of s: WriteRune('\\\\') exactly when the rune is the escape character or a backslash, then WriteRune(the rune); nothing of s is written by any other call",
		"a fast path that copies the text without looking at every rune skips the backslash rule: a key value with a backslash no longer survives the round trip")
	defer o.Done(3)
	ps, err := c.A.PathsOpt(pkgUtils, engine.PathOpts{Roots: []string{"utils.writeSafeString"}, Exact: true, NoInline: true})
	if err != nil || len(ps) == 0 {
		o.Undecided(pkgUtils, fmt.Sprintf("no paths for writeSafeString: %v", err))
		return
	}
	reported := map[string]bool{}
	fail := func(p *engine.Path, pos token.Pos, msg string) {
		if !reported[msg] {
			reported[msg] = true
			o.Fail(&engine.Violation{Key: "utils.writeSafeString|" + msg, Pos: c.P.Pos(pos), Func: "utils.writeSafeString", Msg: msg})
		}
	}
	for _, p := range ps {
		o.Eval(1)
		inLoop := false
		escCond, sawCond := false, false
		negs := 0
		wroteEsc, wroteRune := false, false
		for i := range p.Events {
			e := &p.Events[i]
			switch e.Kind {
			case engine.EvLoopEnter:
				if e.Range == "$s" {
					inLoop = true
				}
			case engine.EvLoopExit:
				if inLoop {
					// one iteration is complete: check it
					if sawCond {
						if escCond != wroteEsc {
							fail(p, e.Pos, "the escape backslash is written exactly when the rune is neither the escape character nor a backslash (or is missing when it is)")
						}
						if !wroteRune {
							fail(p, e.Pos, "an iteration does not write the rune itself")
						}
						if !escCond && negs < 2 {
							fail(p, e.Pos, "a rune is written unescaped on a path that excludes only one of 'is the escape character' and 'is a backslash': the escaping condition is not a disjunction of the two")
						}
					}
					inLoop = false
				}
			case engine.EvCond:
				if inLoop {
					l := e.Lit
					isEsc := (l.L == "$esc" && l.R == "elem($s)") || (l.R == "$esc" && l.L == "elem($s)") || (l.L == "elem($s)" && strings.Contains(l.R, `\\`))
					if isEsc {
						sawCond = true
						if l.Mask == 2 {
							escCond = true
						} else {
							negs++
						}
					}
				}
			case engine.EvCall:
				if !strings.HasPrefix(e.CalleeName, "strings.Builder.") || e.Recv != "$Builder" {
					if len(e.Args) > 0 && e.Args[0] == "$s" && strings.Contains(e.CalleeName, "Write") {
						fail(p, e.Pos, "the text is written as a whole ("+e.CalleeName+"), bypassing the per-rune escaping")
					}
					continue
				}
				o.Site(c.P.Pos(e.Pos) + " " + e.CalleeName + "(" + strings.Join(e.Args, ",") + ")")
				switch {
				case !inLoop:
					fail(p, e.Pos, "the builder is written outside the loop over the runes of s ("+e.CalleeName+"("+strings.Join(e.Args, ",")+")): that text bypasses the escaping decision")
				case e.CalleeName == "strings.Builder.WriteRune" && len(e.Args) == 1 && strings.Contains(e.Args[0], `\\`):
					wroteEsc = true
				case e.CalleeName == "strings.Builder.WriteRune" && len(e.Args) == 1 && e.Args[0] == "elem($s)":
					wroteRune = true
				default:
					fail(p, e.Pos, "unexpected write "+e.CalleeName+"("+strings.Join(e.Args, ",")+") in the escaper")
				}
			}
		}
	}
}

// keyGrammar: C16.7. The key syntax the renderer writes is the one the key parser reads.
func keyGrammar(c *engine.Ctx) {
	o := c.Custom("C16.7", "K-facts(key grammar)", "renderer: per element '/' then the escaped name; per key, in order, '[' key '=' escaped value ']'. parser (parseKey): succeeds only if s[0] == '[', an unescaped '=' exists in s[1:], the text before it is not empty, an unescaped ']' exists after it, the text between is not empty; it returns (text before '=', text between '=' and ']', text after ']')",
		"the two sides are written by hand in different functions: a delimiter dropped, added or looked for at the wrong offset on one side only breaks the round trip for every keyed path")
	defer o.Done(3)
	ps, err := c.A.PathsOpt(pkgUtils, engine.PathOpts{Roots: []string{"utils.parseKey", "utils.StrPathElem"}, Exact: true, NoInline: true})
	if err != nil || len(ps) == 0 {
		o.Undecided(pkgUtils, fmt.Sprintf("no paths: %v", err))
		return
	}
	reported := map[string]bool{}
	fail := func(fn string, pos token.Pos, msg string) {
		if !reported[msg] {
			reported[msg] = true
			o.Fail(&engine.Violation{Key: fn + "|" + msg, Pos: c.P.Pos(pos), Func: fn, Msg: msg})
		}
	}
	eq := `utils.findUnescaped($s[1:],'=')`
	rhs := `$s[((1 + ` + eq + `.1) + 1):]`
	cl := `utils.findUnescaped(` + rhs + `,']')`
	sawParse, sawRender := false, false
	for _, p := range ps {
		name := p.Root.Name()
		last := &p.Events[len(p.Events)-1]
		switch name {
		case "utils.parseKey":
			if last.Kind != engine.EvReturn || len(last.Results) != 4 || last.Results[3] != "nil" {
				continue
			}
			sawParse = true
			o.Site(c.P.Pos(last.Pos) + " parseKey success")
			o.Eval(1)
			has := func(l, op, r string) bool {
				for _, x := range engine.CondsBefore(p, len(p.Events)-1) {
					if x.L == l && x.R == r && x.String() == l+" "+op+" "+r {
						return true
					}
				}
				return false
			}
			switch {
			case !has("$s[0]", "==", "'['"):
				fail(name, last.Pos, "parseKey succeeds without s[0] == '['")
			case !has(eq+".1", ">=", "0"):
				fail(name, last.Pos, "parseKey succeeds without an unescaped '=' found in s[1:]")
			case !has(eq, "!=", `""`):
				fail(name, last.Pos, "parseKey accepts an empty key name")
			case !has(cl+".1", ">=", "0"):
				fail(name, last.Pos, "parseKey succeeds without an unescaped ']' found after the '='")
			case !has(cl, "!=", `""`):
				fail(name, last.Pos, "parseKey accepts an empty key value")
			case last.Results[0] != eq:
				fail(name, last.Pos, "the key name returned is "+last.Results[0]+", not the text before the first unescaped '='")
			case last.Results[1] != cl:
				fail(name, last.Pos, "the key value returned is "+last.Results[1]+", not the text between '=' and the first unescaped ']'")
			case last.Results[2] != rhs+"[("+cl+".1 + 1):]":
				fail(name, last.Pos, "the remainder returned is "+last.Results[2]+", not the text after the closing ']'")
			}
		case "utils.StrPathElem":
			// sequence of builder calls inside one key iteration and one element iteration
			var seq []string
			inKeys := false
			for i := range p.Events {
				e := &p.Events[i]
				switch e.Kind {
				case engine.EvLoopEnter:
					if strings.HasPrefix(e.Range, "?keys") {
						inKeys = true
						seq = append(seq, "<keys>")
					} else if e.Range == "$pathElem" {
						seq = append(seq, "<elem>")
					}
				case engine.EvLoopExit:
					if inKeys && !strings.HasPrefix(p.Events[i].Range, "?") {
						inKeys = false
					}
				case engine.EvCall:
					switch {
					case strings.HasPrefix(e.CalleeName, "strings.Builder.Write") && len(e.Args) == 1:
						seq = append(seq, e.Args[0])
					case e.CalleeName == "utils.writeSafeString" && len(e.Args) == 3:
						seq = append(seq, "safe("+e.Args[1]+","+e.Args[2]+")")
					}
				}
			}
			s := strings.Join(seq, " ")
			if !strings.Contains(s, "<elem>") || !strings.Contains(s, "<keys> ") || !strings.Contains(s, "'['") && !strings.Contains(s, "'='") && !strings.Contains(s, "']'") {
				if !strings.Contains(s, "<keys> '") && !strings.Contains(s, "<keys> elem") {
					continue // a path without a key iteration
				}
			}
			if !strings.Contains(s, "<keys> ") || strings.HasSuffix(s, "<keys>") {
				continue
			}
			sawRender = true
			o.Site(c.P.Pos(last.Pos) + " StrPathElem: " + s)
			o.Eval(1)
			wantElem := "<elem> '/' safe(elem($pathElem).Name,'/')"
			if !strings.Contains(s, wantElem) {
				fail(name, last.Pos, "an element is not rendered as '/' followed by its escaped name: "+s)
			}
			k := strings.Index(s, "<keys> ")
			keyPart := s[k+len("<keys> "):]
			wantKey := "'[' elem(?keys"
			if !strings.HasPrefix(keyPart, wantKey) {
				fail(name, last.Pos, "a key does not start with '[' and the key name: "+keyPart)
				continue
			}
			rest := keyPart[strings.Index(keyPart, ") ")+2:]
			if !strings.HasPrefix(rest, "'=' safe(elem($pathElem).Key[elem(?keys") || !strings.Contains(rest, ",']') ']'") {
				fail(name, last.Pos, "a key is not rendered as '[' name '=' escaped value ']': "+keyPart)
			}
		}
	}
	if !sawParse {
		o.Undecided("utils.parseKey", "no success path found")
	}
	if !sawRender {
		o.Undecided("utils.StrPathElem", "no path with a key iteration found")
	}
}

// unescaperFacts: C16.8. findUnescaped and the splitter loop.
func unescaperFacts(c *engine.Ctx) {
	o := c.Custom("C16.8", "K-facts(unescaper, splitter loop)", "findUnescaped: without a backslash in s it returns (s[:i], i) for i = IndexByte(s, find) >= 0 and (s, -1) otherwise; with one, an iteration at s[i] == find returns (text so far, i) without writing, any other iteration writes exactly one byte — s[i+1] when s[i] is a backslash that is not the last byte, s[i] otherwise — and the end returns (text, -1). SplitPath: a leading '/' is dropped iff present; an iteration appends path[:nextTokenIndex(path)], continues with path[that:], and drops one '/' iff it follows",
		"the parser undoes exactly one level of escaping and never looks inside an escape; the splitter returns every element once")
	defer o.Done(6)
	ps, err := c.A.PathsOpt(pkgUtils, engine.PathOpts{Roots: []string{"utils.findUnescaped", "utils.SplitPath"}, Exact: true, NoInline: true})
	if err != nil || len(ps) == 0 {
		o.Undecided(pkgUtils, fmt.Sprintf("no paths: %v", err))
		return
	}
	reported := map[string]bool{}
	fail := func(fn string, pos token.Pos, msg string) {
		if !reported[msg] {
			reported[msg] = true
			o.Fail(&engine.Violation{Key: fn + "|" + msg, Pos: c.P.Pos(pos), Func: fn, Msg: msg})
		}
	}
	lit := func(p *engine.Path, s string) bool {
		for i := range p.Events {
			if p.Events[i].Kind == engine.EvCond && p.Events[i].Lit.String() == s {
				return true
			}
		}
		return false
	}
	for _, p := range ps {
		name := p.Root.Name()
		last := &p.Events[len(p.Events)-1]
		if last.Kind != engine.EvReturn {
			continue
		}
		o.Eval(1)
		switch name {
		case "utils.findUnescaped":
			if len(last.Results) != 2 {
				continue
			}
			r0, r1 := last.Results[0], last.Results[1]
			noBS := lit(p, `strings.IndexByte($s,'\\') == -1`)
			hasBS := lit(p, `strings.IndexByte($s,'\\') != -1`)
			var writes []string
			for i := range p.Events {
				if e := &p.Events[i]; e.Kind == engine.EvCall && strings.HasPrefix(e.CalleeName, "strings.Builder.Write") && len(e.Args) == 1 {
					writes = append(writes, e.Args[0])
				}
			}
			o.Site(c.P.Pos(last.Pos) + " return " + r0 + ", " + r1)
			switch {
			case noBS:
				switch {
				case lit(p, `strings.IndexByte($s,$find) < 0`):
					if r0 != "$s" || r1 != "-1" {
						fail(name, last.Pos, "fast path, separator absent: returns ("+r0+", "+r1+"), not (s, -1)")
					}
				case lit(p, `strings.IndexByte($s,$find) >= 0`):
					if r0 != "$s[:strings.IndexByte($s,$find)]" || r1 != "strings.IndexByte($s,$find)" {
						fail(name, last.Pos, "fast path, separator present: returns ("+r0+", "+r1+"), not (s[:i], i)")
					}
				default:
					fail(name, last.Pos, "fast path does not test the search result")
				}
				if len(writes) > 0 {
					fail(name, last.Pos, "the fast path writes into the builder")
				}
			case hasBS:
				found, foundIdx := false, ""
				for i := range p.Events {
					// the index is the loop variable; with the index declared in the for clause the first iteration
					// reads it as the constant it was initialised with
					if l := p.Events[i]; l.Kind == engine.EvCond && strings.HasPrefix(l.Lit.String(), "$find == $s[") {
						found = true
						foundIdx = strings.TrimSuffix(strings.TrimPrefix(l.Lit.String(), "$find == $s["), "]")
					}
				}
				switch {
				case found:
					if !strings.HasSuffix(r0, "strings.Builder.String()") || !(strings.HasPrefix(r1, "?i") || r1 == foundIdx) || len(writes) != 0 {
						fail(name, last.Pos, "at an unescaped separator the function must return (text so far, i) without writing: returns ("+r0+", "+r1+") after "+fmt.Sprint(len(writes))+" writes")
					}
				default:
					if r1 != "-1" || !strings.HasSuffix(r0, "strings.Builder.String()") {
						fail(name, last.Pos, "the end of the text returns ("+r0+", "+r1+"), not (text, -1)")
					}
					iterated := false
					for i := range p.Events {
						if l := p.Events[i]; l.Kind == engine.EvCond && strings.HasPrefix(l.Lit.String(), "$find != $s[") {
							iterated = true
						}
					}
					if iterated {
						esc := false
						for i := range p.Events {
							if l := p.Events[i]; l.Kind == engine.EvCond {
								s := l.Lit.String()
								if strings.HasPrefix(s, "$s[?i") && strings.HasSuffix(s, `== '\\'`) {
									esc = true
								}
							}
						}
						notLast := false
						for i := range p.Events {
							if l := p.Events[i]; l.Kind == engine.EvCond && strings.HasPrefix(l.Lit.String(), "(len($s) - 1) > ?i") {
								notLast = true
							}
						}
						switch {
						case len(writes) != 1:
							fail(name, last.Pos, fmt.Sprintf("an iteration over a byte that is not the separator writes %d bytes, not one", len(writes)))
						case esc && notLast && !strings.Contains(writes[0], "++"):
							fail(name, last.Pos, "after a backslash that is not the last byte the escaped byte (s[i+1]) must be written, not "+writes[0])
						case !(esc && notLast) && strings.Contains(writes[0], "++"):
							fail(name, last.Pos, "a byte that is not an escape is skipped: "+writes[0]+" is written instead of s[i]")
						}
					}
				}
			default:
				fail(name, last.Pos, "a path does not decide between the fast path and the unescaping loop")
			}
		case "utils.SplitPath":
			var appended, next string
			iter := false
			for i := range p.Events {
				e := &p.Events[i]
				if e.Kind == engine.EvCall && e.CalleeName == "append" && len(e.Args) == 2 {
					appended = e.Args[1]
					iter = true
				}
				if e.Kind == engine.EvCall && e.CalleeName == "len" && len(e.Args) == 1 && strings.Contains(e.Args[0], "[utils.nextTokenIndex(") {
					next = e.Args[0]
				}
			}
			if !iter {
				continue
			}
			o.Site(c.P.Pos(last.Pos) + " append " + appended)
			m := regexp.MustCompile(`^(\?path@L\d+(?:'\d+)?)\[:utils\.nextTokenIndex\((\?path@L\d+(?:'\d+)?)\)\]$`).FindStringSubmatch(appended)
			switch {
			case m == nil || m[1] != m[2]:
				fail(name, last.Pos, "an iteration appends "+appended+", not path[:nextTokenIndex(path)]")
			case next != m[1]+"[utils.nextTokenIndex("+m[1]+"):]":
				fail(name, last.Pos, "after an element the splitter continues with "+next+", not with path[nextTokenIndex(path):]")
			}
		}
	}
}

// elementParserFacts: C16.9. parseElement and the '/' handling of SplitPath.
func elementParserFacts(c *engine.Ctx) {
	o := c.Custom("C16.9", "K-facts(element parser, separator handling)", "parseElement: no unescaped '[' ⇒ (text, nil, nil); an empty name before '[' ⇒ error; otherwise every key is parsed by parseKey on what the previous key left, a parseKey error is returned, keys[k] = v for its results, and (name, keys, nil) is returned. SplitPath: path = path[1:] is executed exactly under len(path) > 0 ∧ path[0] == '/', before the loop and after each element",
		"an element without keys must not be given an empty key map, a keyed element must not lose or invent keys, and one separator is consumed per element — not none, not two")
	defer o.Done(6)
	ps, err := c.A.PathsOpt(pkgUtils, engine.PathOpts{Roots: []string{"utils.parseElement", "utils.SplitPath"}, Exact: true, NoInline: true})
	if err != nil || len(ps) == 0 {
		o.Undecided(pkgUtils, fmt.Sprintf("no paths: %v", err))
		return
	}
	reported := map[string]bool{}
	fail := func(fn string, pos token.Pos, msg string) {
		if !reported[msg] {
			reported[msg] = true
			o.Fail(&engine.Violation{Key: fn + "|" + msg, Pos: c.P.Pos(pos), Func: fn, Msg: msg})
		}
	}
	fu := `utils.findUnescaped($pathElement,'[')`
	for _, p := range ps {
		name := p.Root.Name()
		last := &p.Events[len(p.Events)-1]
		if last.Kind != engine.EvReturn {
			continue
		}
		lits := map[string]bool{}
		for i := range p.Events {
			if p.Events[i].Kind == engine.EvCond {
				lits[p.Events[i].Lit.String()] = true
			}
		}
		o.Eval(1)
		switch name {
		case "utils.parseElement":
			if len(last.Results) != 3 {
				continue
			}
			r := last.Results
			o.Site(c.P.Pos(last.Pos) + " return " + strings.Join(r, ", "))
			switch {
			case lits[fu+".1 < 0"]:
				if r[0] != fu || r[1] != "nil" || r[2] != "nil" {
					fail(name, last.Pos, "an element without '[' returns ("+strings.Join(r, ", ")+"), not (text, nil, nil)")
				}
			case !lits[fu+".1 >= 0"]:
				fail(name, last.Pos, "a path does not test whether the element has a '['")
			case lits["len("+fu+") == 0"]:
				if r[2] == "nil" {
					fail(name, last.Pos, "an element whose name is empty is accepted")
				}
			case !lits["len("+fu+") != 0"]:
				fail(name, last.Pos, "a keyed element is accepted without testing that its name is not empty")
			default:
				var pk string
				stored := false
				for i := range p.Events {
					e := &p.Events[i]
					if e.Kind == engine.EvCall && e.CalleeName == "utils.parseKey" && len(e.Args) == 1 {
						pk = "utils.parseKey(" + e.Args[0] + ")"
						if !strings.HasPrefix(e.Args[0], "?keyPart") {
							fail(name, e.Pos, "parseKey is applied to "+e.Args[0]+", not to what the previous key left")
						}
					}
					if e.Kind == engine.EvWrite && pk != "" && strings.HasSuffix(e.LHS, "["+pk+"]") && e.RHS == pk+".1" {
						stored = true
					}
				}
				switch {
				case pk != "" && lits["err("+pk+") != nil"]:
					if r[2] != "err("+pk+")" {
						fail(name, last.Pos, "a parseKey error is not returned: "+r[2])
					}
				case pk != "" && lits["err("+pk+") == nil"]:
					if !stored {
						fail(name, last.Pos, "a parsed key is not stored as keys[k] = v")
					}
					if r[0] != fu || !strings.HasPrefix(r[1], "make(map[string]string)") || r[2] != "nil" {
						fail(name, last.Pos, "a keyed element returns ("+strings.Join(r, ", ")+"), not (name, keys, nil)")
					}
				case pk != "":
					fail(name, last.Pos, "the error of parseKey is not tested")
				}
			}
		case "utils.SplitPath":
			// every strip write is preceded by its two conditions, and every time both hold the strip follows
			for i := range p.Events {
				e := &p.Events[i]
				if e.Kind == engine.EvWrite && e.Local != nil && e.Local.Name() == "path" && strings.HasSuffix(e.RHS, "[1:]") {
					base := strings.TrimSuffix(e.RHS, "[1:]")
					o.Site(c.P.Pos(e.Pos) + " path = " + e.RHS)
					if !lits["len("+base+") > 0"] || !lits[base+"[0] == '/'"] {
						fail(name, e.Pos, "a byte is dropped from the path on a path that does not establish that it is a '/' ("+e.RHS+")")
					}
				}
			}
			for l := range lits {
				if strings.HasSuffix(l, "[0] == '/'") {
					base := strings.TrimSuffix(l, "[0] == '/'")
					if !lits["len("+base+") > 0"] {
						continue
					}
					found := false
					for i := range p.Events {
						e := &p.Events[i]
						if e.Kind == engine.EvWrite && e.Local != nil && e.Local.Name() == "path" && e.RHS == base+"[1:]" {
							found = true
						}
					}
					if !found {
						fail(name, last.Pos, "a '/' that follows an element (or leads the path) is not consumed: "+base)
					}
				}
			}
		}
	}
}
